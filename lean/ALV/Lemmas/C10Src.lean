/-
  C10 — the definitions REGENERATED from the source text (`ALV/Gen/C10Src.lean`, written by
  `harness/props/c10_tr.py` on every check) are the hand-written model functions of `Model/C10.lean`.
  Ints of the source are `Int`s in the generated text; the model counts in `Nat`: each lemma shows that the
  index arithmetic of the source never leaves the naturals on the ranges it runs over.
-/
import ALV.Gen.C10Src
import ALV.Model.C10Call
namespace ALV.C10.Src
open ALV.C10 ALV.C10.Py
set_option linter.unusedSectionVars false
variable {α : Type} [Add α] [Mul α] [Sub α] [Neg α] [Div α] [OfNat α 0] [OfNat α 1]

theorem map_xrange {β} (f : Int → β) (n : Int) :
    (xrange n).map f = (List.range n.toNat).map fun (k : Nat) => f (k : Int) := by
  simp [xrange, List.map_map, Function.comp_def]

theorem map_xrange2 {β} (f : Int → β) (a b : Int) :
    (xrange2 a b).map f = (List.range (b - a).toNat).map fun (k : Nat) => f (a + (k : Int)) := by
  simp [xrange2, List.map_map, Function.comp_def]

omit [Add α] [Mul α] [Sub α] [Neg α] [Div α] [OfNat α 1] in
theorem idx_of_eq (l : List α) (i : Int) (n : Nat) (h : i = n) : idx l i = coef l n := by
  subst h; rfl

theorem pyabs_sub (i j : Nat) : pyabs ((i : Int) - (j : Int)) = (adiff i j : Nat) := by
  simp only [pyabs, adiff, Int.ofNat_eq_natCast]; split <;> omega

theorem src_acorr_is_model (blk : List α) (lag : Option Nat) :
    ALV.Gen.C10.acorr blk (lag.map Int.ofNat) = acorr blk lag := by
  cases lag with
  | none =>
    simp only [ALV.Gen.C10.acorr, acorr, Option.map, map_xrange, len, pysum, Int.ofNat_eq_natCast]
    have h : ((blk.length : Int) - 1 + 1).toNat = blk.length := by omega
    rw [h]
    apply List.map_congr_left; intro tau _
    have h2 : ((blk.length : Int) - (tau : Int)).toNat = blk.length - tau := by omega
    rw [h2]; congr 1
  | some L =>
    simp only [ALV.Gen.C10.acorr, acorr, Option.map, map_xrange, len, pysum, Int.ofNat_eq_natCast]
    have h : ((L : Int) + 1).toNat = L + 1 := by omega
    rw [h]
    apply List.map_congr_left; intro tau _
    have h2 : ((blk.length : Int) - (tau : Int)).toNat = blk.length - tau := by omega
    rw [h2]; congr 1

theorem lag_table_src (blk : List α) (L : Nat) :
    ((xrange ((L : Int) + 1)).map fun j => (xrange ((L : Int) + 1)).map fun i =>
      pysum ((xrange2 (L : Int) (len blk)).map fun n => (idx blk (n - i)) * (idx blk (n - j))))
    = lagTable blk L := by
  simp only [map_xrange, map_xrange2, lagTable, len, pysum, Int.ofNat_eq_natCast]
  have h : ((L : Int) + 1).toNat = L + 1 := by omega
  have h2 : ((blk.length : Int) - (L : Int)).toNat = blk.length - L := by omega
  rw [h, h2]
  apply List.map_congr_left; intro j hj
  apply List.map_congr_left; intro i hi
  congr 1
  apply List.map_congr_left; intro k _
  rw [List.mem_range] at hi hj
  rw [idx_of_eq blk ((L : Int) + (k : Int) - (i : Int)) (L + k - i) (by omega),
      idx_of_eq blk ((L : Int) + (k : Int) - (j : Int)) (L + k - j) (by omega)]

theorem src_lag_matrix_is_model (blk : List α) (lag : Option Nat) :
    ALV.Gen.C10.lag_matrix blk (lag.map Int.ofNat) = lagMatrix blk lag := by
  cases lag with
  | none =>
    by_cases h0 : blk.length = 0
    · simp [ALV.Gen.C10.lag_matrix, lagMatrix, h0, len, xrange]
      rfl
    · have h1 : len blk - 1 = ((blk.length - 1 : Nat) : Int) := by simp only [len, Int.ofNat_eq_natCast]; omega
      simp only [ALV.Gen.C10.lag_matrix, lagMatrix, Option.map, h0, if_false, h1]
      show Except.ok _ = _
      rw [lag_table_src]
  | some L =>
    by_cases h0 : L ≥ blk.length
    · have : (L : Int) ≥ len blk := by simp only [len, Int.ofNat_eq_natCast]; omega
      simp [ALV.Gen.C10.lag_matrix, lagMatrix, h0, this]
      rfl
    · have : ¬ ((L : Int) ≥ len blk) := by simp only [len, Int.ofNat_eq_natCast]; omega
      simp only [ALV.Gen.C10.lag_matrix, lagMatrix, Option.map, h0, this, if_false, Int.ofNat_eq_natCast]
      show Except.ok _ = _
      rw [lag_table_src]

theorem flatMap_congr_left {β γ : Type} {l : List β} {f g : β → List γ} (h : ∀ a ∈ l, f a = g a) :
    l.flatMap f = l.flatMap g := by
  induction l with
  | nil => rfl
  | cons x xs ih =>
    simp only [List.flatMap_cons]
    rw [h x (by simp), ih (fun a ha => h a (by simp [ha]))]

theorem src_toeplitz_is_model (vect : List α) : ALV.Gen.C10.toeplitz vect = toeplitz vect := by
  simp only [ALV.Gen.C10.toeplitz, toeplitz, map_xrange, len, Int.ofNat_eq_natCast, Int.toNat_natCast]
  apply List.map_congr_left; intro j _
  apply List.map_congr_left; intro i _
  exact idx_of_eq vect _ _ (pyabs_sub i j)

section filters
variable [DecidableEq α]

theorem src_levinson_inner_is_model (r a b : List α) :
    ALV.Gen.C10.levinson_durbin_inner r a b = inner r a b := by
  simp only [ALV.Gen.C10.levinson_durbin_inner, inner, enumerate, numlist, pysum, List.flatMap_map, List.map_map,
    Function.comp_def, Int.ofNat_eq_natCast]
  congr 1
  apply flatMap_congr_left; intro i _
  apply List.map_congr_left; intro j _
  rw [idx_of_eq r _ _ (pyabs_sub i j)]

theorem foldlM_xrange2_one {σ : Type} (f : σ → Int → Except String σ) (init : σ) (n : Nat) :
    (xrange2 1 ((n + 1 : Nat) + 1 : Int)).foldlM f init
      = (xrange2 1 ((n : Int) + 1)).foldlM f init >>= fun s => f s ((n + 1 : Nat) : Int) := by
  have h1 : (((n + 1 : Nat) : Int) + 1 - 1).toNat = n + 1 := by omega
  have h2 : ((n : Int) + 1 - 1).toNat = n := by omega
  simp only [xrange2, h1, h2, List.range_succ, List.map_append, List.foldlM_append, List.map_cons, List.map_nil,
    List.foldlM_cons, List.foldlM_nil, Int.ofNat_eq_natCast]
  congr 1; funext s
  have : (1 : Int) + (n : Int) = ((n + 1 : Nat) : Int) := by omega
  rw [this]; simp

theorem foldlM_lev (r : List α) (f : List α → Int → Except String (List α))
    (hf : ∀ A (m : Nat), f A (m : Int) = levStep r m A) (n : Nat) :
    (xrange2 1 ((n : Int) + 1)).foldlM f filtOne = levIter r n := by
  induction n with
  | zero => simp [xrange2, levIter, filtOne]; rfl
  | succ n ih => rw [foldlM_xrange2_one, ih, levIter]; simp only [hf]


theorem streamAppend0Take_zeroExt (r : List α) (p : Nat) (h : p ≥ r.length) :
    streamAppend0Take r ((p : Int) + 1) = zeroExt r p := by
  have h1 : ((p : Int) + 1).toNat = p + 1 := by omega
  simp only [streamAppend0Take, zeroExt, h, if_true, h1]
  apply List.take_of_length_le
  simp; omega

/-- the body of the `for m` loop as emitted is `levStep` -/
theorem lev_body (r A : List α) (m : Nat) :
    (do
      let B := flipDelay A (m : Int)
      let A := filtSubMul A (← pydiv "ParCorError" (ALV.Gen.C10.levinson_durbin_inner r A (zdelay (m : Int)))
        (ALV.Gen.C10.levinson_durbin_inner r B B)) B
      pure A : Except String (List α)) = levStep r m A := by
  simp only [flipDelay, zdelay, filtSubMul, pydiv, src_levinson_inner_is_model, levStep, Int.toNat_natCast]
  split <;> rfl

theorem src_levinson_is_model (r : List α) (order : Option Nat) (h : order = none → r ≠ []) :
    ALV.Gen.C10.levinson_durbin r (order.map Int.ofNat) = levinson r order := by
  cases order with
  | none =>
    have h0 : r.length ≠ 0 := by simpa using h rfl
    have h1 : len r - 1 = ((r.length - 1 : Nat) : Int) := by simp only [len, Int.ofNat_eq_natCast]; omega
    simp only [ALV.Gen.C10.levinson_durbin, levinson, Option.map, h0, if_false, h1, pure_bind]
    rw [foldlM_lev r _ (fun A m => lev_body r A m)]
    simp only [src_levinson_inner_is_model]
  | some p =>
    simp only [ALV.Gen.C10.levinson_durbin, levinson, Option.map, Int.ofNat_eq_natCast]
    by_cases hp : p ≥ r.length
    · have : (p : Int) ≥ len r := by simp only [len, Int.ofNat_eq_natCast]; omega
      simp only [this, if_true, pure_bind, streamAppend0Take_zeroExt r p hp]
      rw [foldlM_lev _ _ (fun A m => lev_body _ A m)]
      simp only [src_levinson_inner_is_model]
    · have : ¬ ((p : Int) ≥ len r) := by simp only [len, Int.ofNat_eq_natCast]; omega
      have hz : zeroExt r p = r := by simp [zeroExt, hp]
      simp only [this, if_false, pure_bind, hz]
      rw [foldlM_lev _ _ (fun A m => lev_body _ A m)]
      simp only [src_levinson_inner_is_model]

theorem src_kautocor_is_model (blk : List α) (order : Option Nat) (h : order = none → blk ≠ []) :
    ALV.Gen.C10.lpc_kautocor blk (order.map Int.ofNat) = kautocor blk order := by
  have hne : order = none → acorr blk order ≠ [] := by
    intro ho; subst ho
    intro hc
    have := congrArg List.length hc
    simp [acorr] at this
    exact h rfl this
  simp only [ALV.Gen.C10.lpc_kautocor, kautocor, src_acorr_is_model, src_levinson_is_model _ _ hne]

/-! ### lpc.kcovar: the `while True` loop (a fuel recursion in the generated text) is `kcIter` + the last update -/

theorem row_of_eq (t : List (List α)) (i : Int) (n : Nat) (h : i = n) : row t i = t.getD n [] := by
  subst h; rfl

theorem src_kcovar_inner_is_model (phi : List (List α)) (a b : List α) :
    ALV.Gen.C10.lpc_kcovar_inner phi a b = innerM phi a b := by
  simp only [ALV.Gen.C10.lpc_kcovar_inner, innerM, enumerate, numlist, pysum, List.flatMap_map, List.map_map,
    Function.comp_def, Int.ofNat_eq_natCast]
  rfl

theorem kcUpdate_B {phi : List (List α)} {u : α → Bool} {m : Nat} {s s1 : KState α}
    (h : kcUpdate phi u m s = .ok s1) : s1.B = s.B := by
  simp only [kcUpdate] at h
  split at h
  · cases h
  · split at h
    · cases h
    · injection h with h; subst h; rfl

theorem kcExtend_B {phi : List (List α)} {m : Nat} {s s2 : KState α}
    (h : kcExtend phi m s = .ok s2) : s2.B.length = s.B.length + 1 := by
  unfold kcExtend at h
  cases hg : kcGamma phi m s with
  | error e => simp [hg, bind, Except.bind] at h
  | ok g =>
    simp [hg, bind, Except.bind, pure, Except.pure] at h
    subst h; simp

theorem kcIter_B {phi : List (List α)} {u : α → Bool} (n : Nat) (s : KState α)
    (h : kcIter phi u n = .ok s) : s.B.length = n + 1 := by
  induction n generalizing s with
  | zero => simp only [kcIter] at h; injection h with h; subst h; rfl
  | succ n ih =>
    simp only [kcIter] at h
    cases h0 : kcIter phi u n with
    | error e => simp [h0, bind, Except.bind] at h
    | ok s0 =>
      cases h1 : kcUpdate phi u (n + 1) s0 with
      | error e => simp [h0, h1, bind, Except.bind] at h
      | ok s1 =>
        simp [h0, h1, bind, Except.bind] at h
        rw [kcExtend_B h, kcUpdate_B h1, ih s0 h0]

theorem mapM_pydiv (e : String) (num den : Int → α) (l : List Nat) :
    (l.map Int.ofNat).mapM (fun q => pydiv e (num q) (den q))
      = if l.any (fun (q : Nat) => decide (den (q : Int) = 0)) then .error e
        else .ok (l.map fun (q : Nat) => num (q : Int) / den (q : Int)) := by
  induction l with
  | nil => rfl
  | cons x xs ih =>
    rw [List.map_cons, List.mapM_cons, ih, List.any_cons]
    generalize xs.any (fun (q : Nat) => decide (den (q : Int) = 0)) = b
    by_cases hx : den (Int.ofNat x) = 0 <;> cases b <;>
      simp_all [pydiv, bind, Except.bind, pure, Except.pure]

theorem loop_pass (c0 c1 : α → Bool) (phi : List (List α)) (ord fuel : Nat) (s : KState α) (mm : Nat)
    (hB : s.B.length = mm) (hm : 1 ≤ mm) :
    ALV.Gen.C10.lpc_kcovar_loop c0 c1 (ord : Int) phi (fuel + 1) (s.A, s.B, s.beta, (mm : Int))
      = (kcUpdate phi (fun k => c0 k || c1 k) mm s >>= fun s1 =>
          if mm ≥ ord then pure (s1.A, innerM phi s1.A s1.A)
          else kcExtend phi mm s1 >>= fun s2 =>
            ALV.Gen.C10.lpc_kcovar_loop c0 c1 (ord : Int) phi fuel (s2.A, s2.B, s2.beta, ((mm + 1 : Nat) : Int))) := by
  rw [ALV.Gen.C10.lpc_kcovar_loop]
  have hidx : idx s.beta ((mm : Int) - 1) = coef s.beta (mm - 1) := idx_of_eq _ _ _ (by omega)
  have hrow : row s.B ((mm : Int) - 1) = s.B.getD (mm - 1) [] := row_of_eq _ _ _ (by omega)
  have hx : xrange (mm : Int) = (List.range mm).map Int.ofNat := by simp [xrange]
  have he : ((mm : Int) + 1).toNat = mm + 1 := by omega
  have hc : (mm : Int) + 1 = ((mm + 1 : Nat) : Int) := by omega
  simp only [src_kcovar_inner_is_model, zdelay, filtAddMul, Int.toNat_natCast, kcUpdate, hidx, hrow, hx, he,
    mapM_pydiv "ZeroDivisionError" (fun q => innerM phi (delay (mm + 1)) (row s.B q)) (fun q => idx s.beta q)]
  by_cases hb : coef s.beta (mm - 1) = 0
  · simp [pydiv, hb, bind, Except.bind]
  · simp only [pydiv, hb, if_false]
    generalize -innerM phi s.A (delay mm) / coef s.beta (mm - 1) = k
    by_cases hu : c0 k = true ∨ c1 k = true
    · have hu' : (c0 k || c1 k) = true := by simpa [Bool.or_eq_true] using hu
      simp [hu, hu', bind, Except.bind, throw, throwThe, MonadExceptOf.throw]
    · have hu' : ¬ (c0 k || c1 k) = true := by simpa [Bool.or_eq_true] using hu
      by_cases hmo : mm ≥ ord
      · have hmo' : (mm : Int) ≥ (ord : Int) := by omega
        simp [hu, hu', hmo, hmo', bind, Except.bind, pure, Except.pure]
      · have hmo' : ¬ (mm : Int) ≥ (ord : Int) := by omega
        simp only [hu, hu', hmo, hmo', if_false, bind, Except.bind, kcExtend, kcGamma]
        have hz : ∀ v : List α, zdelaySubComb (((mm + 1 : Nat)) : Int) (mm : Int) v s.B = kcNewB mm v s.B := by
          intro v; simp only [zdelaySubComb, kcNewB, Int.toNat_natCast]
        have hr : ∀ Bm : List α, row (s.B ++ [Bm]) (mm : Int) = Bm := by
          intro Bm
          show (s.B ++ [Bm]).getD mm [] = Bm
          simp [List.getD_eq_getElem?_getD, hB]
        have hmap : (List.map (fun (q : Nat) => innerM phi (delay (mm + 1)) (row s.B (q : Int)) / idx s.beta (q : Int)) (List.range mm))
            = List.map (fun q => innerM phi (delay (mm + 1)) (s.B.getD q []) / coef s.beta q) (List.range mm) := rfl
        simp only [hr, hc, hz, hmap, Bool.false_eq_true, if_false]
        by_cases hany : ((List.range mm).any fun q => decide (coef s.beta q = 0)) = true
        · have hany' : ((List.range mm).any fun (q : Nat) => decide (idx s.beta (q : Int) = 0)) = true := hany
          simp only [hany, hany', if_true]
        · have hany' : ¬ ((List.range mm).any fun (q : Nat) => decide (idx s.beta (q : Int) = 0)) = true := hany
          simp only [hany, hany', if_false, pure, Except.pure, Bool.false_eq_true]

theorem bind_congr_ok {β γ : Type} (x : Except String β) (f g : β → Except String γ)
    (h : ∀ s, x = .ok s → f s = g s) : x >>= f = x >>= g := by
  cases x with
  | error e => rfl
  | ok s => exact h s rfl

theorem loop_iter (c0 c1 : α → Bool) (phi : List (List α)) (ord : Nat) (k : Nat) : ∀ n, n + k + 1 = ord →
    (kcIter phi (fun k => c0 k || c1 k) n >>= fun s =>
        ALV.Gen.C10.lpc_kcovar_loop c0 c1 (ord : Int) phi (k + 1) (s.A, s.B, s.beta, ((n + 1 : Nat) : Int)))
      = (kcIter phi (fun k => c0 k || c1 k) (ord - 1) >>= fun s =>
          kcUpdate phi (fun k => c0 k || c1 k) ord s >>= fun s1 => pure (s1.A, innerM phi s1.A s1.A)) := by
  induction k with
  | zero =>
    intro n hn
    have h1 : ord - 1 = n := by omega
    have h2 : n + 1 = ord := by omega
    rw [h1]
    apply bind_congr_ok; intro s hs
    rw [loop_pass c0 c1 phi ord 0 s (n + 1) (kcIter_B n s hs) (by omega)]
    simp [h2]
  | succ k ih =>
    intro n hn
    rw [← ih (n + 1) (by omega), kcIter]
    simp only [bind_assoc]
    apply bind_congr_ok; intro s hs
    rw [loop_pass c0 c1 phi ord (k + 1) s (n + 1) (kcIter_B n s hs) (by omega)]
    have h3 : ¬ (n + 1 ≥ ord) := by omega
    simp only [h3, if_false]

theorem src_kcovar_on (c0 c1 : α → Bool) (phi : List (List α)) (h : 2 ≤ phi.length) :
    ALV.Gen.C10.lpc_kcovar_loop c0 c1 (len phi - 1) phi ((len phi - 1 - 1).toNat + 1)
        (filtOne, [zdelay 1], [ALV.Gen.C10.lpc_kcovar_inner phi (row [zdelay 1] 0) (row [zdelay 1] 0)], 1)
      = kcovarOn phi (fun k => c0 k || c1 k) := by
  have h1 : len phi - 1 = ((phi.length - 1 : Nat) : Int) := by simp only [len, Int.ofNat_eq_natCast]; omega
  have h2 : (((phi.length - 1 : Nat) : Int) - 1).toNat + 1 = (phi.length - 2) + 1 := by omega
  have h3 : ¬ phi.length ≤ 1 := by omega
  rw [h1, h2]
  have := loop_iter c0 c1 phi (phi.length - 1) (phi.length - 2) 0 (by omega)
  simp only [kcIter] at this
  simp only [kcovarOn, h3, if_false]
  rw [← this]
  simp only [src_kcovar_inner_is_model]
  rfl

theorem src_kcovar_with (c0 c1 : α → Bool) (blk : List α) (order : Option Nat)
    (h : ∀ phi, lagMatrix blk order = .ok phi → 2 ≤ phi.length) :
    ALV.Gen.C10.lpc_kcovar c0 c1 blk (order.map Int.ofNat) = kcovarWith (fun k => c0 k || c1 k) blk order := by
  simp only [ALV.Gen.C10.lpc_kcovar, kcovarWith, src_lag_matrix_is_model]
  cases hl : lagMatrix blk order with
  | error e => rfl
  | ok phi => exact src_kcovar_on c0 c1 phi (h phi hl)

theorem src_kcovar_is_model [LE α] [DecidableRel (α := α) (· ≤ ·)] (blk : List α) (order : Option Nat)
    (h : ∀ phi, lagMatrix blk order = .ok phi → 2 ≤ phi.length) :
    ALV.Gen.C10.lpc_kcovar ALV.Gen.C10.lpc_kcovar_cmp0 ALV.Gen.C10.lpc_kcovar_cmp1 blk (order.map Int.ofNat)
      = kcovar blk order :=
  src_kcovar_with _ _ blk order h

end filters

theorem src_strategy_names : ALV.Gen.C10.strategyNames = strategyNames.map (·.2) := by decide
end ALV.C10.Src
