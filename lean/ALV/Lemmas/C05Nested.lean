/-
  C05 — nested CascadeFilter / ParallelFilter structures: the model's `call` / `polys` against the
  recursive specification (product / sum of the parts, any depth, any mixture of kinds), and the
  comparison laws of the object model.
-/
import ALV.Lemmas.C05Lists
import ALV.Lemmas.C07Hash
import ALV.Spec.C05List

set_option linter.unusedSectionVars false
set_option linter.unusedSimpArgs false
set_option linter.unusedVariables false

namespace ALV.C05
open ALV.C07 LaurentPolynomial
variable {K : Type} [Field K] [DecidableEq K] (env : ℕ → K → K)

/-- joint induction over a structure and its list of parts -/
theorem FL.joint {α : Type} {m1 : FL α → Prop} {m2 : FLs α → Prop}
    (leaf : ∀ f, m1 (.leaf f)) (num : ∀ c, m1 (.num c)) (other : ∀ i, m1 (.other i))
    (node : ∀ k ps, m2 ps → m1 (.node k ps))
    (nil : m2 .nil) (cons : ∀ p t, m1 p → m2 t → m2 (.cons p t)) : (∀ o, m1 o) ∧ (∀ ps, m2 ps) :=
  ⟨fun o => FL.rec (motive_1 := m1) (motive_2 := m2) leaf num other node nil cons o,
   fun ps => FLs.rec (motive_1 := m1) (motive_2 := m2) leaf num other node nil cons ps⟩

/-- induction over the list of parts alone -/
theorem FLs.induct {α : Type} {m : FLs α → Prop} (nil : m .nil) (cons : ∀ p t, m t → m (.cons p t)) :
    ∀ ps, m ps :=
  (FL.joint (m1 := fun _ => True) (m2 := m) (fun _ => trivial) (fun _ => trivial) (fun _ => trivial) (fun _ _ _ => trivial)
    nil (fun p t _ h => cons p t h)).2

/-! ### what a structure denotes in the field of rational functions -/

mutual
/-- a cascade denotes the product, a parallel the sum of what the parts denote (empty: 1 / 0) -/
noncomputable def FL.val : FL K → Q K
  | .leaf f => C05.val f
  | .num c => ι (C c)
  | .other _ => 0
  | .node k ps => if k.par then ps.sumVal else ps.prodVal
noncomputable def FLs.prodVal : FLs K → Q K
  | .nil => 1
  | .cons p t => p.val * t.prodVal
noncomputable def FLs.sumVal : FLs K → Q K
  | .nil => 0
  | .cons p t => p.val + t.sumVal
end

/-! ### lengths -/

theorem applyS_length_aux :
    (∀ o : FL K, ∀ xs, (o.applyS env xs).length = xs.length) ∧
    (∀ ps : FLs K, (∀ xs, (ps.compS env xs).length = xs.length) ∧
      (∀ xs acc, acc.length = xs.length → (ps.sumS env xs acc).length = xs.length)) := by
  apply FL.joint
  · intro f xs; simp [FL.applyS, apply_length]
  · intro c xs; simp [FL.applyS, scaleSig]
  · intro i xs; simp [FL.applyS]
  · intro k ps ih xs
    simp only [FL.applyS]
    split
    · exact ih.2 xs _ (by simp)
    · exact ih.1 xs
  · exact ⟨fun xs => rfl, fun xs acc h => h⟩
  · intro p t ihp iht
    refine ⟨fun xs => ?_, fun xs acc h => ?_⟩
    · simp only [FLs.compS]; rw [iht.1, ihp]
    · simp only [FLs.sumS]
      exact iht.2 xs _ (by rw [addSig_length, h, ihp]; simp)

theorem FL.applyS_length (o : FL K) (xs : List K) : (o.applyS env xs).length = xs.length :=
  (applyS_length_aux env).1 o xs

/-! ### output: the call is the composition / sum of the parts' outputs -/

theorem call_eq_aux :
    (∀ o : FL K, o.All Causal → ∀ xs, o.call env xs = .ok (o.applyS env xs)) ∧
    (∀ ps : FLs K, ps.All Causal →
      (∀ xs, ps.casCall env xs = .ok (ps.compS env xs)) ∧
      (∀ xs acc, ps.parCall env xs (some acc) = .ok (ps.sumS env xs acc)) ∧
      (∀ xs, ps.parCall env xs none = .ok (ps.sumS env xs (xs.map fun _ => 0)))) := by
  apply FL.joint
  · intro f h xs
    simp only [FL.All] at h
    simp only [FL.call, FL.applyS]
    exact call_eq_apply h xs
  · intro c _ xs
    obtain ⟨s, es, hs, vs⟩ := den_causal (ofScalar_den c) (ofScalar_causal c)
    simp only [FL.call, FL.applyS, castNum]
    rw [es]
    show call s xs = _
    rw [call_eq_apply hs, apply_const hs c vs]
  · intro i _ xs; rfl
  · intro k ps ih h xs
    simp only [FL.All] at h
    simp only [FL.call, FL.applyS]
    split
    · exact (ih h).2.2 xs
    · exact (ih h).1 xs
  · intro _
    exact ⟨fun xs => rfl, fun xs acc => rfl, fun xs => rfl⟩
  · intro p t ihp iht h
    simp only [FLs.All] at h
    refine ⟨fun xs => ?_, fun xs acc => ?_, fun xs => ?_⟩
    · simp only [FLs.casCall, FLs.compS]
      rw [ihp h.1 xs]
      exact (iht h.2).1 _
    · simp only [FLs.parCall, FLs.sumS]
      rw [ihp h.1 xs]
      exact (iht h.2).2.1 xs _
    · simp only [FLs.parCall, FLs.sumS]
      rw [ihp h.1 xs, addSig_zeros xs _ (FL.applyS_length env p xs)]
      exact (iht h.2).2.1 xs _

/-! ### numpoly / denpoly: one equivalent causal filter -/

/-- the product of two causal filters before normalisation is already normalised -/
theorem mul_pair {f g : ZF K} (hf : Causal f) (hg : Causal g) :
    Causal (⟨C07.mul f.num g.num, C07.mul f.den g.den⟩ : ZF K) ∧
    val (⟨C07.mul f.num g.num, C07.mul f.den g.den⟩ : ZF K) = val f * val g := by
  have hd0 : C07.coeff (C07.mul f.den g.den) 0 ≠ 0 := by
    rw [coeff_mul_zero hf.2.2.1 hg.2.2.1 hf.1.2.1.1 hg.1.2.1.1]; exact mul_ne_zero hf.2.2.2 hg.2.2.2
  have e : mul f g = .ok ⟨C07.mul f.num g.num, C07.mul f.den g.den⟩ :=
    ofPolys_causal (wf_mul _ _) (wf_mul _ _) (isPoly_mul hf.2.2.1 hg.2.2.1) hd0
  obtain ⟨h, e', hc, ev⟩ := den_causal (mul_den hf.1 hg.1) (mul_causal hf hg)
  rw [e] at e'
  obtain rfl := Except.ok.inj e'
  exact ⟨hc, ev⟩

theorem ofPolys_of_causal {f : ZF K} (hf : Causal f) : ofPolys f.num f.den = .ok f :=
  ofPolys_causal hf.1.1 hf.1.2.1 hf.2.2.1 hf.2.2.2

theorem full_linear_aux :
    (∀ o : FL K, o.Full → o.linear = true) ∧ (∀ ps : FLs K, ps.Full → ps.linear = true) := by
  apply FL.joint
  · intro _ _; rfl
  · intro _ _; rfl
  · intro i h; simp only [FL.Full] at h
  · intro k ps ih h; simp only [FL.Full] at h; simp only [FL.linear]; exact ih h.2
  · intro _; rfl
  · intro p t ihp iht h; simp only [FLs.Full] at h; simp only [FLs.linear, ihp h.1, iht h.2, Bool.and_self]

theorem polys_aux :
    (∀ o : FL K, o.All Causal → o.Full →
      ∃ nd, o.polys = .ok nd ∧ Causal (⟨nd.1, nd.2⟩ : ZF K) ∧ val (⟨nd.1, nd.2⟩ : ZF K) = o.val ∧
        ∀ xs, apply (⟨nd.1, nd.2⟩ : ZF K) xs = o.applyS env xs) ∧
    (∀ ps : FLs K, ps.All Causal → ps.Full →
      (∀ a : MPoly K × MPoly K, Causal (⟨a.1, a.2⟩ : ZF K) →
        ∃ nd, ps.prodP (some a) = .ok (some nd) ∧ Causal (⟨nd.1, nd.2⟩ : ZF K) ∧
          val (⟨nd.1, nd.2⟩ : ZF K) = val (⟨a.1, a.2⟩ : ZF K) * ps.prodVal ∧
          ∀ xs, apply (⟨nd.1, nd.2⟩ : ZF K) xs = ps.compS env (apply (⟨a.1, a.2⟩ : ZF K) xs)) ∧
      (∀ a : ZF K, Causal a →
        ∃ h, ps.sumF (some a) = .ok (some h) ∧ Causal h ∧ val h = val a + ps.sumVal ∧
          ∀ xs, apply h xs = ps.sumS env xs (apply a xs)) ∧
      (ps ≠ .nil → ∃ nd, ps.prodP none = .ok (some nd) ∧ Causal (⟨nd.1, nd.2⟩ : ZF K) ∧
          val (⟨nd.1, nd.2⟩ : ZF K) = ps.prodVal ∧ ∀ xs, apply (⟨nd.1, nd.2⟩ : ZF K) xs = ps.compS env xs) ∧
      (ps ≠ .nil → ∃ h, ps.sumF none = .ok (some h) ∧ Causal h ∧ val h = ps.sumVal ∧
          ∀ xs, apply h xs = ps.sumS env xs (xs.map fun _ => 0))) := by
  apply FL.joint
  · intro f h _
    simp only [FL.All] at h
    exact ⟨(f.num, f.den), rfl, h, rfl, fun xs => rfl⟩
  · intro c _ _
    obtain ⟨s, es, hs, vs⟩ := den_causal (ofScalar_den c) (ofScalar_causal c)
    refine ⟨(s.num, s.den), ?_, hs, ?_, fun xs => ?_⟩
    · simp only [FL.polys, castNum]; rw [es]; rfl
    · simp only [FL.val]; exact vs
    · simp only [FL.applyS]; exact apply_const hs c vs xs
  · intro i _ hf
    simp only [FL.Full] at hf
  · intro k ps ih h hf
    simp only [FL.All] at h
    simp only [FL.Full] at hf
    obtain ⟨ihp, ihs, ihp0, ihs0⟩ := ih h hf.2
    by_cases hk : k.par = true
    · obtain ⟨s, e, c, v, a⟩ := ihs0 hf.1
      have hl : ps.linear = true := (full_linear_aux.2 ps) hf.2
      refine ⟨(s.num, s.den), ?_, c, ?_, fun xs => ?_⟩
      · simp only [FL.polys, if_pos hk, hl, Bool.not_true, Bool.false_eq_true, if_false]
        show (ps.sumF none >>= _) = _
        rw [e]; rfl
      · simp only [FL.val, if_pos hk]; exact v
      · simp only [FL.applyS, if_pos hk]; exact a xs
    · obtain ⟨nd, e, c, v, a⟩ := ihp0 hf.1
      refine ⟨nd, ?_, c, ?_, fun xs => ?_⟩
      · simp only [FL.polys, if_neg hk]; rw [e]; rfl
      · simp only [FL.val, if_neg hk]; exact v
      · simp only [FL.applyS, if_neg hk]; exact a xs
  · intro _ _
    refine ⟨fun a ha => ⟨a, rfl, ha, by simp [FLs.prodVal], fun xs => rfl⟩,
      fun a ha => ⟨a, rfl, ha, by simp [FLs.sumVal], fun xs => rfl⟩, fun h => absurd rfl h, fun h => absurd rfl h⟩
  · intro p t ihp iht h hf
    simp only [FLs.All] at h
    simp only [FLs.Full] at hf
    obtain ⟨nd, e, c, v, ap⟩ := ihp h.1 hf.1
    obtain ⟨tp, ts, _, _⟩ := iht h.2 hf.2
    have ez : ofPolys nd.1 nd.2 = .ok (⟨nd.1, nd.2⟩ : ZF K) := ofPolys_of_causal c
    refine ⟨fun a ha => ?_, fun a ha => ?_, fun _ => ?_, fun _ => ?_⟩
    · obtain ⟨hc, hv⟩ := mul_pair ha c
      obtain ⟨r, er, cr, vr, ar⟩ := tp (C07.mul a.1 nd.1, C07.mul a.2 nd.2) hc
      refine ⟨r, ?_, cr, ?_, fun xs => ?_⟩
      · simp only [FLs.prodP]; rw [e]; exact er
      · rw [vr, hv, v]; simp only [FLs.prodVal]; ring
      · rw [ar xs]
        simp only [FLs.compS]
        rw [← ap, apply_mul c ha hc (by rw [hv, mul_comm])]
    · obtain ⟨s, es, cs, vs⟩ := den_causal (add_den ha.1 c.1) (add_causal ha c)
      obtain ⟨r, er, cr, vr, ar⟩ := ts s cs
      refine ⟨r, ?_, cr, ?_, fun xs => ?_⟩
      · simp only [FLs.sumF]; rw [e]
        show (ofPolys nd.1 nd.2 >>= fun z => add a z >>= fun s => t.sumF (some s)) = _
        rw [ez]
        show (add a ⟨nd.1, nd.2⟩ >>= fun s => t.sumF (some s)) = _
        rw [es]; exact er
      · rw [vr, vs, v]; simp only [FLs.sumVal]; ring
      · rw [ar xs]
        simp only [FLs.sumS]
        rw [← ap, apply_add ha c cs vs]
    · obtain ⟨r, er, cr, vr, ar⟩ := tp nd c
      refine ⟨r, ?_, cr, ?_, fun xs => ?_⟩
      · simp only [FLs.prodP]; rw [e]; exact er
      · rw [vr, v]; simp only [FLs.prodVal]
      · rw [ar xs]; simp only [FLs.compS]; rw [ap]
    · obtain ⟨r, er, cr, vr, ar⟩ := ts ⟨nd.1, nd.2⟩ c
      refine ⟨r, ?_, cr, ?_, fun xs => ?_⟩
      · simp only [FLs.sumF]; rw [e]
        show (ofPolys nd.1 nd.2 >>= fun z => t.sumF (some z)) = _
        rw [ez]; exact er
      · rw [vr, v]; simp only [FLs.sumVal]
      · rw [ar xs]; simp only [FLs.sumS]
        rw [ap, addSig_zeros xs _ (FL.applyS_length env p xs)]

/-! ### the constructor and the `list` operations keep the denotation -/

theorem prodVal_append (a b : FLs K) : (a ++ b).prodVal = a.prodVal * b.prodVal := by
  show (FLs.append a b).prodVal = _
  refine FLs.induct (m := fun a => (FLs.append a b).prodVal = a.prodVal * b.prodVal) ?_ ?_ a
  · simp [FLs.append, FLs.prodVal]
  · intro p t ih; simp only [FLs.append, FLs.prodVal, ih, mul_assoc]

theorem sumVal_append (a b : FLs K) : (a ++ b).sumVal = a.sumVal + b.sumVal := by
  show (FLs.append a b).sumVal = _
  refine FLs.induct (m := fun a => (FLs.append a b).sumVal = a.sumVal + b.sumVal) ?_ ?_ a
  · simp [FLs.append, FLs.sumVal]
  · intro p t ih; simp only [FLs.append, FLs.sumVal, ih, add_assoc]

theorem compS_append (a b : FLs K) (xs : List K) : (a ++ b).compS env xs = b.compS env (a.compS env xs) := by
  show (FLs.append a b).compS env xs = _
  revert xs
  refine FLs.induct (m := fun a => ∀ xs, (FLs.append a b).compS env xs = b.compS env (a.compS env xs)) ?_ ?_ a
  · intro xs; rfl
  · intro p t ih xs; simp only [FLs.append, FLs.compS, ih]

theorem sumS_append (a b : FLs K) (xs acc : List K) : (a ++ b).sumS env xs acc = b.sumS env xs (a.sumS env xs acc) := by
  show (FLs.append a b).sumS env xs acc = _
  revert acc
  refine FLs.induct (m := fun a => ∀ acc, (FLs.append a b).sumS env xs acc = b.sumS env xs (a.sumS env xs acc)) ?_ ?_ a
  · intro acc; rfl
  · intro p t ih acc; simp only [FLs.append, FLs.sumS, ih]

/-- a user subclass wrapper (`MyC(CascadeFilter(parts))`) is the product / sum of one part -/
theorem wrap_val (par : Bool) (n : ℕ) (ps : FLs K) : (wrap par n ps).val = (FL.node ⟨par, 0⟩ ps).val := by
  induction n with
  | zero => rfl
  | succ n ih =>
    simp only [wrap, FL.val]
    cases par <;> simp [FLs.prodVal, FLs.sumVal, ih, FL.val]

theorem wrap_applyS (par : Bool) (n : ℕ) (ps : FLs K) (xs : List K) :
    (wrap par n ps).applyS env xs = (FL.node ⟨par, 0⟩ ps).applyS env xs := by
  induction n with
  | zero => rfl
  | succ n ih =>
    simp only [wrap, FL.applyS]
    cases par
    · simp [FLs.compS, ih, FL.applyS]
    · simp only [if_true, FLs.sumS, ih]
      rw [addSig_zeros xs _ (FL.applyS_length env _ xs)]
      simp [FL.applyS]

/-! ### `==` / `!=` / `hash` -/

theorem listNe_eq_not_eq (a : FLs K) : ∀ b : FLs K, a.listNe b = !(a.eq b) := by
  refine FLs.induct (m := fun a => ∀ b : FLs K, a.listNe b = !(a.eq b)) ?_ ?_ a
  · intro b; cases b <;> rfl
  · intro p t ih b
    cases b with
    | nil => rfl
    | cons q u => simp only [FLs.listNe, FLs.eq, ih u, Bool.not_and]

theorem FL.ne_eq_not_eq (a b : FL K) : a.ne b = !(a.eq b) := by
  cases a <;> cases b <;> simp [FL.ne, FL.eq, neFixed, listNe_eq_not_eq, Bool.not_and]

theorem Obj.ne_eq_not_eq (a b : Obj K) : a.ne b = !(a.eq b) := by
  cases a <;> cases b <;> simp [Obj.ne, Obj.eq, FL.ne_eq_not_eq, listNe_eq_not_eq, Bool.not_and]

theorem val_of_eq {f g : ZF K} (hf : Valid f) (hg : Valid g) (h : C05.eq f g = true) : val f = val g := by
  unfold C05.eq at h
  rw [Bool.and_eq_true] at h
  have h1 := (eq_iff_toLaurent hf.1 hg.1).1 h.1
  have h2 := (eq_iff_toLaurent hf.2.1 hg.2.1).1 h.2
  unfold val N D
  rw [h1, h2]

/-- equal objects denote the same rational function -/
theorem eq_val_aux :
    (∀ a : FL K, ∀ b : FL K, a.All Valid → b.All Valid → a.eq b = true → a.val = b.val) ∧
    (∀ a : FLs K, ∀ b : FLs K, a.All Valid → b.All Valid → a.eq b = true →
      a.prodVal = b.prodVal ∧ a.sumVal = b.sumVal) := by
  apply FL.joint
  · intro f b ha hb h
    cases b with
    | leaf g => simp only [FL.All] at ha hb; simp only [FL.eq] at h; simp only [FL.val]; exact val_of_eq ha hb h
    | num d => simp [FL.eq] at h
    | other j => simp [FL.eq] at h
    | node k bs => simp [FL.eq] at h
  · intro c b _ _ h
    cases b with
    | leaf g => simp [FL.eq] at h
    | num d => simp only [FL.eq, decide_eq_true_eq] at h; rw [h]
    | other j => simp [FL.eq] at h
    | node k bs => simp [FL.eq] at h
  · intro i b _ _ h
    cases b with
    | leaf g => simp [FL.eq] at h
    | num d => simp [FL.eq] at h
    | other j => rfl
    | node k bs => simp [FL.eq] at h
  · intro k ps ih b ha hb h
    cases b with
    | leaf g => simp [FL.eq] at h
    | num d => simp [FL.eq] at h
    | other j => simp [FL.eq] at h
    | node k' bs =>
      simp only [FL.All] at ha hb
      simp only [FL.eq, Bool.and_eq_true, decide_eq_true_eq] at h
      obtain ⟨rfl, h2⟩ := h
      obtain ⟨e1, e2⟩ := ih bs ha hb h2
      simp only [FL.val, e1, e2]
  · intro b _ _ h
    cases b with
    | nil => exact ⟨rfl, rfl⟩
    | cons q u => simp [FLs.eq] at h
  · intro p t ihp iht b ha hb h
    cases b with
    | nil => simp [FLs.eq] at h
    | cons q u =>
      simp only [FLs.All] at ha hb
      simp only [FLs.eq, Bool.and_eq_true] at h
      obtain ⟨e1, e2⟩ := iht u ha.2 hb.2 h.2
      simp only [FLs.prodVal, FLs.sumVal, ihp q ha.1 hb.1 h.1, e1, e2, and_self]

/-- equal objects of causal filters give the same output -/
theorem eq_applyS_aux :
    (∀ a : FL K, ∀ b : FL K, a.All Causal → b.All Causal → a.eq b = true → ∀ xs, a.applyS env xs = b.applyS env xs) ∧
    (∀ a : FLs K, ∀ b : FLs K, a.All Causal → b.All Causal → a.eq b = true →
      (∀ xs, a.compS env xs = b.compS env xs) ∧ (∀ xs acc, a.sumS env xs acc = b.sumS env xs acc)) := by
  apply FL.joint
  · intro f b ha hb h xs
    cases b with
    | leaf g =>
      simp only [FL.All] at ha hb; simp only [FL.eq] at h; simp only [FL.applyS]
      exact apply_congr ha hb (val_of_eq ha.1 hb.1 h) xs
    | num d => simp [FL.eq] at h
    | other j => simp [FL.eq] at h
    | node k bs => simp [FL.eq] at h
  · intro c b _ _ h xs
    cases b with
    | leaf g => simp [FL.eq] at h
    | num d => simp only [FL.eq, decide_eq_true_eq] at h; rw [h]
    | other j => simp [FL.eq] at h
    | node k bs => simp [FL.eq] at h
  · intro i b _ _ h xs
    cases b with
    | leaf g => simp [FL.eq] at h
    | num d => simp [FL.eq] at h
    | other j => simp only [FL.eq, decide_eq_true_eq] at h; rw [h]
    | node k bs => simp [FL.eq] at h
  · intro k ps ih b ha hb h xs
    cases b with
    | leaf g => simp [FL.eq] at h
    | num d => simp [FL.eq] at h
    | other j => simp [FL.eq] at h
    | node k' bs =>
      simp only [FL.All] at ha hb
      simp only [FL.eq, Bool.and_eq_true, decide_eq_true_eq] at h
      obtain ⟨rfl, h2⟩ := h
      obtain ⟨e1, e2⟩ := ih bs ha hb h2
      simp only [FL.applyS, e1, e2]
  · intro b _ _ h
    cases b with
    | nil => exact ⟨fun _ => rfl, fun _ _ => rfl⟩
    | cons q u => simp [FLs.eq] at h
  · intro p t ihp iht b ha hb h
    cases b with
    | nil => simp [FLs.eq] at h
    | cons q u =>
      simp only [FLs.All] at ha hb
      simp only [FLs.eq, Bool.and_eq_true] at h
      obtain ⟨e1, e2⟩ := iht u ha.2 hb.2 h.2
      have ep := ihp q ha.1 hb.1 h.1
      exact ⟨fun xs => by simp only [FLs.compS, ep, e1], fun xs acc => by simp only [FLs.sumS, ep, e2]⟩

/-- `==` implies equal hashes, whatever the sorts of the two objects (filter lists are unhashable:
both calls raise TypeError) -/
theorem FL.hash_of_eq (a b : FL K) (ha : a.All fun f => WF f.num ∧ WF f.den) (hb : b.All fun f => WF f.num ∧ WF f.den)
    (h : a.eq b = true) : a.hash = b.hash := by
  cases a <;> cases b <;> simp only [FL.eq] at h <;> try (simp at h)
  · rename_i f g
    simp only [FL.All] at ha hb
    simp only [FL.hash]
    unfold C05.eq at h
    rw [Bool.and_eq_true] at h
    have h1 := hashKey_eq_of_perm ha.1.1 (perm_of_eq ha.1.1 hb.1.1 h.1)
    have h2 := hashKey_eq_of_perm ha.2.1 (perm_of_eq ha.2.1 hb.2.1 h.2)
    unfold C07.hashKey at h1 h2
    unfold C05.hashKey
    rw [h1, h2]
  · rename_i c d
    simp only [FL.hash, h]
  · rename_i i j
    simp only [FL.hash, h]
  · rfl

end ALV.C05
