/-
  C09 — lemmas about `blk_gen` (processing chain, analysis window) used by `stft_window_first`
  and `stft_identity`.
-/
import ALV.Lemmas.C09Inverse

namespace ALV.C09
open ALV.C08
variable {K : Type}

/-- the chain of the five optional steps, `None` = identity -/
def chainOf (st : Stages K) (size : Nat) (blk : List K) : List K :=
  (st.after.getD id) ((match st.inverse with | some f => (f · size) | none => id)
    (st.func ((match st.transform with | some f => (f · size) | none => id)
      ((st.before.getD id) blk))))

/-- what `func` receives -/
def funcInput (st : Stages K) (size : Nat) (blk : List K) : List K :=
  (match st.transform with | some f => (f · size) | none => id) ((st.before.getD id) blk)

theorem process_funcs (st : Stages K) (size : Nat) (blk : List K) :
    process (st.funcs size) blk = chainOf st size blk := by
  obtain ⟨b, t, f, i, a⟩ := st
  cases b <;> cases t <;> cases i <;> cases a <;> rfl

theorem processTrace_func (st : Stages K) (size : Nat) (blk : List K) :
    (processTrace (st.funcs size) blk).find? (fun e => e.1 = "func") =
      some ("func", funcInput st size blk) := by
  obtain ⟨b, t, f, i, a⟩ := st
  cases b <;> cases t <;> cases i <;> cases a <;>
    simp [Stages.funcs, processTrace, funcInput, List.find?]

theorem processTrace_head (st : Stages K) (size : Nat) (blk : List K) :
    ∃ name, (processTrace (st.funcs size) blk).head? = some (name, blk) := by
  obtain ⟨b, t, f, i, a⟩ := st
  cases b <;> cases t <;> simp [Stages.funcs, processTrace]

theorem resolveWndStft_length (size : Nat) (wnd : WndArg K) (w : List K)
    (h : resolveWndStft size wnd = .ok (some w)) : w.length = size := by
  unfold resolveWndStft at h
  cases wnd with
  | none => simp at h
  | seq l =>
    simp only at h
    by_cases hl : l.length ≠ size
    · simp [hl] at h
    · simp only [hl, if_false, Except.ok.injEq, Option.some.injEq] at h
      subst h; simpa using hl
  | callable f =>
    simp only at h
    cases hf : f size with
    | none => simp [hf] at h
    | some l =>
      simp only [hf] at h
      by_cases hl : l.length ≠ size
      · simp [hl] at h
      · simp only [hl, if_false, Except.ok.injEq, Option.some.injEq] at h
        subst h; simpa using hl
  | scalar => simp at h

section
variable [CommSemiring K]

theorem zipWith_mul_getD (a b : List K) (hab : a.length = b.length) (i : Nat) :
    (List.zipWith (· * ·) a b).getD i 0 = a.getD i 0 * b.getD i 0 := by
  induction a generalizing b i with
  | nil =>
    cases b with
    | nil => simp
    | cons y ys => simp at hab
  | cons x xs ih =>
    cases b with
    | nil => simp at hab
    | cons y ys =>
      cases i with
      | zero => simp
      | succ i => simpa using ih ys (by simpa using hab) i

/-- a windowed block of the signal holds `wa[i] * x[k*h + i]` -/
theorem windowed_getD (size : Nat) (wa? : Option (List K)) (hwa : ∀ w, wa? = some w → w.length = size)
    (B : List K) (hB : B.length = size) (i : Nat) (hi : i < size) :
    (windowed wa? B).getD i 0 = (wndSpec size wa?).getD i 0 * B.getD i 0 := by
  cases wa? with
  | none =>
    simp only [windowed, wndSpec]
    have : (List.replicate size (1 : K)).getD i 0 = 1 := by
      simp [List.getD_eq_getElem?_getD, hi]
    rw [this, one_mul]
  | some w =>
    simp only [windowed, wndSpec]
    rw [zipWith_mul_getD _ _ (by rw [hB, hwa w rfl]), mul_comm]

theorem windowed_length (size : Nat) (wa? : Option (List K)) (hwa : ∀ w, wa? = some w → w.length = size)
    (B : List K) (hB : B.length = size) : (windowed wa? B).length = size := by
  cases wa? with
  | none => exact hB
  | some w => simp [windowed, hB, hwa w rfl]

end
end ALV.C09
