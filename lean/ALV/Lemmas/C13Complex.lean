/-
  C13 — helper lemmas, part 5: the bridge to ℂ.

  * `magSq`, `dcGain`, `nyquistGain` (real arithmetic, `ALV/Spec/C13.lean`) are the squared modulus /
    the values of the C12 model of `filt.freq_response` (`ALV.C12.respOfFilter`) at `e^{-jω}`, 1, -1;
  * poles: roots in `z` of the denominator `Σ a_k z^{-k}`; first and second order root lemmas.
-/
import ALV.Lemmas.C13Basic
import ALV.Lemmas.C12Sum
import Mathlib.Analysis.SpecialFunctions.Trigonometric.Basic

set_option linter.unusedSectionVars false
set_option linter.unusedSimpArgs false

namespace ALV.C13
open ALV ALV.TrigField Complex

/-- `Σ_k c_k w^k` (Horner) for real coefficients at a complex point -/
noncomputable def polyEvalC (w : ℂ) : List ℝ → ℂ
  | [] => 0
  | c :: cs => (c : ℂ) + w * polyEvalC w cs

theorem evalFrom_succ {K : Type} [Field K] (w : K) (i : Nat) (l : List K) :
    C12.evalFrom w (i + 1) l = w * C12.evalFrom w i l := by
  induction l generalizing i with
  | nil => simp [C12.evalFrom]
  | cons c cs ih =>
    simp only [C12.evalFrom, ih (i + 1), C12.pw_eq_pow]
    ring

theorem polyEvalC_eq_evalDirect (w : ℂ) (l : List ℝ) :
    polyEvalC w l = C12.evalDirect (l.map ofReal) w := by
  unfold C12.evalDirect
  induction l with
  | nil => simp [polyEvalC, C12.evalFrom]
  | cons c cs ih =>
    simp only [polyEvalC, List.map_cons, C12.evalFrom, evalFrom_succ, ih, C12.pw_eq_pow]
    ring

theorem polyEval_eq_evalDirect (w : ℝ) (l : List ℝ) : polyEval w l = C12.evalDirect l w := by
  unfold C12.evalDirect
  induction l with
  | nil => simp [polyEval, C12.evalFrom]
  | cons c cs ih =>
    simp only [polyEval, C12.evalFrom, evalFrom_succ, ih, C12.pw_eq_pow]
    ring

theorem polyEvalC_ofReal (w : ℝ) (l : List ℝ) : polyEvalC (w : ℂ) l = ((polyEval w l : ℝ) : ℂ) := by
  induction l with
  | nil => simp [polyEvalC, polyEval]
  | cons c cs ih => simp [polyEvalC, polyEval, ih]

theorem polyEvalC_trim (w : ℂ) (l : List ℝ) : polyEvalC w (trim l) = polyEvalC w l := by
  induction l with
  | nil => rfl
  | cons c cs ih =>
    rw [trim_cons_real]
    by_cases h : trim cs = []
    · rw [h] at ih
      simp only [h, if_true]
      by_cases hc : c = 0
      · simp only [hc, if_true, polyEvalC, ← ih]; simp
      · simp only [hc, if_false, polyEvalC, ← ih]
    · simp only [h, if_false, polyEvalC, ih]

/-! ### on the unit circle -/

theorem cexp_pow_eq (ω : ℝ) (k : ℕ) :
    Complex.exp (-(I * ω)) ^ k = ((Real.cos ((k : ℝ) * ω) : ℝ) : ℂ) - I * ((Real.sin ((k : ℝ) * ω) : ℝ) : ℂ) := by
  rw [C12.cexp_pow]
  have : -(I * (ω : ℂ) * (k : ℂ)) = ((-((k : ℝ) * ω) : ℝ) : ℂ) * I := by push_cast; ring
  rw [this, Complex.exp_mul_I, ← Complex.ofReal_cos, ← Complex.ofReal_sin, Real.cos_neg, Real.sin_neg]
  push_cast; ring

/-- `w^i · Σ_k c_k w^k = Σ c_k cos((i+k)ω) - j Σ c_k sin((i+k)ω)` for `w = e^{-jω}` -/
theorem polyEvalC_unit (ω : ℝ) (i : ℕ) (l : List ℝ) :
    Complex.exp (-(I * ω)) ^ i * polyEvalC (Complex.exp (-(I * ω))) l
      = ((cosSum ω i l : ℝ) : ℂ) - I * ((sinSum ω i l : ℝ) : ℂ) := by
  induction l generalizing i with
  | nil => simp [polyEvalC, cosSum, sinSum]
  | cons c cs ih =>
    have h := ih (i + 1)
    simp only [polyEvalC, cosSum, sinSum, real_cos, real_sin, real_ofNat]
    rw [mul_add, ← mul_assoc, ← pow_succ, h, cexp_pow_eq]
    push_cast
    ring

theorem normSq_polyEvalC (ω : ℝ) (l : List ℝ) :
    Complex.normSq (polyEvalC (Complex.exp (-(I * ω))) l) = polyMagSq l ω := by
  have h := polyEvalC_unit ω 0 l
  rw [pow_zero, one_mul] at h
  rw [h, polyMagSq]
  simp [Complex.normSq_apply]

theorem cosSum_eq_zero_of_all_zero (ω : ℝ) (l : List ℝ) (h : ∀ c ∈ l, c = 0) (i : ℕ) :
    cosSum ω i l = 0 := by
  induction l generalizing i with
  | nil => simp [cosSum]
  | cons c cs ih =>
    have hc0 : c = 0 := h c (by simp)
    simp [cosSum, hc0, ih (fun c hc => h c (by simp [hc]))]

theorem sinSum_eq_zero_of_all_zero (ω : ℝ) (l : List ℝ) (h : ∀ c ∈ l, c = 0) (i : ℕ) :
    sinSum ω i l = 0 := by
  induction l generalizing i with
  | nil => simp [sinSum]
  | cons c cs ih =>
    have hc0 : c = 0 := h c (by simp)
    simp [sinSum, hc0, ih (fun c hc => h c (by simp [hc]))]

theorem polyMagSq_eq_zero_of_all_zero (ω : ℝ) (l : List ℝ) (h : ∀ c ∈ l, c = 0) : polyMagSq l ω = 0 := by
  simp [polyMagSq, cosSum_eq_zero_of_all_zero ω l h, sinSum_eq_zero_of_all_zero ω l h]

theorem polyEval_eq_zero_of_all_zero (w : ℝ) (l : List ℝ) (h : ∀ c ∈ l, c = 0) : polyEval w l = 0 := by
  induction l with
  | nil => simp [polyEval]
  | cons c cs ih =>
    have hc0 : c = 0 := h c (by simp)
    simp [polyEval, hc0, ih (fun c hc => h c (by simp [hc]))]

/-- the C12 model of `ZFilter(b, a).freq_response(ω)` for real coefficients: a complex value whose
squared modulus is `polyMagSq b ω / polyMagSq a ω` -/
theorem respOfFilter_unit (b a : List ℝ) (ω : ℝ) (h : polyMagSq a ω ≠ 0) :
    ∃ v : ℂ, C12.respOfFilter (b.map ofReal) (a.map ofReal) (Complex.exp (-(I * ω))) = C12.Resp.val v
      ∧ Complex.normSq v = polyMagSq b ω / polyMagSq a ω := by
  rw [C12.respOfFilter_eq_spec _ _ _ (Complex.exp_ne_zero _)]
  have hnz : ¬ ((a.map ofReal).all (fun c => decide (c = 0)) = true) := by
    intro hall
    apply h
    apply polyMagSq_eq_zero_of_all_zero
    intro c hc
    have := (List.all_eq_true.1 hall) (c : ℂ) (List.mem_map_of_mem hc)
    simpa using this
  have hden : C12.evalDirect (a.map ofReal) (Complex.exp (-(I * ω))) ≠ 0 := by
    rw [← polyEvalC_eq_evalDirect]
    intro h0
    apply h
    rw [← normSq_polyEvalC, h0, map_zero]
  refine ⟨C12.evalDirect (b.map ofReal) (Complex.exp (-(I * ω))) /
      C12.evalDirect (a.map ofReal) (Complex.exp (-(I * ω))), ?_, ?_⟩
  · simp only [C12.respSpec, C12.Hspec, hnz, hden, if_false, Bool.false_eq_true]
  · rw [map_div₀, ← polyEvalC_eq_evalDirect, ← polyEvalC_eq_evalDirect, normSq_polyEvalC, normSq_polyEvalC]

/-- … and at a real point `w = z⁻¹` (DC: `w = 1`, Nyquist: `w = -1`) its value is
`polyEval w b / polyEval w a` -/
theorem respOfFilter_real (b a : List ℝ) (w : ℝ) (hw : w ≠ 0) (h : polyEval w a ≠ 0) :
    C12.respOfFilter (b.map ofReal) (a.map ofReal) (w : ℂ)
      = C12.Resp.val (((polyEval w b / polyEval w a : ℝ) : ℂ)) := by
  rw [C12.respOfFilter_eq_spec _ _ _ (by exact_mod_cast hw)]
  have hnz : ¬ ((a.map ofReal).all (fun c => decide (c = 0)) = true) := by
    intro hall
    apply h
    apply polyEval_eq_zero_of_all_zero
    intro c hc
    have := (List.all_eq_true.1 hall) (c : ℂ) (List.mem_map_of_mem hc)
    simpa using this
  have hden : C12.evalDirect (a.map ofReal) (w : ℂ) ≠ 0 := by
    rw [← polyEvalC_eq_evalDirect, polyEvalC_ofReal]
    exact_mod_cast h
  simp only [C12.respSpec, C12.Hspec, hnz, hden, if_false, Bool.false_eq_true]
  rw [← polyEvalC_eq_evalDirect, ← polyEvalC_eq_evalDirect, polyEvalC_ofReal, polyEvalC_ofReal]
  push_cast
  rfl

theorem cexp_zero_point : Complex.exp (-(I * ((0 : ℝ) : ℂ))) = ((1 : ℝ) : ℂ) := by simp

theorem cexp_pi_point : Complex.exp (-(I * ((Real.pi : ℝ) : ℂ))) = ((-1 : ℝ) : ℂ) := by
  have : -(I * ((Real.pi : ℝ) : ℂ)) = ((-Real.pi : ℝ) : ℂ) * I := by push_cast; ring
  rw [this, Complex.exp_mul_I, ← Complex.ofReal_cos, ← Complex.ofReal_sin]
  simp

/-! ### poles -/

/-- `p` is a pole of the designed filter: a non-zero root in `z` of its denominator `Σ a_k z^{-k}`
(what `filt.poles` computes from `filt.denpolyz`). -/
def IsPole (s : Coefs ℝ) (p : ℂ) : Prop := p ≠ 0 ∧ polyEvalC p⁻¹ s.den = 0

theorem isPole_mk (b a : List ℝ) (p : ℂ) : IsPole (mk b a) p ↔ p ≠ 0 ∧ polyEvalC p⁻¹ a = 0 := by
  simp only [IsPole, mk, polyEvalC_trim]

/-- first order `1 + a1 z⁻¹`: the only pole is `-a1` -/
theorem isPole_first (b : List ℝ) (a1 : ℝ) (p : ℂ) :
    IsPole (mk b [1, a1]) p ↔ p ≠ 0 ∧ p = ((-a1 : ℝ) : ℂ) := by
  rw [isPole_mk]
  simp only [polyEvalC, mul_zero, add_zero]
  constructor
  · rintro ⟨hp, h⟩
    refine ⟨hp, ?_⟩
    have : p * (((1 : ℝ) : ℂ) + p⁻¹ * (a1 : ℂ)) = 0 := by rw [h, mul_zero]
    rw [mul_add, ← mul_assoc, mul_inv_cancel₀ hp] at this
    push_cast at this ⊢
    linear_combination this
  · rintro ⟨hp, h⟩
    refine ⟨hp, ?_⟩
    have hp' : ((-a1 : ℝ) : ℂ) ≠ 0 := h ▸ hp
    rw [h]
    push_cast at hp' ⊢
    have ha : (a1 : ℂ) ≠ 0 := neg_ne_zero.1 hp'
    rw [inv_neg, neg_mul, inv_mul_cancel₀ ha]
    ring

/-- second order `1 + a1 z⁻¹ + a2 z⁻²`: the poles are the non-zero roots of `p² + a1 p + a2` -/
theorem isPole_second (b : List ℝ) (a1 a2 : ℝ) (p : ℂ) :
    IsPole (mk b [1, a1, a2]) p ↔ p ≠ 0 ∧ p ^ 2 + (a1 : ℂ) * p + (a2 : ℂ) = 0 := by
  rw [isPole_mk]
  simp only [polyEvalC, mul_zero, add_zero]
  constructor
  · rintro ⟨hp, h⟩
    refine ⟨hp, ?_⟩
    have h2 : p ^ 2 * (((1 : ℝ) : ℂ) + p⁻¹ * ((a1 : ℂ) + p⁻¹ * (a2 : ℂ))) = 0 := by rw [h, mul_zero]
    have e : p ^ 2 * (((1 : ℝ) : ℂ) + p⁻¹ * ((a1 : ℂ) + p⁻¹ * (a2 : ℂ)))
        = p ^ 2 + (a1 : ℂ) * p + (a2 : ℂ) := by
      field_simp
      push_cast
      ring
    rw [e] at h2
    exact h2
  · rintro ⟨hp, h⟩
    refine ⟨hp, ?_⟩
    have e : ((1 : ℝ) : ℂ) + p⁻¹ * ((a1 : ℂ) + p⁻¹ * (a2 : ℂ))
        = (p ^ 2 + (a1 : ℂ) * p + (a2 : ℂ)) / p ^ 2 := by
      field_simp
      push_cast
      ring
    rw [e, h, zero_div]

/-- real-coefficient quadratic with non-positive discriminant: both roots have `|p|² = a2` -/
theorem quad_root_normSq (a1 a2 : ℝ) (p : ℂ) (hd : a1 ^ 2 ≤ 4 * a2)
    (h : p ^ 2 + (a1 : ℂ) * p + (a2 : ℂ) = 0) : Complex.normSq p = a2 := by
  have hre := congrArg Complex.re h
  have him := congrArg Complex.im h
  simp [pow_two] at hre him
  rw [Complex.normSq_apply]
  by_cases hy : p.im = 0
  · rw [hy] at hre ⊢
    simp at hre
    nlinarith [sq_nonneg (2 * p.re + a1)]
  · have hx : 2 * p.re + a1 = 0 := by
      have : p.im * (2 * p.re + a1) = 0 := by linarith
      rcases mul_eq_zero.1 this with h' | h'
      · exact absurd h' hy
      · exact h'
    have hxe : p.re = -a1 / 2 := by linarith
    rw [hxe] at hre ⊢
    linarith

/-- the stability triangle `|a1| < 1 + a2`, `a2 < 1`: every root lies strictly inside the unit circle -/
theorem quad_root_stable (a1 a2 : ℝ) (p : ℂ) (h1 : |a1| < 1 + a2) (h2 : a2 < 1)
    (h : p ^ 2 + (a1 : ℂ) * p + (a2 : ℂ) = 0) : Complex.normSq p < 1 := by
  have hre := congrArg Complex.re h
  have him := congrArg Complex.im h
  simp [pow_two] at hre him
  rw [Complex.normSq_apply]
  obtain ⟨ha, hb⟩ := abs_lt.1 h1
  by_cases hy : p.im = 0
  · rw [hy] at hre ⊢
    simp at hre
    -- real root x: x² + a1 x + a2 = 0 forces -1 < x < 1
    have hx1 : p.re < 1 := by
      by_contra hcon
      push Not at hcon
      nlinarith [mul_nonneg (by linarith : (0:ℝ) ≤ p.re - 1) (by linarith : (0:ℝ) ≤ p.re - a2)]
    have hx2 : -1 < p.re := by
      by_contra hcon
      push Not at hcon
      nlinarith [mul_nonneg (by linarith : (0:ℝ) ≤ -(p.re + 1)) (by linarith : (0:ℝ) ≤ -(p.re + a2))]
    nlinarith
  · have hx : 2 * p.re + a1 = 0 := by
      have : p.im * (2 * p.re + a1) = 0 := by linarith
      rcases mul_eq_zero.1 this with h' | h'
      · exact absurd h' hy
      · exact h'
    have hxe : p.re = -a1 / 2 := by linarith
    rw [hxe] at hre ⊢
    nlinarith [sq_nonneg a1]

end ALV.C13
