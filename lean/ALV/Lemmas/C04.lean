/-
  C04 — helper lemmas, core Lean only (no algebraic law is used in this file):
  * the bounded shifting state machine `frun` computes `fspec` (unbounded histories);
  * the sequential assignments `m{k} = m{k-1}` (descending k) of the generated source are a
    shift by one.
-/
import ALV.Model.C04
import ALV.Spec.C04
set_option linter.unusedSectionVars false
set_option linter.unusedSimpArgs false
namespace ALV.C04
variable {α : Type}

section machine
variable [Add α] [Mul α] [Sub α] [Div α] [OfNat α 0]

theorem dot_nil_right (c : List α) : dot c ([] : List α) = 0 := by
  cases c <;> simp [dot]

theorem dot_take (c v : List α) : dot c (v.take c.length) = dot c v := by
  induction c generalizing v with
  | nil => cases v <;> simp [dot]
  | cons c cs ih =>
    cases v with
    | nil => simp [dot]
    | cons v vs => simp [dot, ih]

theorem takeP_length (z : α) (n : Nat) (l : List α) : (takeP z n l).length = n := by
  induction n generalizing l with
  | zero => simp [takeP]
  | succ n ih => cases l <;> simp [takeP, ih]

theorem takeP_pad1 (z : α) (n : Nat) : takeP z n [z] = takeP z n [] := by
  cases n <;> simp [takeP]

theorem takeP_nil (z : α) (n : Nat) : takeP z n [] = List.replicate n z := by
  induction n with
  | zero => simp [takeP]
  | succ n ih => simp [takeP, ih, List.replicate_succ]

theorem take_cons_takeP (z x : α) (n : Nat) (l : List α) :
    (x :: takeP z n l).take n = takeP z n (x :: l) := by
  induction n generalizing x l with
  | zero => simp [takeP]
  | succ n ih =>
    cases l with
    | nil => simp [takeP, List.take_succ_cons, ih, takeP_pad1]
    | cons y ys => simp [takeP, List.take_succ_cons, ih]

theorem take_cons_take (y : α) (n : Nat) (l : List α) :
    (y :: l.take n).take n = (y :: l).take n := by
  cases n with
  | zero => simp
  | succ n => simp [List.take_succ_cons, List.take_take]

/-- **core of C04**: the shifting bounded state computes the difference equation over unbounded
histories — for every coefficient list, every memory of sufficient length, every input length;
no algebraic law is needed. -/
theorem frun_eq_fspec (b as : List α) (a0 zero : α) :
    ∀ (xs hy hx : List α), as.length ≤ hy.length →
      frun b as a0 ⟨hy.take as.length, takeP zero (b.length - 1) hx⟩ xs
        = fspec b as a0 zero hy hx xs := by
  intro xs
  induction xs with
  | nil => intro hy hx _; simp [frun, fspec]
  | cons x xs ih =>
    intro hy hx hlen
    have hy1 : dot as (hy.take as.length) = dot as hy := dot_take as hy
    have hb : dot b (x :: takeP zero (b.length - 1) hx) = dot b (takeP zero b.length (x :: hx)) := by
      cases b with
      | nil => simp [dot]
      | cons b0 bs => simp [takeP]
    simp only [frun, fspec, fstep, hy1, hb]
    congr 1
    have hm : (hy.take as.length).length = as.length := by simp; omega
    have := ih (((dot b (takeP zero b.length (x :: hx)) - dot as hy) / a0) :: hy) (x :: hx)
      (by simp; omega)
    rw [← this]
    congr 2
    · rw [hm, take_cons_take]
    · rw [takeP_length, take_cons_takeP]

theorem frun_length (b as : List α) (a0 : α) (s : FState α) (xs : List α) :
    (frun b as a0 s xs).length = xs.length := by
  induction xs generalizing s with
  | nil => simp [frun]
  | cons x xs ih => simp [frun, ih]

theorem fspec_length (b as : List α) (a0 zero : α) (hy hx xs : List α) :
    (fspec b as a0 zero hy hx xs).length = xs.length := by
  induction xs generalizing hy hx with
  | nil => simp [fspec]
  | cons x xs ih => simp [fspec, ih]

theorem take_eq_of_take_succ (l l' : List α) (n : Nat) (h : l.take (n + 1) = l'.take (n + 1)) :
    l.take n = l'.take n := by
  have := congrArg (List.take n) h
  simpa [List.take_take, Nat.min_eq_left (Nat.le_succ n)] using this

/-- only the first `as.length` items of the output history / memory are ever read -/
theorem fspec_congr_hy (b as : List α) (a0 zero : α) :
    ∀ (xs hy hy' hx : List α), hy.take as.length = hy'.take as.length →
      fspec b as a0 zero hy hx xs = fspec b as a0 zero hy' hx xs := by
  intro xs
  induction xs with
  | nil => intros; simp [fspec]
  | cons x xs ih =>
    intro hy hy' hx h
    have hd : dot as hy = dot as hy' := by
      rw [← dot_take as hy, ← dot_take as hy', h]
    simp only [fspec, hd]
    congr 1
    apply ih
    cases hn : as.length with
    | zero => simp
    | succ n =>
      rw [hn] at h
      simp only [List.take_succ_cons]
      rw [take_eq_of_take_succ _ _ _ h]

end machine

/-! ### the sequential shift -/
section shift
variable [OfNat α 0]

/-- `l[n] = l[n-1]; …; l[1] = l[0]`, one assignment after the other -/
def shiftList (l : List α) (n : Nat) : List α :=
  (List.range n).reverse.foldl (fun l i => l.set (i + 1) (l.getD i 0)) l

theorem shiftList_succ (l : List α) (n : Nat) :
    shiftList l (n + 1) = shiftList (l.set (n + 1) (l.getD n 0)) n := by
  simp [shiftList, List.range_succ]

theorem shiftList_length (l : List α) (n : Nat) : (shiftList l n).length = l.length := by
  induction n generalizing l with
  | zero => simp [shiftList]
  | succ n ih => rw [shiftList_succ, ih]; simp

/-- descending sequential assignment = parallel shift: slot `j ∈ [1, n]` receives the old slot `j-1` -/
theorem shiftList_getElem? (l : List α) (n j : Nat) (hn : n < l.length) :
    (shiftList l n)[j]? = if 0 < j ∧ j ≤ n then l[j - 1]? else l[j]? := by
  induction n generalizing l with
  | zero =>
    have : ¬ (0 < j ∧ j ≤ 0) := by omega
    rw [if_neg this]
    simp [shiftList]
  | succ n ih =>
    rw [shiftList_succ, ih _ (by simp; omega)]
    by_cases h1 : 0 < j ∧ j ≤ n
    · have : 0 < j ∧ j ≤ n + 1 := ⟨h1.1, by omega⟩
      simp only [h1, this, and_self, if_true]
      rw [List.getElem?_set_ne (by omega)]
    · by_cases h2 : j = n + 1
      · subst h2
        have h3 : ¬ (0 < n + 1 ∧ n + 1 ≤ n) := by omega
        simp only [h3, if_false]
        simp only [Nat.lt_add_one, Nat.le_refl, and_self, if_true, Nat.add_sub_cancel]
        rw [List.getElem?_set_self (by omega)]
        simp [List.getD_eq_getElem?_getD]
        rw [List.getElem?_eq_getElem (by omega)]
        simp
      · have h3 : ¬ (0 < j ∧ j ≤ n + 1) := by omega
        simp only [h1, h3, if_false]
        rw [List.getElem?_set_ne (by omega)]

/-- the generated shift applied to `[y, m1, …, m_n]` gives `[y, y, m1, …, m_{n-1}]` -/
theorem shiftList_cons (y : α) (ms : List α) :
    shiftList (y :: ms) ms.length = y :: (y :: ms).take ms.length := by
  apply List.ext_getElem?
  intro j
  rw [shiftList_getElem? _ _ _ (by simp)]
  cases j with
  | zero => simp
  | succ j =>
    by_cases h : j + 1 ≤ ms.length
    · simp [h, List.getElem?_take]
      intro h'; omega
    · have h' : ¬ j < ms.length := by omega
      simp [h, h', List.getElem?_take]

end shift

end ALV.C04
