/-
  C18 — the normalised samples lie in [-1, 1), in any linearly ordered field.
  (single Mathlib modules only)
-/
import ALV.Lemmas.C18Wav
import Mathlib.Algebra.Order.Field.Basic
import Mathlib.Algebra.Order.Ring.Cast
namespace ALV.C18

variable {K : Type} [Field K] [LinearOrder K] [IsStrictOrderedRing K]

theorem normalise_range (bits : Nat) (n : Int)
    (h1 : -(2 ^ (bits - 1)) ≤ n) (h2 : n < 2 ^ (bits - 1)) :
    (-1 : K) ≤ normalise bits n ∧ (normalise bits n : K) < 1 := by
  unfold normalise
  have hP : (0 : Int) < 2 ^ (bits - 1) := Int.pow_pos (by omega)
  have hPK : (0 : K) < ((2 ^ (bits - 1) : Int) : K) := by exact_mod_cast hP
  constructor
  · rw [le_div_iff₀ hPK]
    have : ((-(2 ^ (bits - 1)) : Int) : K) ≤ (n : K) := by exact_mod_cast h1
    simpa using this
  · rw [div_lt_one hPK]
    exact_mod_cast h2

/-- whatever bytes the file holds, every value yielded without `keep` lies in [-1, 1) -/
theorem dataGenerator_range (bits : Nat) (samples : List Bytes) (x : K)
    (hx : Sample.scaled x ∈ (dataGenerator bits false samples : Gen (Sample K) WavErr).out) :
    (-1 : K) ≤ x ∧ x < 1 := by
  unfold dataGenerator at hx
  cases hu : unpacker bits with
  | none => rw [hu] at hx; simp at hx
  | some up =>
    rw [hu] at hx
    simp only [Bool.false_eq_true, if_false] at hx
    obtain ⟨el, _, hel⟩ := mem_genMap_out _ _ _ hx
    by_cases h8 : bits = 8
    · subst h8
      have hu8 : up = unpack8 := by
        have : unpacker 8 = some unpack8 := rfl
        rw [this] at hu; cases hu; rfl
      subst hu8
      simp only [if_true] at hel
      cases hv : unpack8 el with
      | error e => rw [hv] at hel; simp [Except.map] at hel
      | ok n =>
        rw [hv] at hel
        simp only [Except.map, Except.ok.injEq, Sample.scaled.injEq] at hel
        rw [← hel]
        have hr := (unpacker_range 8 unpack8 rfl el n hv).1 rfl
        exact normalise_range 8 (n - 128) (by simp; omega) (by simp; omega)
    · simp only [if_neg h8] at hel
      cases hv : up el with
      | error e => rw [hv] at hel; simp [Except.map] at hel
      | ok n =>
        rw [hv] at hel
        simp only [Except.map, Except.ok.injEq, Sample.scaled.injEq] at hel
        rw [← hel]
        have hr := (unpacker_range bits up hu el n hv).2 h8
        exact normalise_range bits n hr.1 hr.2

end ALV.C18
