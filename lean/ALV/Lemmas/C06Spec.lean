/-
  C06 — helper lemmas, part 2: the specification `tvspec`.

  * `tvspec_length`   — the output ends with the shortest of input and coefficient streams;
  * `tvspec_diffeq`   — it satisfies the indexed sentence of the property (`TVDiffEq`);
  * `tvspec_congr`    — only the first `n` items of every coefficient matter (⇒ a constant stream
                        behaves like the constant; a long enough prefix stands for an endless stream);
  * `tvspec_const`    — all coefficients constant ⇒ C04's `fspec`;
  * `tvspec_gain`     — dividing every coefficient by the gain stream (`* (1 / a0)`) and using gain 1
                        is dividing the output equation by `a0[n]` (the variable-gain rewriting).
-/
import ALV.Lemmas.C06
import ALV.Lemmas.C04Index

set_option linter.unusedSectionVars false
set_option linter.unusedSimpArgs false
set_option linter.unusedVariables false
namespace ALV.C06
open ALV.C04
variable {K : Type} [Field K] [DecidableEq K]

/-! ### defined / rows -/

theorem get?_isSome_iff (c : Coef K) (n : Nat) : (c.get? n).isSome ↔ c.defined n := by
  cases c with
  | const c => simp [Coef.get?, Coef.defined]
  | strm s =>
    simp only [Coef.get?, Coef.defined]
    constructor
    · intro h
      by_contra hn
      rw [List.getElem?_eq_none (by omega)] at h
      simp at h
    · intro h; simp [List.getElem?_eq_getElem h]

theorem get?_eq_some_val {c : Coef K} {n : Nat} {v : K} (h : c.get? n = some v) : c.val n = v := by
  simp [Coef.val, h]

theorem get?_of_defined {c : Coef K} {n : Nat} (h : c.defined n) : c.get? n = some (c.val n) := by
  have := (get?_isSome_iff c n).2 h
  cases hg : c.get? n with
  | none => simp [hg] at this
  | some v => simp [Coef.val, hg]

theorem get?_none_of_not_defined {c : Coef K} {n : Nat} (h : ¬ c.defined n) : c.get? n = none := by
  cases hg : c.get? n with
  | none => rfl
  | some v => exact absurd ((get?_isSome_iff c n).1 (by simp [hg])) h

/-- the row of values at `n` -/
def rowV (cs : List (Coef K)) (n : Nat) : List K := cs.map (fun c => c.val n)

theorem row?_of_defined {cs : List (Coef K)} {n : Nat} (h : ∀ c ∈ cs, c.defined n) :
    row? cs n = some (rowV cs n) := by
  induction cs with
  | nil => rfl
  | cons c cs ih =>
    rw [row?_cons_some (get?_of_defined (h c (by simp))) (ih (fun c hc => h c (by simp [hc])))]
    rfl

theorem row?_none_of_not_defined {cs : List (Coef K)} {n : Nat} (h : ¬ ∀ c ∈ cs, c.defined n) :
    row? cs n = none := by
  induction cs with
  | nil => simp at h
  | cons c cs ih =>
    by_cases hc : c.defined n
    · apply row?_cons_none_right
      apply ih
      intro hall
      apply h
      intro c' hc'
      rcases List.mem_cons.1 hc' with rfl | h'
      · exact hc
      · exact hall c' h'
    · exact row?_cons_none_left (get?_none_of_not_defined hc)

theorem row?_eq_some_rowV {cs : List (Coef K)} {n : Nat} {r : List K} (h : row? cs n = some r) :
    r = rowV cs n ∧ ∀ c ∈ cs, c.defined n := by
  by_cases hd : ∀ c ∈ cs, c.defined n
  · rw [row?_of_defined hd] at h
    exact ⟨by simpa using h.symm, hd⟩
  · rw [row?_none_of_not_defined hd] at h; simp at h

theorem rowV_length (cs : List (Coef K)) (n : Nat) : (rowV cs n).length = cs.length := by
  simp [rowV]

theorem rowV_getD (cs : List (Coef K)) (n k : Nat) : (rowV cs n).getD k 0 = (cs.getD k 0).val n := by
  simp only [rowV, List.getD_eq_getElem?_getD, List.getElem?_map]
  cases h : cs[k]? with
  | none => simp [Coef.val, Coef.get?, OfNat.ofNat]
  | some c => simp

/-! ### ends with the shortest -/

theorem endLen_zero (cs : List (Coef K)) : endLen 0 cs = 0 := by
  induction cs with
  | nil => rfl
  | cons c cs ih => cases c <;> simp [endLen, ih]

theorem endLen_succ (cs : List (Coef K)) (n : Nat) : ∀ k : Nat,
    ((∀ c ∈ cs, c.defined n) →
      endLen (k + 1) (cs.map (Coef.dropC n)) = endLen k (cs.map (Coef.dropC (n + 1))) + 1) ∧
    (¬ (∀ c ∈ cs, c.defined n) → endLen (k + 1) (cs.map (Coef.dropC n)) = 0) := by
  induction cs with
  | nil => intro k; simp [endLen]
  | cons c cs ih =>
    intro k
    cases c with
    | const c0 =>
      obtain ⟨i1, i2⟩ := ih k
      constructor
      · intro h
        simpa [Coef.dropC, endLen] using i1 (fun c hc => h c (by simp [hc]))
      · intro h
        have : ¬ ∀ c ∈ cs, c.defined n := by
          intro hall
          apply h
          intro c hc
          rcases List.mem_cons.1 hc with rfl | hc
          · trivial
          · exact hall c hc
        simpa [Coef.dropC, endLen] using i2 this
    | strm s =>
      simp only [List.map_cons, Coef.dropC, endLen, List.length_drop]
      by_cases hn : n < s.length
      · have e : min (k + 1) (s.length - n) = min k (s.length - (n + 1)) + 1 := by omega
        obtain ⟨i1, i2⟩ := ih (min k (s.length - (n + 1)))
        rw [e]
        constructor
        · intro h; exact i1 (fun c hc => h c (by simp [hc]))
        · intro h
          apply i2
          intro hall
          apply h
          intro c hc
          rcases List.mem_cons.1 hc with rfl | hc
          · exact hn
          · exact hall c hc
      · have e : min (k + 1) (s.length - n) = 0 := by omega
        rw [e, endLen_zero]
        constructor
        · intro h; exact absurd (h (Coef.strm s) (by simp)) hn
        · intro _; trivial

theorem dropC_zero (cs : List (Coef K)) : cs.map (Coef.dropC 0) = cs := by
  induction cs with
  | nil => rfl
  | cons c cs ih => cases c <;> simp [Coef.dropC, ih]

/-- **ends with the shortest**: the number of outputs from output `n` on -/
theorem tvspec_length_from (b as : List (Coef K)) (a0 : Coef K) (zero : K) :
    ∀ (xs : List K) (n : Nat) (hy hx : List K),
      (tvspec b as a0 zero n hy hx xs).length
        = endLen xs.length ((a0 :: (b ++ as)).map (Coef.dropC n)) := by
  intro xs
  induction xs with
  | nil => intro n hy hx; simp [tvspec, endLen_zero]
  | cons x xs ih =>
    intro n hy hx
    rw [List.length_cons]
    by_cases hd : ∀ c ∈ a0 :: (b ++ as), c.defined n
    · rw [(endLen_succ _ n _).1 hd]
      have hb : ∀ c ∈ b, c.defined n := fun c hc => hd c (by simp [hc])
      have ha : ∀ c ∈ as, c.defined n := fun c hc => hd c (by simp [hc])
      have hg : a0.defined n := hd a0 (by simp)
      simp only [tvspec, row?_of_defined hb, row?_of_defined ha, get?_of_defined hg,
        List.length_cons, ih]
    · have : row? b n = none ∨ row? as n = none ∨ a0.get? n = none := by
        by_contra hcon
        simp only [not_or] at hcon
        apply hd
        intro c hc
        rcases List.mem_cons.1 hc with rfl | hc
        · exact (get?_isSome_iff _ n).1 (by
            cases h : c.get? n with
            | none => exact absurd h hcon.2.2
            | some v => rfl)
        · rcases List.mem_append.1 hc with hc | hc
          · cases h : row? b n with
            | none => exact absurd h hcon.1
            | some r => exact (row?_eq_some_rowV h).2 c hc
          · cases h : row? as n with
            | none => exact absurd h hcon.2.1
            | some r => exact (row?_eq_some_rowV h).2 c hc
      rw [(endLen_succ _ n _).2 hd]
      rcases this with h | h | h
      · simp [tvspec, h]
      · cases hb : row? b n <;> simp [tvspec, hb, h]
      · cases hb : row? b n <;> cases ha : row? as n <;> simp [tvspec, hb, ha, h]

theorem tvspec_length (b as : List (Coef K)) (a0 : Coef K) (zero : K) (mem xs : List K) :
    (tvspec b as a0 zero 0 mem [] xs).length = endLen xs.length (a0 :: (b ++ as)) := by
  rw [tvspec_length_from, dropC_zero]

theorem endLen_le (cs : List (Coef K)) : ∀ n, endLen n cs ≤ n := by
  induction cs with
  | nil => intro n; simp [endLen]
  | cons c cs ih =>
    intro n
    cases c with
    | const c0 => simpa [endLen] using ih n
    | strm s =>
      simp only [endLen]
      exact Nat.le_trans (ih _) (Nat.min_le_left _ _)

theorem endLen_mono (cs : List (Coef K)) : ∀ m n, m ≤ n → endLen m cs ≤ endLen n cs := by
  induction cs with
  | nil => intro m n h; simpa [endLen] using h
  | cons c cs ih =>
    intro m n h
    cases c with
    | const c0 => simpa [endLen] using ih m n h
    | strm s =>
      simp only [endLen]
      apply ih
      omega

/-- no coefficient stream is shorter than the number of outputs -/
theorem endLen_le_stream (cs : List (Coef K)) (s : List K) (hs : Coef.strm s ∈ cs) :
    ∀ n, endLen n cs ≤ s.length := by
  induction cs with
  | nil => simp at hs
  | cons c cs ih =>
    intro n
    rcases List.mem_cons.1 hs with h | h
    · subst h
      simp only [endLen]
      exact Nat.le_trans (endLen_le _ _) (Nat.min_le_right _ _)
    · cases c with
      | const c0 => simpa [endLen] using ih h n
      | strm t => simp only [endLen]; exact ih h _

/-- every index below the number of outputs is inside every coefficient stream -/
theorem defined_of_lt_endLen (cs : List (Coef K)) (n i : Nat) (hi : i < endLen n cs) :
    ∀ c ∈ cs, c.defined i := by
  intro c hc
  cases c with
  | const c0 => trivial
  | strm s =>
    have := endLen_le_stream cs s hc n
    simp only [Coef.defined]
    omega

/-! ### the indexed sentence -/

/-- one step of `tvspec`, read at output index `i` -/
theorem tvspec_getD (b as : List (Coef K)) (a0 : Coef K) (zero : K) :
    ∀ (xs : List K) (n : Nat) (hy hx : List K) (i : Nat),
      i < (tvspec b as a0 zero n hy hx xs).length →
      (tvspec b as a0 zero n hy hx xs).getD i 0
        = (dot (rowV b (n + i)) (takeP zero b.length ((xs.take (i + 1)).reverse ++ hx))
            - dot (rowV as (n + i)) (((tvspec b as a0 zero n hy hx xs).take i).reverse ++ hy))
          / a0.val (n + i) := by
  intro xs
  induction xs with
  | nil => intro n hy hx i hi; simp [tvspec] at hi
  | cons x xs ih =>
    intro n hy hx i hi
    cases hb : row? b n with
    | none => simp [tvspec, hb] at hi
    | some bn =>
      cases ha : row? as n with
      | none => simp [tvspec, hb, ha] at hi
      | some an =>
        cases hg : a0.get? n with
        | none => simp [tvspec, hb, ha, hg] at hi
        | some g =>
          have ebn := (row?_eq_some_rowV hb).1
          have ean := (row?_eq_some_rowV ha).1
          have eg := get?_eq_some_val hg
          have lb : bn.length = b.length := row?_length hb
          simp only [tvspec, hb, ha, hg] at hi ⊢
          cases i with
          | zero => simp [← ebn, ← ean, eg, lb]
          | succ i =>
            have hi' : i < (tvspec b as a0 zero (n + 1)
                (((dot bn (takeP zero bn.length (x :: hx)) - dot an hy) / g) :: hy) (x :: hx) xs).length := by
              simpa using hi
            simp only [List.getD_cons_succ, List.take_succ_cons, List.reverse_cons,
              List.append_assoc, List.singleton_append]
            rw [ih _ _ _ i hi']
            have : n + 1 + i = n + (i + 1) := by omega
            rw [this]

/-- **the solution computed over unbounded histories satisfies the sentence of the property**
(`a0[n] ≠ 0` wherever an output is produced) -/
theorem tvspec_diffeq (b as : List (Coef K)) (a0 : Coef K) (zero : K) (mem xs : List K)
    (hmem : as.length ≤ mem.length)
    (ha0 : ∀ n, n < (tvspec b as a0 zero 0 mem [] xs).length → a0.val n ≠ 0) :
    TVDiffEq b a0 as zero mem xs (tvspec b as a0 zero 0 mem [] xs) := by
  refine ⟨tvspec_length _ _ _ _ _ _, ?_⟩
  intro n hn
  have hlen : (tvspec b as a0 zero 0 mem [] xs).length ≤ xs.length := by
    rw [tvspec_length]; exact endLen_le _ _
  have hy : yAt zero mem (tvspec b as a0 zero 0 mem [] xs) (n : Int)
      = (tvspec b as a0 zero 0 mem [] xs).getD n 0 := by
    have h1 : ¬ ((n : Int) < 0) := by omega
    simp only [yAt, h1, if_false, Int.toNat_natCast, List.getD_eq_getElem?_getD]
    rw [List.getElem?_eq_getElem (by omega)]
    simp
  rw [hy, tvspec_getD b as a0 zero xs 0 mem [] n hn, Nat.zero_add,
    mul_div_cancel₀ _ (ha0 n hn), dot_eq_sigma, dot_eq_sigma, rowV_length, rowV_length]
  congr 1
  · apply sigma_congr
    intro k hk
    rw [takeP_getD _ _ _ _ hk, rev_take_getD zero xs n k (by omega), rowV_getD]
  · apply sigma_congr
    intro k hk
    rw [hist_getD zero mem _ n k (by omega) (by omega), rowV_getD]

/-! ### only the first items matter; constant streams; constants -/

/-- two coefficients deliver the same values for the outputs below `N` -/
def Coef.agree (N : Nat) (c c' : Coef K) : Prop := ∀ i, i < N → c.get? i = c'.get? i

theorem row?_congr {N : Nat} {cs cs' : List (Coef K)} (h : List.Forall₂ (Coef.agree N) cs cs')
    (i : Nat) (hi : i < N) : row? cs i = row? cs' i := by
  induction h with
  | nil => rfl
  | cons hc _ ih => rw [row?_cons, row?_cons, hc i hi, ih]

/-- outputs `n … n+|xs|-1` only look at the coefficient items below `n + |xs|` -/
theorem tvspec_congr (zero : K) {b b' as as' : List (Coef K)} {a0 a0' : Coef K} :
    ∀ (xs : List K) (n : Nat) (hy hx : List K),
      List.Forall₂ (Coef.agree (n + xs.length)) b b' →
      List.Forall₂ (Coef.agree (n + xs.length)) as as' →
      Coef.agree (n + xs.length) a0 a0' →
      tvspec b as a0 zero n hy hx xs = tvspec b' as' a0' zero n hy hx xs := by
  intro xs
  induction xs with
  | nil => intros; simp [tvspec]
  | cons x xs ih =>
    intro n hy hx hb ha hg
    have hn : n < n + (x :: xs).length := by simp
    simp only [tvspec, row?_congr hb n hn, row?_congr ha n hn, hg n hn]
    cases h1 : row? b' n with
    | none => rfl
    | some bn =>
      cases h2 : row? as' n with
      | none => rfl
      | some an =>
        cases h3 : a0'.get? n with
        | none => rfl
        | some g =>
          simp only
          congr 1
          have e : n + 1 + xs.length = n + (x :: xs).length := by simp; omega
          apply ih <;> rw [e] <;> assumption

/-- a constant stream (at least as long as needed) agrees with the constant -/
theorem agree_const_replicate (c : K) (N M : Nat) (h : N ≤ M) :
    Coef.agree N (Coef.strm (List.replicate M c)) (Coef.const c) := by
  intro i hi
  simp only [Coef.get?]
  rw [List.getElem?_replicate]
  simp
  omega

theorem agree_refl (N : Nat) (c : Coef K) : Coef.agree N c c := fun _ _ => rfl

theorem forall₂_agree_refl (N : Nat) (cs : List (Coef K)) : List.Forall₂ (Coef.agree N) cs cs := by
  induction cs with
  | nil => exact .nil
  | cons c cs ih => exact .cons (agree_refl N c) ih

theorem row?_map_const (l : List K) (n : Nat) : row? (l.map Coef.const) n = some l := by
  induction l with
  | nil => rfl
  | cons c cs ih => rw [List.map_cons, row?_cons_some (v := c) rfl ih]

/-- all coefficients constant: the time-varying equation is C04's difference equation -/
theorem tvspec_const (b as : List K) (a0 zero : K) :
    ∀ (xs : List K) (n : Nat) (hy hx : List K),
      tvspec (b.map Coef.const) (as.map Coef.const) (Coef.const a0) zero n hy hx xs
        = fspec b as a0 zero hy hx xs := by
  intro xs
  induction xs with
  | nil => intros; simp [tvspec, fspec]
  | cons x xs ih =>
    intro n hy hx
    simp only [tvspec, fspec, row?_map_const, Coef.get?, ih]

/-! ### the variable-gain rewriting at the level of the equation -/

/-- `Poly.__mul__` by the one-term polynomial `Poly(inv_gain)` multiplies the stored
coefficients; an absent power stays absent (`Poly.__getitem__` gives the constant zero) -/
def mulPresent (inv : Coef K) (c : Coef K) : Coef K := if c = Coef.const 0 then Coef.const 0 else c * inv

theorem dot_map_mul (l v : List K) (i : K) : dot (l.map (· * i)) v = dot l v * i := by
  induction l generalizing v with
  | nil => cases v <;> simp [dot]
  | cons c cs ih =>
    cases v with
    | nil => simp [dot]
    | cons w ws => simp only [List.map_cons, dot, ih]; ring

theorem get?_mul_strm (c : Coef K) (t : List K) (n : Nat) :
    (c * Coef.strm t).get? n = match c.get? n, t[n]? with
      | some v, some w => some (v * w)
      | _, _ => none := by
  cases c with
  | const c0 =>
    show (Coef.lift2 (· * ·) (Coef.const c0) (Coef.strm t)).get? n = _
    simp only [Coef.lift2, Coef.get?, List.getElem?_map]
    cases t[n]? <;> rfl
  | strm s =>
    show (Coef.lift2 (· * ·) (Coef.strm s) (Coef.strm t)).get? n = _
    simp only [Coef.lift2, Coef.get?, List.getElem?_zipWith]
    cases s[n]? <;> cases t[n]? <;> rfl

theorem defined_mul_strm (c : Coef K) (t : List K) (n : Nat) :
    (c * Coef.strm t).defined n ↔ c.defined n ∧ n < t.length := by
  cases c with
  | const c0 =>
    show (Coef.lift2 (· * ·) (Coef.const c0) (Coef.strm t)).defined n ↔ _
    simp [Coef.lift2, Coef.defined]
  | strm s =>
    show (Coef.lift2 (· * ·) (Coef.strm s) (Coef.strm t)).defined n ↔ _
    simp [Coef.lift2, Coef.defined]

theorem val_mul_strm (c : Coef K) (t : List K) (n : Nat) (hc : c.defined n) (ht : n < t.length) :
    (c * Coef.strm t).val n = c.val n * t[n] := by
  cases hv : c.get? n with
  | none =>
    have := (get?_isSome_iff c n).2 hc
    simp [hv] at this
  | some v => simp [Coef.val, get?_mul_strm, hv, List.getElem?_eq_getElem ht]

theorem defined_mulPresent (c : Coef K) (t : List K) (n : Nat) :
    (mulPresent (Coef.strm t) c).defined n ↔ c.defined n ∧ (c = Coef.const 0 ∨ n < t.length) := by
  unfold mulPresent
  by_cases hc : c = Coef.const 0
  · subst hc; simp [Coef.defined]
  · rw [if_neg hc, defined_mul_strm]
    constructor
    · rintro ⟨h1, h2⟩; exact ⟨h1, Or.inr h2⟩
    · rintro ⟨h1, h2 | h2⟩
      · exact absurd h2 hc
      · exact ⟨h1, h2⟩

theorem val_mulPresent (c : Coef K) (t : List K) (n : Nat) (hc : c.defined n) (ht : n < t.length) :
    (mulPresent (Coef.strm t) c).val n = c.val n * t[n] := by
  unfold mulPresent
  by_cases h0 : c = Coef.const 0
  · subst h0; simp [Coef.val, Coef.get?]
  · simp only [h0, if_false]; exact val_mul_strm c t n hc ht

theorem rowV_mulPresent (cs : List (Coef K)) (t : List K) (n : Nat) (hd : ∀ c ∈ cs, c.defined n)
    (ht : n < t.length) :
    rowV (cs.map (mulPresent (Coef.strm t))) n = (rowV cs n).map (· * t[n]) := by
  induction cs with
  | nil => rfl
  | cons c cs ih =>
    simp only [rowV, List.map_cons, List.map_map] at ih ⊢
    rw [val_mulPresent c t n (hd c (by simp)) ht, ih (fun c hc => hd c (by simp [hc]))]

/-- **variable gain**: with every stored coefficient multiplied by `1/a0` (as a Stream, element
by element) and the gain replaced by the constant 1, the equation is the one with gain `a0[n]` —
provided some coefficient is stored at all (the all-zero filter never looks at its gain). -/
theorem tvspec_gain (b as : List (Coef K)) (gs : List K) (zero : K)
    (hnz : ¬ ((∀ c ∈ b, c = Coef.const 0) ∧ (∀ c ∈ as, c = Coef.const 0))) :
    ∀ (xs : List K) (n : Nat) (hy hx : List K),
      tvspec (b.map (mulPresent (Coef.strm (gs.map (1 / ·)))))
          (as.map (mulPresent (Coef.strm (gs.map (1 / ·))))) (Coef.const 1) zero n hy hx xs
        = tvspec b as (Coef.strm gs) zero n hy hx xs := by
  intro xs
  induction xs with
  | nil => intros; simp [tvspec]
  | cons x xs ih =>
    intro n hy hx
    by_cases hD : (∀ c ∈ b, c.defined n) ∧ (∀ c ∈ as, c.defined n) ∧ n < gs.length
    · obtain ⟨hb, ha, hg⟩ := hD
      have ht : n < (gs.map (1 / ·)).length := by simpa using hg
      have hb' : ∀ c ∈ b.map (mulPresent (Coef.strm (gs.map (1 / ·)))), c.defined n := by
        intro c hc
        obtain ⟨c', hc', rfl⟩ := List.mem_map.1 hc
        exact (defined_mulPresent c' _ n).2 ⟨hb c' hc', Or.inr ht⟩
      have ha' : ∀ c ∈ as.map (mulPresent (Coef.strm (gs.map (1 / ·)))), c.defined n := by
        intro c hc
        obtain ⟨c', hc', rfl⟩ := List.mem_map.1 hc
        exact (defined_mulPresent c' _ n).2 ⟨ha c' hc', Or.inr ht⟩
      have hgv : (Coef.strm gs).get? n = some gs[n] := get?_strm_lt hg
      have hg1 : (Coef.const (1 : K)).get? n = some 1 := rfl
      simp only [tvspec, row?_of_defined hb, row?_of_defined ha, row?_of_defined hb',
        row?_of_defined ha', hgv, hg1, rowV_mulPresent b _ n hb ht,
        rowV_mulPresent as _ n ha ht, dot_map_mul, List.length_map, List.getElem_map]
      have hval : ∀ p q : K, (p * (1 / gs[n]) - q * (1 / gs[n])) / 1 = (p - q) / gs[n] := by
        intro p q; rw [div_one, ← sub_mul, mul_one_div]
      rw [hval, ih]
    · -- some value is missing at `n`: both sides end here
      have hR : tvspec b as (Coef.strm gs) zero n hy hx (x :: xs) = [] := by
        by_cases hb : ∀ c ∈ b, c.defined n
        · by_cases ha : ∀ c ∈ as, c.defined n
          · have hg : ¬ n < gs.length := fun hg => hD ⟨hb, ha, hg⟩
            simp [tvspec, row?_of_defined hb, row?_of_defined ha, get?_strm_ge (Nat.le_of_not_lt hg)]
          · simp [tvspec, row?_of_defined hb, row?_none_of_not_defined ha]
        · simp [tvspec, row?_none_of_not_defined hb]
      rw [hR]
      have hL : ¬ ((∀ c ∈ b.map (mulPresent (Coef.strm (gs.map (1 / ·)))), c.defined n) ∧
          (∀ c ∈ as.map (mulPresent (Coef.strm (gs.map (1 / ·)))), c.defined n)) := by
        rintro ⟨hb', ha'⟩
        have hb : ∀ c ∈ b, c.defined n := fun c hc =>
          ((defined_mulPresent c _ n).1 (hb' _ (List.mem_map.2 ⟨c, hc, rfl⟩))).1
        have ha : ∀ c ∈ as, c.defined n := fun c hc =>
          ((defined_mulPresent c _ n).1 (ha' _ (List.mem_map.2 ⟨c, hc, rfl⟩))).1
        apply hD
        refine ⟨hb, ha, ?_⟩
        by_contra hg
        apply hnz
        constructor
        · intro c hc
          rcases ((defined_mulPresent c _ n).1 (hb' _ (List.mem_map.2 ⟨c, hc, rfl⟩))).2 with h | h
          · exact h
          · exact absurd (by simpa using h) hg
        · intro c hc
          rcases ((defined_mulPresent c _ n).1 (ha' _ (List.mem_map.2 ⟨c, hc, rfl⟩))).2 with h | h
          · exact h
          · exact absurd (by simpa using h) hg
      by_cases hb' : ∀ c ∈ b.map (mulPresent (Coef.strm (gs.map (1 / ·)))), c.defined n
      · have ha' : ¬ ∀ c ∈ as.map (mulPresent (Coef.strm (gs.map (1 / ·)))), c.defined n :=
          fun ha' => hL ⟨hb', ha'⟩
        simp only [tvspec, row?_of_defined hb', row?_none_of_not_defined ha']
      · simp only [tvspec, row?_none_of_not_defined hb']

end ALV.C06
