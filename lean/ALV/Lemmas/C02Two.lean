/-
  C02 — two counted sources, one of which ends: the protocol equals the closed forms.
-/
import ALV.Spec.C02
namespace ALV.C02

local macro "twofin" : tactic => `(tactic| first
  | omega
  | rfl
  | (apply decide_eq_decide.2; constructor <;> intro _ <;> omega)
  | exact Bool.decide_and ..)

theorem twoProbe_mapzip_get : ∀ (K : Nat) (s : Two) (k : Nat), k < K →
    (twoProbe mapzipDemand K s)[k]? =
      some (decide (k + 1 ≤ s.la ∧ k + 1 ≤ s.lb), s.ra + min (k + 1) s.la,
        s.rb + min (k + 1) (min s.la s.lb)) := by
  intro K
  induction K with
  | zero => intro s k h; omega
  | succ K ih =>
    intro s k hk
    obtain ⟨la, lb, ra, rb⟩ := s
    rw [twoProbe]
    cases k with
    | zero =>
      rw [List.getElem?_cons_zero]
      rcases la with _ | la <;> rcases lb with _ | lb <;> simp [mapzipDemand] <;> (repeat' apply And.intro) <;> twofin
    | succ k =>
      rw [List.getElem?_cons_succ, ih _ k (by omega)]
      rcases la with _ | la <;> rcases lb with _ | lb <;> simp [mapzipDemand] <;> (repeat' apply And.intro) <;> twofin

theorem twoProbe_chain_get : ∀ (K : Nat) (s : Two) (k : Nat), k < K →
    (twoProbe chainDemand K s)[k]? =
      some (decide (k + 1 ≤ s.la + s.lb), s.ra + min (k + 1) s.la, s.rb + min (k + 1 - s.la) s.lb) := by
  intro K
  induction K with
  | zero => intro s k h; omega
  | succ K ih =>
    intro s k hk
    obtain ⟨la, lb, ra, rb⟩ := s
    rw [twoProbe]
    cases k with
    | zero =>
      rw [List.getElem?_cons_zero]
      rcases la with _ | la <;> rcases lb with _ | lb <;> simp [chainDemand] <;> (repeat' apply And.intro) <;> twofin
    | succ k =>
      rw [List.getElem?_cons_succ, ih _ k (by omega)]
      rcases la with _ | la <;> rcases lb with _ | lb <;> simp [chainDemand] <;> (repeat' apply And.intro) <;> twofin

theorem twoProbe_longest_get : ∀ (K : Nat) (s : Two) (k : Nat), k < K →
    (twoProbe longestDemand K s)[k]? =
      some (decide (k + 1 ≤ max s.la s.lb), s.ra + min (k + 1) s.la, s.rb + min (k + 1) s.lb) := by
  intro K
  induction K with
  | zero => intro s k h; omega
  | succ K ih =>
    intro s k hk
    obtain ⟨la, lb, ra, rb⟩ := s
    rw [twoProbe]
    cases k with
    | zero =>
      rw [List.getElem?_cons_zero]
      rcases la with _ | la <;> rcases lb with _ | lb <;> simp [longestDemand] <;> (repeat' apply And.intro) <;> twofin
    | succ k =>
      rw [List.getElem?_cons_succ, ih _ k (by omega)]
      rcases la with _ | la <;> rcases lb with _ | lb <;> simp [longestDemand] <;> (repeat' apply And.intro) <;> twofin

end ALV.C02
