/-
  C09 — the definitions regenerated from the source (`ALV/Gen/C09Src.lean`, written by
  `harness/props/c09_tr.py` on every check) are the hand-written model functions.
  Core Lean only.
-/
import ALV.Gen.C09Src
set_option linter.unusedSectionVars false
namespace ALV.C09.Src
open ALV.C09
variable {α : Type}

theorem bindOla_eq : ALV.Gen.C09.bindOla = bindOla := rfl

theorem detectSize_eq : @ALV.Gen.C09.detectSize α = detectSize := rfl

theorem callStep_eq : @ALV.Gen.C09.callStep α = callStep := rfl

theorem resolveOlaObj_eq : @ALV.Gen.C09.resolveOlaObj α = resolveOlaObj := by
  funext size w
  cases w <;> rfl

theorem resolveStftObj_eq : @ALV.Gen.C09.resolveStftObj α = resolveStftObj := by
  funext size w
  cases w <;> rfl

section gain
variable [Add α] [Neg α] [Div α] [OfNat α 0] [OfNat α 1] [NatCast α] [LT α] [DecidableLT α] [DecidableEq α]

theorem hopGain_eq : (ALV.Gen.C09.hopGain : Nat → List α → Option α) = hopGain := rfl

theorem normWnd_eq : (ALV.Gen.C09.normWnd : Nat → Nat → Bool → Option (List α) → Except Err (Option (List α))) = normWnd := rfl
end gain

section loop
variable [Add α] [Mul α] [OfNat α 0]

omit [Mul α] [OfNat α 0] in
theorem olaStep_eq : (ALV.Gen.C09.olaStep : Nat → Nat → List α → List α → List α) = olaStep := rfl

theorem olaLoop_eq : (ALV.Gen.C09.olaLoop : Nat → Nat → List α → List (List α) → Out α) = olaLoop := by
  funext size hop mem blks
  induction blks generalizing mem with
  | nil => rfl
  | cons b rest ih =>
    simp only [ALV.Gen.C09.olaLoop, olaLoop, olaStep_eq, ih]

theorem olaCore_eq : (ALV.Gen.C09.olaCore : Nat → Nat → Option (List α) → List (List α) → Out α) = olaCore := by
  funext size hop w blks
  simp only [ALV.Gen.C09.olaCore, olaCore, olaLoop_eq]
  rfl
end loop

section top
variable [Add α] [Mul α] [Neg α] [Div α] [OfNat α 0] [OfNat α 1] [NatCast α] [LT α] [DecidableLT α] [DecidableEq α]

theorem overlapAddListObj_eq :
    (ALV.Gen.C09.overlapAddListObj : List (List α) → Option Nat → Option Nat → PyWnd α → Bool → Out α) =
      overlapAddListObj := by
  funext blks size? hop? wnd normalize
  simp only [ALV.Gen.C09.overlapAddListObj, overlapAddListObj, detectSize_eq, resolveOlaObj_eq,
    normWnd_eq, olaCore_eq, ALV.Gen.C09.hopDefault]
  rfl
end top

theorem stripOla_eq : ALV.Gen.C09.stripOla = stripOla := rfl

theorem routeRest_eq : ALV.Gen.C09.routeRest = routeRest := by
  funext ola d acc
  induction d generalizing acc with
  | nil => rfl
  | cons kv rest ih =>
    obtain ⟨k, v⟩ := kv
    simp only [ALV.Gen.C09.routeRest, routeRest, stripOla_eq, ih]
    rfl

theorem stftPlan_eq : ALV.Gen.C09.stftPlan = stftPlan := by
  funext kwparams kwargs
  simp only [ALV.Gen.C09.stftPlan, stftPlan, routeRest_eq]
  rfl

end ALV.C09.Src
