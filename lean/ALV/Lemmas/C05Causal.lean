/-
  C05 — causal filters: numerator and denominator are ordinary polynomials in `z⁻¹` and the
  constant coefficient of the denominator is non-zero.  `toPolyL` reads such a dictionary as an
  element of `K[X]`; causality is closed under the operators (no normalisation shift happens),
  and a valid filter that is equivalent to a causal one and whose denominator starts at delay 0
  is causal itself.
-/
import ALV.Lemmas.C05Pow
import ALV.Lemmas.C07Eval
import ALV.Lemmas.C04Poly
import Mathlib.Algebra.Polynomial.Coeff

set_option linter.unusedSectionVars false
set_option linter.unusedSimpArgs false

open LaurentPolynomial

namespace ALV.C05
open ALV.C07
variable {K : Type} [Field K] [DecidableEq K]

/-! ### dictionaries without negative powers are polynomials -/

/-- the polynomial in `X = z⁻¹` that a term list without negative powers denotes -/
noncomputable def toPolyL (p : MPoly K) : Polynomial K :=
  (p.map fun kv => Polynomial.monomial kv.1.toNat kv.2).sum

@[simp] theorem toPolyL_nil : toPolyL ([] : MPoly K) = 0 := rfl

@[simp] theorem toPolyL_cons (a : ℤ × K) (t : MPoly K) :
    toPolyL (a :: t) = Polynomial.monomial a.1.toNat a.2 + toPolyL t := by
  simp [toPolyL]

theorem isPoly_tail {a : ℤ × K} {t : MPoly K} (h : IsPoly (a :: t)) : IsPoly t :=
  fun kv hkv => h kv (List.mem_cons_of_mem _ hkv)

theorem toLaurent_toPolyL {p : MPoly K} (h : IsPoly p) : Polynomial.toLaurent (toPolyL p) = toLaurent p := by
  induction p with
  | nil => simp
  | cons a t ih =>
    have ha : 0 ≤ a.1 := h a List.mem_cons_self
    rw [toPolyL_cons, map_add, ih (isPoly_tail h), toLaurent_cons, ← Polynomial.C_mul_X_pow_eq_monomial,
      Polynomial.toLaurent_C_mul_X_pow, single_eq_C_mul_T, Int.toNat_of_nonneg ha]

theorem coeff_toPolyL {p : MPoly K} (h : IsPoly p) (n : ℕ) : (toPolyL p).coeff n = C07.coeff p n := by
  induction p with
  | nil => simp [C07.coeff]
  | cons a t ih =>
    obtain ⟨k, c⟩ := a
    have ha : 0 ≤ k := h (k, c) List.mem_cons_self
    rw [toPolyL_cons, Polynomial.coeff_add, ih (isPoly_tail h), Polynomial.coeff_monomial]
    simp only [C07.coeff]
    by_cases hk : k = n
    · subst hk; simp
    · have : k.toNat ≠ n := by omega
      simp [hk, this]

/-- coefficients of (the image of) a polynomial at negative powers vanish -/
theorem coeff_toLaurent_neg (P : Polynomial K) {k : ℤ} (hk : k < 0) : (Polynomial.toLaurent P).coeff k = 0 := by
  induction P using Polynomial.induction_on' with
  | add f g hf hg => rw [map_add, AddMonoidAlgebra.coeff_add, Finsupp.add_apply, hf, hg, add_zero]
  | monomial n a =>
    rw [← Polynomial.C_mul_X_pow_eq_monomial, Polynomial.toLaurent_C_mul_X_pow, ← single_eq_C_mul_T,
      AddMonoidAlgebra.coeff_single, Finsupp.single_apply]
    have : (n : ℤ) ≠ k := by omega
    simp [this]

/-- a well-formed dictionary whose Laurent polynomial is a polynomial has no negative power -/
theorem isPoly_of_toLaurent {r : MPoly K} (hr : WF r) (P : Polynomial K)
    (h : toLaurent r = Polynomial.toLaurent P) : IsPoly r := by
  intro kv hkv
  by_contra hneg
  have hlt : kv.1 < 0 := not_le.1 hneg
  have h1 := coeff_toLaurent r kv.1
  rw [h, coeff_toLaurent_neg P hlt, coeff_eq_getD hr.1] at h1
  have h2 : C07.getD r kv.1 = kv.2 := by
    unfold C07.getD
    rw [find?_of_mem hr.1 (k := kv.1) (v := kv.2) hkv]
    rfl
  rw [h2] at h1
  exact hr.2 kv hkv h1.symm

theorem isPoly_mul {p q : MPoly K} (hp : IsPoly p) (hq : IsPoly q) : IsPoly (C07.mul p q) :=
  isPoly_of_toLaurent (wf_mul p q) (toPolyL p * toPolyL q)
    (by rw [toLaurent_mul, map_mul, toLaurent_toPolyL hp, toLaurent_toPolyL hq])

theorem isPoly_add {p q : MPoly K} (hp : IsPoly p) (hq : IsPoly q) (hpn : (keys p).Nodup) (hqn : (keys q).Nodup) :
    IsPoly (C07.add p q) :=
  isPoly_of_toLaurent (wf_add p q) (toPolyL p + toPolyL q)
    (by rw [toLaurent_add hpn hqn, map_add, toLaurent_toPolyL hp, toLaurent_toPolyL hq])

theorem isPoly_neg {p : MPoly K} (hp : IsPoly p) (hpn : (keys p).Nodup) : IsPoly (C07.neg p) :=
  isPoly_of_toLaurent (wf_neg p) (-toPolyL p) (by rw [toLaurent_neg hpn, map_neg, toLaurent_toPolyL hp])

theorem isPoly_pow {p : MPoly K} (hw : WF p) (hp : IsPoly p) (n : ℕ) : IsPoly (C07.pow p (n : ℤ)) :=
  isPoly_of_toLaurent (wf_pow hw n) (toPolyL p ^ n) (by rw [toLaurent_pow, map_pow, toLaurent_toPolyL hp])

/-! ### causal filters -/

/-- causal (and runnable): no negative delay in either polynomial, the denominator has a non-zero
constant term — exactly the filters that `LinearFilter.__call__` accepts -/
def Causal (f : ZF K) : Prop := Valid f ∧ IsPoly f.num ∧ IsPoly f.den ∧ C07.coeff f.den 0 ≠ 0

theorem mem_keys_of_coeff_ne_zero {p : MPoly K} {k : ℤ} (h : C07.coeff p k ≠ 0) : k ∈ keys p := by
  by_contra hn
  exact h (coeff_eq_zero_of_not_mem hn)

theorem minKey_of_causal {d : MPoly K} (hp : IsPoly d) (h0 : C07.coeff d 0 ≠ 0) : C04.minKey d = some 0 := by
  rw [C04.minKey_eq_listMin]
  rcases C04.listMin_spec (C04.keys d) with ⟨_, h2⟩ | ⟨q, h1, h2, h3⟩
  · have : (0 : ℤ) ∈ keys d := mem_keys_of_coeff_ne_zero h0
    have h2' : keys d = [] := h2
    rw [h2'] at this
    simp at this
  · rw [h1]
    have hq0 : q ≤ 0 := h3 0 (mem_keys_of_coeff_ne_zero h0)
    obtain ⟨kv, hkv, hq⟩ := List.mem_map.1 h2
    have : 0 ≤ q := hq ▸ hp kv hkv
    congr 1
    omega

/-- on polynomials that are already normalised the constructor changes nothing -/
theorem ofPolys_causal {n d : MPoly K} (hn : WF n) (hd : WF d) (hdp : IsPoly d) (h0 : C07.coeff d 0 ≠ 0) :
    ofPolys n d = .ok ⟨n, d⟩ := by
  unfold ofPolys
  rw [mk_of_wf hn, mk_of_wf hd]
  simp [minKey_of_causal hdp h0]

theorem coeff_mul_zero {p q : MPoly K} (hp : IsPoly p) (hq : IsPoly q) (hpn : (keys p).Nodup)
    (hqn : (keys q).Nodup) : C07.coeff (C07.mul p q) 0 = C07.coeff p 0 * C07.coeff q 0 := by
  rw [coeff_eq_getD (wf_mul p q).1, coeff_eq_getD hpn, coeff_eq_getD hqn]
  exact getD_mul_zero hp hq hpn hqn

theorem causal_ne_nil {d : MPoly K} (h0 : C07.coeff d 0 ≠ 0) : d ≠ [] := by
  rintro rfl; exact h0 rfl

theorem Causal.mk' {n d : MPoly K} (hn : WF n) (hd : WF d) (hnp : IsPoly n) (hdp : IsPoly d)
    (h0 : C07.coeff d 0 ≠ 0) : Causal (⟨n, d⟩ : ZF K) :=
  ⟨⟨hn, hd, causal_ne_nil h0⟩, hnp, hdp, h0⟩

theorem add_causal {f g : ZF K} (hf : Causal f) (hg : Causal g) : ∃ h, add f g = .ok h ∧ Causal h := by
  obtain ⟨⟨hfn, hfd, _⟩, pfn, pfd, f0⟩ := hf
  obtain ⟨⟨hgn, hgd, _⟩, pgn, pgd, g0⟩ := hg
  unfold add
  by_cases he : C07.eq f.den g.den = true
  · rw [if_pos he, ofPolys_causal (wf_add _ _) hfd pfd f0]
    exact ⟨_, rfl, Causal.mk' (wf_add _ _) hfd (isPoly_add pfn pgn hfn.1 hgn.1) pfd f0⟩
  · have h0 : C07.coeff (C07.mul f.den g.den) 0 ≠ 0 := by
      rw [coeff_mul_zero pfd pgd hfd.1 hgd.1]; exact mul_ne_zero f0 g0
    rw [if_neg he, ofPolys_causal (wf_add _ _) (wf_mul _ _) (isPoly_mul pfd pgd) h0]
    exact ⟨_, rfl, Causal.mk' (wf_add _ _) (wf_mul _ _)
      (isPoly_add (isPoly_mul pfn pgd) (isPoly_mul pgn pfd) (wf_mul _ _).1 (wf_mul _ _).1)
      (isPoly_mul pfd pgd) h0⟩

theorem neg_causal {f : ZF K} (hf : Causal f) : ∃ h, neg f = .ok h ∧ Causal h := by
  obtain ⟨⟨hfn, hfd, _⟩, pfn, pfd, f0⟩ := hf
  unfold neg
  rw [ofPolys_causal (wf_neg _) hfd pfd f0]
  exact ⟨_, rfl, Causal.mk' (wf_neg _) hfd (isPoly_neg pfn hfn.1) pfd f0⟩

theorem sub_causal {f g : ZF K} (hf : Causal f) (hg : Causal g) : ∃ h, sub f g = .ok h ∧ Causal h := by
  obtain ⟨n, hn, hnc⟩ := neg_causal hg
  unfold sub
  rw [hn]
  exact add_causal hf hnc

theorem mul_causal {f g : ZF K} (hf : Causal f) (hg : Causal g) : ∃ h, mul f g = .ok h ∧ Causal h := by
  obtain ⟨⟨hfn, hfd, _⟩, pfn, pfd, f0⟩ := hf
  obtain ⟨⟨hgn, hgd, _⟩, pgn, pgd, g0⟩ := hg
  have h0 : C07.coeff (C07.mul f.den g.den) 0 ≠ 0 := by
    rw [coeff_mul_zero pfd pgd hfd.1 hgd.1]; exact mul_ne_zero f0 g0
  unfold mul
  rw [ofPolys_causal (wf_mul _ _) (wf_mul _ _) (isPoly_mul pfd pgd) h0]
  exact ⟨_, rfl, Causal.mk' (wf_mul _ _) (wf_mul _ _) (isPoly_mul pfn pgn) (isPoly_mul pfd pgd) h0⟩

theorem isPoly_ofScalar (c : K) : IsPoly (C07.ofScalar c) :=
  isPoly_of_toLaurent (wf_ofScalar c) (Polynomial.C c) (by rw [toLaurent_ofScalar, Polynomial.toLaurent_C])

theorem mulScalar_causal {f : ZF K} (hf : Causal f) (c : K) : ∃ h, mulScalar f c = .ok h ∧ Causal h := by
  obtain ⟨⟨hfn, hfd, _⟩, pfn, pfd, f0⟩ := hf
  unfold mulScalar
  rw [ofPolys_causal (wf_mul _ _) hfd pfd f0]
  exact ⟨_, rfl, Causal.mk' (wf_mul _ _) hfd (isPoly_mul pfn (isPoly_ofScalar c)) pfd f0⟩

theorem coeff_one_zero : C07.coeff (C07.mk [((0 : ℤ), (1 : K))]) 0 ≠ 0 := by
  rw [coeff_mk]; simp [findLast?]

theorem ofScalar_causal (c : K) : ∃ h, ofScalar c = .ok h ∧ Causal h := by
  have hp : IsPoly (C07.mk [((0 : ℤ), (1 : K))]) := isPoly_ofScalar 1
  have hn : IsPoly (ofList [c]) := isPoly_ofScalar c
  unfold ofScalar
  rw [ofPolys_causal (wf_ofList _) wf_one hp coeff_one_zero]
  exact ⟨_, rfl, Causal.mk' (wf_ofList _) wf_one hn hp coeff_one_zero⟩

theorem pow_causal {f : ZF K} (hf : Causal f) (n : ℕ) : ∃ h, pow f (n : ℤ) = .ok h ∧ Causal h := by
  obtain ⟨⟨hfn, hfd, _⟩, pfn, pfd, f0⟩ := hf
  have h0 : C07.coeff (C07.pow f.den (n : ℤ)) 0 ≠ 0 := by
    rw [coeff_eq_getD (wf_pow hfd n).1, getD_pow_zero pfd hfd n, ← coeff_eq_getD hfd.1]
    exact pow_ne_zero n f0
  unfold pow
  have hn : ¬ ((n : ℤ) < 0 ∧ (f.num.length ≥ 2 ∨ f.den.length ≥ 2)) := by omega
  rw [if_neg hn, ofPolys_causal (wf_pow hfn n) (wf_pow hfd n) (isPoly_pow hfd pfd n) h0]
  exact ⟨_, rfl, Causal.mk' (wf_pow hfn n) (wf_pow hfd n) (isPoly_pow hfn pfn n) (isPoly_pow hfd pfd n) h0⟩

end ALV.C05
