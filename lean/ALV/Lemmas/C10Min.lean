/-
  C10 — helper lemmas, part 4 (ordered field): a monic solution of the normal equations of the
  block's autocorrelation minimises the energy among all monic filters of the same order
  (orthogonality principle + a sum of squares is non-negative).
-/
import Mathlib.Algebra.Order.Field.Basic
import Mathlib.Algebra.Order.BigOperators.Ring.Finset
import ALV.Lemmas.C10Energy

namespace ALV.C10
open Finset
variable {K : Type} [Field K]

theorem bilT_add_add (r : List K) (n : ℕ) (a d : ℕ → K) :
    bilT r n (fun i => a i + d i) (fun i => a i + d i) =
      bilT r n a a + 2 * bilT r n d a + bilT r n d d := by
  rw [two_mul]
  nth_rewrite 2 [bilT_symm r n d a]
  unfold bilT
  simp only [← Finset.sum_add_distrib]
  refine Finset.sum_congr rfl fun i _ => Finset.sum_congr rfl fun j _ => ?_
  ring

/-- orthogonality: a perturbation with `d_0 = 0` is orthogonal to a solution of the equations -/
theorem bilT_orth (r : List K) (p : ℕ) (a d : ℕ → K) (hd : d 0 = 0)
    (ha : ∀ i, 1 ≤ i → i ≤ p → Nf r a (p + 1) i = 0) : bilT r (p + 1) d a = 0 := by
  rw [bilT_eq_sum_Nf]
  refine Finset.sum_eq_zero fun i hi => ?_
  have hi' : i ≤ p := by simpa [Nat.lt_succ_iff] using hi
  rcases Nat.eq_zero_or_pos i with h | h
  · subst h; simp [hd]
  · rw [ha i h hi', mul_zero]

variable [LinearOrder K] [IsStrictOrderedRing K]

theorem bilT_acorr_self_nonneg (x : ℕ → K) (N : ℕ) (hx : ∀ n, N ≤ n → x n = 0) (r : List K) (p : ℕ)
    (hr : ∀ tau, tau ≤ p → coef r tau = ∑ k ∈ range (N - tau), x k * x (k + tau)) (u : ℕ → K) :
    0 ≤ bilT r (p + 1) u u := by
  rw [bilT_acorr x N hx r p hr]
  exact Finset.sum_nonneg fun n _ => mul_self_nonneg _

/-- minimisation over coefficient functions -/
theorem bilT_minimal (x : ℕ → K) (N : ℕ) (hx : ∀ n, N ≤ n → x n = 0) (r : List K) (p : ℕ)
    (hr : ∀ tau, tau ≤ p → coef r tau = ∑ k ∈ range (N - tau), x k * x (k + tau))
    (a b : ℕ → K) (ha0 : a 0 = 1) (hb0 : b 0 = 1)
    (ha : ∀ i, 1 ≤ i → i ≤ p → Nf r a (p + 1) i = 0) :
    bilT r (p + 1) a a ≤ bilT r (p + 1) b b := by
  have hb : b = fun i => a i + (b i - a i) := funext fun i => by ring
  rw [hb, bilT_add_add, bilT_orth r p a (fun i => b i - a i) (by simp [ha0, hb0]) ha]
  have := bilT_acorr_self_nonneg x N hx r p hr (fun i => b i - a i)
  linarith

end ALV.C10
