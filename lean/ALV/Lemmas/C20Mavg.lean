/-
  C20 — moving average: the three strategies refine one window recursion (`mavgFrom`), which
  is the specification `mavgSpec`; running sums.
-/
import ALV.Lemmas.C20Basic

namespace ALV.C20
variable {K : Type} [Field K]

/- `mavgFrom` (the window recursion) is defined in `ALV.Spec.C20`. -/

theorem mavgFrom_eq (size : Nat) (hs : 0 < size) (xs : List K) :
    ∀ pre : List K, size ≤ pre.length →
      mavgFrom size (lastN size pre) xs =
        (List.range xs.length).map fun n => sumL (lastN size (pre ++ xs.take (n + 1))) / (size : K) := by
  induction xs with
  | nil => intro pre _; simp [mavgFrom]
  | cons x rest ih =>
    intro pre hp
    have hw := lastN_append_singleton size pre x hs hp
    have ih' := ih (pre ++ [x]) (by simp; omega)
    rw [hw] at ih'
    simp only [mavgFrom, List.length_cons, List.range_succ_eq_map, List.map_cons, List.map_map]
    rw [ih']
    congr 1
    · simp [hw]
    · apply List.map_congr_left
      intro n _
      simp [List.append_assoc]

theorem mavgSpec_eq_from (size : Nat) (hs : 0 < size) (zero : K) (xs : List K) :
    mavgSpec size zero xs = mavgFrom size (List.replicate size zero) xs := by
  have h := mavgFrom_eq size hs xs (List.replicate size zero) (by simp)
  have e : lastN size (List.replicate size zero) = List.replicate size zero := by
    simpa using lastN_eq_self (List.replicate size zero)
  rw [e] at h
  rw [h]; rfl

/-! ### deque strategy -/

structure DqInv (size : Nat) (w : List K) (s : DqState K) : Prop where
  data : s.data = w.map (· * sizeInv size)
  mean : s.mean = sumL s.data
  len : w.length = size

theorem sizeInv_mul (size : Nat) (h : (size : K) ≠ 0) (x : K) : x * sizeInv size = x / (size : K) := by
  unfold sizeInv; field_simp

theorem dqLoop_eq (size : Nat) (hs : 0 < size) (h0 : (size : K) ≠ 0) (xs : List K) :
    ∀ (w : List K) (s : DqState K), DqInv size w s → dqLoop size s xs = mavgFrom size w xs := by
  induction xs with
  | nil => intro w s _; simp [dqLoop, mavgFrom]
  | cons x rest ih =>
    intro w s inv
    obtain ⟨hd, hm, hl⟩ := inv
    cases w with
    | nil => simp at hl; omega
    | cons a wt =>
      have hd' : s.data = a * sizeInv size :: wt.map (· * sizeInv size) := by simpa using hd
      have hmean : (dqStep size s x).2 = sumL (wt ++ [x]) / (size : K) := by
        simp only [dqStep, hm, hd', List.headD_cons, sumL_cons]
        rw [← sizeInv_mul size h0, ← sumL_map_mul]
        simp [sumL_append]
      have hinv : DqInv size (wt ++ [x]) (dqStep size s x).1 := by
        refine ⟨?_, ?_, ?_⟩
        · simp [dqStep, hd']
        · show (dqStep size s x).2 = _
          rw [hmean, ← sizeInv_mul size h0, ← sumL_map_mul]
          simp [dqStep, hd']
        · simpa using hl
      simp only [dqLoop, mavgFrom, List.drop_succ_cons, List.drop_zero]
      rw [hmean, ih _ _ hinv]

theorem maverageDeque_eq_from (size : Nat) (hs : 0 < size) (h0 : (size : K) ≠ 0) (zero : K)
    (xs : List K) : maverageDeque size zero xs = mavgFrom size (List.replicate size zero) xs := by
  apply dqLoop_eq size hs h0
  refine ⟨by simp, ?_, by simp⟩
  simp only [sumL_replicate]
  unfold sizeInv; field_simp

/-! ### FIR strategy -/

theorem firLoop_eq (size : Nat) (hs : 0 < size) (h0 : (size : K) ≠ 0) (xs : List K) :
    ∀ (w : List K) (s : FState K), w.length = size → s.d = (w.drop 1).reverse → s.m = [] →
      floop (List.replicate size (sizeInv size)) [] s xs = mavgFrom size w xs := by
  induction xs with
  | nil => intro w s _ _ _; simp [floop, mavgFrom]
  | cons x rest ih =>
    intro w s hl hd hm
    have hlen : (x :: s.d).length = size := by
      rw [hd]; simp; omega
    have hy : (fstep (List.replicate size (sizeInv size)) [] s x).2 =
        sumL (w.drop 1 ++ [x]) / (size : K) := by
      simp only [fstep, dot_nil_left, sub_zero]
      rw [dot_replicate _ _ _ hlen, hd, mul_comm, sizeInv_mul size h0]
      simp [sumL_append, sumL_reverse, add_comm]
    simp only [floop, mavgFrom]
    rw [hy]
    congr 1
    apply ih
    · simp; omega
    · show (x :: s.d).take s.d.length = _
      rw [hd]; exact shift_reverse _ _
    · simp [fstep, hm]

theorem maverageFir_eq_from (size : Nat) (hs : 0 < size) (h0 : (size : K) ≠ 0) (zero : K)
    (xs : List K) : maverageFir size zero xs = mavgFrom size (List.replicate size zero) xs := by
  apply firLoop_eq size hs h0
  · simp
  · simp [finit]
  · simp [finit]

/-! ### recursive strategy -/

theorem recLoop_eq (size : Nat) (hs : 0 < size) (h0 : (size : K) ≠ 0) (xs : List K) :
    ∀ (w : List K) (s : FState K), w.length = size → s.d = w.reverse →
      s.m = [sumL w / (size : K)] →
      floop (recursiveNum size) [-1] s xs = mavgFrom size w xs := by
  induction xs with
  | nil => intro w s _ _ _; simp [floop, mavgFrom]
  | cons x rest ih =>
    intro w s hl hd hm
    cases w with
    | nil => simp at hl; omega
    | cons a wt =>
      have hwt : wt.reverse.length = size - 1 := by simp at hl ⊢; omega
      have hy : (fstep (recursiveNum size) [-1] s x).2 = sumL (wt ++ [x]) / (size : K) := by
        simp only [fstep, recursiveNum, hd, hm, List.reverse_cons, dot_cons, dot_nil_left]
        rw [dot_zeros_append _ _ _ _ hwt]
        simp only [sumL_append, sumL_cons, sumL_nil]
        unfold sizeInv; field_simp; ring
      simp only [floop, mavgFrom, List.drop_succ_cons, List.drop_zero]
      rw [hy]
      congr 1
      apply ih
      · simpa using hl
      · show (x :: s.d).take s.d.length = _
        rw [hd]
        simp
      · show ((fstep (recursiveNum size) [-1] s x).2 :: s.m).take s.m.length = _
        rw [hy, hm]; simp

theorem maverageRecursive_eq_from (size : Nat) (hs : 0 < size) (h0 : (size : K) ≠ 0) (zero : K)
    (xs : List K) : maverageRecursive size zero xs = mavgFrom size (List.replicate size zero) xs := by
  apply recLoop_eq size hs h0
  · simp
  · simp [finit, recursiveNum]; omega
  · simp [finit, sumL_replicate]; field_simp

/-! ### accumulate -/

theorem accLoop_eq (xs : List K) : ∀ (pre : List K),
    accLoop (sumL pre) xs = (List.range xs.length).map fun n => sumL (pre ++ xs.take (n + 1)) := by
  induction xs with
  | nil => intro pre; simp [accLoop]
  | cons x rest ih =>
    intro pre
    have e : sumL pre + x = sumL (pre ++ [x]) := by simp [sumL_append]
    simp only [accLoop, List.length_cons, List.range_succ_eq_map, List.map_cons, List.map_map]
    rw [e, ih (pre ++ [x])]
    congr 1
    simp

theorem accumulateFunc_eq (xs : List K) : accumulateFunc xs = accSpec xs := by
  cases xs with
  | nil => simp [accumulateFunc, accSpec]
  | cons x rest =>
    have h := accLoop_eq rest [x]
    simp only [sumL_cons, sumL_nil, add_zero] at h
    simp only [accumulateFunc, accSpec, h, List.length_cons, List.range_succ_eq_map, List.map_cons,
      List.map_map]
    congr 1
    simp

/-- the running-sum recursion of the specification is the closed form -/
theorem accSpecRec_eq (xs : List K) : accSpecRec xs = accSpec xs := by
  have hl : ∀ (ys : List K) (s : K), accFrom s ys = accLoop s ys := by
    intro ys
    induction ys with
    | nil => intro s; rfl
    | cons y t ih => intro s; simp only [accFrom, accLoop, ih]
  have h := accLoop_eq xs []
  simp only [sumL_nil, List.nil_append] at h
  unfold accSpecRec accSpec
  rw [hl, h]

theorem accZLoop_eq (xs : List K) : ∀ (s : FState K) (acc : K), s.d = [] → s.m = [acc] →
    floop [1] [-1] s xs = accLoop acc xs := by
  induction xs with
  | nil => intro s acc _ _; simp [floop, accLoop]
  | cons x rest ih =>
    intro s acc hd hm
    have hy : (fstep [1] [-1] s x).2 = acc + x := by
      simp [fstep, hd, hm]; ring
    simp only [floop, accLoop]
    rw [hy]
    congr 1
    apply ih
    · simp [fstep, hd]
    · show ((fstep [1] [-1] s x).2 :: s.m).take s.m.length = _
      rw [hy, hm]; simp

end ALV.C20
