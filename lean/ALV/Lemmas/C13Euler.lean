/-
  C13 — helper lemmas, part 8: the numerator of the first `gammatone.sampled` section in closed form.

  `(numerator / denominator).diff(n, mul_after=-z)` applies `θ = -z·d/dz = x·d/dx` (`x = z⁻¹`) `n`
  times to `N₀/D`, `D = (1 - a x)(1 - ā x)`, `a = A e^{jf}`,
  `N₀ = cos φ - A cos(f-φ) x = ½ (e^{jφ}(1 - ā x) + e^{-jφ}(1 - a x))`, i.e. to
  `½ (e^{jφ}/(1 - a x) + e^{-jφ}/(1 - ā x))`.  With the Eulerian polynomials
  `E₀ = 1`, `E_{n+1} = (1 - u)·θE_n + (n+1)·u·E_n`   (`θⁿ 1/(1-u) = E_n(u)/(1-u)^{n+1}`) the coded
  numerator after `n` steps is
      `2·N_n(x) = e^{jφ} E_n(a x) (1 - ā x)^{n+1} + e^{-jφ} E_n(ā x) (1 - a x)^{n+1}`.
  At `x = e^{-jf}`: `a x = A`, `ā x = v = A e^{-2jf}`; `E_n` has non-negative coefficients and leading
  coefficient 1, so `|E_n(v)| ≤ E_n(A)`, `E_n(A) > 0`, while `|1 - v| > 1 - A` for `sin f ≠ 0`: the first
  summand is strictly larger in modulus than the second and `N_n(e^{-jf}) ≠ 0`.
-/
import ALV.Lemmas.C13Gamma
import Mathlib.Algebra.Polynomial.Derivative
import Mathlib.Algebra.Polynomial.Eval.Degree

set_option linter.unusedSectionVars false
set_option linter.unusedSimpArgs false

namespace ALV.C13
open ALV ALV.TrigField Polynomial

/-! ### the coded list operations are polynomial operations -/

/-- the dense coefficient list (of powers of `z⁻¹`) as a polynomial over ℂ -/
noncomputable def toPoly : List ℝ → ℂ[X]
  | [] => 0
  | c :: cs => C (c : ℂ) + X * toPoly cs

theorem eval_toPoly (w : ℂ) (l : List ℝ) : (toPoly l).eval w = polyEvalC w l := by
  induction l with
  | nil => simp [toPoly, polyEvalC]
  | cons c cs ih => simp [toPoly, polyEvalC, ih]

theorem toPoly_addL (p q : List ℝ) : toPoly (addL p q) = toPoly p + toPoly q := by
  induction p generalizing q with
  | nil => simp [addL, toPoly]
  | cons x p ih =>
    cases q with
    | nil => simp [addL, toPoly]
    | cons y q =>
      simp only [addL, toPoly, ih]
      push_cast
      rw [C_add]
      ring

theorem toPoly_map_mul (c : ℝ) (q : List ℝ) : toPoly (q.map (c * ·)) = C (c : ℂ) * toPoly q := by
  induction q with
  | nil => simp [toPoly]
  | cons y q ih =>
    simp only [List.map_cons, toPoly, ih]
    push_cast
    rw [C_mul]
    ring

theorem toPoly_map_neg (q : List ℝ) : toPoly (q.map (- ·)) = - toPoly q := by
  induction q with
  | nil => simp [toPoly]
  | cons y q ih =>
    simp only [List.map_cons, toPoly, ih]
    push_cast
    rw [C_neg]
    ring

theorem toPoly_mulL (p q : List ℝ) : toPoly (mulL p q) = toPoly p * toPoly q := by
  induction p with
  | nil => simp [mulL, toPoly]
  | cons c p ih =>
    simp only [mulL, toPoly_addL, toPoly_map_mul, toPoly, ih, c0_real]
    simp
    ring

/-- `weightFrom i` multiplies the coefficient of `x^k` by `i + k`: `i·P + x·P'` -/
theorem toPoly_weightFrom (i : ℕ) (l : List ℝ) :
    toPoly (weightFrom i l) = C (i : ℂ) * toPoly l + X * derivative (toPoly l) := by
  induction l generalizing i with
  | nil => simp [weightFrom, toPoly]
  | cons c cs ih =>
    simp only [weightFrom, toPoly, ih, real_ofNat, derivative_add, derivative_C, derivative_mul,
      derivative_X]
    push_cast
    simp only [C_mul, C_add, C_1]
    ring

/-! ### the operator `θ = x·d/dx` and the Eulerian polynomials -/

section algebra
variable {R : Type} [CommRing R]

/-- `θ P = x·P'` (on a polynomial in `x = z⁻¹` this is `-z·dP/dz`) -/
noncomputable def theta (P : R[X]) : R[X] := X * derivative P

theorem theta_add (P Q : R[X]) : theta (P + Q) = theta P + theta Q := by
  simp only [theta, derivative_add]; ring

theorem theta_sub (P Q : R[X]) : theta (P - Q) = theta P - theta Q := by
  simp only [theta, derivative_sub]; ring

theorem theta_mul (P Q : R[X]) : theta (P * Q) = theta P * Q + P * theta Q := by
  simp only [theta, derivative_mul]; ring

theorem theta_C_mul (k : R) (P : R[X]) : theta (C k * P) = C k * theta P := by
  simp only [theta, derivative_C_mul]; ring

theorem theta_one : theta (1 : R[X]) = 0 := by simp [theta]

theorem theta_C (k : R) : theta (C k) = 0 := by simp [theta]

theorem theta_C_mul_X (a : R) : theta (C a * X) = C a * X := by
  simp only [theta, derivative_C_mul_X]; ring

theorem theta_pow_succ (P : R[X]) (n : ℕ) :
    theta (P ^ (n + 1)) = C ((n : R) + 1) * P ^ n * theta P := by
  simp only [theta, derivative_pow_succ]; ring

/-- Eulerian polynomials (with the factor `u`): `θⁿ (1/(1-u)) = E_n(u)/(1-u)^{n+1}`;
`E₀ = 1, E₁ = u, E₂ = u + u², E₃ = u + 4u² + u³, E₄ = u + 11u² + 11u³ + u⁴, …` -/
noncomputable def eul : ℕ → R[X]
  | 0 => 1
  | n + 1 => (1 - X) * theta (eul n) + C ((n : R) + 1) * X * eul n

/-- `E_n(a·x)` as a polynomial in `x` -/
noncomputable def eulAt (a : R) (n : ℕ) : R[X] := (eul n).comp (C a * X)

theorem theta_comp_scale (a : R) (P : R[X]) : theta (P.comp (C a * X)) = (theta P).comp (C a * X) := by
  simp only [theta, derivative_comp, derivative_C_mul_X, mul_comp, X_comp]
  ring

theorem eulAt_zero (a : R) : eulAt a 0 = 1 := by simp [eulAt, eul]

theorem eulAt_succ (a : R) (n : ℕ) :
    eulAt a (n + 1) = (1 - C a * X) * theta (eulAt a n) + C ((n : R) + 1) * (C a * X) * eulAt a n := by
  simp only [eulAt, eul, theta_comp_scale, add_comp, mul_comp, sub_comp, one_comp, X_comp, C_comp]

/-- **partial fractions of the differentiated section.**  If `D = (1 - a x)(1 - a' x)`,
`2 N₀ = c (1 - a' x) + c' (1 - a x)` and `N_{n+1} = θN_n · D - (n+1) · N_n · θD` (one step of
`ZFilter.diff(mul_after=-z)`), then
`2 N_n = c E_n(a x) (1 - a' x)^{n+1} + c' E_n(a' x) (1 - a x)^{n+1}`. -/
theorem diff_closed_form (a a' c c' : R) (D : R[X]) (N : ℕ → R[X])
    (hD : D = (1 - C a * X) * (1 - C a' * X))
    (h0 : C 2 * N 0 = C c * (1 - C a' * X) + C c' * (1 - C a * X))
    (hN : ∀ n, N (n + 1) = theta (N n) * D - C ((n : R) + 1) * N n * theta D) (n : ℕ) :
    C 2 * N n = C c * eulAt a n * (1 - C a' * X) ^ (n + 1)
              + C c' * eulAt a' n * (1 - C a * X) ^ (n + 1) := by
  induction n with
  | zero => simp [eulAt_zero, h0]
  | succ n ih =>
    have hp : theta (1 - C a * X) = -(C a * X) := by
      rw [theta_sub, theta_one, theta_C_mul_X]; ring
    have hq : theta (1 - C a' * X) = -(C a' * X) := by
      rw [theta_sub, theta_one, theta_C_mul_X]; ring
    have h2 : C 2 * N (n + 1) = theta (C 2 * N n) * D - C ((n : R) + 1) * (C 2 * N n) * theta D := by
      rw [hN, theta_C_mul]; ring
    rw [h2, ih, hD, eulAt_succ, eulAt_succ]
    simp only [theta_add, theta_mul, theta_C, theta_pow_succ, hp, hq]
    ring

theorem eul_succ_eq (n : ℕ) :
    (eul (n + 1) : R[X]) = X * ((1 - X) * derivative (eul n) + C ((n : R) + 1) * eul n) := by
  simp only [eul, theta]; ring

theorem eul_coeff_succ_zero (n : ℕ) : (eul (n + 1) : R[X]).coeff 0 = 0 := by
  rw [eul_succ_eq, coeff_X_mul_zero]

/-- the Eulerian triangle: `e(n+1, k+1) = (k+1)·e(n, k+1) + (n+1-k)·e(n, k)` -/
theorem eul_coeff_succ_succ (n k : ℕ) :
    (eul (n + 1) : R[X]).coeff (k + 1)
      = ((k : R) + 1) * (eul n : R[X]).coeff (k + 1) + ((n : R) + 1 - k) * (eul n : R[X]).coeff k := by
  rw [eul_succ_eq, coeff_X_mul, coeff_add, coeff_C_mul, sub_mul, one_mul, coeff_sub, coeff_derivative]
  cases k with
  | zero => simp
  | succ m =>
    rw [coeff_X_mul, coeff_derivative]
    push_cast
    ring

theorem eul_map {S : Type} [CommRing S] (g : R →+* S) (n : ℕ) : (eul n : R[X]).map g = eul n := by
  induction n with
  | zero => simp [eul]
  | succ n ih =>
    simp only [eul, theta, Polynomial.map_add, Polynomial.map_mul, Polynomial.map_sub,
      Polynomial.map_one, map_X, map_C, ← derivative_map, ih, map_add, map_natCast, map_one,
      Polynomial.map_natCast]

end algebra

/-! ### sign of the Eulerian coefficients, and the evaluation bounds that follow -/

/-- coefficients are non-negative, vanish above the degree `n`, and the leading one is 1 -/
theorem eul_coeff_real (n : ℕ) :
    ∀ k, 0 ≤ (eul n : ℝ[X]).coeff k ∧ (n < k → (eul n : ℝ[X]).coeff k = 0) ∧
      (k = n → (eul n : ℝ[X]).coeff k = 1) := by
  induction n with
  | zero =>
    intro k
    simp only [eul, coeff_one]
    refine ⟨by split <;> norm_num, fun h => by simp [Nat.pos_iff_ne_zero.1 h], fun h => by simp [h]⟩
  | succ n ih =>
    intro k
    cases k with
    | zero =>
      rw [eul_coeff_succ_zero]
      exact ⟨le_refl _, fun _ => rfl, fun h => by omega⟩
    | succ k =>
      rw [eul_coeff_succ_succ]
      obtain ⟨a1, a2, a3⟩ := ih (k + 1)
      obtain ⟨b1, b2, b3⟩ := ih k
      refine ⟨?_, fun h => ?_, fun h => ?_⟩
      · by_cases hk : k ≤ n
        · have : (0 : ℝ) ≤ (n : ℝ) + 1 - k := by
            have : (k : ℝ) ≤ n := by exact_mod_cast hk
            linarith
          positivity
        · rw [a2 (by omega), b2 (by omega)]; simp
      · rw [a2 (by omega), b2 (by omega)]; simp
      · have hk : k = n := by omega
        rw [a2 (by omega), b3 hk, hk]; ring

theorem eul_natDegree_real (n : ℕ) : (eul n : ℝ[X]).natDegree = n := by
  apply le_antisymm
  · rw [natDegree_le_iff_coeff_eq_zero]
    intro k hk
    exact (eul_coeff_real n k).2.1 hk
  · apply le_natDegree_of_ne_zero
    rw [(eul_coeff_real n n).2.2 rfl]
    exact one_ne_zero

/-- `E_n(A) ≥ Aⁿ > 0` for `A > 0` -/
theorem eul_eval_pos (n : ℕ) (A : ℝ) (hA : 0 < A) : 0 < (eul n : ℝ[X]).eval A := by
  rw [eval_eq_sum_range, eul_natDegree_real]
  have h1 : (eul n : ℝ[X]).coeff n * A ^ n ≤
      ∑ i ∈ Finset.range (n + 1), (eul n : ℝ[X]).coeff i * A ^ i :=
    Finset.single_le_sum (f := fun i => (eul n : ℝ[X]).coeff i * A ^ i)
      (fun i _ => mul_nonneg (eul_coeff_real n i).1 (pow_nonneg hA.le i))
      (Finset.mem_range.2 (Nat.lt_succ_self n))
  rw [(eul_coeff_real n n).2.2 rfl, one_mul] at h1
  exact lt_of_lt_of_le (pow_pos hA n) h1

/-- `|E_n(v)| ≤ E_n(|v|)` at every complex point -/
theorem eul_eval_norm_le (n : ℕ) (v : ℂ) :
    ‖(eul n : ℂ[X]).eval v‖ ≤ (eul n : ℝ[X]).eval ‖v‖ := by
  rw [← eul_map Complex.ofRealHom n, eval_map, eval₂_eq_sum_range, eval_eq_sum_range]
  refine le_trans (norm_sum_le _ _) (Finset.sum_le_sum fun i _ => ?_)
  rw [norm_mul, norm_pow, Complex.ofRealHom_eq_coe, Complex.norm_real, Real.norm_of_nonneg (eul_coeff_real n i).1]

/-- `E_n` at a real point, computed in ℂ -/
theorem eul_eval_ofReal (n : ℕ) (A : ℝ) :
    (eul n : ℂ[X]).eval (A : ℂ) = (((eul n : ℝ[X]).eval A : ℝ) : ℂ) := by
  rw [← eul_map Complex.ofRealHom n, eval_map]
  exact eval₂_at_apply Complex.ofRealHom A

/-! ### the coded recursion `diffNum` is `θ` iterated -/

open Complex in
theorem toPoly_diffStep (den num : List ℝ) (order : ℕ) :
    toPoly (diffStep den num order)
      = theta (toPoly num) * toPoly den - C (order : ℂ) * toPoly num * theta (toPoly den) := by
  simp only [diffStep, toPoly_addL, toPoly_mulL, toPoly_map_neg, toPoly_map_mul, toPoly_weightFrom,
    real_ofNat, theta, Nat.cast_zero, C_0, zero_mul, zero_add, Complex.ofReal_natCast]
  ring

theorem diffNum_zero (num den : List ℝ) : diffNum num den 0 = num := by
  simp [diffNum]

theorem diffNum_succ (num den : List ℝ) (n : ℕ) :
    diffNum num den (n + 1) = diffStep den (diffNum num den n) (n + 1) := by
  simp [diffNum, List.range_succ, List.foldl_append]

/-! ### the gammatone instance -/

open Complex in
theorem cexp_add_conj (t : ℝ) :
    Complex.exp (I * t) + Complex.exp (-(I * t)) = ((2 * Real.cos t : ℝ) : ℂ) := by
  have e1 : Complex.exp (I * t) = Complex.cos t + Complex.sin t * I := by
    rw [mul_comm, Complex.exp_mul_I]
  have e2 : Complex.exp (-(I * t)) = Complex.cos t - Complex.sin t * I := by
    have : -(I * (t : ℂ)) = (-(t : ℂ)) * I := by ring
    rw [this, Complex.exp_mul_I, Complex.cos_neg, Complex.sin_neg]; ring
  rw [e1, e2]
  push_cast
  ring

open Complex in
/-- **closed form of the coded numerator at the centre frequency** (`x = e^{-jf}`, `v = A e^{-2jf}`):
`2·N_n(x) = e^{jφ}·E_n(A)·(1 - v)^{n+1} + e^{-jφ}·E_n(v)·(1 - A)^{n+1}` -/
theorem gt_sampled_closed_form (A f φ : ℝ) (n : ℕ) :
    2 * polyEvalC (Complex.exp (-(I * f)))
        (diffNum [Real.cos φ, -(A * Real.cos (f - φ))] [1, -(2 * A * Real.cos f), A ^ 2] n)
      = Complex.exp (I * φ) * (eul n : ℂ[X]).eval (A : ℂ)
          * (1 - A * Complex.exp (-(I * f)) ^ 2) ^ (n + 1)
        + Complex.exp (-(I * φ)) * (eul n : ℂ[X]).eval (A * Complex.exp (-(I * f)) ^ 2)
          * (1 - (A : ℂ)) ^ (n + 1) := by
  have hs : ((-(2 * A * Real.cos f) : ℝ) : ℂ)
      = -((A : ℂ) * Complex.exp (I * f) + (A : ℂ) * Complex.exp (-(I * f))) := by
    rw [← mul_add, cexp_add_conj]; push_cast; ring
  have hp : ((A ^ 2 : ℝ) : ℂ) = ((A : ℂ) * Complex.exp (I * f)) * ((A : ℂ) * Complex.exp (-(I * f))) := by
    rw [mul_mul_mul_comm, ← Complex.exp_add, add_neg_cancel, Complex.exp_zero]; push_cast; ring
  have hD : toPoly [1, -(2 * A * Real.cos f), A ^ 2]
      = (1 - C ((A : ℂ) * Complex.exp (I * f)) * X) * (1 - C ((A : ℂ) * Complex.exp (-(I * f))) * X) := by
    simp only [toPoly]
    rw [hs, hp]
    simp only [C_neg, C_add, C_mul, Complex.ofReal_one, C_1]
    ring
  have h1 : Complex.exp (I * φ) + Complex.exp (-(I * φ)) = ((2 * Real.cos φ : ℝ) : ℂ) := cexp_add_conj φ
  have h2 : Complex.exp (I * φ) * ((A : ℂ) * Complex.exp (-(I * f)))
      + Complex.exp (-(I * φ)) * ((A : ℂ) * Complex.exp (I * f))
      = ((2 * (A * Real.cos (f - φ)) : ℝ) : ℂ) := by
    have h := cexp_add_conj (f - φ)
    have e1 : Complex.exp (I * φ) * ((A : ℂ) * Complex.exp (-(I * f)))
        = (A : ℂ) * Complex.exp (-(I * ((f - φ : ℝ) : ℂ))) := by
      rw [mul_left_comm, ← Complex.exp_add]; congr 2; push_cast; ring
    have e2 : Complex.exp (-(I * φ)) * ((A : ℂ) * Complex.exp (I * f))
        = (A : ℂ) * Complex.exp (I * ((f - φ : ℝ) : ℂ)) := by
      rw [mul_left_comm, ← Complex.exp_add]; congr 2; push_cast; ring
    rw [e1, e2, ← mul_add, add_comm (Complex.exp _), h]; push_cast; ring
  have h0 : C 2 * toPoly [Real.cos φ, -(A * Real.cos (f - φ))]
      = C (Complex.exp (I * φ)) * (1 - C ((A : ℂ) * Complex.exp (-(I * f))) * X)
        + C (Complex.exp (-(I * φ))) * (1 - C ((A : ℂ) * Complex.exp (I * f)) * X) := by
    have e : C (Complex.exp (I * φ)) * (1 - C ((A : ℂ) * Complex.exp (-(I * f))) * X)
        + C (Complex.exp (-(I * φ))) * (1 - C ((A : ℂ) * Complex.exp (I * f)) * X)
        = C (Complex.exp (I * φ) + Complex.exp (-(I * φ)))
          - C (Complex.exp (I * φ) * ((A : ℂ) * Complex.exp (-(I * f)))
              + Complex.exp (-(I * φ)) * ((A : ℂ) * Complex.exp (I * f))) * X := by
      simp only [C_add, C_mul]; ring
    rw [e, h1, h2]
    simp only [toPoly]
    push_cast
    simp only [C_neg, C_add, C_mul]
    ring
  have key := diff_closed_form ((A : ℂ) * Complex.exp (I * f)) ((A : ℂ) * Complex.exp (-(I * f)))
    (Complex.exp (I * φ)) (Complex.exp (-(I * φ))) (toPoly [1, -(2 * A * Real.cos f), A ^ 2])
    (fun n => toPoly (diffNum [Real.cos φ, -(A * Real.cos (f - φ))]
      [1, -(2 * A * Real.cos f), A ^ 2] n)) hD
    (by simpa [diffNum_zero] using h0)
    (fun n => by
      show toPoly (diffNum _ _ (n + 1)) = _
      rw [diffNum_succ, toPoly_diffStep]; push_cast; rfl) n
  have hx1 : (A : ℂ) * Complex.exp (I * f) * Complex.exp (-(I * f)) = A := by
    rw [mul_assoc, ← Complex.exp_add, add_neg_cancel, Complex.exp_zero, mul_one]
  have hx2 : (A : ℂ) * Complex.exp (-(I * f)) * Complex.exp (-(I * f)) = A * Complex.exp (-(I * f)) ^ 2 := by
    ring
  have := congrArg (Polynomial.eval (Complex.exp (-(I * f)))) key
  simp only [eval_mul, eval_add, eval_sub, eval_pow, eval_C, eval_one, eval_X, eval_toPoly, eulAt,
    eval_comp, hx1, hx2] at this
  exact this

/-! ### non-vanishing at the centre frequency -/

open Complex in
theorem norm_cexp_I (t : ℝ) : ‖Complex.exp (I * t)‖ = 1 ∧ ‖Complex.exp (-(I * t))‖ = 1 := by
  constructor
  · rw [mul_comm]; exact Complex.norm_exp_ofReal_mul_I t
  · have : -(I * (t : ℂ)) = ((-t : ℝ) : ℂ) * I := by push_cast; ring
    rw [this]; exact Complex.norm_exp_ofReal_mul_I (-t)

open Complex in
/-- `|1 - A e^{-2jf}|² = (1 - A)² + 4 A sin² f` -/
theorem norm_sq_one_sub_v (A f : ℝ) :
    ‖1 - (A : ℂ) * Complex.exp (-(I * f)) ^ 2‖ ^ 2 = (1 - A) ^ 2 + 4 * A * Real.sin f ^ 2 := by
  have e2 : Complex.exp (-(I * f)) = ((Real.cos f : ℝ) : ℂ) - ((Real.sin f : ℝ) : ℂ) * I := by
    have : -(I * (f : ℂ)) = ((-f : ℝ) : ℂ) * I := by push_cast; ring
    rw [this, Complex.exp_mul_I, ← Complex.ofReal_cos, ← Complex.ofReal_sin, Real.cos_neg, Real.sin_neg]
    push_cast; ring
  have hre : (1 - (A : ℂ) * Complex.exp (-(I * f)) ^ 2).re
      = 1 - A * (Real.cos f ^ 2 - Real.sin f ^ 2) := by
    rw [e2]; generalize Real.cos f = c; generalize Real.sin f = s; simp [pow_two]
  have him : (1 - (A : ℂ) * Complex.exp (-(I * f)) ^ 2).im = 2 * A * Real.sin f * Real.cos f := by
    rw [e2]; generalize Real.cos f = c; generalize Real.sin f = s; simp [pow_two]; ring
  have h := Real.sin_sq_add_cos_sq f
  rw [Complex.sq_norm, Complex.normSq_apply, hre, him]
  linear_combination (-2 * A + A ^ 2 * (1 + Real.sin f ^ 2 + Real.cos f ^ 2)) * h

theorem one_sub_lt_norm_one_sub_v (A f : ℝ) (hA0 : 0 < A) (hs : Real.sin f ≠ 0) :
    1 - A < ‖1 - (A : ℂ) * Complex.exp (-(Complex.I * f)) ^ 2‖ := by
  by_contra hcon
  push Not at hcon
  have h2 := pow_le_pow_left₀ (norm_nonneg _) hcon 2
  rw [norm_sq_one_sub_v] at h2
  have : 0 < 4 * A * Real.sin f ^ 2 := by positivity
  linarith

open Complex in
/-- **the differentiated `gammatone.sampled` numerator never vanishes at the centre frequency**: for
every number `n` of differentiations, every phase, `0 < A < 1`, `sin f ≠ 0`. -/
theorem gt_sampled_num_ne_zero (A f φ : ℝ) (n : ℕ) (hA0 : 0 < A) (hA1 : A < 1) (hs : Real.sin f ≠ 0) :
    polyMagSq (diffNum [Real.cos φ, -(A * Real.cos (f - φ))] [1, -(2 * A * Real.cos f), A ^ 2] n) f
      ≠ 0 := by
  rw [← normSq_polyEvalC]
  intro h
  have hz := Complex.normSq_eq_zero.1 h
  have key := gt_sampled_closed_form A f φ n
  rw [hz, mul_zero] at key
  have hv : ‖(A : ℂ) * Complex.exp (-(I * f)) ^ 2‖ = A := by
    rw [norm_mul, norm_pow, (norm_cexp_I f).2, one_pow, mul_one, Complex.norm_real,
      Real.norm_of_nonneg hA0.le]
  have hE := eul_eval_norm_le n ((A : ℂ) * Complex.exp (-(I * f)) ^ 2)
  rw [hv] at hE
  have hEA := eul_eval_pos n A hA0
  have hlt := one_sub_lt_norm_one_sub_v A f hA0 hs
  have h1A : ‖1 - (A : ℂ)‖ = 1 - A := by
    have : (1 - (A : ℂ)) = ((1 - A : ℝ) : ℂ) := by push_cast; ring
    rw [this, Complex.norm_real, Real.norm_of_nonneg (by linarith)]
  have e : Complex.exp (I * φ) * (eul n : ℂ[X]).eval (A : ℂ)
          * (1 - A * Complex.exp (-(I * f)) ^ 2) ^ (n + 1)
      = -(Complex.exp (-(I * φ)) * (eul n : ℂ[X]).eval (A * Complex.exp (-(I * f)) ^ 2)
          * (1 - (A : ℂ)) ^ (n + 1)) := by
    linear_combination -key
  have en := congrArg norm e
  rw [norm_neg, norm_mul, norm_mul, norm_mul, norm_mul, norm_pow, norm_pow, (norm_cexp_I φ).1,
    (norm_cexp_I φ).2, one_mul, one_mul, eul_eval_ofReal, Complex.norm_real,
    Real.norm_of_nonneg hEA.le, h1A] at en
  have hpow : (1 - A) ^ (n + 1) < ‖1 - (A : ℂ) * Complex.exp (-(I * f)) ^ 2‖ ^ (n + 1) :=
    pow_lt_pow_left₀ hlt (by linarith) (Nat.succ_ne_zero n)
  have hA' : (0 : ℝ) ≤ (1 - A) ^ (n + 1) := pow_nonneg (by linarith) _
  have l1 := mul_lt_mul_of_pos_left hpow hEA
  have l2 := mul_le_mul_of_nonneg_right hE hA'
  linarith

end ALV.C13
