/-
  C13 — helper lemmas, part 8: the numerator of the first `gammatone.sampled` section in closed form.

  `(numerator / denominator).diff(n, mul_after=-z)` applies `θ = -z·d/dz = x·d/dx` (`x = z⁻¹`) `n`
  times to `N₀/D`, `D = (1 - a x)(1 - ā x)`, `a = A e^{jf}`,
  `N₀ = cos φ - A cos(f-φ) x = ½ (e^{jφ}(1 - ā x) + e^{-jφ}(1 - a x))`, i.e. to
  `½ (e^{jφ}/(1 - a x) + e^{-jφ}/(1 - ā x))`.  With the Eulerian polynomials
  `E₀ = 1`, `E_{n+1} = (1 - u)·θE_n + (n+1)·u·E_n`   (`θⁿ 1/(1-u) = E_n(u)/(1-u)^{n+1}`) the coded
  numerator after `n` steps is
      `2·N_n(x) = e^{jφ} E_n(a x) (1 - ā x)^{n+1} + e^{-jφ} E_n(ā x) (1 - a x)^{n+1}`.
  At `x = e^{-jf}`: `a x = A`, `ā x = v = A e^{-2jf}`; `E_n` has non-negative coefficients and leading
  coefficient 1, so `|E_n(v)| ≤ E_n(A)`, `E_n(A) > 0`, while `|1 - v| > 1 - A` for `sin f ≠ 0`: the first
  summand is strictly larger in modulus than the second and `N_n(e^{-jf}) ≠ 0`.
-/
import ALV.Lemmas.C13Gamma
import Mathlib.Algebra.Polynomial.Derivative
import Mathlib.Algebra.Polynomial.Eval.Degree

set_option linter.unusedSectionVars false
set_option linter.unusedSimpArgs false

namespace ALV.C13
open ALV ALV.TrigField Polynomial

/-! ### the coded list operations are polynomial operations -/

/-- the dense coefficient list (of powers of `z⁻¹`) as a polynomial over ℂ -/
noncomputable def toPoly : List ℝ → ℂ[X]
  | [] => 0
  | c :: cs => C (c : ℂ) + X * toPoly cs

theorem eval_toPoly (w : ℂ) (l : List ℝ) : (toPoly l).eval w = polyEvalC w l := by
  induction l with
  | nil => simp [toPoly, polyEvalC]
  | cons c cs ih => simp [toPoly, polyEvalC, ih]

theorem toPoly_addL (p q : List ℝ) : toPoly (addL p q) = toPoly p + toPoly q := by
  induction p generalizing q with
  | nil => simp [addL, toPoly]
  | cons x p ih =>
    cases q with
    | nil => simp [addL, toPoly]
    | cons y q =>
      simp only [addL, toPoly, ih]
      push_cast
      rw [C_add]
      ring

theorem toPoly_map_mul (c : ℝ) (q : List ℝ) : toPoly (q.map (c * ·)) = C (c : ℂ) * toPoly q := by
  induction q with
  | nil => simp [toPoly]
  | cons y q ih =>
    simp only [List.map_cons, toPoly, ih]
    push_cast
    rw [C_mul]
    ring

theorem toPoly_map_neg (q : List ℝ) : toPoly (q.map (- ·)) = - toPoly q := by
  induction q with
  | nil => simp [toPoly]
  | cons y q ih =>
    simp only [List.map_cons, toPoly, ih]
    push_cast
    rw [C_neg]
    ring

theorem toPoly_mulL (p q : List ℝ) : toPoly (mulL p q) = toPoly p * toPoly q := by
  induction p with
  | nil => simp [mulL, toPoly]
  | cons c p ih =>
    simp only [mulL, toPoly_addL, toPoly_map_mul, toPoly, ih, c0_real]
    simp
    ring

/-- `weightFrom i` multiplies the coefficient of `x^k` by `i + k`: `i·P + x·P'` -/
theorem toPoly_weightFrom (i : ℕ) (l : List ℝ) :
    toPoly (weightFrom i l) = C (i : ℂ) * toPoly l + X * derivative (toPoly l) := by
  induction l generalizing i with
  | nil => simp [weightFrom, toPoly]
  | cons c cs ih =>
    simp only [weightFrom, toPoly, ih, real_ofNat, derivative_add, derivative_C, derivative_mul,
      derivative_X]
    push_cast
    simp only [C_mul, C_add, C_1]
    ring

/-! ### the operator `θ = x·d/dx` and the Eulerian polynomials -/

section algebra
variable {R : Type} [CommRing R]

/-- `θ P = x·P'` (on a polynomial in `x = z⁻¹` this is `-z·dP/dz`) -/
noncomputable def theta (P : R[X]) : R[X] := X * derivative P

theorem theta_add (P Q : R[X]) : theta (P + Q) = theta P + theta Q := by
  simp only [theta, derivative_add]; ring

theorem theta_sub (P Q : R[X]) : theta (P - Q) = theta P - theta Q := by
  simp only [theta, derivative_sub]; ring

theorem theta_mul (P Q : R[X]) : theta (P * Q) = theta P * Q + P * theta Q := by
  simp only [theta, derivative_mul]; ring

theorem theta_C_mul (k : R) (P : R[X]) : theta (C k * P) = C k * theta P := by
  simp only [theta, derivative_C_mul]; ring

theorem theta_one : theta (1 : R[X]) = 0 := by simp [theta]

theorem theta_C (k : R) : theta (C k) = 0 := by simp [theta]

theorem theta_C_mul_X (a : R) : theta (C a * X) = C a * X := by
  simp only [theta, derivative_C_mul_X]; ring

theorem theta_pow_succ (P : R[X]) (n : ℕ) :
    theta (P ^ (n + 1)) = C ((n : R) + 1) * P ^ n * theta P := by
  simp only [theta, derivative_pow_succ]; ring

/-- Eulerian polynomials (with the factor `u`): `θⁿ (1/(1-u)) = E_n(u)/(1-u)^{n+1}`;
`E₀ = 1, E₁ = u, E₂ = u + u², E₃ = u + 4u² + u³, E₄ = u + 11u² + 11u³ + u⁴, …` -/
noncomputable def eul : ℕ → R[X]
  | 0 => 1
  | n + 1 => (1 - X) * theta (eul n) + C ((n : R) + 1) * X * eul n

/-- `E_n(a·x)` as a polynomial in `x` -/
noncomputable def eulAt (a : R) (n : ℕ) : R[X] := (eul n).comp (C a * X)

theorem theta_comp_scale (a : R) (P : R[X]) : theta (P.comp (C a * X)) = (theta P).comp (C a * X) := by
  simp only [theta, derivative_comp, derivative_C_mul_X, mul_comp, X_comp]
  ring

theorem eulAt_zero (a : R) : eulAt a 0 = 1 := by simp [eulAt, eul]

theorem eulAt_succ (a : R) (n : ℕ) :
    eulAt a (n + 1) = (1 - C a * X) * theta (eulAt a n) + C ((n : R) + 1) * (C a * X) * eulAt a n := by
  simp only [eulAt, eul, theta_comp_scale, add_comp, mul_comp, sub_comp, one_comp, X_comp, C_comp]

/-- **partial fractions of the differentiated section.**  If `D = (1 - a x)(1 - a' x)`,
`2 N₀ = c (1 - a' x) + c' (1 - a x)` and `N_{n+1} = θN_n · D - (n+1) · N_n · θD` (one step of
`ZFilter.diff(mul_after=-z)`), then
`2 N_n = c E_n(a x) (1 - a' x)^{n+1} + c' E_n(a' x) (1 - a x)^{n+1}`. -/
theorem diff_closed_form (a a' c c' : R) (D : R[X]) (N : ℕ → R[X])
    (hD : D = (1 - C a * X) * (1 - C a' * X))
    (h0 : C 2 * N 0 = C c * (1 - C a' * X) + C c' * (1 - C a * X))
    (hN : ∀ n, N (n + 1) = theta (N n) * D - C ((n : R) + 1) * N n * theta D) (n : ℕ) :
    C 2 * N n = C c * eulAt a n * (1 - C a' * X) ^ (n + 1)
              + C c' * eulAt a' n * (1 - C a * X) ^ (n + 1) := by
  induction n with
  | zero => simp [eulAt_zero, h0]
  | succ n ih =>
    have hp : theta (1 - C a * X) = -(C a * X) := by
      rw [theta_sub, theta_one, theta_C_mul_X]; ring
    have hq : theta (1 - C a' * X) = -(C a' * X) := by
      rw [theta_sub, theta_one, theta_C_mul_X]; ring
    have h2 : C 2 * N (n + 1) = theta (C 2 * N n) * D - C ((n : R) + 1) * (C 2 * N n) * theta D := by
      rw [hN, theta_C_mul]; ring
    rw [h2, ih, hD, eulAt_succ, eulAt_succ]
    simp only [theta_add, theta_mul, theta_C, theta_pow_succ, hp, hq]
    ring

theorem eul_succ_eq (n : ℕ) :
    (eul (n + 1) : R[X]) = X * ((1 - X) * derivative (eul n) + C ((n : R) + 1) * eul n) := by
  simp only [eul, theta]; ring

theorem eul_coeff_succ_zero (n : ℕ) : (eul (n + 1) : R[X]).coeff 0 = 0 := by
  rw [eul_succ_eq, coeff_X_mul_zero]

/-- the Eulerian triangle: `e(n+1, k+1) = (k+1)·e(n, k+1) + (n+1-k)·e(n, k)` -/
theorem eul_coeff_succ_succ (n k : ℕ) :
    (eul (n + 1) : R[X]).coeff (k + 1)
      = ((k : R) + 1) * (eul n : R[X]).coeff (k + 1) + ((n : R) + 1 - k) * (eul n : R[X]).coeff k := by
  rw [eul_succ_eq, coeff_X_mul, coeff_add, coeff_C_mul, sub_mul, one_mul, coeff_sub, coeff_derivative]
  cases k with
  | zero => simp
  | succ m =>
    rw [coeff_X_mul, coeff_derivative]
    push_cast
    ring

theorem eul_map {S : Type} [CommRing S] (g : R →+* S) (n : ℕ) : (eul n : R[X]).map g = eul n := by
  induction n with
  | zero => simp [eul]
  | succ n ih =>
    simp only [eul, theta, Polynomial.map_add, Polynomial.map_mul, Polynomial.map_sub,
      Polynomial.map_one, map_X, map_C, ← derivative_map, ih, map_add, map_natCast, map_one,
      Polynomial.map_natCast]

end algebra

/-! ### sign of the Eulerian coefficients, and the evaluation bounds that follow -/

/-- coefficients are non-negative, vanish above the degree `n`, and the leading one is 1 -/
theorem eul_coeff_real (n : ℕ) :
    ∀ k, 0 ≤ (eul n : ℝ[X]).coeff k ∧ (n < k → (eul n : ℝ[X]).coeff k = 0) ∧
      (k = n → (eul n : ℝ[X]).coeff k = 1) := by
  induction n with
  | zero =>
    intro k
    simp only [eul, coeff_one]
    refine ⟨by split <;> norm_num, fun h => by simp [Nat.pos_iff_ne_zero.1 h], fun h => by simp [h]⟩
  | succ n ih =>
    intro k
    cases k with
    | zero =>
      rw [eul_coeff_succ_zero]
      exact ⟨le_refl _, fun _ => rfl, fun h => by omega⟩
    | succ k =>
      rw [eul_coeff_succ_succ]
      obtain ⟨a1, a2, a3⟩ := ih (k + 1)
      obtain ⟨b1, b2, b3⟩ := ih k
      refine ⟨?_, fun h => ?_, fun h => ?_⟩
      · by_cases hk : k ≤ n
        · have : (0 : ℝ) ≤ (n : ℝ) + 1 - k := by
            have : (k : ℝ) ≤ n := by exact_mod_cast hk
            linarith
          positivity
        · rw [a2 (by omega), b2 (by omega)]; simp
      · rw [a2 (by omega), b2 (by omega)]; simp
      · have hk : k = n := by omega
        rw [a2 (by omega), b3 hk, hk]; ring

theorem eul_natDegree_real (n : ℕ) : (eul n : ℝ[X]).natDegree = n := by
  apply le_antisymm
  · rw [natDegree_le_iff_coeff_eq_zero]
    intro k hk
    exact (eul_coeff_real n k).2.1 hk
  · apply le_natDegree_of_ne_zero
    rw [(eul_coeff_real n n).2.2 rfl]
    exact one_ne_zero

/-- `E_n(A) ≥ Aⁿ > 0` for `A > 0` -/
theorem eul_eval_pos (n : ℕ) (A : ℝ) (hA : 0 < A) : 0 < (eul n : ℝ[X]).eval A := by
  rw [eval_eq_sum_range, eul_natDegree_real]
  have h1 : (eul n : ℝ[X]).coeff n * A ^ n ≤
      ∑ i ∈ Finset.range (n + 1), (eul n : ℝ[X]).coeff i * A ^ i :=
    Finset.single_le_sum (f := fun i => (eul n : ℝ[X]).coeff i * A ^ i)
      (fun i _ => mul_nonneg (eul_coeff_real n i).1 (pow_nonneg hA.le i))
      (Finset.mem_range.2 (Nat.lt_succ_self n))
  rw [(eul_coeff_real n n).2.2 rfl, one_mul] at h1
  exact lt_of_lt_of_le (pow_pos hA n) h1

/-- `|E_n(v)| ≤ E_n(|v|)` at every complex point -/
theorem eul_eval_norm_le (n : ℕ) (v : ℂ) :
    ‖(eul n : ℂ[X]).eval v‖ ≤ (eul n : ℝ[X]).eval ‖v‖ := by
  rw [← eul_map Complex.ofRealHom n, eval_map, eval₂_eq_sum_range, eval_eq_sum_range]
  refine le_trans (norm_sum_le _ _) (Finset.sum_le_sum fun i _ => ?_)
  rw [norm_mul, norm_pow, Complex.ofRealHom_eq_coe, Complex.norm_real, Real.norm_of_nonneg (eul_coeff_real n i).1]

/-- `E_n` at a real point, computed in ℂ -/
theorem eul_eval_ofReal (n : ℕ) (A : ℝ) :
    (eul n : ℂ[X]).eval (A : ℂ) = (((eul n : ℝ[X]).eval A : ℝ) : ℂ) := by
  rw [← eul_map Complex.ofRealHom n, eval_map]
  exact eval₂_at_apply Complex.ofRealHom A

end ALV.C13
