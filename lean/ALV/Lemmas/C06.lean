/-
  C06 — helper lemmas, part 1: the generated time-varying loop.

  * `tvrun`   — the bounded shifting state machine of C04 (`fstep`) fed, at output `n`, with the
                `n`-th value of every coefficient; `tvrun_eq_tvspec`: it computes `tvspec`
                (unbounded histories) — no algebraic law needed;
  * `evalSumTV_data` — one evaluation of the generated expression: every `next(b{k})` /
                `next(a{k})` pops exactly one item of its own iterator, in its turn, and the value is
                `Σ b_k[n]·d_k − Σ a_k[n]·m_k`; it is `StopIteration` iff some coefficient has no
                `n`-th item;
  * `runLoopTV_eq_tvrun`, `runLoopTV_take` — the `for d0 in seq` loop is `tvrun`, and after `k`
                outputs every coefficient iterator has been advanced exactly `k` times.
-/
import ALV.Lemmas.C04Field
import ALV.Spec.C06

set_option linter.unusedSectionVars false
set_option linter.unusedSimpArgs false
set_option linter.unusedVariables false
namespace ALV.C06
open ALV.C04
variable {K : Type} [Field K] [DecidableEq K]

/-! ### rows -/

theorem row?_nil (n : Nat) : row? ([] : List (Coef K)) n = some [] := rfl

theorem row?_cons (c : Coef K) (cs : List (Coef K)) (n : Nat) :
    row? (c :: cs) n = match c.get? n, row? cs n with
      | some v, some vs => some (v :: vs)
      | _, _ => none := rfl

theorem row?_cons_some {c : Coef K} {cs : List (Coef K)} {n : Nat} {v : K} {vs : List K}
    (h1 : c.get? n = some v) (h2 : row? cs n = some vs) : row? (c :: cs) n = some (v :: vs) := by
  rw [row?_cons, h1, h2]

theorem row?_cons_eq_some {c : Coef K} {cs : List (Coef K)} {n : Nat} {r : List K}
    (h : row? (c :: cs) n = some r) :
    ∃ v vs, c.get? n = some v ∧ row? cs n = some vs ∧ r = v :: vs := by
  rw [row?_cons] at h
  cases h1 : c.get? n with
  | none => simp [h1] at h
  | some v =>
    cases h2 : row? cs n with
    | none => simp [h1, h2] at h
    | some vs =>
      simp only [h1, h2, Option.some.injEq] at h
      exact ⟨v, vs, rfl, rfl, h.symm⟩

theorem row?_cons_none_left {c : Coef K} {cs : List (Coef K)} {n : Nat}
    (h1 : c.get? n = none) : row? (c :: cs) n = none := by
  rw [row?_cons, h1]

theorem row?_cons_none_right {c : Coef K} {cs : List (Coef K)} {n : Nat}
    (h2 : row? cs n = none) : row? (c :: cs) n = none := by
  rw [row?_cons, h2]
  cases c.get? n <;> rfl

theorem row?_length {cs : List (Coef K)} {n : Nat} {vs : List K} (h : row? cs n = some vs) :
    vs.length = cs.length := by
  induction cs generalizing vs with
  | nil => simp [row?] at h; subst h; rfl
  | cons c cs ih =>
    obtain ⟨v, vs', _, h2, rfl⟩ := row?_cons_eq_some h
    simp [ih h2]

/-! ### the shifting machine with the n-th coefficient values -/

/-- C04's `fstep` with, at output `n`, the `n`-th value of every coefficient; ends with the input
or as soon as one coefficient has no `n`-th value -/
def tvrun (b as : List (Coef K)) (a0 : Coef K) : Nat → FState K → List K → List K
  | _, _, [] => []
  | n, s, x :: xs =>
    match row? b n, row? as n, a0.get? n with
    | some bn, some an, some g =>
      (fstep bn an g s x).1 :: tvrun b as a0 (n + 1) (fstep bn an g s x).2 xs
    | _, _, _ => []

/-- **core of C06.1**: the bounded shifting state computes the time-varying difference equation
over unbounded histories — every shape, every subset of coefficients being streams, `a0` too -/
theorem tvrun_eq_tvspec (b as : List (Coef K)) (a0 : Coef K) (zero : K) :
    ∀ (xs : List K) (n : Nat) (hy hx : List K), as.length ≤ hy.length →
      tvrun b as a0 n ⟨hy.take as.length, takeP zero (b.length - 1) hx⟩ xs
        = tvspec b as a0 zero n hy hx xs := by
  intro xs
  induction xs with
  | nil => intro n hy hx _; simp [tvrun, tvspec]
  | cons x xs ih =>
    intro n hy hx hlen
    cases hb : row? b n with
    | none => simp [tvrun, tvspec, hb]
    | some bn =>
      cases ha : row? as n with
      | none => simp [tvrun, tvspec, hb, ha]
      | some an =>
        cases hg : a0.get? n with
        | none => simp [tvrun, tvspec, hb, ha, hg]
        | some g =>
          have lb := row?_length hb
          have la := row?_length ha
          have hy1 : dot an (hy.take as.length) = dot an hy := by rw [← la]; exact dot_take an hy
          have hb' : dot bn (x :: takeP zero (b.length - 1) hx)
              = dot bn (takeP zero bn.length (x :: hx)) := by
            cases bn with
            | nil => simp [dot]
            | cons b0 bs =>
              have : b.length - 1 = bs.length := by simp at lb; omega
              rw [this]; simp [takeP]
          simp only [tvrun, tvspec, hb, ha, hg, fstep, hy1, hb']
          congr 1
          have hm : (hy.take as.length).length = as.length := by simp; omega
          have := ih (n + 1)
            (((dot bn (takeP zero bn.length (x :: hx)) - dot an hy) / g) :: hy) (x :: hx)
            (by simp; omega)
          rw [← this]
          congr 2
          · rw [hm, take_cons_take]
          · rw [takeP_length, take_cons_takeP]

/-! ### iterators -/

/-- the coefficient iterators after `n` outputs: every one advanced exactly `n` times -/
def itsAt (b as : List (Coef K)) (n : Nat) : Its K :=
  ⟨b.map (fun c => c.items.drop n), as.map (fun c => c.items.drop n)⟩

theorem itsOf_eq (b as : List (Coef K)) : itsOf b as = itsAt b as 0 := by
  simp [itsOf, itsAt]

theorem getD_pre (pre : List (List K)) (x : List K) (r : List (List K)) :
    (pre ++ x :: r).getD pre.length [] = x := by
  induction pre with
  | nil => simp
  | cons p ps ih => simp [ih]

theorem set_pre (pre : List (List K)) (x y : List K) (r : List (List K)) :
    (pre ++ x :: r).set pre.length y = pre ++ y :: r := by
  induction pre with
  | nil => simp
  | cons p ps ih => simp [ih]

theorem dot_cons_drop (v : K) (vs l : List K) (k : Nat) :
    dot (v :: vs) (l.drop k) = v * l.getD k 0 + dot vs (l.drop (k + 1)) := by
  by_cases hk : k < l.length
  · rw [getD_drop_cons _ _ hk]; simp [dot]
  · have h0 : l.drop k = [] := List.drop_eq_nil_of_le (by omega)
    have h1 : l.drop (k + 1) = [] := List.drop_eq_nil_of_le (by omega)
    have h2 : l.getD k 0 = 0 := by
      simp [List.getD_eq_getElem?_getD, List.getElem?_eq_none (show l.length ≤ k by omega)]
    rw [h0, h1, h2, dot_nil_right]
    simp [dot]

theorem get?_strm_lt {s : List K} {n : Nat} (h : n < s.length) :
    (Coef.strm s).get? n = some s[n] := by
  simp [Coef.get?, List.getElem?_eq_getElem h]

theorem get?_strm_ge {s : List K} {n : Nat} (h : s.length ≤ n) :
    (Coef.strm s).get? n = none := by
  simp [Coef.get?, List.getElem?_eq_none h]

/-! ### one evaluation of the generated expression -/

theorem foldTV_nil (e : Env K) (its : Its K) (acc : K) : foldTV e its acc [] = (its, some acc) := rfl

/-- constant-coefficient summands read no iterator and add their C04 value -/
theorem foldTV_lti (e : Env K) (its : Its K) (l : List (Atom K)) (acc : K) (rest : List (TAtom K)) :
    foldTV e its acc (l.map TAtom.lti ++ rest) = foldTV e its (acc + sumAtoms e l) rest := by
  induction l generalizing acc with
  | nil => simp [sumAtoms]
  | cons t ts ih =>
    simp only [List.map_cons, List.cons_append, foldTV, evalAtomTV, ih, sumAtoms, add_assoc]

/-- in a field Python's `t0 + t1 + …` may start from 0 -/
theorem evalSumTV_eq_foldTV (e : Env K) (its : Its K) (l : List (TAtom K)) :
    evalSumTV e its l = foldTV e its 0 l := by
  cases l with
  | nil => rfl
  | cons t ts =>
    simp only [evalSumTV, foldTV]
    cases h : evalAtomTV e its t with
    | mk its' o =>
      cases o with
      | none => rfl
      | some v => simp

/-- numerator summands: each `next(b{k})` pops the head of iterator `k`; the sum is `Σ b_k[n]·d_k` -/
theorem foldTV_num (e : Env K) (n : Nat) (ia : List (List K)) (rest : List (TAtom K)) :
    ∀ (cs : List (Coef K)) (k : Nat) (pre : List (List K)) (acc : K), pre.length = k →
      (∀ vs, row? cs n = some vs →
        foldTV e ⟨pre ++ cs.map (fun c => c.items.drop n), ia⟩ acc (numAtomsTV k cs ++ rest)
          = foldTV e ⟨pre ++ cs.map (fun c => c.items.drop (n + 1)), ia⟩
              (acc + dot vs (e.d.drop k)) rest) ∧
      (row? cs n = none →
        (foldTV e ⟨pre ++ cs.map (fun c => c.items.drop n), ia⟩ acc (numAtomsTV k cs ++ rest)).2
          = none) := by
  intro cs
  induction cs with
  | nil =>
    intro k pre acc _
    constructor
    · intro vs h
      simp only [row?, Option.some.injEq] at h
      subst h
      simp [numAtomsTV, dot]
    · intro h; simp [row?] at h
  | cons c cs ih =>
    intro k pre acc hk
    cases c with
    | const c0 =>
      have hpre : (pre ++ [([] : List K)]).length = k + 1 := by simp [hk]
      have hl : pre ++ (Coef.const c0 :: cs).map (fun c => c.items.drop n)
          = (pre ++ [[]]) ++ cs.map (fun c => c.items.drop n) := by
        simp [Coef.items]
      have hl' : pre ++ (Coef.const c0 :: cs).map (fun c => c.items.drop (n + 1))
          = (pre ++ [[]]) ++ cs.map (fun c => c.items.drop (n + 1)) := by
        simp [Coef.items]
      have hatoms : numAtomsTV k (Coef.const c0 :: cs) ++ rest
          = (numAtoms k [c0]).map TAtom.lti ++ (numAtomsTV (k + 1) cs ++ rest) := by
        simp [numAtomsTV]
      obtain ⟨ih1, ih2⟩ := ih (k + 1) (pre ++ [[]]) (acc + sumAtoms e (numAtoms k [c0])) hpre
      rw [hl, hl', hatoms, foldTV_lti]
      constructor
      · intro vs h
        obtain ⟨v, vs', h1, h2, rfl⟩ := row?_cons_eq_some h
        have hv : v = c0 := by simpa [Coef.get?] using h1.symm
        subst hv
        rw [ih1 vs' h2, sumAtoms_numAtoms, dot_cons_drop, dot_cons_drop]
        simp [dot, add_assoc]
      · intro h
        apply ih2
        cases h2 : row? cs n with
        | none => rfl
        | some vs' => rw [row?_cons_some (show (Coef.const c0).get? n = some c0 from rfl) h2] at h; simp at h
    | strm s =>
      have hatoms : numAtomsTV k (Coef.strm s :: cs) ++ rest
          = TAtom.nextB k :: (numAtomsTV (k + 1) cs ++ rest) := by
        simp [numAtomsTV]
      have hl : pre ++ (Coef.strm s :: cs).map (fun c => c.items.drop n)
          = pre ++ s.drop n :: cs.map (fun c => c.items.drop n) := by
        simp [Coef.items]
      rw [hatoms, hl]
      by_cases hn : n < s.length
      · have hdrop : s.drop n = s[n] :: s.drop (n + 1) := List.drop_eq_getElem_cons hn
        have hpre : (pre ++ [s.drop (n + 1)]).length = k + 1 := by simp [hk]
        obtain ⟨ih1, ih2⟩ := ih (k + 1) (pre ++ [s.drop (n + 1)]) (acc + s[n] * e.get (.d k)) hpre
        have hstep : ∀ (tl : List (TAtom K)),
            foldTV e ⟨pre ++ s.drop n :: cs.map (fun c => c.items.drop n), ia⟩ acc (TAtom.nextB k :: tl)
              = foldTV e ⟨(pre ++ [s.drop (n + 1)]) ++ cs.map (fun c => c.items.drop n), ia⟩
                  (acc + s[n] * e.get (.d k)) tl := by
          intro tl
          simp only [foldTV, evalAtomTV]
          rw [← hk, getD_pre, hdrop]
          simp only [set_pre]
          simp
        rw [hstep]
        constructor
        · intro vs h
          obtain ⟨v, vs', h1, h2, rfl⟩ := row?_cons_eq_some h
          rw [get?_strm_lt hn] at h1
          have hv : v = s[n] := by simpa using h1.symm
          subst hv
          rw [ih1 vs' h2, dot_cons_drop]
          simp [Env.get, Coef.items, add_assoc]
        · intro h
          apply ih2
          cases h2 : row? cs n with
          | none => rfl
          | some vs' => rw [row?_cons_some (get?_strm_lt hn) h2] at h; simp at h
      · have hdrop : s.drop n = [] := List.drop_eq_nil_of_le (by omega)
        constructor
        · intro vs h
          rw [row?_cons_none_left (get?_strm_ge (by omega))] at h
          simp at h
        · intro _
          simp only [foldTV, evalAtomTV]
          rw [← hk, getD_pre, hdrop]

/-- denominator summands: each `-next(a{k})` pops the head of iterator `k` (slot `k-1`); the sum is
`− Σ a_k[n]·m_k` -/
theorem foldTV_den (e : Env K) (n : Nat) (ib : List (List K)) (rest : List (TAtom K)) :
    ∀ (cs : List (Coef K)) (k : Nat) (pre : List (List K)) (acc : K), pre.length + 1 = k →
      (∀ vs, row? cs n = some vs →
        foldTV e ⟨ib, pre ++ cs.map (fun c => c.items.drop n)⟩ acc (denAtomsTV k cs ++ rest)
          = foldTV e ⟨ib, pre ++ cs.map (fun c => c.items.drop (n + 1))⟩
              (acc - dot vs (e.m.drop k)) rest) ∧
      (row? cs n = none →
        (foldTV e ⟨ib, pre ++ cs.map (fun c => c.items.drop n)⟩ acc (denAtomsTV k cs ++ rest)).2
          = none) := by
  intro cs
  induction cs with
  | nil =>
    intro k pre acc _
    constructor
    · intro vs h
      simp only [row?, Option.some.injEq] at h
      subst h
      simp [denAtomsTV, dot]
    · intro h; simp [row?] at h
  | cons c cs ih =>
    intro k pre acc hk
    cases c with
    | const c0 =>
      have hpre : (pre ++ [([] : List K)]).length + 1 = k + 1 := by simp; omega
      have hl : pre ++ (Coef.const c0 :: cs).map (fun c => c.items.drop n)
          = (pre ++ [[]]) ++ cs.map (fun c => c.items.drop n) := by
        simp [Coef.items]
      have hl' : pre ++ (Coef.const c0 :: cs).map (fun c => c.items.drop (n + 1))
          = (pre ++ [[]]) ++ cs.map (fun c => c.items.drop (n + 1)) := by
        simp [Coef.items]
      have hatoms : denAtomsTV k (Coef.const c0 :: cs) ++ rest
          = (denAtoms k [c0]).map TAtom.lti ++ (denAtomsTV (k + 1) cs ++ rest) := by
        simp [denAtomsTV]
      obtain ⟨ih1, ih2⟩ := ih (k + 1) (pre ++ [[]]) (acc + sumAtoms e (denAtoms k [c0])) hpre
      rw [hl, hl', hatoms, foldTV_lti]
      constructor
      · intro vs h
        obtain ⟨v, vs', h1, h2, rfl⟩ := row?_cons_eq_some h
        have hv : v = c0 := by simpa [Coef.get?] using h1.symm
        subst hv
        rw [ih1 vs' h2, sumAtoms_denAtoms, dot_cons_drop, dot_cons_drop]
        simp [dot]
        ring_nf
      · intro h
        apply ih2
        cases h2 : row? cs n with
        | none => rfl
        | some vs' => rw [row?_cons_some (show (Coef.const c0).get? n = some c0 from rfl) h2] at h; simp at h
    | strm s =>
      have hatoms : denAtomsTV k (Coef.strm s :: cs) ++ rest
          = TAtom.nextA k :: (denAtomsTV (k + 1) cs ++ rest) := by
        simp [denAtomsTV]
      have hl : pre ++ (Coef.strm s :: cs).map (fun c => c.items.drop n)
          = pre ++ s.drop n :: cs.map (fun c => c.items.drop n) := by
        simp [Coef.items]
      have hk1 : k - 1 = pre.length := by omega
      rw [hatoms, hl]
      by_cases hn : n < s.length
      · have hdrop : s.drop n = s[n] :: s.drop (n + 1) := List.drop_eq_getElem_cons hn
        have hpre : (pre ++ [s.drop (n + 1)]).length + 1 = k + 1 := by simp; omega
        obtain ⟨ih1, ih2⟩ := ih (k + 1) (pre ++ [s.drop (n + 1)]) (acc + (-s[n]) * e.get (.m k)) hpre
        have hstep : ∀ (tl : List (TAtom K)),
            foldTV e ⟨ib, pre ++ s.drop n :: cs.map (fun c => c.items.drop n)⟩ acc (TAtom.nextA k :: tl)
              = foldTV e ⟨ib, (pre ++ [s.drop (n + 1)]) ++ cs.map (fun c => c.items.drop n)⟩
                  (acc + (-s[n]) * e.get (.m k)) tl := by
          intro tl
          simp only [foldTV, evalAtomTV]
          rw [hk1, getD_pre, hdrop]
          simp only [set_pre]
          simp
        rw [hstep]
        constructor
        · intro vs h
          obtain ⟨v, vs', h1, h2, rfl⟩ := row?_cons_eq_some h
          rw [get?_strm_lt hn] at h1
          have hv : v = s[n] := by simpa using h1.symm
          subst hv
          rw [ih1 vs' h2, dot_cons_drop]
          simp [Env.get, Coef.items]
          ring_nf
        · intro h
          apply ih2
          cases h2 : row? cs n with
          | none => rfl
          | some vs' => rw [row?_cons_some (get?_strm_lt hn) h2] at h; simp at h
      · have hdrop : s.drop n = [] := List.drop_eq_nil_of_le (by omega)
        constructor
        · intro vs h
          rw [row?_cons_none_left (get?_strm_ge (by omega))] at h
          simp at h
        · intro _
          simp only [foldTV, evalAtomTV]
          rw [hk1, getD_pre, hdrop]

/-- the whole expression, all coefficients present at `n`: every iterator advanced once, value
`Σ b_k[n]·d_k − Σ a_k[n]·m_k` -/
theorem evalSumTV_some (b as : List (Coef K)) (n : Nat) (g x : K) (ms ds bn an : List K)
    (hb : row? b n = some bn) (ha : row? as n = some an) :
    evalSumTV (⟨g :: ms, x :: ds⟩ : Env K) (itsAt b as n) (numAtomsTV 0 b ++ denAtomsTV 1 as)
      = (itsAt b as (n + 1), some (dot bn (x :: ds) - dot an ms)) := by
  rw [evalSumTV_eq_foldTV]
  have h1 := (foldTV_num (⟨g :: ms, x :: ds⟩ : Env K) n (as.map (fun c => c.items.drop n))
    (denAtomsTV 1 as) b 0 [] 0 rfl).1 bn hb
  have h2 := (foldTV_den (⟨g :: ms, x :: ds⟩ : Env K) n (b.map (fun c => c.items.drop (n + 1)))
    [] as 1 [] (0 + dot bn (x :: ds)) rfl).1 an ha
  simp only [List.nil_append, List.append_nil, List.drop_zero] at h1 h2
  simp only [itsAt]
  rw [h1, h2, foldTV_nil]
  simp

/-- … and it is `StopIteration` as soon as one coefficient has no `n`-th item -/
theorem evalSumTV_none (b as : List (Coef K)) (n : Nat) (g x : K) (ms ds : List K)
    (h : row? b n = none ∨ row? as n = none) :
    (evalSumTV (⟨g :: ms, x :: ds⟩ : Env K) (itsAt b as n) (numAtomsTV 0 b ++ denAtomsTV 1 as)).2
      = none := by
  rw [evalSumTV_eq_foldTV]
  simp only [itsAt]
  cases hb : row? b n with
  | none =>
    have h1 := (foldTV_num (⟨g :: ms, x :: ds⟩ : Env K) n (as.map (fun c => c.items.drop n))
      (denAtomsTV 1 as) b 0 [] 0 rfl).2 hb
    simpa using h1
  | some bn =>
    have ha : row? as n = none := by
      rcases h with h | h
      · rw [hb] at h; simp at h
      · exact h
    have h1 := (foldTV_num (⟨g :: ms, x :: ds⟩ : Env K) n (as.map (fun c => c.items.drop n))
      (denAtomsTV 1 as) b 0 [] 0 rfl).1 bn hb
    have h2 := (foldTV_den (⟨g :: ms, x :: ds⟩ : Env K) n (b.map (fun c => c.items.drop (n + 1)))
      [] as 1 [] (0 + dot bn (x :: ds)) rfl).2 ha
    simp only [List.nil_append, List.append_nil, List.drop_zero] at h1 h2
    rw [h1]
    exact h2

/-! ### the loop -/

/-- the `for d0 in seq` loop of the generated time-varying source is the shifting machine fed
with the `n`-th coefficient values -/
theorem runLoopTV_eq_tvrun (b as : List (Coef K)) (a0 : K) (gain : Gain K)
    (hg : ∀ s, applyGain gain s = s / a0) (xs : List K) :
    ∀ (n : Nat) (g h : K) (ms ds : List K), ms.length = as.length → ds.length = b.length - 1 →
      (runLoopTV (numAtomsTV 0 b ++ denAtomsTV 1 as) gain
          (mShifts as.length ++ dShifts (b.length - 1)) ⟨g :: ms, h :: ds⟩ (itsAt b as n) xs).1
        = tvrun b as (Coef.const a0) n ⟨ms, ds⟩ xs := by
  induction xs with
  | nil => intros; simp [runLoopTV, tvrun]
  | cons x xs ih =>
    intro n g h ms ds hm hd
    have henv : (⟨g :: ms, h :: ds⟩ : Env K).set (.d 0) x = ⟨g :: ms, x :: ds⟩ := by
      simp [Env.set]
    simp only [runLoopTV, henv]
    cases hb : row? b n with
    | none =>
      have hnone := evalSumTV_none b as n g x ms ds (Or.inl hb)
      cases hev : evalSumTV (⟨g :: ms, x :: ds⟩ : Env K) (itsAt b as n)
          (numAtomsTV 0 b ++ denAtomsTV 1 as) with
      | mk its' o =>
        rw [hev] at hnone
        simp only at hnone
        subst hnone
        simp [tvrun, hb]
    | some bn =>
      cases ha : row? as n with
      | none =>
        have hnone := evalSumTV_none b as n g x ms ds (Or.inr ha)
        cases hev : evalSumTV (⟨g :: ms, x :: ds⟩ : Env K) (itsAt b as n)
            (numAtomsTV 0 b ++ denAtomsTV 1 as) with
        | mk its' o =>
          rw [hev] at hnone
          simp only at hnone
          subst hnone
          simp [tvrun, hb, ha]
      | some an =>
        rw [evalSumTV_some b as n g x ms ds bn an hb ha]
        simp only [tvrun, hb, ha, Coef.get?, fstep, hg, Env.set, List.set_cons_zero,
          runShifts_shifts]
        congr 1
        rw [← hm, ← hd, shiftList_cons, shiftList_cons]
        have := ih (n + 1) ((dot bn (x :: ds) - dot an ms) / a0) x
          (List.take ms.length ((dot bn (x :: ds) - dot an ms) / a0 :: ms))
          (List.take ds.length (x :: ds)) (by simp [hm]) (by simp [hd])
        rw [← hm, ← hd] at this
        exact this

/-- **reads once**: if the loop yields at least `k` outputs, then stopping the input after `k`
items leaves every coefficient iterator advanced by exactly `k` — and the outputs are the first `k` -/
theorem runLoopTV_take (b as : List (Coef K)) (gain : Gain K) (shifts : List (Var × Var)) (xs : List K) :
    ∀ (k n : Nat) (g h : K) (ms ds : List K),
      k ≤ (runLoopTV (numAtomsTV 0 b ++ denAtomsTV 1 as) gain shifts ⟨g :: ms, h :: ds⟩
            (itsAt b as n) xs).1.length →
      runLoopTV (numAtomsTV 0 b ++ denAtomsTV 1 as) gain shifts ⟨g :: ms, h :: ds⟩ (itsAt b as n)
          (xs.take k)
        = ((runLoopTV (numAtomsTV 0 b ++ denAtomsTV 1 as) gain shifts ⟨g :: ms, h :: ds⟩
            (itsAt b as n) xs).1.take k, itsAt b as (n + k)) := by
  induction xs with
  | nil =>
    intro k n g h ms ds hk
    simp [runLoopTV] at hk
    subst hk
    simp [runLoopTV]
  | cons x xs ih =>
    intro k n g h ms ds hk
    cases k with
    | zero => simp [runLoopTV]
    | succ k =>
      have henv : (⟨g :: ms, h :: ds⟩ : Env K).set (.d 0) x = ⟨g :: ms, x :: ds⟩ := by
        simp [Env.set]
      simp only [runLoopTV, henv, List.take_succ_cons] at hk ⊢
      cases hb : row? b n with
      | none =>
        have hnone := evalSumTV_none b as n g x ms ds (Or.inl hb)
        cases hev : evalSumTV (⟨g :: ms, x :: ds⟩ : Env K) (itsAt b as n)
            (numAtomsTV 0 b ++ denAtomsTV 1 as) with
        | mk its' o =>
          rw [hev] at hnone hk
          simp only at hnone
          subst hnone
          simp at hk
      | some bn =>
        cases ha : row? as n with
        | none =>
          have hnone := evalSumTV_none b as n g x ms ds (Or.inr ha)
          cases hev : evalSumTV (⟨g :: ms, x :: ds⟩ : Env K) (itsAt b as n)
              (numAtomsTV 0 b ++ denAtomsTV 1 as) with
          | mk its' o =>
            rw [hev] at hnone hk
            simp only at hnone
            subst hnone
            simp at hk
        | some an =>
          rw [evalSumTV_some b as n g x ms ds bn an hb ha] at hk ⊢
          simp only [List.length_cons, Nat.add_le_add_iff_right, List.take_succ_cons] at hk ⊢
          -- the environment after the shifts is again of the form ⟨_ :: _, _ :: _⟩
          generalize hy : applyGain gain (dot bn (x :: ds) - dot an ms) = y at hk ⊢
          obtain ⟨g', ms', h', ds', he⟩ : ∃ g' ms' h' ds',
              runShifts ((⟨g :: ms, x :: ds⟩ : Env K).set (.m 0) y) shifts = ⟨g' :: ms', h' :: ds'⟩ := by
            have key : ∀ (sh : List (Var × Var)) (e : Env K), e.m ≠ [] → e.d ≠ [] →
                (runShifts e sh).m ≠ [] ∧ (runShifts e sh).d ≠ [] := by
              intro sh
              induction sh with
              | nil => intro e h1 h2; exact ⟨h1, h2⟩
              | cons t ts iht =>
                intro e h1 h2
                simp only [runShifts, List.foldl_cons]
                apply iht
                · cases t.1 <;> simp [Env.set, h1]
                · cases t.1 <;> simp [Env.set, h2]
            obtain ⟨k1, k2⟩ := key shifts ((⟨g :: ms, x :: ds⟩ : Env K).set (.m 0) y)
              (by simp [Env.set]) (by simp [Env.set])
            cases hr : runShifts ((⟨g :: ms, x :: ds⟩ : Env K).set (.m 0) y) shifts with
            | mk m d =>
              rw [hr] at k1 k2
              cases m with
              | nil => simp at k1
              | cons g' ms' =>
                cases d with
                | nil => simp at k2
                | cons h' ds' => exact ⟨g', ms', h', ds', rfl⟩
          rw [he] at hk ⊢
          rw [ih k (n + 1) g' h' ms' ds' hk]
          simp [Nat.add_assoc, Nat.add_comm 1 k]

/-! ### when is `data_sum` empty -/

theorem numAtomsTV_eq_nil (cs : List (Coef K)) (k : Nat) :
    numAtomsTV k cs = [] ↔ ∀ c ∈ cs, c = Coef.const 0 := by
  induction cs generalizing k with
  | nil => simp [numAtomsTV]
  | cons c cs ih =>
    cases c with
    | strm s => simp [numAtomsTV]
    | const c0 =>
      simp only [numAtomsTV, List.append_eq_nil_iff, List.map_eq_nil_iff, ih, List.mem_cons,
        forall_eq_or_imp, Coef.const.injEq]
      rw [numAtoms_eq_nil]
      simp

theorem denAtomsTV_eq_nil (cs : List (Coef K)) (k : Nat) :
    denAtomsTV k cs = [] ↔ ∀ c ∈ cs, c = Coef.const 0 := by
  induction cs generalizing k with
  | nil => simp [denAtomsTV]
  | cons c cs ih =>
    cases c with
    | strm s => simp [denAtomsTV]
    | const c0 =>
      simp only [denAtomsTV, List.append_eq_nil_iff, List.map_eq_nil_iff, ih, List.mem_cons,
        forall_eq_or_imp, Coef.const.injEq]
      rw [denAtoms_eq_nil]
      simp

theorem dataSumTV_eq_nil (b as : List (Coef K)) :
    numAtomsTV 0 b ++ denAtomsTV 1 as = [] ↔ (∀ c ∈ b, c = Coef.const 0) ∧ (∀ c ∈ as, c = Coef.const 0) := by
  simp [List.append_eq_nil_iff, numAtomsTV_eq_nil, denAtomsTV_eq_nil]

end ALV.C06
