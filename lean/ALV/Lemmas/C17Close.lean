/-
  C17 — what holds once `close` has returned: log-level facts on top of the manager-level and
  structural invariants.  Core Lean only.
-/
import ALV.Lemmas.C17Struct
namespace ALV.C17

theorem stepMain_log_assert (cfg : Cfg) (s s' : State) (h : stepMain cfg s = some s')
    (hmem : Ev.closeAssertionError ∈ s'.log) :
    Ev.closeAssertionError ∈ s.log ∨ s.mpc = .kAssertRel := by
  unfold stepMain at h
  cases hm : s.mpc <;> simp only [hm] at h <;> (try split at h) <;> (try split at h) <;>
    (try split at h) <;> (try cases h) <;>
  (first
    | (right; rfl)
    | (left; simpa [setP] using hmem)
    | (left
       rcases mem_nextCmd_log _ _ _ hmem with h1 | h1
       · exact h1
       · cases h1)
    | (left
       rcases mem_next_log _ _ _ hmem with h1 | h1 | h1
       · simpa [setP] using h1
       · cases h1
       · cases h1))

theorem stepMain_log_closeOk (cfg : Cfg) (s s' : State) (h : stepMain cfg s = some s')
    (al : List Bool) (n : Nat) (hmem : Ev.closeOk al n ∈ s'.log) :
    Ev.closeOk al n ∈ s.log ∨ ∃ b, s.mpc = .kHRel b := by
  unfold stepMain at h
  cases hm : s.mpc <;> simp only [hm] at h <;> (try split at h) <;> (try split at h) <;>
    (try split at h) <;> (try cases h) <;>
  (first
    | (right; exact ⟨_, rfl⟩)
    | (left; simpa [setP] using hmem)
    | (left
       rcases mem_nextCmd_log _ _ _ hmem with h1 | h1
       · exact h1
       · cases h1)
    | (left
       rcases mem_next_log _ _ _ hmem with h1 | h1 | h1
       · simpa [setP] using h1
       · cases h1
       · cases h1))

theorem stepMain_terminated_mono (cfg : Cfg) (s s' : State) (h : stepMain cfg s = some s') :
    s.terminated ≤ s'.terminated := by
  unfold stepMain at h
  cases hm : s.mpc <;> simp only [hm] at h <;> (try split at h) <;> (try split at h) <;>
    (try split at h) <;> (try cases h) <;> simp [setP]

/-- log-level invariant -/
structure LI (s : State) : Prop where
  noAssert : Ev.closeAssertionError ∉ s.log
  okTerm : ∀ al n, Ev.closeOk al n ∈ s.log → s.terminated = 1

theorem li_reach {cfg : Cfg} {script : List Cmd} {s : State} (h : Reach cfg script s) : LI s := by
  induction h with
  | init => constructor <;> simp [init]
  | step hr hs ih =>
    rename_i s s' t
    have mi := mi_reach hr
    have si := si_reach hr
    have mi' := mi_reach (Reach.step hr hs)
    cases t with
    | player i =>
      obtain ⟨_, _, _, _, h5, h6, _⟩ := stepPlayer_frame cfg s s' i hs
      exact ⟨by rw [h6]; exact ih.noAssert, by intro al n hm; rw [h6] at hm; rw [h5]; exact ih.okTerm al n hm⟩
    | main =>
      have hs' : stepMain cfg s = some s' := hs
      constructor
      · intro hmem
        rcases stepMain_log_assert cfg s s' hs' hmem with h1 | h1
        · exact ih.noAssert h1
        · exact si.g.noAssert h1
      · intro al n hmem
        have hmono := stepMain_terminated_mono cfg s s' hs'
        have hle := mi'.term
        rcases stepMain_log_closeOk cfg s s' hs' al n hmem with h1 | ⟨b, h1⟩
        · have := ih.okTerm al n h1; omega
        · rcases mi.hrel b h1 with h2 | h2
          · omega
          · exact absurd h2 ih.noAssert

def exitingB (pc : PPc) : Bool := pc == .tfRel || pc == .finRel || pc == .done

/-- everything is shut once the backend has been terminated -/
theorem closedAfter_of_terminated {cfg : Cfg} {script : List Cmd} {s : State}
    (h : Reach cfg script s) (ht : 1 ≤ s.terminated) : closedAfter s = true := by
  have mi := mi_reach h
  have si := si_reach h
  have hfin : s.finished = true := by
    cases hf : s.finished
    · have := mi.fin0 hf; omega
    · rfl
  have hthr := si.g.closedG (Or.inl ht)
  have hterm : s.terminated = 1 := by have := mi.term; omega
  unfold closedAfter
  simp only [hfin, hterm, hthr, Bool.true_and, List.isEmpty_nil, beq_self_eq_true]
  rw [List.all_eq_true]
  intro q hq
  obtain ⟨k, hk⟩ := List.getElem?_of_mem hq
  obtain ⟨r1, r2, r3, r4, r5, r6⟩ := si.p k q hk
  have hc := r5 (Or.inl ht)
  have hnew : q.pc ≠ .new := by
    intro hn
    have := mi.playing k (r3 hn)
    rw [hfin] at this; cases this
  have hnin : inThreads q.pc = false := by
    cases hin : inThreads q.pc
    · rfl
    · have := r2 hin; rw [hthr] at this; cases this
  simp only [hc, beq_self_eq_true, Bool.true_and]
  revert hnew hnin
  unfold exiting
  cases q.pc <;> simp [inThreads]

end ALV.C17
