/-
  C15 — the functions regenerated from the source (`ALV/Gen/C15Src.lean`, translator `harness/props/c15_tr.py`)
  are the functions of the hand-written model (`ALV/Model/C15.lean`), argument by argument.  The statements used by
  `Props/C15.lean` (`src_*_is_model`) are the `funext` forms of these.

  Every proof only unfolds the two definitions, case-splits on the dictionary lookups in source order and normalises the
  `Except` binds; the loops need one induction each (`foldl_keysDict`, `foldlM_delLoop`, `foldlM_sdDelLoop`, `foldl_attrs`).
-/
import ALV.Gen.C15Src
import ALV.Lemmas.C15
set_option linter.unusedSectionVars false
set_option linter.unusedSimpArgs false

namespace ALV.C15
variable {K V : Type} [DecidableEq K] [DecidableEq V]
open ALV.Gen

theorem src_getitem (s : St K V) (key : K) : Gen.C15.getitem s key = keyErr (getitem s key) := by
  unfold Gen.C15.getitem getitem
  cases h : dget s.keysDict key <;> simp [keyErr, bind, Except.bind]

theorem foldl_keysDict (t : List K) (nk : List K) (s : St K V) :
    t.foldl (fun s k => { s with keysDict := dset s.keysDict k nk }) s
      = { s with keysDict := t.foldl (fun d k => dset d k nk) s.keysDict } := by
  induction t generalizing s with
  | nil => rfl
  | cons a r ih => simp [List.foldl_cons, ih]

theorem src_delitem (s : St K V) (key : K) : Gen.C15.delitem s key = keyErr (delitem s key) := by
  unfold Gen.C15.delitem delitem
  rw [src_getitem]
  cases h1 : dget s.keysDict key with
  | none => rfl
  | some kt =>
    cases h2 : getitem s key with
    | none => rfl
    | some v =>
      cases h3 : ddel s.keysDict key with
      | none => rfl
      | some kd =>
        cases h4 : ddel s.invDict v with
        | none => simp [keyErr, bind, Except.bind, h4]
        | some inv =>
          cases h5 : ddel s.store kt with
          | none => simp [keyErr, bind, Except.bind, h4, h5]
          | some st =>
            simp only [keyErr, bind, Except.bind, pure, Except.pure, foldl_keysDict, decide_not, h4, h5]
            split <;> rfl

theorem foldlM_delLoop (key : List K) (s : St K V) :
    key.foldlM (fun s k => if dhas s.keysDict k = true then keyErr (delitem s k) else pure s) s
      = keyErr (delLoop s key) := by
  induction key generalizing s with
  | nil => rfl
  | cons a r ih =>
    simp only [List.foldlM_cons, delLoop]
    by_cases h : dhas s.keysDict a = true
    · simp only [h, if_true]
      cases hd : delitem s a with
      | none => rfl
      | some s' => simp only [keyErr, bind, Except.bind]; exact ih s'
    · simp only [h]; exact ih s

theorem dedup_src (key : List K) :
    (List.foldl (fun key_list k => if ¬k ∈ key_list then key_list ++ [k] else key_list) [] key.reverse).reverse
      = dedupLastCode key := by
  simp only [dedupLastCode, ite_not]

theorem src_setitem (s : St K V) (keys : List K) (value : V) :
    Gen.C15.setitem s keys value = keyErr (setitem s keys value) := by
  unfold Gen.C15.setitem setitem
  simp only [src_delitem, dedup_src, foldlM_delLoop, foldl_keysDict]
  rcases h : dget s.invDict value with _ | old
  · have hh : dhas s.invDict value = false := by simp [dhas, h]
    simp only [hh, h, Bool.false_eq_true, if_false, pure, Except.pure, bind, Except.bind]
    cases hd : delLoop s (dedupLastCode keys) <;> rfl
  · have hh : dhas s.invDict value = true := by simp [dhas, h]
    simp only [hh, h, if_true, keyErr, pure, Except.pure, bind, Except.bind]
    cases hd : delLoop s (dedupLastCode (old ++ keys)) <;> rfl

theorem src_sdDelitem (s : SD K V) (key : K) : Gen.C15.sdDelitem s key = keyErr (sdDelitem s key) := by
  unfold Gen.C15.sdDelitem sdDelitem
  simp only [src_delitem, Gen.C15.key2keys, Gen.C15.getTuple, key2keys, getTuple]
  rcases h1 : dget s.mkd.keysDict key with _ | keys
  · rfl
  simp only [keyErr, bind, Except.bind]
  rcases h2 : dget s.mkd.store keys with _ | value
  · rfl
  simp only []
  rcases h3 : delitem s.mkd key with _ | mk'
  · by_cases hk : dhas s.attrs (some key) = true
    · obtain ⟨a, ha⟩ := dhas_eq_true_iff.mp hk
      simp [keyErr, attrErr, bind, Except.bind, pure, Except.pure, hk, ha]
    · simp [keyErr, bind, Except.bind, pure, Except.pure, hk]
  by_cases ha : dget s.attrs (some key) = some value
  · have hk : dhas s.attrs (some key) = true := dhas_eq_true_iff.mpr ⟨_, ha⟩
    by_cases hd : keys.length = 1 ∧ dget s.attrs none = some value
    · have hd' : dget (derase s.attrs (some key)) none = some value := by simp [dget_derase, hd.2]
      simp [keyErr, attrErr, bind, Except.bind, pure, Except.pure, hk, ha, hd, hd', ddel_of_get ha, ddel_of_get hd']
    · have hd' : ¬ (keys.length = 1 ∧ dget (derase s.attrs (some key)) none = some value) := by
        simpa [dget_derase] using hd
      simp [keyErr, attrErr, bind, Except.bind, pure, Except.pure, hk, ha, hd, hd', ddel_of_get ha]
  · by_cases hd : keys.length = 1 ∧ dget s.attrs none = some value
    · by_cases hk : dhas s.attrs (some key) = true
      · obtain ⟨a, hga⟩ := dhas_eq_true_iff.mp hk
        have hne : a ≠ value := fun e => ha (e ▸ hga)
        simp [keyErr, attrErr, bind, Except.bind, pure, Except.pure, hk, hga, hne, ha, hd, ddel_of_get hd.2]
      · simp [keyErr, attrErr, bind, Except.bind, pure, Except.pure, hk, ha, hd, ddel_of_get hd.2]
    · by_cases hk : dhas s.attrs (some key) = true
      · obtain ⟨a, hga⟩ := dhas_eq_true_iff.mp hk
        have hne : a ≠ value := fun e => ha (e ▸ hga)
        simp [keyErr, attrErr, bind, Except.bind, pure, Except.pure, hk, hga, hne, ha, hd]
      · simp [keyErr, attrErr, bind, Except.bind, pure, Except.pure, hk, ha, hd]

theorem foldlM_sdDelLoop (keys : List K) (s : SD K V) :
    keys.foldlM (fun s k => tryKey (keyErr (sdDelitem s k)) (pure s)) s = (pure (sdDelLoop s keys) : Except Err _) := by
  induction keys generalizing s with
  | nil => rfl
  | cons a r ih =>
    simp only [List.foldlM_cons, sdDelLoop]
    cases hd : sdDelitem s a with
    | none => simp only [keyErr, tryKey, pure, Except.pure, bind, Except.bind]; exact ih s
    | some s' => simp only [keyErr, tryKey, bind, Except.bind]; exact ih s'

theorem foldl_attrs (t : List K) (v : V) (s : SD K V) :
    t.foldl (fun s k => { s with attrs := dset s.attrs (some k) v }) s
      = { s with attrs := t.foldl (fun a k => dset a (some k) v) s.attrs } := by
  induction t generalizing s with
  | nil => rfl
  | cons a r ih => simp [List.foldl_cons, ih]

theorem src_sdSetitem (s : SD K V) (keys : List K) (value : V) :
    Gen.C15.sdSetitem s keys value = keyErr (sdSetitem s keys value) := by
  unfold Gen.C15.sdSetitem sdSetitem
  simp only [src_sdDelitem, src_setitem, bind_pure, foldlM_sdDelLoop, foldl_attrs]
  simp only [pure, Except.pure, bind, Except.bind]
  cases hs : setitem (sdDelLoop s keys).mkd keys value with
  | none => rfl
  | some mk' =>
    simp only [keyErr]
    split <;> simp_all

theorem src_sdDelattrName (s : SD K V) (k : K) : Gen.C15.sdDelattrName s k = sdDelattr s (some k) := by
  unfold Gen.C15.sdDelattrName sdDelattr
  simp only [src_sdDelitem, src_getitem, bind_pure]
  have hobj : (do let a ← attrErr (ddel s.attrs (some k)); pure { mkd := s.mkd, attrs := a } : Except Err (SD K V))
      = objDelattr s (some k) := by
    unfold objDelattr
    cases ddel s.attrs (some k) <;> rfl
  rw [hobj]
  rcases h1 : getitem s.mkd k with _ | item
  · rfl
  simp only [keyErr, bind, Except.bind]
  rcases h2 : dget s.attrs (some k) with _ | a
  · rfl
  simp only [attrErr]
  by_cases he : item = a
  · simp only [he, if_true]
    cases hd : sdDelitem s k <;> rfl
  · simp only [he, if_false, h1]; rfl

theorem src_sdDelattrDefault (s : SD K V) : Gen.C15.sdDelattrDefault s = sdDelattr s none := by
  unfold Gen.C15.sdDelattrDefault sdDelattr objDelattr
  simp only [bind, Except.bind, tryKey]
  cases ddel s.attrs none <;> rfl

theorem src_sdCall (s : SD K V) : Gen.C15.sdCall s = sdDefault s := rfl
theorem src_sdIter (s : SD K V) : Gen.C15.sdIter s = sdIter s := rfl
theorem src_setitemBadKey (s : St K V) (b a : List K) (v : V) :
    Gen.C15.setitemBadKey s v = step s (.setBadKey b a v) := rfl
theorem src_setitemUnhashable (s : St K V) (keys : List K) :
    Gen.C15.setitemUnhashable s keys = step s (.setUnhashable keys) := rfl
theorem src_sdSetBadKey (s : SD K V) (d : List K) (v : V) :
    Gen.C15.sdSetBadKey s v = sdStep s (.setRefused d) := rfl
theorem src_sdSetUnhashable (s : SD K V) (keys : List K) :
    Gen.C15.sdSetUnhashable s keys = sdStep s (.setRefused keys) := rfl

end ALV.C15
