/-
  C19 — Python's float `%` for a NEGATIVE modulo: the mirror image of `fmodR_closed_range`,
  `fmodR_double_range`, `fmodR_id` (Lemmas/C19Float.lean), obtained by reflecting dividend,
  divisor and rounding through zero: `fmodR rnd a m = - fmodR (x ↦ -rnd (-x)) (-a) (-m)`.
-/
import ALV.Lemmas.C19Float

namespace ALV.C19
set_option linter.unusedSectionVars false

section RoundNeg
variable {K : Type} [Field K] [LinearOrder K] [IsStrictOrderedRing K] [FloorRing K]

/-- `int()` is odd -/
theorem pyInt_neg (x : K) : pyInt (-x) = - pyInt x := by
  unfold pyInt
  rcases lt_trichotomy x 0 with h | h | h
  · have h' : ¬ (-x < 0) := by simp; exact h.le
    simp [h, h']
  · subst h; simp [floor_def]
  · have h' : ¬ (x < 0) := not_lt.mpr h.le
    have h'' : -x < 0 := by simpa using h
    simp [h', h'']

/-- C `fmod` is odd in both arguments together (and even in the divisor) -/
theorem cRem_neg_neg (a m : K) : cRem (-a) (-m) = - cRem a m := by
  simp only [cRem, neg_div_neg_eq]; ring

theorem cRem_neg_right (a m : K) : cRem a (-m) = cRem a m := by
  simp only [cRem, div_neg, pyInt_neg]; push_cast; ring

/-- the reflected rounding -/
def rndNeg (rnd : K → K) : K → K := fun x => - rnd (-x)

theorem rndNeg_mono {rnd : K → K} (mono : Monotone rnd) : Monotone (rndNeg rnd) := by
  intro x y h
  exact neg_le_neg (mono (neg_le_neg h))

/-- reflection through zero -/
theorem fmodR_neg_neg (rnd : K → K) (a m : K) (hm : m ≠ 0) :
    fmodR rnd a m = - fmodR (rndNeg rnd) (-a) (-m) := by
  rw [fmodR_def, fmodR_def, cRem_neg_neg]
  by_cases hc : cRem a m = 0
  · simp [hc]
  · have hc' : ¬ (- cRem a m = 0) := by simpa using hc
    simp only [hc, hc', if_false]
    have e : (decide (-m < 0) != decide (- cRem a m < 0)) = (decide (m < 0) != decide (cRem a m < 0)) := by
      rcases lt_or_gt_of_ne hm with h1 | h1 <;> rcases lt_or_gt_of_ne hc with h2 | h2 <;>
        simp [h1, h2, not_lt.mpr h1.le, not_lt.mpr h2.le]
    rw [e]
    split
    · simp [rndNeg, add_comm]
    · simp

/-- one reduction, negative modulo: the CLOSED range `[m, 0]` -/
theorem fmodR_closed_range_neg (rnd : K → K) (mono : Monotone rnd) (a m : K) (hm : m < 0)
    (h0 : rnd 0 = 0) (hmm : rnd m = m) : m ≤ fmodR rnd a m ∧ fmodR rnd a m ≤ 0 := by
  have h := fmodR_closed_range (rndNeg rnd) (rndNeg_mono mono) (-a) (-m) (neg_pos.mpr hm)
    (by simp [rndNeg, h0]) (by simp [rndNeg, hmm])
  rw [fmodR_neg_neg rnd a m hm.ne]
  constructor <;> linarith [h.1, h.2]

/-- the double reduction, negative modulo: `(m, 0]` -/
theorem fmodR_double_range_neg (rnd : K → K) (mono : Monotone rnd) (a m : K) (hm : m < 0)
    (h0 : rnd 0 = 0) (hmm : rnd m = m) :
    m < fmodR rnd (fmodR rnd a m) m ∧ fmodR rnd (fmodR rnd a m) m ≤ 0 := by
  have h := fmodR_double_range (rndNeg rnd) (rndNeg_mono mono) (-a) (-m) (neg_pos.mpr hm)
    (by simp [rndNeg, h0]) (by simp [rndNeg, hmm])
  have e : fmodR rnd (fmodR rnd a m) m
      = - fmodR (rndNeg rnd) (fmodR (rndNeg rnd) (-a) (-m)) (-m) := by
    rw [fmodR_neg_neg rnd (fmodR rnd a m) m hm.ne, fmodR_neg_neg rnd a m hm.ne, neg_neg]
  rw [e]
  constructor <;> linarith [h.1, h.2]

theorem fmod_neg_neg (a m : K) : fmod (-a) (-m) = - fmod a m := by
  simp only [fmod_def, neg_div_neg_eq]; ring

/-- without rounding Python's `%` is the floored modulo of the model, also for a negative modulo -/
theorem fmodR_id_neg (a m : K) (hm : m < 0) : fmodR id a m = fmod a m := by
  have e : rndNeg (id : K → K) = id := by funext x; simp [rndNeg]
  rw [fmodR_neg_neg id a m hm.ne, e, fmodR_id (-a) (-m) (neg_pos.mpr hm), fmod_neg_neg, neg_neg]

theorem fmodR_id_ne (a m : K) (hm : m ≠ 0) : fmodR id a m = fmod a m := by
  rcases lt_or_gt_of_ne hm with h | h
  · exact fmodR_id_neg a m h
  · exact fmodR_id a m h

end RoundNeg
end ALV.C19
