/-
  C11 — helper lemmas, part 6: denominators with a prescribed pole set (`fromPoles`): their value
  factorises, so a prescribed pole on or outside the unit circle is a root of the pole polynomial,
  and the verdict of the specification is then `false` (every order).
-/
import ALV.Lemmas.C11Schur
import Mathlib.Algebra.BigOperators.Ring.List

set_option linter.unusedSectionVars false
set_option linter.unusedVariables false

namespace ALV.C11
open Complex

theorem evalC_padd : ∀ (a b : List ℝ) (z : ℂ), evalC (padd a b) z = evalC a z + evalC b z
  | [], b, z => by simp [padd]
  | x :: a, [], z => by simp [padd]
  | x :: a, y :: b, z => by
    simp only [padd, evalC_cons, evalC_padd a b z]; push_cast; ring

theorem evalC_pmul : ∀ (a b : List ℝ) (z : ℂ), evalC (pmul a b) z = evalC a z * evalC b z
  | [], b, z => by simp [pmul]
  | x :: a, b, z => by
    have hs : evalC (b.map (fun y => x * y)) z = (x : ℂ) * evalC b z := evalC_scale x b z
    simp only [pmul, evalC_padd, evalC_cons, evalC_pmul a b z, hs]
    push_cast; ring

theorem evalC_foldl_pmul {ι : Type} (F : ι → List ℝ) (z : ℂ) : ∀ (l : List ι) (init : List ℝ),
    evalC (l.foldl (fun acc p => pmul acc (F p)) init) z
      = evalC init z * (l.map (fun p => evalC (F p) z)).prod
  | [], init => by simp
  | p :: l, init => by
    rw [List.foldl_cons, evalC_foldl_pmul F z l, evalC_pmul, List.map_cons, List.prod_cons]; ring

/-- the value of a `fromPoles` denominator at `w = z⁻¹` is the product of its factors -/
theorem evalC_fromPoles (g : ℝ) (reals : List ℝ) (pairs : List (ℝ × ℝ)) (w : ℂ) :
    evalC (fromPoles g reals pairs) w
      = (g : ℂ) * (reals.map (fun p => evalC [1, -p] w)).prod
          * (pairs.map (fun c => evalC [1, -(c.1 + c.1), c.1 * c.1 + c.2 * c.2] w)).prod := by
  unfold fromPoles
  rw [evalC_foldl_pmul (fun c : ℝ × ℝ => [1, -(c.1 + c.1), c.1 * c.1 + c.2 * c.2]),
    evalC_foldl_pmul (fun p : ℝ => [1, -p])]
  simp

/-- `z^n · A(z⁻¹)` is the pole polynomial (up to one factor `z`) -/
theorem evalC_reverse (f : List ℝ) (z : ℂ) (hz : z ≠ 0) :
    z * evalC f.reverse z = z ^ f.length * evalC f z⁻¹ := by
  induction f with
  | nil => simp
  | cons c t ih =>
    rw [List.reverse_cons, evalC_append, List.length_reverse, evalC_cons, evalC_cons, evalC_nil,
      mul_add, ih, List.length_cons, pow_succ]
    field_simp
    ring

theorem pmul_head (a b : ℝ) (as bs : List ℝ) : ∃ t, pmul (a :: as) (b :: bs) = (a * b) :: t := by
  exact ⟨padd (bs.map (fun x => a * x)) (pmul as (b :: bs)), by simp [pmul, padd]⟩

theorem fromPoles_head (g : ℝ) (reals : List ℝ) (pairs : List (ℝ × ℝ)) :
    ∃ t, fromPoles g reals pairs = g :: t := by
  have h1 : ∀ (l : List ℝ) (init : List ℝ), (∃ t, init = g :: t) →
      ∃ t, l.foldl (fun acc p => pmul acc [1, -p]) init = g :: t := by
    intro l
    induction l with
    | nil => intro init h; exact h
    | cons p l ih =>
      intro init ⟨t, ht⟩
      apply ih
      obtain ⟨t', ht'⟩ := pmul_head g 1 t [-p]
      exact ⟨t', by show pmul init [1, -p] = _; rw [ht, ht', mul_one]⟩
  have h2 : ∀ (l : List (ℝ × ℝ)) (init : List ℝ), (∃ t, init = g :: t) →
      ∃ t, l.foldl (fun acc c => pmul acc [1, -(c.1 + c.1), c.1 * c.1 + c.2 * c.2]) init = g :: t := by
    intro l
    induction l with
    | nil => intro init h; exact h
    | cons p l ih =>
      intro init ⟨t, ht⟩
      apply ih
      obtain ⟨t', ht'⟩ := pmul_head g 1 t [-(p.1 + p.1), p.1 * p.1 + p.2 * p.2]
      exact ⟨t', by
        show pmul init [1, -(p.1 + p.1), p.1 * p.1 + p.2 * p.2] = _; rw [ht, ht', mul_one]⟩
  unfold fromPoles
  exact h2 pairs _ (h1 reals [g] ⟨[], rfl⟩)

theorem stripZeros_head (g : ℝ) (hg : g ≠ 0) (t : List ℝ) : ∃ t', stripZeros (g :: t) = g :: t' := by
  obtain ⟨j, hj⟩ := exists_stripZeros_append (g :: t)
  cases hs : stripZeros (g :: t) with
  | nil =>
    rw [hs] at hj
    cases j with
    | zero => simp at hj
    | succ j =>
      simp only [List.nil_append, List.replicate_succ, List.cons.injEq] at hj
      exact absurd hj.1 hg
  | cons h t' =>
    rw [hs] at hj
    simp only [List.cons_append, List.cons.injEq] at hj
    exact ⟨t', by rw [hj.1]⟩

/-- **critical and unstable filters get `false`**: a prescribed pole with `|p| ≥ 1` forces the
verdict `false`, whatever the order, the other poles and the non-zero gain -/
theorem fromPoles_unstable (g : ℝ) (hg : g ≠ 0) (reals : List ℝ) (pairs : List (ℝ × ℝ))
    (h : polesInside reals pairs = false) : parcorStableSpec (fromPoles g reals pairs) = false := by
  by_contra hcon
  have hst : parcorStableSpec (fromPoles g reals pairs) = true := by
    cases hb : parcorStableSpec (fromPoles g reals pairs) with
    | true => rfl
    | false => exact absurd hb hcon
  obtain ⟨t, ht⟩ := fromPoles_head g reals pairs
  obtain ⟨t', ht'⟩ := stripZeros_head g hg t
  rw [← ht] at ht'
  have hin := stableSpec_poles_inside _ t' g hg ht' hst
  -- a root of the pole polynomial with |z| ≥ 1
  have key : ∀ z : ℂ, 1 ≤ normSq z → evalC (fromPoles g reals pairs) z⁻¹ = 0 → False := by
    intro z hz1 hw
    have hz0 : z ≠ 0 := by
      intro h0; rw [h0] at hz1; simp at hz1; linarith
    have h2 := evalC_reverse (fromPoles g reals pairs) z hz0
    rw [hw, mul_zero] at h2
    have := hin z ((mul_eq_zero.mp h2).resolve_left hz0)
    linarith
  unfold polesInside at h
  rw [Bool.and_eq_false_iff] at h
  rcases h with h | h
  · -- a real pole
    rw [List.all_eq_false] at h
    obtain ⟨p, hp, hpp⟩ := h
    have hp1 : 1 ≤ p * p := by simpa using hpp
    apply key (p : ℂ) (by rw [normSq_ofReal]; exact hp1)
    rw [evalC_fromPoles]
    have hp0 : (p : ℂ) ≠ 0 := by
      intro h0
      have : p = 0 := by exact_mod_cast h0
      rw [this] at hp1; linarith
    have : (reals.map (fun p' => evalC [1, -p'] (p : ℂ)⁻¹)).prod = 0 := by
      apply List.prod_eq_zero
      rw [List.mem_map]
      refine ⟨p, hp, ?_⟩
      simp only [evalC_cons, evalC_nil]
      push_cast
      field_simp
      ring
    rw [this]; ring
  · -- a conjugate pair
    rw [List.all_eq_false] at h
    obtain ⟨c, hc, hcc⟩ := h
    have hc1 : 1 ≤ c.1 * c.1 + c.2 * c.2 := by simpa using hcc
    have hn : normSq (⟨c.1, c.2⟩ : ℂ) = c.1 * c.1 + c.2 * c.2 := normSq_mk _ _
    apply key ⟨c.1, c.2⟩ (by rw [hn]; exact hc1)
    rw [evalC_fromPoles]
    have hz0 : (⟨c.1, c.2⟩ : ℂ) ≠ 0 := by
      intro h0
      have := congrArg normSq h0
      rw [hn, map_zero] at this
      linarith
    have : (pairs.map (fun c' => evalC [1, -(c'.1 + c'.1), c'.1 * c'.1 + c'.2 * c'.2]
        (⟨c.1, c.2⟩ : ℂ)⁻¹)).prod = 0 := by
      apply List.prod_eq_zero
      rw [List.mem_map]
      refine ⟨c, hc, ?_⟩
      simp only [evalC_cons, evalC_nil]
      have e : ((c.1 * c.1 + c.2 * c.2 : ℝ) : ℂ) = (⟨c.1, c.2⟩ : ℂ) * (⟨c.1, -c.2⟩ : ℂ) := by
        apply Complex.ext <;> simp <;> ring
      have e2 : ((-(c.1 + c.1) : ℝ) : ℂ) = -((⟨c.1, c.2⟩ : ℂ) + (⟨c.1, -c.2⟩ : ℂ)) := by
        apply Complex.ext <;> simp
      rw [e, e2, ofReal_one]
      field_simp
      ring
    rw [this]; ring

end ALV.C11
