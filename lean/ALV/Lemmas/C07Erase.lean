/-
  C07 — the ERASURE homomorphism from the spelled-number model (`Model/C07Zero.lean`: `PyNum`, `ZPoly`)
  to the field model (`Model/C07.lean`: `MPoly K`).

  `K` is any field of characteristic 0 with a square root `I` of `-1` (ℚ(i), ℂ, …); a Python number
  `a` (bool / int / Fraction / float / complex, value an exact Gaussian rational) is sent to
  `num I a = a.re + a.im · I`, forgetting its kind; a `ZPoly` is sent to its `_data` with every
  coefficient erased.  Every operation of the `ZPoly` level, on Polys whose `zero` is a numeric zero
  (however spelled), is sent to the operation of the field model — as LISTS, insertion order included —
  and `==` is sent to `==`; so the ring laws proved for `MPoly K` hold for what `zhist` runs.
-/
import Mathlib.Tactic.Ring
import Mathlib.Tactic.LinearCombination
import Mathlib.Tactic.FieldSimp
import Mathlib.Algebra.Order.Ring.Rat
import ALV.Lemmas.C07Zero
import ALV.Lemmas.C07Calc

set_option linter.unusedSectionVars false
set_option linter.unusedVariables false

namespace ALV.C07

/-! ## values of a dictionary mapped through a function -/

section MapV
variable {β γ : Type}

/-- apply `f` to every stored coefficient -/
def mapV (f : β → γ) (d : MPoly β) : MPoly γ := d.map (fun kv => (kv.1, f kv.2))

@[simp] theorem mapV_nil (f : β → γ) : mapV f [] = [] := rfl
@[simp] theorem mapV_cons (f : β → γ) (a : Int × β) (t : MPoly β) :
    mapV f (a :: t) = (a.1, f a.2) :: mapV f t := rfl
@[simp] theorem mapV_append (f : β → γ) (p q : MPoly β) : mapV f (p ++ q) = mapV f p ++ mapV f q := by
  simp [mapV]

theorem keys_mapV (f : β → γ) (d : MPoly β) : keys (mapV f d) = keys d := by
  simp [mapV, keys, List.map_map, Function.comp_def]

theorem length_mapV (f : β → γ) (d : MPoly β) : (mapV f d).length = d.length := by simp [mapV]

theorem find?_mapV (f : β → γ) (d : MPoly β) (k : Int) : find? (mapV f d) k = (find? d k).map f := by
  induction d with
  | nil => rfl
  | cons a t ih =>
    obtain ⟨k', v⟩ := a
    simp only [mapV_cons, find?_cons, ih]
    split <;> rfl

theorem has_mapV (f : β → γ) (d : MPoly β) (k : Int) : has (mapV f d) k = has d k := by
  unfold has; rw [find?_mapV]; cases find? d k <;> rfl

theorem mapV_set (f : β → γ) (d : MPoly β) (k : Int) (v : β) : mapV f (set d k v) = set (mapV f d) k (f v) := by
  induction d with
  | nil => rfl
  | cons a t ih =>
    simp only [set, mapV_cons]
    split
    · rfl
    · simp [ih]

theorem mapV_del (f : β → γ) (d : MPoly β) (k : Int) : mapV f (del d k) = del (mapV f d) k := by
  induction d with
  | nil => rfl
  | cons a t ih =>
    simp only [del, mapV_cons]
    split
    · rfl
    · simp [ih]

theorem mapV_foldl_set (f : β → γ) (l : List (Int × β)) (d : MPoly β) :
    mapV f (l.foldl (fun d kv => set d kv.1 kv.2) d) =
      (mapV f l).foldl (fun d kv => set d kv.1 kv.2) (mapV f d) := by
  induction l generalizing d with
  | nil => rfl
  | cons a t ih => simp only [List.foldl_cons, mapV_cons, ih, mapV_set]

theorem mapV_ofPairs (f : β → γ) (l : List (Int × β)) : mapV f (ofPairs l) = ofPairs (mapV f l) :=
  mapV_foldl_set f l []

theorem mapV_filter_keys (f : β → γ) (d : MPoly β) (P : Int → Bool) :
    mapV f (d.filter (fun kv => P kv.1)) = (mapV f d).filter (fun kv => P kv.1) := by
  induction d with
  | nil => rfl
  | cons a t ih =>
    simp only [List.filter_cons, mapV_cons]
    split <;> simp [ih]

theorem mapV_sortAsc (f : β → γ) (d : MPoly β) : mapV f (sortAsc d) = sortAsc (mapV f d) := by
  unfold sortAsc mapV
  rw [List.map_mergeSort]
  intro a _ b _
  rfl

end MapV

/-! ## numbers -/

section Num
variable {K : Type} [Field K] [CharZero K] (I : K)

/-- the value of a Python number, its kind forgotten -/
def num (a : PyNum) : K := (a.re : K) + (a.im : K) * I

/-- the erasure of a `_data` dictionary -/
def eraseD (d : MPoly PyNum) : MPoly K := mapV (num I) d

/-- the erasure of a Poly (its `zero` is forgotten: it must be a numeric zero for the theorems below) -/
def erase (p : ZPoly) : MPoly K := eraseD I p.data

variable {I}

theorem num_add (a b : PyNum) : num I (a + b) = num I a + num I b := by
  simp only [num, (PyNum.add_val a b).1, (PyNum.add_val a b).2]
  push_cast; ring

theorem num_sub (a b : PyNum) : num I (a - b) = num I a - num I b := by
  simp only [num, (PyNum.sub_val a b).1, (PyNum.sub_val a b).2]
  push_cast; ring

theorem num_neg (a : PyNum) : num I (-a) = -num I a := by
  simp only [num, (PyNum.neg_val a).1, (PyNum.neg_val a).2]
  push_cast; ring

theorem num_mul (hI : I * I = -1) (a b : PyNum) : num I (a * b) = num I a * num I b := by
  simp only [num, (PyNum.mul_val a b).1, (PyNum.mul_val a b).2]
  push_cast
  linear_combination (-((a.im : K) * (b.im : K))) * hI

theorem num_int (n : Int) : num I (.int n) = (n : K) := by
  simp [num, PyNum.re, PyNum.im]

theorem num_zero : num I (0 : PyNum) = 0 := by
  show num I (.int 0) = 0
  simp [num_int]

theorem num_one : num I (1 : PyNum) = 1 := by
  show num I (.int 1) = 1
  simp [num_int]

/-- `1` and `I` are linearly independent over ℚ -/
theorem gauss_inj (hI : I * I = -1) (x y : ℚ) (h : (x : K) + (y : K) * I = 0) : x = 0 ∧ y = 0 := by
  have h2 : (x : K) * x + y * y = 0 := by
    linear_combination ((x : K) - y * I) * h + ((y : K) * y) * hI
  have h3 : x * x + y * y = 0 := by exact_mod_cast h2
  exact (mul_self_add_mul_self_eq_zero).1 h3

theorem num_eq_zero_iff (hI : I * I = -1) (a : PyNum) : num I a = 0 ↔ a.isZero = true := by
  unfold PyNum.isZero
  rw [Bool.and_eq_true, decide_eq_true_eq, decide_eq_true_eq]
  constructor
  · exact gauss_inj hI _ _
  · rintro ⟨h1, h2⟩; simp [num, h1, h2]

/-- Python's `==` on numbers is equality of the erased values -/
theorem num_eq_iff (hI : I * I = -1) (a b : PyNum) : num I a = num I b ↔ a.eq b = true := by
  rw [PyNum.eq_iff]
  constructor
  · intro h
    have : ((a.re - b.re : ℚ) : K) + ((a.im - b.im : ℚ) : K) * I = 0 := by
      unfold num at h
      push_cast
      linear_combination h
    obtain ⟨h1, h2⟩ := gauss_inj hI _ _ this
    exact ⟨by linarith, by linarith⟩
  · rintro ⟨h1, h2⟩; simp [num, h1, h2]

theorem gm_mul (hI : I * I = -1) (x y u v : ℚ) :
    ((x : K) + y * I) * (u + v * I) = ((x * u - y * v : ℚ) : K) + ((x * v + y * u : ℚ) : K) * I := by
  push_cast
  linear_combination ((y : K) * v) * hI

theorem re_mkFloat (q : ℚ) (ok : Bool) : (PyNum.mkFloat q ok).re = q := rfl
theorem im_mkFloat (q : ℚ) (ok : Bool) : (PyNum.mkFloat q ok).im = 0 := rfl
theorem re_mkCplx (r i : ℚ) (ok : Bool) : (PyNum.mkCplx r i ok).re = r := rfl
theorem im_mkCplx (r i : ℚ) (ok : Bool) : (PyNum.mkCplx r i ok).im = i := rfl
theorem re_cplx (r i : ℚ) (ok : Bool) : (PyNum.cplx r i ok).re = r := rfl
theorem im_cplx (r i : ℚ) (ok : Bool) : (PyNum.cplx r i ok).im = i := rfl

theorem sq_sum_ne_zero {x y : ℚ} (h : ¬ (x = 0 ∧ y = 0)) : x * x + y * y ≠ 0 :=
  fun e => h (mul_self_add_mul_self_eq_zero.1 e)

/-- true division, as values: `(a / b) · b = a` for a non-zero divisor of any kind -/
theorem div_val (a b : PyNum) (hb : b.isZero = false) :
    (a / b).re * b.re - (a / b).im * b.im = a.re ∧ (a / b).re * b.im + (a / b).im * b.re = a.im := by
  have hb' : ¬ (b.re = 0 ∧ b.im = 0) := by
    intro h
    simp [PyNum.isZero, h.1, h.2] at hb
  show (PyNum.div a b).re * b.re - (PyNum.div a b).im * b.im = a.re ∧
    (PyNum.div a b).re * b.im + (PyNum.div a b).im * b.re = a.im
  unfold PyNum.div
  split
  · rename_i m n hm hn
    obtain ⟨h1, h2⟩ := PyNum.asInt?_re hm
    obtain ⟨h3, h4⟩ := PyNum.asInt?_re hn
    have hn0 : (n : ℚ) ≠ 0 := by
      intro e; exact hb' ⟨by rw [h3, e], h4⟩
    simp only [re_mkFloat, im_mkFloat, h1, h2, h3, h4]
    constructor
    · field_simp; ring
    · simp
  · simp only
    split
    · rename_i hk
      have ha := PyNum.im_zero_of_rank (a := a) (by omega)
      have hbi := PyNum.im_zero_of_rank (a := b) (by omega)
      have hbr : b.re ≠ 0 := fun e => hb' ⟨e, hbi⟩
      have := PyNum.ofRank_re (max a.rank b.rank) (a.re / b.re) 0 (a.convExact && b.convExact) (fun _ => rfl)
      rw [this.1, this.2, ha, hbi]
      constructor
      · field_simp; ring
      · simp
    · split
      · rename_i hbi
        have hbr : b.re ≠ 0 := fun e => hb' ⟨e, hbi⟩
        simp only [re_mkCplx, im_mkCplx, hbi]
        constructor
        · field_simp; ring
        · field_simp; ring
      · have hd := sq_sum_ne_zero hb'
        simp only [re_cplx, im_cplx]
        constructor
        · field_simp; ring
        · field_simp; ring

theorem num_div (hI : I * I = -1) (a b : PyNum) (hb : b.isZero = false) : num I (a / b) = num I a / num I b := by
  have hb0 : num I b ≠ 0 := by
    rw [Ne, num_eq_zero_iff hI, hb]; simp
  rw [eq_div_iff hb0]
  obtain ⟨h1, h2⟩ := div_val a b hb
  unfold num
  rw [gm_mul hI, h1, h2]

theorem ipow_eq (m : ℤ) (k : ℕ) : ((PyNum.ipow m k : ℤ) : K) = (m : K) ^ k := by
  induction k with
  | zero => simp [PyNum.ipow]
  | succ k ih => simp [PyNum.ipow, ih, pow_succ]

theorem rpow_eq (q : ℚ) (k : ℕ) : PyNum.rpow q k = q ^ k := by
  induction k with
  | zero => simp [PyNum.rpow]
  | succ k ih => simp [PyNum.rpow, ih, pow_succ]

theorem rpowInt_eq (q : ℚ) (n : ℤ) : PyNum.rpowInt q n = q ^ n := by
  unfold PyNum.rpowInt
  split
  · rename_i h
    obtain ⟨m, rfl⟩ := Int.eq_ofNat_of_zero_le h
    simp [rpow_eq]
  · rename_i h
    obtain ⟨m, rfl⟩ := Int.exists_eq_neg_ofNat (le_of_lt (not_le.1 h))
    simp [rpow_eq]

theorem cpow_eq (hI : I * I = -1) (r i : ℚ) (k : ℕ) :
    (((PyNum.cpow r i k).1 : ℚ) : K) + ((PyNum.cpow r i k).2 : ℚ) * I = ((r : K) + i * I) ^ k := by
  induction k with
  | zero => simp [PyNum.cpow]
  | succ k ih =>
    simp only [PyNum.cpow]
    rw [pow_succ, ← ih, gm_mul hI]

/-- a real (non-complex) value: `num` is the cast of the real part -/
theorem num_of_im_zero {a : PyNum} (h : a.im = 0) : num I a = (a.re : K) := by simp [num, h]

theorem num_mkFloat (q : ℚ) (ok : Bool) : num I (PyNum.mkFloat q ok) = (q : K) := by
  simp [PyNum.mkFloat, num, PyNum.re, PyNum.im]

theorem num_mkCplx (r i : ℚ) (ok : Bool) : num I (PyNum.mkCplx r i ok) = (r : K) + i * I := by
  simp [PyNum.mkCplx, num, PyNum.re, PyNum.im]

/-- `v ** n` with an integer exponent, any kind of base: the field's integer power -/
theorem num_powInt (hI : I * I = -1) (v : PyNum) (n : ℤ) : num I (v.powInt n) = num I v ^ n := by
  unfold PyNum.powInt
  split
  · rename_i m hm
    obtain ⟨h1, h2⟩ := PyNum.asInt?_re hm
    have hv : num I v = (m : K) := by rw [num_of_im_zero h2, h1]; simp
    rw [hv]
    split
    · rename_i h
      obtain ⟨k, rfl⟩ := Int.eq_ofNat_of_zero_le h
      rw [num_int]
      simp [ipow_eq]
    · rw [num_mkFloat, rpowInt_eq]
      push_cast; rfl
  · rename_i hm
    cases v with
    | bool b => simp [PyNum.asInt?] at hm
    | int k => simp [PyNum.asInt?] at hm
    | frac q =>
      simp only
      rw [num_of_im_zero rfl, num_of_im_zero rfl, rpowInt_eq]
      simp only [PyNum.re]
      push_cast; rfl
    | float q e =>
      simp only
      rw [num_mkFloat, num_of_im_zero rfl, rpowInt_eq]
      simp only [PyNum.re]
      push_cast; rfl
    | cplx r i e =>
      simp only
      split
      · rename_i hi
        rw [num_mkCplx, rpowInt_eq]
        simp only [num, PyNum.re, PyNum.im, hi]
        push_cast; simp
      · rename_i hi
        have hv : num I (.cplx r i e) = (r : K) + i * I := rfl
        rw [hv]
        have hc := cpow_eq hI r i n.natAbs
        split
        · rename_i h
          obtain ⟨k, rfl⟩ := Int.eq_ofNat_of_zero_le h
          simp only [Int.natAbs_natCast] at hc ⊢
          rw [zpow_natCast, ← hc]
          rfl
        · rename_i h
          obtain ⟨k, rfl⟩ := Int.exists_eq_neg_ofNat (le_of_lt (not_le.1 h))
          simp only [Int.natAbs_neg, Int.natAbs_natCast] at hc ⊢
          rw [zpow_neg, zpow_natCast, ← hc]
          generalize (PyNum.cpow r i k).1 = x
          generalize (PyNum.cpow r i k).2 = y
          by_cases hxy : x = 0 ∧ y = 0
          · obtain ⟨rfl, rfl⟩ := hxy
            simp [num, PyNum.re, PyNum.im]
          · have hd := sq_sum_ne_zero hxy
            have hne : (x : K) + y * I ≠ 0 := fun e => hxy (gauss_inj hI x y e)
            apply eq_inv_of_mul_eq_one_left
            show (((x / (x * x + y * y) : ℚ) : K) + ((-y / (x * x + y * y) : ℚ) : K) * I) * ((x : K) + y * I) = 1
            have e1 : x / (x * x + y * y) * x - -y / (x * x + y * y) * y = 1 := by
              rw [div_mul_eq_mul_div, div_mul_eq_mul_div, ← sub_div, div_eq_one_iff_eq hd]; ring
            have e2 : x / (x * x + y * y) * y + -y / (x * x + y * y) * x = 0 := by
              rw [div_mul_eq_mul_div, div_mul_eq_mul_div, ← add_div, div_eq_zero_iff]; left; ring
            rw [gm_mul hI, e1, e2]
            simp

end Num

/-! ## Polys -/

section Poly
variable {K : Type} [Field K] [CharZero K] [DecidableEq K] {I : K}

/-- the `zero` attribute is a numeric zero, in any spelling (`0`, `0.0`, `Fraction(0)`, `False`, `0j`) -/
def NumZ (z : PyVal) : Prop := ∃ x, z = .num x ∧ x.isZero = true

theorem numZ_dflt : NumZ dfltZero := ⟨_, rfl, by decide⟩

theorem numZ_eq {z z' : PyVal} (h : NumZ z) (h' : NumZ z') : PyVal.eq z z' = true := by
  obtain ⟨x, rfl, hx⟩ := h
  obtain ⟨y, rfl, hy⟩ := h'
  simp only [PyVal.eq, PyNum.eq_iff]
  simp only [PyNum.isZero, Bool.and_eq_true, decide_eq_true_eq] at hx hy
  exact ⟨hx.1.trans hy.1.symm, hx.2.trans hy.2.symm⟩

/-- "kept by the compaction loop" is "erased value non-zero" -/
theorem stored_iff (hI : I * I = -1) {z : PyVal} (hz : NumZ z) (c : PyNum) :
    stored z c = true ↔ num I c ≠ 0 := by
  obtain ⟨x, rfl, hx⟩ := hz
  rw [Ne, num_eq_zero_iff hI]
  simp only [stored, PyVal.eq, Bool.not_eq_true', ← Bool.not_eq_true]
  rw [PyNum.eq_iff]
  simp only [PyNum.isZero, Bool.and_eq_true, decide_eq_true_eq] at hx ⊢
  rw [hx.1, hx.2]

theorem eraseD_compactZ (hI : I * I = -1) {z : PyVal} (hz : NumZ z) (d : MPoly PyNum) :
    eraseD I (compactZ z d) = compact (eraseD I d) := by
  induction d with
  | nil => rfl
  | cons a t ih =>
    unfold compactZ compact eraseD at *
    simp only [List.filter_cons, mapV_cons]
    by_cases h : stored z a.2 = true
    · have := (stored_iff hI hz a.2).1 h
      simp [h, this, ih]
    · have : num I a.2 = 0 := by
        by_contra hne; exact h ((stored_iff hI hz a.2).2 hne)
      simp [h, this, ih]

/-- the constructor: `Poly(pairs, zero)` erases to `mk` of the erased pairs -/
theorem erase_normZ (hI : I * I = -1) {z : PyVal} (hz : NumZ z) (l : List (Int × PyNum)) :
    erase I (normZ l z) = mk (eraseD I l) := by
  unfold erase normZ mk
  simp only
  rw [eraseD_compactZ hI hz]
  unfold eraseD
  rw [mapV_ofPairs]

/-- a well-formed spelled Poly erases to a well-formed field Poly -/
theorem wf_erase (hI : I * I = -1) {p : ZPoly} (hg : Good p) (hz : NumZ p.zero) : WF (erase I p) := by
  refine ⟨by unfold erase eraseD; rw [keys_mapV]; exact hg.1, ?_⟩
  intro kv hkv
  unfold erase eraseD mapV at hkv
  obtain ⟨kv', hkv', rfl⟩ := List.mem_map.1 hkv
  exact (stored_iff hI hz kv'.2).1 (hg.2 kv' hkv')

theorem inter_cons {α : Type} [Add α] (a : Int × α) (t q : MPoly α) :
    inter (a :: t) q = match find? q a.1 with
      | some w => (a.1, a.2 + w) :: inter t q
      | none => inter t q := by
  unfold inter
  rw [List.filterMap_cons]
  cases find? q a.1 <;> rfl

theorem eraseD_inter (p q : MPoly PyNum) : eraseD I (inter p q) = inter (eraseD I p) (eraseD I q) := by
  induction p with
  | nil => rfl
  | cons a t ih =>
    unfold eraseD at *
    rw [inter_cons, mapV_cons, inter_cons, find?_mapV]
    cases find? q a.1 with
    | none => exact ih
    | some w =>
      simp only [Option.map_some]
      rw [mapV_cons, ih, num_add]

theorem eraseD_accum (d : MPoly PyNum) (k : Int) (v : PyNum) :
    eraseD I (accum d k v) = accum (eraseD I d) k (num I v) := by
  unfold eraseD
  induction d with
  | nil => rfl
  | cons a t ih =>
    simp only [accum, mapV_cons]
    split
    · simp [num_add]
    · simp [ih]

theorem eraseD_mulInner (hI : I * I = -1) (a : Int × PyNum) (q d : MPoly PyNum) :
    eraseD I (q.foldl (fun d kv2 => accum d (a.1 + kv2.1) (a.2 * kv2.2)) d) =
      (eraseD I q).foldl (fun d kv2 => accum d (a.1 + kv2.1) (num I a.2 * kv2.2)) (eraseD I d) := by
  induction q generalizing d with
  | nil => rfl
  | cons b u ih =>
    simp only [List.foldl_cons, ih, eraseD_accum, num_mul hI]
    rfl

theorem eraseD_mulOuter (hI : I * I = -1) (p q d : MPoly PyNum) :
    eraseD I (p.foldl (fun d kv1 => q.foldl (fun d kv2 => accum d (kv1.1 + kv2.1) (kv1.2 * kv2.2)) d) d) =
      (eraseD I p).foldl (fun d kv1 => (eraseD I q).foldl
        (fun d kv2 => accum d (kv1.1 + kv2.1) (kv1.2 * kv2.2)) d) (eraseD I d) := by
  induction p generalizing d with
  | nil => rfl
  | cons a t ih =>
    simp only [List.foldl_cons]
    rw [ih, eraseD_mulInner hI]
    rfl

theorem eraseD_mulLoop (hI : I * I = -1) (p q : MPoly PyNum) :
    eraseD I (mulLoop p q) = mulLoop (eraseD I p) (eraseD I q) := eraseD_mulOuter hI p q []

/-! ### the operations -/

theorem erase_addZ (hI : I * I = -1) {p : ZPoly} (hz : NumZ p.zero) (q : ZPoly) :
    erase I (addZ p q) = add (erase I p) (erase I q) := by
  unfold addZ add
  rw [erase_normZ hI hz]
  unfold erase eraseD
  rw [mapV_append, mapV_append]
  congr 2
  exact eraseD_inter p.data q.data

theorem erase_negZ (hI : I * I = -1) {p : ZPoly} (hz : NumZ p.zero) : erase I (negZ p) = neg (erase I p) := by
  unfold negZ neg
  rw [erase_normZ hI hz]
  unfold erase eraseD mapV
  simp only [List.map_map, Function.comp_def, num_neg]

theorem erase_subZ (hI : I * I = -1) {p q : ZPoly} (hz : NumZ p.zero) (hz' : NumZ q.zero) :
    erase I (subZ p q) = sub (erase I p) (erase I q) := by
  unfold subZ sub
  rw [erase_addZ hI hz, erase_negZ hI hz']

theorem erase_mulZ (hI : I * I = -1) {p : ZPoly} (hz : NumZ p.zero) (q : ZPoly) :
    erase I (mulZ p q) = mul (erase I p) (erase I q) := by
  unfold mulZ mul erase
  simp only
  rw [eraseD_compactZ hI hz, eraseD_mulLoop hI]

theorem erase_ofNumZ (hI : I * I = -1) (c : PyNum) {z : Option PyVal} (hz : NumZ (z.getD dfltZero)) :
    erase I (ofNumZ c z) = ofScalar (num I c) := by
  unfold ofNumZ ofScalar
  rw [erase_normZ hI hz]; rfl

theorem erase_ofDictZ (hI : I * I = -1) (l : List (Int × PyNum)) {z : Option PyVal} (hz : NumZ (z.getD dfltZero)) :
    erase I (ofDictZ l z) = mk (eraseD I l) := erase_normZ hI hz l

theorem eraseD_enumFrom (i : Int) (cs : List PyNum) : eraseD I (enumFrom i cs) = enumFrom i (cs.map (num I)) := by
  induction cs generalizing i with
  | nil => rfl
  | cons a t ih =>
    simp only [enumFrom, List.map_cons]
    unfold eraseD at *
    rw [mapV_cons, ih]

theorem erase_ofListZ (hI : I * I = -1) (cs : List PyNum) {z : Option PyVal} (hz : NumZ (z.getD dfltZero)) :
    erase I (ofListZ cs z) = ofList (cs.map (num I)) := by
  unfold ofListZ ofList
  rw [erase_normZ hI hz, eraseD_enumFrom]

/-- operators with a number on either side (`p + c`, `c + p`, `p - c`, `c - p`, `p * c`, `c * p`) -/
theorem erase_scalZ (hI : I * I = -1) (s : ScalOp) {p : ZPoly} (hz : NumZ p.zero) (c : PyNum) :
    erase I (scalZ s p c) = scalOp s (erase I p) (num I c) := by
  cases s <;> simp only [scalZ, scalOp]
  · rw [erase_addZ hI hz, erase_ofNumZ hI c (z := none) numZ_dflt]
  · rw [erase_addZ hI (by exact hz), erase_ofNumZ hI c (z := some p.zero) hz]
  · rw [erase_addZ hI hz, erase_ofNumZ hI (-c) (z := none) numZ_dflt, num_neg]
  · rw [erase_subZ hI (by exact hz) hz, erase_ofNumZ hI c (z := some p.zero) hz]
  · rw [erase_mulZ hI hz, erase_ofNumZ hI c (z := none) numZ_dflt]
  · rw [erase_mulZ hI (by exact hz), erase_ofNumZ hI c (z := some p.zero) hz]

/-- the code's `==` on spelled Polys is the field model's `==` on the erasures -/
theorem eqZ_eq_eq_erase (hI : I * I = -1) {p q : ZPoly} (hz : NumZ p.zero) (hz' : NumZ q.zero) :
    eqZ p q = eq (erase I p) (erase I q) := by
  unfold eqZ
  rw [numZ_eq hz hz', Bool.true_and]
  unfold dictsEq eq erase eraseD
  rw [length_mapV, length_mapV]
  congr 1
  unfold mapV
  rw [List.all_map]
  congr 1
  funext kv
  simp only [Function.comp_apply]
  rw [show (List.map (fun kv => (kv.1, num I kv.2)) q.data) = mapV (num I) q.data from rfl, find?_mapV]
  cases find? q.data kv.1 with
  | none => rfl
  | some w =>
    simp only [Option.map_some]
    rw [Bool.eq_iff_iff, decide_eq_true_eq, num_eq_iff hI]

/-! ### calculus -/

theorem eraseD_diffStepZ (hI : I * I = -1) (d : MPoly PyNum) :
    eraseD I (diffStepZ d) = diffStep (eraseD I d) := by
  unfold diffStepZ diffStep eraseD
  rw [mapV_ofPairs]
  congr 1
  rw [← mapV_filter_keys (num I) d (fun k => !decide (k = 0))]
  unfold mapV
  simp only [List.map_map, Function.comp_def, num_mul hI, num_int, ofIntA_eq]

theorem eraseD_iter_diffStepZ (hI : I * I = -1) (n : ℕ) (d : MPoly PyNum) :
    eraseD I (iter diffStepZ n d) = iter diffStep n (eraseD I d) := by
  induction n generalizing d with
  | zero => rfl
  | succ n ih => simp only [iter, ih, eraseD_diffStepZ hI]

theorem nodup_keys_iter_diffStep (n : ℕ) {d : MPoly K} (h : (keys d).Nodup) : (keys (iter diffStep n d)).Nodup := by
  induction n generalizing d with
  | zero => exact h
  | succ n ih => exact ih (nodup_keys_diffStep d)

theorem erase_diffZ (hI : I * I = -1) {p : ZPoly} (hg : Good p) (hz : NumZ p.zero) (n : ℕ) :
    erase I (diffZ p n) = diff (erase I p) n := by
  unfold diffZ diff
  rw [erase_normZ hI hz, eraseD_iter_diffStepZ hI]
  unfold mk
  show compact (ofPairs (iter diffStep n (erase I p))) = _
  rw [ofPairs_of_nodup (nodup_keys_iter_diffStep n (wf_erase hI hg hz).1)]

/-! ### division, integration, powers, evaluation -/

theorem erase_nil_of_empty {p : ZPoly} (h : p.data.isEmpty = true) : erase I p = ([] : MPoly K) := by
  unfold erase eraseD
  cases hp : p.data with
  | nil => rfl
  | cons a t => rw [hp] at h; cases h

theorem isEmpty_erase (p : ZPoly) : (erase I p : MPoly K).isEmpty = p.data.isEmpty := by
  unfold erase eraseD mapV
  cases p.data <;> rfl

theorem erase_integrateZ (hI : I * I = -1) {p : ZPoly} (hz : NumZ p.zero) :
    (integrateZ p).map (erase I) = integrate (erase I p) := by
  unfold integrateZ integrate
  have hh : has (erase I p : MPoly K) (-1) = has p.data (-1) := has_mapV _ _ _
  rw [hh]
  split
  · rfl
  · rename_i hm
    show Except.ok (erase I (normZ _ p.zero)) = _
    rw [erase_normZ hI hz]
    congr 2
    unfold erase eraseD mapV
    rw [List.map_map, List.map_map]
    apply List.map_congr_left
    intro kv hkv
    have hk : kv.1 + 1 ≠ 0 := by
      intro e
      apply hm
      rw [has_iff]
      exact List.mem_map.2 ⟨kv, hkv, by omega⟩
    simp only [Function.comp_apply]
    have hz0 : (PyNum.int (kv.1 + 1)).isZero = false := by
      have : ((kv.1 + 1 : ℤ) : ℚ) ≠ 0 := by exact_mod_cast hk
      simp only [PyNum.isZero, PyNum.re, PyNum.im]
      simp only [this, decide_false, Bool.false_and]
    rw [num_div hI _ _ hz0, num_int, ofIntA_eq]

theorem erase_divsZ (hI : I * I = -1) {p : ZPoly} (hz : NumZ p.zero) (c : PyNum) :
    (divsZ p c).map (erase I) = divScalar (erase I p) (num I c) := by
  unfold divsZ divScalar
  rw [isEmpty_erase]
  split
  · show Except.ok (erase I (normZ [] p.zero)) = _
    rw [erase_normZ hI hz]; rfl
  · by_cases hc : c.isZero = true
    · rw [if_pos hc, if_pos ((num_eq_zero_iff hI c).2 hc)]; rfl
    · rw [if_neg hc, if_neg (fun e => hc ((num_eq_zero_iff hI c).1 e))]
      show Except.ok (erase I (normZ _ p.zero)) = _
      rw [erase_normZ hI hz]
      congr 2
      unfold erase eraseD mapV
      rw [List.map_map, List.map_map]
      apply List.map_congr_left
      intro kv hkv
      simp only [Function.comp_apply]
      rw [num_div hI _ _ (by simpa using hc)]

theorem erase_divZ (hI : I * I = -1) {p : ZPoly} (hz : NumZ p.zero) (q : ZPoly) :
    (divZ p q).map (erase I) = divPoly (erase I p) (erase I q) := by
  unfold divZ divPoly
  cases hq : q.data with
  | nil => simp [erase, eraseD, hq]; rfl
  | cons a t =>
    cases t with
    | cons b u => simp [erase, eraseD, hq]; rfl
    | nil =>
      obtain ⟨d, w⟩ := a
      have he : (erase I q : MPoly K) = [(d, num I w)] := by simp [erase, eraseD, hq]
      rw [he]
      simp only
      rw [isEmpty_erase]
      split
      · show Except.ok (erase I (normZ [] p.zero)) = _
        rw [erase_normZ hI hz]; rfl
      · by_cases hc : w.isZero = true
        · rw [if_pos hc, if_pos ((num_eq_zero_iff hI w).2 hc)]; rfl
        · rw [if_neg hc, if_neg (fun e => hc ((num_eq_zero_iff hI w).1 e))]
          show Except.ok (erase I (normZ _ p.zero)) = _
          rw [erase_normZ hI hz]
          congr 2
          unfold erase eraseD mapV
          rw [List.map_map, List.map_map]
          apply List.map_congr_left
          intro kv hkv
          simp only [Function.comp_apply]
          rw [num_div hI _ _ (by simpa using hc)]

theorem num_powFloat (hI : I * I = -1) (v : PyNum) (n : ℤ) : num I (v.powFloat n) = num I v ^ n := by
  rw [← num_powInt hI]
  unfold PyNum.powFloat
  split
  · rename_i r i e he; rw [he]
  · rename_i x hx
    rw [num_mkFloat]
    cases hp : v.powInt n with
    | cplx r i e => exact absurd hp (hx r i e)
    | bool b => simp [num, PyNum.re, PyNum.im]
    | int k => simp [num, PyNum.re, PyNum.im]
    | frac q => simp [num, PyNum.re, PyNum.im]
    | float q e => simp [num, PyNum.re, PyNum.im]

theorem num_powNum (hI : I * I = -1) (v : PyNum) (n : ℤ) (ek : ExpKind) : num I (powNum v n ek) = num I v ^ n := by
  cases ek <;> simp only [powNum, num_powInt hI, num_powFloat hI]

theorem powLoopZ_zero' (p : ZPoly) (m : ℕ) : (powLoopZ p m).zero = p.zero := by
  induction m with
  | zero => rfl
  | succ m ih => exact ih

theorem erase_powLoopZ (hI : I * I = -1) {p : ZPoly} (hg : Good p) (hz : NumZ p.zero) (m : ℕ) :
    erase I (powLoopZ p m) = powLoop (erase I p) m := by
  induction m with
  | zero =>
    show erase I (normZ p.data p.zero) = _
    rw [erase_normZ hI hz]
    exact mk_of_wf (wf_erase hI hg hz)
  | succ m ih =>
    show erase I (mulZ (powLoopZ p m) p) = mul (powLoop (erase I p) m) (erase I p)
    rw [erase_mulZ hI (by rw [powLoopZ_zero']; exact hz), ih]

/-- `p ** n` (int / bool / float spelling of the exponent): a new object holds the field model's power -/
theorem erase_powZ_new (hI : I * I = -1) {p r : ZPoly} (hg : Good p) (hz : NumZ p.zero) {n : ℤ} {ek : ExpKind}
    (h : powZ p n ek = .new r) : erase I r = pow (erase I p) n := by
  unfold powZ at h
  unfold pow
  by_cases hn : n = 0
  · rw [if_pos hn] at h
    cases h
    rw [if_pos hn, erase_ofNumZ hI _ (z := some p.zero) hz, num_int]
    simp
  · rw [if_neg hn] at h
    rw [if_neg hn]
    cases hd : p.data with
    | nil =>
      rw [hd] at h
      cases h
      have : (erase I p : MPoly K) = [] := by simp [erase, eraseD, hd]
      rw [this]
      exact erase_normZ hI hz []
    | cons a t =>
      cases t with
      | nil =>
        obtain ⟨k, v⟩ := a
        rw [hd] at h
        have he : (erase I p : MPoly K) = [(k, num I v)] := by simp [erase, eraseD, hd]
        rw [he]
        simp only at h ⊢
        have h1 : v.eq (.int 1) = true ↔ num I v = 1 := by
          rw [← num_eq_iff hI, num_int]; simp
        split at h
        · rename_i hv
          cases h
          rw [erase_normZ hI hz, if_pos (h1.1 hv)]
          simp [eraseD, num_int]
        · rename_i hv
          split at h
          · cases h
          · cases h
            rw [erase_normZ hI hz, if_neg (fun e => hv (h1.2 e)), powInt_eq]
            simp [eraseD, num_powNum hI]
      | cons b u =>
        rw [hd] at h
        have he : (erase I p : MPoly K) = (a.1, num I a.2) :: (b.1, num I b.2) :: eraseD I u := by
          simp [erase, eraseD, hd]
        simp only at h
        split at h
        · cases h
        · split at h
          · cases h
          · cases h
            rw [erase_powLoopZ hI hg hz, he]

theorem erase_powZ_self (hI : I * I = -1) {p : ZPoly} {n : ℤ} {ek : ExpKind}
    (h : powZ p n ek = .self) : pow (erase I p) n = erase I p ∧ powIsSelf (erase I p : MPoly K) n = true := by
  unfold powZ at h
  split at h
  · cases h
  · rename_i hn
    cases hd : p.data with
    | nil => rw [hd] at h; cases h
    | cons a t =>
      cases t with
      | nil =>
        obtain ⟨k, v⟩ := a
        rw [hd] at h
        simp only at h
        split at h
        · cases h
        · split at h <;> cases h
      | cons b u =>
        rw [hd] at h
        have he : (erase I p : MPoly K) = (a.1, num I a.2) :: (b.1, num I b.2) :: eraseD I u := by
          simp [erase, eraseD, hd]
        simp only at h
        split at h
        · cases h
        · split at h
          · rename_i hle
            constructor
            · unfold pow
              rw [if_neg hn, he]
              simp only
              have : (n - 1).toNat = 0 := by omega
              rw [this]; rfl
            · rw [he]
              simp [powIsSelf, hn, hle]
          · cases h

/-! ### composition `p(q)` -/

theorem powZ_new_zero {q r : ZPoly} {n : ℤ} {ek : ExpKind} (h : powZ q n ek = .new r) : r.zero = q.zero := by
  unfold powZ at h
  split at h
  · cases h; rfl
  · split at h
    · cases h; rfl
    · split at h
      · cases h; rfl
      · split at h
        · cases h
        · cases h; rfl
    · split at h
      · cases h
      · split at h
        · cases h
        · cases h; exact powLoopZ_zero' _ _

/-- one summand `coeff * value ** power` of `Poly.__call__` on a Poly -/
def composeTermZ (q : ZPoly) (kc : Int × PyNum) : Except PyErr ZPoly :=
  match powZ q kc.1 .int with
  | .new r => pure (mulZ (ofNumZ kc.2 (some r.zero)) r)
  | .self => pure (mulZ (ofNumZ kc.2 (some q.zero)) q)
  | .err e => throw e

theorem erase_composeTermZ (hI : I * I = -1) {q : ZPoly} (hg : Good q) (hz : NumZ q.zero) {kc : Int × PyNum} {t : ZPoly}
    (h : composeTermZ q kc = .ok t) :
    erase I t = mul (ofScalar (num I kc.2)) (pow (erase I q) kc.1) ∧ t.zero = q.zero := by
  unfold composeTermZ at h
  cases hp : powZ q kc.1 .int with
  | new r =>
    rw [hp] at h
    cases h
    have hr : r.zero = q.zero := powZ_new_zero hp
    refine ⟨?_, hr⟩
    rw [erase_mulZ hI (by show NumZ r.zero; rw [hr]; exact hz),
      erase_ofNumZ hI _ (z := some r.zero) (by show NumZ r.zero; rw [hr]; exact hz), erase_powZ_new hI hg hz hp]
  | self =>
    rw [hp] at h
    cases h
    refine ⟨?_, rfl⟩
    rw [erase_mulZ hI (by exact hz), erase_ofNumZ hI _ (z := some q.zero) hz, (erase_powZ_self hI hp).1]
  | err e => rw [hp] at h; cases h

theorem erase_mapM_composeTermZ (hI : I * I = -1) {q : ZPoly} (hg : Good q) (hz : NumZ q.zero) (d : MPoly PyNum) :
    ∀ ts : List ZPoly, d.mapM (composeTermZ q) = .ok ts →
      ts.map (erase I) = (eraseD I d).map (fun kc => mul (ofScalar kc.2) (pow (erase I q) kc.1)) ∧
        ∀ t ∈ ts, t.zero = q.zero := by
  induction d with
  | nil =>
    intro ts h
    cases h
    exact ⟨rfl, fun t ht => absurd ht (List.not_mem_nil)⟩
  | cons a u ih =>
    intro ts h
    rw [List.mapM_cons] at h
    cases ha : composeTermZ q a with
    | error e => rw [ha] at h; cases h
    | ok t =>
      cases hu : u.mapM (composeTermZ q) with
      | error e => rw [ha, hu] at h; cases h
      | ok us =>
        rw [ha, hu] at h
        cases h
        obtain ⟨h1, h2⟩ := ih us hu
        obtain ⟨e1, e2⟩ := erase_composeTermZ hI hg hz ha
        refine ⟨?_, ?_⟩
        · show erase I t :: us.map (erase I) = _
          rw [h1, e1]; rfl
        · intro x hx
          rcases List.mem_cons.1 hx with rfl | hx
          · exact e2
          · exact h2 x hx

theorem foldl_addZ_zero (ts : List ZPoly) (acc : ZPoly) : (ts.foldl addZ acc).zero = acc.zero := by
  induction ts generalizing acc with
  | nil => rfl
  | cons t u ih => rw [List.foldl_cons, ih]; rfl

theorem erase_foldl_addZ (hI : I * I = -1) (ts : List ZPoly) (acc : ZPoly) (hz : NumZ acc.zero) :
    erase I (ts.foldl addZ acc) = (ts.map (erase I)).foldl add (erase I acc) := by
  induction ts generalizing acc with
  | nil => rfl
  | cons t u ih =>
    rw [List.foldl_cons, ih _ (by exact hz), erase_addZ hI hz]
    rfl

theorem wf_foldl_add_erase (l : List (MPoly K)) (a : MPoly K) (h : WF a) : WF (l.foldl add a) := by
  induction l generalizing a with
  | nil => exact h
  | cons x u ih => exact ih _ (wf_add _ _)

theorem good_foldl_addZ (ts : List ZPoly) (acc : ZPoly) (h : Good acc) : Good (ts.foldl addZ acc) := by
  induction ts generalizing acc with
  | nil => exact h
  | cons t u ih => exact ih _ (good_normZ _ _)

/-- **composition**: `p(q)` for Polys (`Poly(sum(coeff * value ** power …), self.zero)`, with the summands carrying
    the zero of `q` and the final cast the zero of `p`) erases to the field model's `compose` -/
theorem erase_composeZ (hI : I * I = -1) {p q r : ZPoly} (hg : Good q) (hzp : NumZ p.zero) (hzq : NumZ q.zero)
    (h : composeZ p q = .ok r) : erase I r = compose (erase I p) (erase I q) := by
  unfold composeZ at h
  have hterms : composeTerms p q = p.data.mapM (composeTermZ q) := rfl
  rw [hterms] at h
  unfold compose
  cases hm : p.data.mapM (composeTermZ q) with
  | error e => rw [hm] at h; cases h
  | ok ts =>
    obtain ⟨h1, h2⟩ := erase_mapM_composeTermZ hI hg hzq p.data ts hm
    rw [hm] at h
    have hfold : ∀ a : MPoly K, (erase I p).foldl (fun acc kc => add acc (mul (ofScalar kc.2) (pow (erase I q) kc.1))) a =
        (ts.map (erase I)).foldl add a := by
      intro a; rw [h1, List.foldl_map]; rfl
    rw [hfold]
    cases ts with
    | nil =>
      cases h
      rw [erase_ofNumZ hI _ (z := some p.zero) hzp, num_int, Int.cast_zero]
      exact (compact_of_wf (wf_ofScalar _)).symm
    | cons t us =>
      cases h
      have ht : t.zero = q.zero := h2 t (List.mem_cons_self ..)
      have hz0 : NumZ (addZ (ofNumZ (.int 0) (some t.zero)) t).zero := by show NumZ t.zero; rw [ht]; exact hzq
      have hzf : NumZ (us.foldl addZ (addZ (ofNumZ (.int 0) (some t.zero)) t)).zero := by
        rw [foldl_addZ_zero]; exact hz0
      have hgf : Good (us.foldl addZ (addZ (ofNumZ (.int 0) (some t.zero)) t)) :=
        good_foldl_addZ _ _ (good_normZ _ _)
      show erase I (normZ _ p.zero) = _
      rw [erase_normZ hI hzp]
      show mk (erase I (us.foldl addZ (addZ (ofNumZ (.int 0) (some t.zero)) t))) = _
      rw [mk_of_wf (wf_erase hI hgf hzf), erase_foldl_addZ hI _ _ hz0,
        erase_addZ hI (by show NumZ t.zero; rw [ht]; exact hzq),
        erase_ofNumZ hI _ (z := some t.zero) (by show NumZ t.zero; rw [ht]; exact hzq), num_int]
      rw [List.map_cons, List.foldl_cons]
      rw [Int.cast_zero]
      exact (compact_of_wf (wf_foldl_add_erase _ _ (wf_add _ _))).symm

/-- the value of a number-or-zero answer (`[]` / `{}` cannot occur for numeric zeros) -/
def valOf (I : K) : PyVal → K
  | .num x => num I x
  | _ => 0

theorem valOf_getZ (hI : I * I = -1) {p : ZPoly} (hz : NumZ p.zero) (k : ℤ) :
    valOf I (getZ p k) = getD (erase I p) k := by
  unfold getZ getD erase eraseD
  rw [find?_mapV]
  cases find? p.data k with
  | some v => rfl
  | none =>
    obtain ⟨x, hx, hx0⟩ := hz
    rw [hx]
    simp only [valOf, Option.map_none, Option.getD_none]
    exact (num_eq_zero_iff hI x).2 hx0

theorem num_hornerStepZ (hI : I * I = -1) (v : PyNum) (old new : Int × PyNum) :
    ((hornerStepZ v old new).1, num I (hornerStepZ v old new).2) =
      hornerStep (num I v) (old.1, num I old.2) (new.1, num I new.2) := by
  unfold hornerStepZ hornerStep
  simp only [Prod.mk.injEq, true_and]
  rw [num_add, num_mul hI]
  split
  · rfl
  · rw [num_powInt hI, powInt_eq]

theorem foldl_hornerStepZ (hI : I * I = -1) (v : PyNum) (t : MPoly PyNum) (h : Int × PyNum) :
    ((t.foldl (hornerStepZ v) h).1, num I (t.foldl (hornerStepZ v) h).2) =
      (eraseD I t).foldl (hornerStep (num I v)) (h.1, num I h.2) := by
  induction t generalizing h with
  | nil => rfl
  | cons a u ih =>
    simp only [List.foldl_cons]
    rw [ih, num_hornerStepZ hI]
    rfl

theorem eraseD_sortDesc (d : MPoly PyNum) : eraseD I (sortDesc d) = sortDesc (eraseD I d : MPoly K) := by
  unfold sortDesc eraseD
  rw [← mapV_sortAsc]
  simp [mapV]

theorem num_evalHornerZ (hI : I * I = -1) (d : MPoly PyNum) (v : PyNum) :
    num I (evalHornerZ d v) = evalHorner (eraseD I d) (num I v) := by
  unfold evalHornerZ evalHorner
  rw [← eraseD_sortDesc]
  cases sortDesc d with
  | nil => exact num_zero
  | cons h t =>
    have hf := foldl_hornerStepZ (I := I) hI v t h
    show _ = (List.foldl (hornerStep (num I v)) (h.1, num I h.2) (eraseD I t)).2 *
      powInt (num I v) (List.foldl (hornerStep (num I v)) (h.1, num I h.2) (eraseD I t)).1
    rw [← hf]
    simp only
    rw [num_mul hI, num_powInt hI, powInt_eq]

theorem foldl_evalDirectZ (hI : I * I = -1) (v : PyNum) (l : MPoly PyNum) (acc : PyNum) :
    num I (l.foldl (fun acc kv => acc + kv.2 * v.powInt kv.1) acc) =
      (eraseD I l).foldl (fun acc kv => acc + kv.2 * powInt (num I v) kv.1) (num I acc) := by
  induction l generalizing acc with
  | nil => rfl
  | cons a t ih =>
    simp only [List.foldl_cons]
    rw [ih, num_add, num_mul hI, num_powInt hI]
    show _ = List.foldl _ (num I acc + num I a.2 * powInt (num I v) a.1) (eraseD I t)
    rw [powInt_eq]

theorem num_evalDirectZ (hI : I * I = -1) (d : MPoly PyNum) (v : PyNum) :
    num I (evalDirectZ d v) = evalDirect (eraseD I d) (num I v) := by
  unfold evalDirectZ evalDirect
  rw [foldl_evalDirectZ hI, num_zero]
  unfold eraseD
  rw [mapV_sortAsc]

theorem isPolynomial_eraseD (d : MPoly PyNum) : isPolynomial (eraseD I d : MPoly K) = isPolynomial d := by
  unfold isPolynomial eraseD mapV
  rw [List.all_map]
  rfl

/-- **evaluation on exact numbers**: `p(v, horner=h)` erases to the field model's `call` -/
theorem valOf_callZ (hI : I * I = -1) {p : ZPoly} (hz : NumZ p.zero) (v : PyNum) (h : Horner) :
    valOf I (callZ p v h) = call (erase I p) (num I v) h := by
  unfold callZ call
  rw [isEmpty_erase]
  split
  · obtain ⟨x, hx, hx0⟩ := hz
    rw [hx]
    exact (num_eq_zero_iff hI x).2 hx0
  · by_cases hv : v.isZero = true
    · rw [if_pos hv, if_pos ((num_eq_zero_iff hI v).2 hv)]
      exact valOf_getZ hI hz 0
    · rw [if_neg hv, if_neg (fun e => hv ((num_eq_zero_iff hI v).1 e))]
      have hpoly : isPolynomial (erase I p : MPoly K) = isPolynomial p.data := isPolynomial_eraseD _
      cases h with
      | auto =>
        show num I (if isPolynomial p.data = true then _ else _) =
          if isPolynomial (erase I p : MPoly K) = true then _ else _
        rw [hpoly]
        split
        · exact num_evalHornerZ hI _ _
        · exact num_evalDirectZ hI _ _
      | yes => exact num_evalHornerZ hI _ _
      | no => exact num_evalDirectZ hI _ _

theorem order_eraseD (d : MPoly PyNum) : order (eraseD I d : MPoly K) = order d := by
  unfold order
  rw [isPolynomial_eraseD]
  unfold eraseD mapV
  rw [List.foldl_map]

/-- `p.values()` erases to the field model's `values()` -/
theorem erase_valuesZ (hI : I * I = -1) {p : ZPoly} (hz : NumZ p.zero) :
    (valuesZ p).map (List.map (valOf I)) = values (erase I p) := by
  unfold valuesZ values
  rw [isEmpty_erase]
  split
  · rfl
  · have ho : order (erase I p : MPoly K) = order p.data := order_eraseD _
    rw [ho]
    cases order p.data with
    | error e => rfl
    | ok n =>
      show Except.ok _ = Except.ok _
      congr 1
      rw [List.map_map]
      apply List.map_congr_left
      intro i _
      exact valOf_getZ hI hz _

end Poly

end ALV.C07
