/-
  C06 — lemmas on the tee / thub machine `ALV.C06.Hub` (core Lean only).

  * `next_frame`        : `next` touches only the sources / groups that occur in the iterator;
  * `next_groupMax`     : for every tee group, in every reachable state, the buffer length (= number
                          of upstream pulls) is the MAXIMUM of the copies' positions;
  * `next_owned`        : a source wrapped by one hub is pulled exactly as often as the hub's buffer
                          grew, and the buffer holds exactly the items pulled so far;
  * `next_copy_value`   : every copy of such a hub reads the source's items in order, whatever the
                          other copies did (a real tee copy);
  * `next_pos_count` / `next_pulls_count` : a successful `next` advances each copy / each directly
                          stored source by its number of occurrences.
-/
import ALV.Model.C06Hub

set_option linter.unusedSectionVars false
set_option linter.unusedVariables false
set_option linter.unusedSimpArgs false
namespace ALV.C06.Hub
variable {α : Type} [Add α] [Sub α] [Mul α] [Div α]

theorem upd_same {β : Type} (f : Nat → β) (k : Nat) (v : β) : upd f k v k = v := by simp [upd]
theorem upd_other {β : Type} (f : Nat → β) (k j : Nat) (v : β) (h : j ≠ k) : upd f k v j = f j := by
  simp [upd, h]

/-- sources / groups occurring anywhere in an iterator (upstreams included) -/
def It.srcs : It α → List Nat
  | .src k => [k]
  | .tee _ _ up => up.srcs
  | .map2 _ a b => a.srcs ++ b.srcs
  | .bl _ _ a => a.srcs
  | .br _ a _ => a.srcs

def It.groups : It α → List Nat
  | .src _ => []
  | .tee g _ up => g :: up.groups
  | .map2 _ a b => a.groups ++ b.groups
  | .bl _ _ a => a.groups
  | .br _ a _ => a.groups

/-- no hub sits (transitively) on itself -/
def It.WF : It α → Prop
  | .src _ => True
  | .tee g _ up => g ∉ up.groups ∧ up.WF
  | .map2 _ a b => a.WF ∧ b.WF
  | .bl _ _ a => a.WF
  | .br _ a _ => a.WF

/-! ### frame -/

theorem next_frame (srcs : Nat → Src α) (t : It α) : ∀ st : St α,
    (∀ k, k ∉ t.srcs → (next srcs t st).1.pulls k = st.pulls k)
    ∧ (∀ g, g ∉ t.groups → (next srcs t st).1.buf g = st.buf g ∧ (next srcs t st).1.pos g = st.pos g) := by
  induction t with
  | src k0 =>
    intro st
    simp only [next, It.srcs, It.groups, List.mem_singleton]
    cases h : (srcs k0).items[st.pulls k0]? with
    | none => simp
    | some v =>
      refine ⟨fun k hk => ?_, fun g _ => ⟨rfl, rfl⟩⟩
      simp [upd, hk]
  | tee g0 i up ih =>
    intro st
    simp only [next, It.srcs, It.groups, List.mem_cons, not_or]
    cases h : (st.buf g0)[st.pos g0 i]? with
    | some v =>
      refine ⟨fun k _ => rfl, fun g hg => ⟨rfl, ?_⟩⟩
      simp [upd, hg.1]
    | none =>
      have := ih st
      cases hn : next srcs up st with
      | mk st' r =>
        rw [hn] at this
        cases r with
        | ok v =>
          refine ⟨fun k hk => this.1 k hk, fun g hg => ?_⟩
          have h2 := this.2 g hg.2
          simp only [upd, hg.1, if_false]
          exact h2
        | stop => exact ⟨fun k hk => this.1 k hk, fun g hg => this.2 g hg.2⟩
        | raise => exact ⟨fun k hk => this.1 k hk, fun g hg => this.2 g hg.2⟩
  | map2 f a b iha ihb =>
    intro st
    simp only [next, It.srcs, It.groups, List.mem_append, not_or]
    have ha := iha st
    cases hn : next srcs a st with
    | mk st1 r =>
      rw [hn] at ha
      cases r with
      | ok x =>
        dsimp only
        have hb := ihb st1
        cases hm : next srcs b st1 with
        | mk st2 r2 =>
          rw [hm] at hb
          have key : (∀ k, k ∉ a.srcs ∧ k ∉ b.srcs → st2.pulls k = st.pulls k)
              ∧ (∀ g, g ∉ a.groups ∧ g ∉ b.groups → st2.buf g = st.buf g ∧ st2.pos g = st.pos g) :=
            ⟨fun k hk => (hb.1 k hk.2).trans (ha.1 k hk.1),
             fun g hg => ⟨((hb.2 g hg.2).1).trans (ha.2 g hg.1).1, ((hb.2 g hg.2).2).trans (ha.2 g hg.1).2⟩⟩
          cases r2 <;> exact key
      | stop => exact ⟨fun k hk => ha.1 k hk.1, fun g hg => ha.2 g hg.1⟩
      | raise => exact ⟨fun k hk => ha.1 k hk.1, fun g hg => ha.2 g hg.1⟩
  | bl f c a iha =>
    intro st
    simp only [next, It.srcs, It.groups]
    have ha := iha st
    cases hn : next srcs a st with
    | mk st1 r => rw [hn] at ha; cases r <;> exact ha
  | br f a c iha =>
    intro st
    simp only [next, It.srcs, It.groups]
    have ha := iha st
    cases hn : next srcs a st with
    | mk st1 r => rw [hn] at ha; cases r <;> exact ha

/-! ### the upstream of a hub advances exactly max over the copies -/

/-- the buffer of group `g` (one item per upstream pull) is as long as the most advanced copy -/
def GroupMax (st : St α) (g : Nat) : Prop :=
  (∀ i, st.pos g i ≤ (st.buf g).length) ∧ ((st.buf g).length = 0 ∨ ∃ i, st.pos g i = (st.buf g).length)

theorem groupMax_init (g : Nat) : GroupMax (St.init : St α) g := ⟨fun _ => Nat.le_refl _, Or.inl rfl⟩

theorem next_groupMax (srcs : Nat → Src α) (t : It α) (g : Nat) : ∀ st : St α, t.WF → GroupMax st g →
    GroupMax (next srcs t st).1 g := by
  induction t with
  | src k0 =>
    intro st _ h
    simp only [next]
    cases (srcs k0).items[st.pulls k0]? <;> exact h
  | tee g0 i up ih =>
    intro st wf h
    simp only [next]
    cases hb : (st.buf g0)[st.pos g0 i]? with
    | some v =>
      obtain ⟨hlt, _⟩ := List.getElem?_eq_some_iff.1 hb
      dsimp only
      by_cases hg : g = g0
      · subst hg
        refine ⟨fun j => ?_, ?_⟩
        · by_cases hj : j = i
          · subst hj; simp only [upd_same]; omega
          · simp only [upd_same, upd_other _ _ _ _ hj]; exact h.1 j
        · rcases h.2 with h0 | ⟨j, hj⟩
          · omega
          · refine Or.inr ⟨j, ?_⟩
            have hji : j ≠ i := by intro e; subst e; omega
            simp only [upd_same, upd_other _ _ _ _ hji]; exact hj
      · refine ⟨fun j => ?_, ?_⟩
        · simp only [upd_other _ _ _ _ hg]; exact h.1 j
        · simp only [upd_other _ _ _ _ hg]; exact h.2
    | none =>
      have hge : (st.buf g0).length ≤ st.pos g0 i := List.getElem?_eq_none_iff.1 hb
      dsimp only
      have ihh := ih st wf.2 h
      have hfr := (next_frame srcs up st).2 g0 wf.1
      cases hn : next srcs up st with
      | mk st' r =>
        rw [hn] at ihh hfr
        dsimp only at ihh hfr
        cases r with
        | stop => exact ihh
        | raise => exact ihh
        | ok v =>
          by_cases hg : g = g0
          · subst hg
            have hpos : st.pos g i = (st.buf g).length := Nat.le_antisymm (h.1 i) hge
            refine ⟨fun j => ?_, Or.inr ⟨i, ?_⟩⟩
            · by_cases hj : j = i
              · subst hj
                simp only [upd_same, List.length_append, List.length_singleton, hfr.1, hfr.2]; omega
              · simp only [upd_same, upd_other _ _ _ _ hj, List.length_append, List.length_singleton,
                  hfr.1, hfr.2]
                have := h.1 j; omega
            · simp only [upd_same, List.length_append, List.length_singleton, hfr.1, hfr.2]; omega
          · refine ⟨fun j => ?_, ?_⟩
            · simp only [upd_other _ _ _ _ hg]; exact ihh.1 j
            · simp only [upd_other _ _ _ _ hg]; exact ihh.2
  | map2 f a b iha ihb =>
    intro st wf h
    simp only [next]
    have ha := iha st wf.1 h
    cases hn : next srcs a st with
    | mk st1 r =>
      rw [hn] at ha
      cases r with
      | ok x =>
        dsimp only
        have hb := ihb st1 wf.2 ha
        cases hm : next srcs b st1 with
        | mk st2 r2 => rw [hm] at hb; cases r2 <;> exact hb
      | stop => exact ha
      | raise => exact ha
  | bl f c a iha =>
    intro st wf h
    simp only [next]
    have ha := iha st wf h
    cases hn : next srcs a st with
    | mk st1 r => rw [hn] at ha; cases r <;> exact ha
  | br f a c iha =>
    intro st wf h
    simp only [next]
    have ha := iha st wf h
    cases hn : next srcs a st with
    | mk st1 r => rw [hn] at ha; cases r <;> exact ha

/-! ### a source wrapped by ONE hub -/

/-- source `k` occurs in the iterator only as the direct upstream of copies of group `g`, and every
copy of `g` sits directly on it -/
def It.Owned (k g : Nat) : It α → Prop
  | .src k' => k' ≠ k
  | .tee g' _ up => (g' = g ∧ up = .src k) ∨ (g' ≠ g ∧ It.Owned k g up)
  | .map2 _ a b => It.Owned k g a ∧ It.Owned k g b
  | .bl _ _ a => It.Owned k g a
  | .br _ a _ => It.Owned k g a

/-- the hub's buffer is exactly what was pulled from the source, one item per pull -/
def OwnedInv (srcs : Nat → Src α) (st : St α) (k g : Nat) : Prop :=
  st.buf g = ((srcs k).items).take (st.pulls k) ∧ st.pulls k ≤ (srcs k).items.length

theorem ownedInv_init (srcs : Nat → Src α) (k g : Nat) : OwnedInv srcs (St.init : St α) k g :=
  ⟨by simp [St.init], Nat.zero_le _⟩

theorem ownedInv_len {srcs : Nat → Src α} {st : St α} {k g : Nat} (h : OwnedInv srcs st k g) :
    (st.buf g).length = st.pulls k := by
  rw [h.1, List.length_take]; exact Nat.min_eq_left h.2

theorem owned_not_mem_srcs (k g : Nat) (t : It α) (h : t.Owned k g) (hg : g ∉ t.groups) : k ∉ t.srcs := by
  induction t with
  | src k' => simp only [It.srcs, List.mem_singleton]; exact fun e => h e.symm
  | tee g' i up ih =>
    simp only [It.groups, List.mem_cons, not_or] at hg
    rcases h with ⟨e, _⟩ | ⟨_, h'⟩
    · exact absurd e.symm hg.1
    · exact ih h' hg.2
  | map2 f a b iha ihb =>
    simp only [It.groups, List.mem_append, not_or] at hg
    simp only [It.srcs, List.mem_append, not_or]
    exact ⟨iha h.1 hg.1, ihb h.2 hg.2⟩
  | bl f c a iha => exact iha h hg
  | br f a c iha => exact iha h hg

/-- `next` on a copy of a hub that sits directly on a source, spelled out -/
theorem next_tee_src (srcs : Nat → Src α) (g i k : Nat) (st : St α) :
    next srcs (It.tee g i (It.src k)) st
      = match (st.buf g)[st.pos g i]? with
        | some v => ({ st with pos := upd st.pos g (upd (st.pos g) i (st.pos g i + 1)) }, .ok v)
        | none =>
          match (srcs k).items[st.pulls k]? with
          | some v => ({ pulls := upd st.pulls k (st.pulls k + 1), buf := upd st.buf g (st.buf g ++ [v]),
                         pos := upd st.pos g (upd (st.pos g) i (st.pos g i + 1)) }, .ok v)
          | none => (st, if (srcs k).raises then .raise else .stop) := by
  simp only [next]
  cases (st.buf g)[st.pos g i]? with
  | some v => rfl
  | none =>
    cases (srcs k).items[st.pulls k]? with
    | some v => rfl
    | none => cases (srcs k).raises <;> rfl

theorem next_owned (srcs : Nat → Src α) (k g : Nat) (t : It α) : ∀ st : St α, t.WF → t.Owned k g →
    OwnedInv srcs st k g → OwnedInv srcs (next srcs t st).1 k g := by
  induction t with
  | src k0 =>
    intro st _ ho h
    have hne : k ∉ (It.src k0 : It α).srcs := by
      simp only [It.srcs, List.mem_singleton]; exact fun e => ho e.symm
    have f := next_frame srcs (It.src k0) st
    have hb := f.2 g (by simp [It.groups])
    exact ⟨by rw [hb.1, f.1 k hne]; exact h.1, by rw [f.1 k hne]; exact h.2⟩
  | tee g0 i up ih =>
    intro st wf ho h
    rcases ho with ⟨hg, hup⟩ | ⟨hg, ho'⟩
    · subst hg; subst hup
      rw [next_tee_src]
      cases hb : (st.buf g0)[st.pos g0 i]? with
      | some v => exact h
      | none =>
        cases hs : (srcs k).items[st.pulls k]? with
        | none => exact h
        | some v =>
          obtain ⟨hlt, _⟩ := List.getElem?_eq_some_iff.1 hs
          refine ⟨?_, ?_⟩
          · show upd st.buf g0 (st.buf g0 ++ [v]) g0
              = ((srcs k).items).take (upd st.pulls k (st.pulls k + 1) k)
            rw [upd_same, upd_same, h.1, List.take_add_one, hs]
            rfl
          · show upd st.pulls k (st.pulls k + 1) k ≤ _
            rw [upd_same]; omega
    · -- another group: the source is not touched at all unless through its own hub
      simp only [next]
      cases hb : (st.buf g0)[st.pos g0 i]? with
      | some v => exact h
      | none =>
        have ihh := ih st wf.2 ho' h
        cases hn : next srcs up st with
        | mk st' r =>
          rw [hn] at ihh
          cases r with
          | stop => exact ihh
          | raise => exact ihh
          | ok v =>
            refine ⟨?_, ihh.2⟩
            simp only [upd_other _ _ _ _ (Ne.symm hg)]
            exact ihh.1
  | map2 f a b iha ihb =>
    intro st wf ho h
    simp only [next]
    have ha := iha st wf.1 ho.1 h
    cases hn : next srcs a st with
    | mk st1 r =>
      rw [hn] at ha
      cases r with
      | ok x =>
        dsimp only
        have hb := ihb st1 wf.2 ho.2 ha
        cases hm : next srcs b st1 with
        | mk st2 r2 => rw [hm] at hb; cases r2 <;> exact hb
      | stop => exact ha
      | raise => exact ha
  | bl f c a iha =>
    intro st wf ho h
    simp only [next]
    have ha := iha st wf ho h
    cases hn : next srcs a st with
    | mk st1 r => rw [hn] at ha; cases r <;> exact ha
  | br f a c iha =>
    intro st wf ho h
    simp only [next]
    have ha := iha st wf ho h
    cases hn : next srcs a st with
    | mk st1 r => rw [hn] at ha; cases r <;> exact ha

/-- **a hub copy is a real tee copy**: in any state reached so far, copy `i` of the hub over source
`k` delivers the source's item number `pos g i` — whatever the other copies have read — and it ends
(`StopIteration` / the source's exception) exactly when it has delivered ALL the items. -/
theorem next_copy_value (srcs : Nat → Src α) (k g i : Nat) (st : St α) (h : OwnedInv srcs st k g)
    (hm : GroupMax st g) :
    (next srcs (It.tee g i (It.src k)) st).2
      = match (srcs k).items[st.pos g i]? with
        | some v => Res.ok v
        | none => if (srcs k).raises then Res.raise else Res.stop := by
  have hlen := ownedInv_len h
  have hle := hm.1 i
  rw [next_tee_src]
  cases hb : (st.buf g)[st.pos g i]? with
  | some v =>
    obtain ⟨hlt, _⟩ := List.getElem?_eq_some_iff.1 hb
    rw [h.1, List.getElem?_take] at hb
    have : st.pos g i < st.pulls k := by omega
    simp only [this, if_true] at hb
    rw [hb]
  | none =>
    have hge : (st.buf g).length ≤ st.pos g i := List.getElem?_eq_none_iff.1 hb
    have hpos : st.pos g i = st.pulls k := by omega
    rw [hpos]
    cases hs : (srcs k).items[st.pulls k]? with
    | some v => rfl
    | none => rfl

/-! ### how far one successful `next` advances the copies and the directly stored sources -/

/-- occurrences of copy `(g, i)` outside every upstream -/
def It.occ (g i : Nat) : It α → Nat
  | .src _ => 0
  | .tee g' i' _ => if g' = g ∧ i' = i then 1 else 0
  | .map2 _ a b => It.occ g i a + It.occ g i b
  | .bl _ _ a => It.occ g i a
  | .br _ a _ => It.occ g i a

/-- occurrences of source `k` stored directly (outside every upstream) -/
def It.dir (k : Nat) : It α → Nat
  | .src k' => if k' = k then 1 else 0
  | .tee _ _ _ => 0
  | .map2 _ a b => It.dir k a + It.dir k b
  | .bl _ _ a => It.dir k a
  | .br _ a _ => It.dir k a

/-- every hub sits directly on hub-free iterators (what `Poly` arithmetic on leaf Streams builds) -/
def It.Flat : It α → Prop
  | .src _ => True
  | .tee _ _ up => up.groups = []
  | .map2 _ a b => a.Flat ∧ b.Flat
  | .bl _ _ a => a.Flat
  | .br _ a _ => a.Flat

/-- source `k` is under no hub -/
def It.NoHub (k : Nat) : It α → Prop
  | .src _ => True
  | .tee _ _ up => k ∉ up.srcs
  | .map2 _ a b => It.NoHub k a ∧ It.NoHub k b
  | .bl _ _ a => It.NoHub k a
  | .br _ a _ => It.NoHub k a

theorem next_pos_count (srcs : Nat → Src α) (g i : Nat) (t : It α) : ∀ (st st' : St α) (v : α), t.Flat →
    next srcs t st = (st', .ok v) → st'.pos g i = st.pos g i + t.occ g i := by
  induction t with
  | src k0 =>
    intro st st' v _ h
    simp only [next] at h
    cases hs : (srcs k0).items[st.pulls k0]? with
    | none => rw [hs] at h; simp only at h; split at h <;> cases h
    | some w =>
      rw [hs] at h
      simp only [Prod.mk.injEq] at h
      rw [← h.1]; rfl
  | tee g0 i0 up ih =>
    intro st st' v hf h
    simp only [next] at h
    cases hb : (st.buf g0)[st.pos g0 i0]? with
    | some w =>
      rw [hb] at h
      simp only [Prod.mk.injEq] at h
      rw [← h.1]
      simp only [It.occ]
      by_cases hg : g0 = g
      · subst hg
        by_cases hi : i0 = i
        · subst hi; simp [upd_same]
        · have : i ≠ i0 := fun e => hi e.symm
          simp [upd_same, upd_other _ _ _ _ this, hi]
      · have : g ≠ g0 := fun e => hg e.symm
        simp [upd_other _ _ _ _ this, hg]
    | none =>
      rw [hb] at h
      have hfr := next_frame srcs up st
      cases hn : next srcs up st with
      | mk st1 r =>
        rw [hn] at h hfr
        cases r with
        | stop => cases h
        | raise => cases h
        | ok w =>
          simp only [Prod.mk.injEq] at h
          rw [← h.1]
          have hp : ∀ g', st1.pos g' = st.pos g' := fun g' => (hfr.2 g' (by rw [hf]; simp)).2
          simp only [It.occ]
          by_cases hg : g0 = g
          · subst hg
            by_cases hi : i0 = i
            · subst hi; simp [upd_same, hp]
            · have : i ≠ i0 := fun e => hi e.symm
              simp [upd_same, upd_other _ _ _ _ this, hi, hp]
          · have : g ≠ g0 := fun e => hg e.symm
            simp [upd_other _ _ _ _ this, hg, hp]
  | map2 f a b iha ihb =>
    intro st st' v hf h
    simp only [next] at h
    cases hn : next srcs a st with
    | mk st1 r =>
      rw [hn] at h
      cases r with
      | stop => cases h
      | raise => cases h
      | ok x =>
        dsimp only at h
        cases hm : next srcs b st1 with
        | mk st2 r2 =>
          rw [hm] at h
          cases r2 with
          | stop => cases h
          | raise => cases h
          | ok y =>
            simp only [Prod.mk.injEq] at h
            rw [← h.1, ihb st1 st2 y hf.2 hm, iha st st1 x hf.1 hn]
            simp only [It.occ]; omega
  | bl f c a iha =>
    intro st st' v hf h
    simp only [next] at h
    cases hn : next srcs a st with
    | mk st1 r =>
      rw [hn] at h
      cases r with
      | stop => cases h
      | raise => cases h
      | ok x =>
        simp only [Prod.mk.injEq] at h
        rw [← h.1]; exact iha st st1 x hf hn
  | br f a c iha =>
    intro st st' v hf h
    simp only [next] at h
    cases hn : next srcs a st with
    | mk st1 r =>
      rw [hn] at h
      cases r with
      | stop => cases h
      | raise => cases h
      | ok x =>
        simp only [Prod.mk.injEq] at h
        rw [← h.1]; exact iha st st1 x hf hn

theorem next_pulls_count (srcs : Nat → Src α) (k : Nat) (t : It α) : ∀ (st st' : St α) (v : α), It.NoHub k t →
    next srcs t st = (st', .ok v) → st'.pulls k = st.pulls k + t.dir k := by
  induction t with
  | src k0 =>
    intro st st' v _ h
    simp only [next] at h
    cases hs : (srcs k0).items[st.pulls k0]? with
    | none => rw [hs] at h; simp only at h; split at h <;> cases h
    | some w =>
      rw [hs] at h
      simp only [Prod.mk.injEq] at h
      rw [← h.1]
      simp only [It.dir]
      by_cases hk : k0 = k
      · subst hk; simp [upd_same]
      · have : k ≠ k0 := fun e => hk e.symm
        simp [upd_other _ _ _ _ this, hk]
  | tee g0 i0 up ih =>
    intro st st' v hf h
    simp only [next] at h
    cases hb : (st.buf g0)[st.pos g0 i0]? with
    | some w =>
      rw [hb] at h
      simp only [Prod.mk.injEq] at h
      rw [← h.1]; rfl
    | none =>
      rw [hb] at h
      have hfr := (next_frame srcs up st).1 k hf
      cases hn : next srcs up st with
      | mk st1 r =>
        rw [hn] at h hfr
        cases r with
        | stop => cases h
        | raise => cases h
        | ok w =>
          simp only [Prod.mk.injEq] at h
          rw [← h.1]
          simpa [It.dir] using hfr
  | map2 f a b iha ihb =>
    intro st st' v hf h
    simp only [next] at h
    cases hn : next srcs a st with
    | mk st1 r =>
      rw [hn] at h
      cases r with
      | stop => cases h
      | raise => cases h
      | ok x =>
        dsimp only at h
        cases hm : next srcs b st1 with
        | mk st2 r2 =>
          rw [hm] at h
          cases r2 with
          | stop => cases h
          | raise => cases h
          | ok y =>
            simp only [Prod.mk.injEq] at h
            rw [← h.1, ihb st1 st2 y hf.2 hm, iha st st1 x hf.1 hn]
            simp only [It.dir]; omega
  | bl f c a iha =>
    intro st st' v hf h
    simp only [next] at h
    cases hn : next srcs a st with
    | mk st1 r =>
      rw [hn] at h
      cases r with
      | stop => cases h
      | raise => cases h
      | ok x =>
        simp only [Prod.mk.injEq] at h
        rw [← h.1]; exact iha st st1 x hf hn
  | br f a c iha =>
    intro st st' v hf h
    simp only [next] at h
    cases hn : next srcs a st with
    | mk st1 r =>
      rw [hn] at h
      cases r with
      | stop => cases h
      | raise => cases h
      | ok x =>
        simp only [Prod.mk.injEq] at h
        rw [← h.1]; exact iha st st1 x hf hn


/-! ### one evaluation of the generated expression: `round` -/

def HC.WF : HC α → Prop
  | .c _ => True
  | .s e => e.WF
def HC.Flat : HC α → Prop
  | .c _ => True
  | .s e => e.Flat
def HC.Owned (k g : Nat) : HC α → Prop
  | .c _ => True
  | .s e => e.Owned k g
def HC.NoHub (k : Nat) : HC α → Prop
  | .c _ => True
  | .s e => e.NoHub k
def HC.occ (g i : Nat) : HC α → Nat
  | .c _ => 0
  | .s e => e.occ g i
def HC.dir (k : Nat) : HC α → Nat
  | .c _ => 0
  | .s e => e.dir k

/-- occurrences of copy `(g, i)` / of the directly stored source `k` among the loop's coefficients -/
def occR (g i : Nat) : List (HC α) → Nat
  | [] => 0
  | c :: cs => c.occ g i + occR g i cs
def dirR (k : Nat) : List (HC α) → Nat
  | [] => 0
  | c :: cs => c.dir k + dirR k cs

theorem round_inv (srcs : Nat → Src α) (k g : Nat) (cs : List (HC α)) : ∀ st : St α,
    (∀ c ∈ cs, c.WF) → (∀ c ∈ cs, c.Owned k g) → GroupMax st g → OwnedInv srcs st k g →
    GroupMax (round srcs cs st).1 g ∧ OwnedInv srcs (round srcs cs st).1 k g := by
  induction cs with
  | nil => intro st _ _ hm ho; exact ⟨hm, ho⟩
  | cons c cs ih =>
    intro st wf ow hm ho
    have wf' : ∀ c ∈ cs, c.WF := fun c hc => wf c (List.mem_cons_of_mem _ hc)
    have ow' : ∀ c ∈ cs, c.Owned k g := fun c hc => ow c (List.mem_cons_of_mem _ hc)
    cases c with
    | c v =>
      simp only [round]
      have := ih st wf' ow' hm ho
      cases hr : round srcs cs st with
      | mk st' r => rw [hr] at this; cases r <;> exact this
    | s e =>
      simp only [round]
      have wfe : e.WF := wf (.s e) (by simp)
      have owe : e.Owned k g := ow (.s e) (by simp)
      have h1 := next_groupMax srcs e g st wfe hm
      have h2 := next_owned srcs k g e st wfe owe ho
      cases hn : next srcs e st with
      | mk st1 r =>
        rw [hn] at h1 h2
        cases r with
        | stop => exact ⟨h1, h2⟩
        | raise => exact ⟨h1, h2⟩
        | ok v =>
          dsimp only
          have := ih st1 wf' ow' h1 h2
          cases hr : round srcs cs st1 with
          | mk st' r => rw [hr] at this; cases r <;> exact this

theorem round_pos_count (srcs : Nat → Src α) (g i : Nat) (cs : List (HC α)) : ∀ (st st' : St α) (vs : List α),
    (∀ c ∈ cs, c.Flat) → round srcs cs st = (st', .ok vs) → st'.pos g i = st.pos g i + occR g i cs := by
  induction cs with
  | nil => intro st st' vs _ h; simp only [round, Prod.mk.injEq] at h; rw [← h.1]; rfl
  | cons c cs ih =>
    intro st st' vs fl h
    have fl' : ∀ c ∈ cs, c.Flat := fun c hc => fl c (List.mem_cons_of_mem _ hc)
    cases c with
    | c v =>
      simp only [round] at h
      cases hr : round srcs cs st with
      | mk st1 r =>
        rw [hr] at h
        cases r with
        | stop => cases h
        | raise => cases h
        | ok ws =>
          simp only [Prod.mk.injEq] at h
          rw [← h.1, ih st st1 ws fl' hr]
          simp [occR, HC.occ]
    | s e =>
      simp only [round] at h
      cases hn : next srcs e st with
      | mk st1 r =>
        rw [hn] at h
        cases r with
        | stop => cases h
        | raise => cases h
        | ok v =>
          dsimp only at h
          cases hr : round srcs cs st1 with
          | mk st2 r2 =>
            rw [hr] at h
            cases r2 with
            | stop => cases h
            | raise => cases h
            | ok ws =>
              simp only [Prod.mk.injEq] at h
              rw [← h.1, ih st1 st2 ws fl' hr, next_pos_count srcs g i e st st1 v (fl (.s e) (by simp)) hn]
              simp only [occR, HC.occ]; omega

theorem round_pulls_count (srcs : Nat → Src α) (k : Nat) (cs : List (HC α)) : ∀ (st st' : St α) (vs : List α),
    (∀ c ∈ cs, c.NoHub k) → round srcs cs st = (st', .ok vs) → st'.pulls k = st.pulls k + dirR k cs := by
  induction cs with
  | nil => intro st st' vs _ h; simp only [round, Prod.mk.injEq] at h; rw [← h.1]; rfl
  | cons c cs ih =>
    intro st st' vs fl h
    have fl' : ∀ c ∈ cs, c.NoHub k := fun c hc => fl c (List.mem_cons_of_mem _ hc)
    cases c with
    | c v =>
      simp only [round] at h
      cases hr : round srcs cs st with
      | mk st1 r =>
        rw [hr] at h
        cases r with
        | stop => cases h
        | raise => cases h
        | ok ws =>
          simp only [Prod.mk.injEq] at h
          rw [← h.1, ih st st1 ws fl' hr]
          simp [dirR, HC.dir]
    | s e =>
      simp only [round] at h
      cases hn : next srcs e st with
      | mk st1 r =>
        rw [hn] at h
        cases r with
        | stop => cases h
        | raise => cases h
        | ok v =>
          dsimp only at h
          cases hr : round srcs cs st1 with
          | mk st2 r2 =>
            rw [hr] at h
            cases r2 with
            | stop => cases h
            | raise => cases h
            | ok ws =>
              simp only [Prod.mk.injEq] at h
              rw [← h.1, ih st1 st2 ws fl' hr, next_pulls_count srcs k e st st1 v (fl (.s e) (by simp)) hn]
              simp only [dirR, HC.dir]; omega

/-- **reads once, one sample**: the loop's coefficients are built over a hub `g` that wraps source
`k`; every copy of the hub occurs at most once among them and at least one does.  Then one
successful evaluation of the generated expression pulls the source EXACTLY once — however many
copies the algebra made — and the invariants go on. -/
theorem round_reads_once (srcs : Nat → Src α) (k g : Nat) (cs : List (HC α)) (st st' : St α) (vs : List α)
    (wf : ∀ c ∈ cs, c.WF) (fl : ∀ c ∈ cs, c.Flat) (ow : ∀ c ∈ cs, c.Owned k g)
    (hm : GroupMax st g) (ho : OwnedInv srcs st k g)
    (once : ∀ i, occR g i cs ≤ 1) (used : ∃ i, occR g i cs = 1) (sync : ∀ i, occR g i cs = 1 → st.pos g i = st.pulls k)
    (hr : round srcs cs st = (st', .ok vs)) :
    st'.pulls k = st.pulls k + 1 ∧ GroupMax st' g ∧ OwnedInv srcs st' k g
      ∧ (∀ i, occR g i cs = 1 → st'.pos g i = st'.pulls k) := by
  have hinv := round_inv srcs k g cs st wf ow hm ho
  rw [hr] at hinv
  dsimp only at hinv
  obtain ⟨hm', ho'⟩ := hinv
  have hlen := ownedInv_len ho
  have hlen' := ownedInv_len ho'
  have hpos : ∀ i, st'.pos g i = st.pos g i + occR g i cs := fun i => round_pos_count srcs g i cs st st' vs fl hr
  have key : st'.pulls k = st.pulls k + 1 := by
    obtain ⟨i0, hi0⟩ := used
    have h1 := hm'.1 i0
    rw [hpos i0, hi0, sync i0 hi0, hlen'] at h1
    rcases hm'.2 with h0 | ⟨j, hj⟩
    · omega
    · rw [hpos j, hlen'] at hj
      have := once j
      have := hm.1 j
      omega
  refine ⟨key, hm', ho', fun i hi => ?_⟩
  rw [hpos i, hi, sync i hi, key]

/-- `n` successful evaluations in a row -/
def roundsOk (srcs : Nat → Src α) (cs : List (HC α)) : Nat → St α → St α → Prop
  | 0, st, st' => st' = st
  | n + 1, st, st' => ∃ st1 vs, round srcs cs st = (st1, .ok vs) ∧ roundsOk srcs cs n st1 st'

/-- **reads once, every sample**: from the state in which `filt(x)` leaves everything (nothing read),
after `n` outputs the source behind the hub has been pulled exactly `n` times. -/
theorem rounds_reads_once (srcs : Nat → Src α) (k g : Nat) (cs : List (HC α))
    (wf : ∀ c ∈ cs, c.WF) (fl : ∀ c ∈ cs, c.Flat) (ow : ∀ c ∈ cs, c.Owned k g)
    (once : ∀ i, occR g i cs ≤ 1) (used : ∃ i, occR g i cs = 1) (n : Nat) :
    ∀ (st st' : St α), GroupMax st g → OwnedInv srcs st k g →
      (∀ i, occR g i cs = 1 → st.pos g i = st.pulls k) → roundsOk srcs cs n st st' →
      st'.pulls k = st.pulls k + n := by
  induction n with
  | zero => intro st st' _ _ _ h; simp only [roundsOk] at h; rw [h]; rfl
  | succ n ih =>
    intro st st' hm ho sync h
    obtain ⟨st1, vs, hr, hrest⟩ := h
    obtain ⟨h1, hm1, ho1, sync1⟩ := round_reads_once srcs k g cs st st1 vs wf fl ow hm ho once used sync hr
    rw [ih st1 st' hm1 ho1 sync1 hrest, h1]; omega

/-- the same Stream object stored directly in `m` coefficients (no hub): `m` pulls per sample -/
theorem rounds_shared_direct (srcs : Nat → Src α) (k : Nat) (cs : List (HC α)) (nh : ∀ c ∈ cs, c.NoHub k)
    (n : Nat) : ∀ (st st' : St α), roundsOk srcs cs n st st' → st'.pulls k = st.pulls k + n * dirR k cs := by
  induction n with
  | zero => intro st st' h; simp only [roundsOk] at h; rw [h]; simp
  | succ n ih =>
    intro st st' h
    obtain ⟨st1, vs, hr, hrest⟩ := h
    rw [ih st1 st' hrest, round_pulls_count srcs k cs st st1 vs nh hr, Nat.succ_mul]; omega

section call
variable [OfNat α 0] [OfNat α 1] [DecidableEq α]

/-- applying the filter reads NOTHING: when `filt(x)` has returned, every source — the one behind the
leading denominator coefficient included — has been pulled 0 times -/
theorem callH_atCall (srcs : Nat → Src α) (nsrc : Nat) (num den : PE α) (zero : α) (xs : List α) :
    (callH srcs nsrc num den zero xs).atCall = List.replicate nsrc 0 := by
  have h0 : (List.range nsrc).map (St.init : St α).pulls = List.replicate nsrc 0 := by
    apply List.ext_getElem
    · simp
    · intro i h1 h2; simp [St.init]
  unfold callH
  simp only
  split <;> (split <;> exact h0)

/-- the loop yields one output per successful evaluation, records the pulls of that moment, and ends —
without an output — at the first evaluation in which a coefficient iterator ends or raises -/
theorem loopH_step (srcs : Nat → Src α) (nsrc : Nat) (b as : List (HC α)) (a0 zero x : α)
    (xs hx hy : List α) (st : St α) :
    (∀ st1 vs, round srcs (b ++ as) st = (st1, .ok vs) →
      ∃ y, loopH srcs nsrc b as a0 zero (x :: xs) hx hy st
        = (y :: (loopH srcs nsrc b as a0 zero xs (x :: hx) (y :: hy) st1).1,
           (List.range nsrc).map st1.pulls :: (loopH srcs nsrc b as a0 zero xs (x :: hx) (y :: hy) st1).2.1,
           (loopH srcs nsrc b as a0 zero xs (x :: hx) (y :: hy) st1).2.2.1,
           (loopH srcs nsrc b as a0 zero xs (x :: hx) (y :: hy) st1).2.2.2))
    ∧ (∀ st1, round srcs (b ++ as) st = (st1, .stop) →
        loopH srcs nsrc b as a0 zero (x :: xs) hx hy st = ([], [], st1, .stop))
    ∧ (∀ st1, round srcs (b ++ as) st = (st1, .raise) →
        loopH srcs nsrc b as a0 zero (x :: xs) hx hy st = ([], [], st1, .raise)) := by
  refine ⟨fun st1 vs h => ⟨(dotH (vs.take b.length)
      ((List.range (vs.take b.length).length).map fun k => (x :: hx).getD k zero)
        - dotH (vs.drop b.length) hy) / a0, by simp only [loopH, h]⟩, fun st1 h => by simp only [loopH, h],
    fun st1 h => by simp only [loopH, h]⟩

end call

/-! ### vocabulary of the statement still PENDING (nested hubs) -/

/-- the leaf Streams of a polynomial expression, in writing order -/
def HC.leafs : HC α → List Nat
  | .c _ => []
  | .s e => e.srcs
def PE.leafs : PE α → List Nat
  | .poly p => p.flatMap fun kv => kv.2.leafs
  | .mul a b => a.leafs ++ b.leafs
  | .divs a c => a.leafs ++ c.leafs

/-- every Stream written in the expression is a leaf Stream (a wrapped source) -/
def HC.Leafy : HC α → Prop
  | .c _ => True
  | .s (.src _) => True
  | .s _ => False
def PE.Leafy : PE α → Prop
  | .poly p => ∀ kv ∈ p, kv.2.Leafy
  | .mul a b => a.Leafy ∧ b.Leafy
  | .divs a c => a.Leafy ∧ c.Leafy

end ALV.C06.Hub
