/-
  C14 — the call layer: documented signatures (specification side) and helper lemmas that hold for
  every number class.  Core Lean only.
-/
import ALV.Model.C14Call
import ALV.Lemmas.C14Core
namespace ALV.C14
open ALV ALV.Gen.Windows

deriving instance DecidableEq for Except

/-! ### what the documentation says (specification side of the call layer) -/

/-- documented default of `alpha` as a Python value: `blackman(size, alpha=.16)`, `cos(size, alpha=1)` -/
def Kind.alphaVal : Kind → Option Val
  | .blackman => some (.float (mkRat 4 25))
  | .cos => some (.int 1)
  | _ => none

/-- documented signature: `X(size)` or `X(size, alpha=<default>)` — `size` first, then exactly the
    parameters of the strategy, nothing between -/
def Kind.docSig : Kind → List Param
  | .blackman => [⟨"size", none⟩, ⟨"alpha", some ⟨4, 25, false⟩⟩]
  | .cos => [⟨"size", none⟩, ⟨"alpha", some ⟨1, 1, true⟩⟩]
  | _ => [⟨"size", none⟩]

/-- the call written with one positional size and, optionally, one positional alpha -/
def plainArgs (size : Val) (alpha : Option Val) : Args := { pos := size :: alpha.toList, kw := [] }

/-- the strategy object a documented name denotes in a dictionary -/
def docFunc (symmDict : Bool) (k : Kind) : Func := ⟨k.sname, symmDict && k.distinct⟩

variable {α : Type} [TrigField α]

/-! ### `pyCall` on a documented name is `pyCallFunc` on the documented function object -/

theorem pyCall_item {d : DictId} {name : String} {fn : Func} (h : (generated.dict d).get name = some fn) (a : Args) :
    pyCall (α := α) d (some name) .item a = pyCallFunc fn a := by
  simp [pyCall, resolveRoute, h]

theorem pyCall_doc (symmDict : Bool) (k : Kind) (name : String) (hn : name ∈ k.names)
    (hgap : symmDict = true → k.distinct = false → name = k.sname) (a : Args) :
    pyCall (α := α) (if symmDict then .wsymm else .window) (some name) .item a = pyCallFunc (docFunc symmDict k) a :=
  pyCall_item (dict_get symmDict k name hn hgap) a

/-- a generated function is: bind the arguments to the DOCUMENTED signature, run the body -/
theorem pyCallFunc_kind (k : Kind) (symm : Bool) (a : Args) :
    pyCallFunc (α := α) ⟨k.sname, symm⟩ a =
      match bind k.docSig a with
      | .error e => .err e
      | .ok b => evalBound symm (genFormula k) (genFormula k) b := by
  cases k <;> cases symm <;> rfl

/-- a list of samples all of which depend on alpha contains one that does iff it is not empty -/
theorem taint_any (g : Nat → Taint) (hg : ∀ n, (g n).t = true) (m : Nat) :
    (((List.range m).map g).any fun x => x.t) = decide (0 < m) := by
  cases m with
  | zero => simp
  | succ m =>
    simp only [Nat.zero_lt_succ, decide_true, List.any_eq_true, List.mem_map, List.mem_range]
    exact ⟨g 0, ⟨0, Nat.zero_lt_succ _, rfl⟩, hg 0⟩

/-- numeric values (everything but `None` / `str`) -/
def Val.isNum : Val → Bool
  | .none => false
  | .str => false
  | _ => true

theorem toNum_isSome (v : Val) : (v.toNum : Option α).isSome = v.isNum := by
  cases v <;> rfl

/-- the old interface is the plain positional call with an integer size and a numeric alpha -/
theorem pyCallFunc_eq_callFunc (k : Kind) (s : Bool) (size : Int) (alpha : Option Val)
    (hnum : ∀ v, alpha = some v → v.isNum = true) :
    pyCallFunc (α := α) ⟨k.sname, s⟩ (plainArgs (.int size) alpha) = callFunc ⟨k.sname, s⟩ size (alpha.bind Val.toNum) := by
  cases alpha with
  | none => cases k <;> cases s <;> rfl
  | some v =>
    have := hnum v rfl
    cases v <;> first | (cases k <;> cases s <;> rfl) | (simp [Val.isNum] at this)

end ALV.C14
