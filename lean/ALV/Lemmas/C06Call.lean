/-
  C06 — helper lemmas, part 4: around the generated source and the whole call.
-/
import ALV.Lemmas.C06Spec

set_option linter.unusedSectionVars false
set_option linter.unusedSimpArgs false
set_option linter.unusedVariables false
namespace ALV.C06
open ALV.C04
variable {K : Type} [Field K] [DecidableEq K]

/-- what `compileTV` builds when the sum is not empty and the gain is the constant `a0` -/
theorem compileTV_loop (b as : List (Coef K)) (a0 zero : K)
    (hnz : ¬ ((∀ c ∈ b, c = Coef.const 0) ∧ (∀ c ∈ as, c = Coef.const 0))) :
    compileTV b (Coef.const a0 :: as) zero = TIR.loop as.length (b.length - 1)
      (numAtomsTV 0 b ++ denAtomsTV 1 as)
      (if a0 = -1 then Gain.negOne else if a0 ≠ 1 then Gain.div a0 else Gain.one)
      (mShifts as.length ++ dShifts (b.length - 1)) (streamIdx 0 b) (streamIdx 1 as) := by
  have hne : ¬ (numAtomsTV 0 b ++ denAtomsTV 1 as = []) := by rwa [dataSumTV_eq_nil]
  have hemp : (numAtomsTV 0 b ++ denAtomsTV 1 as).isEmpty = false := by
    cases h : numAtomsTV 0 b ++ denAtomsTV 1 as with
    | nil => exact absurd h hne
    | cons _ _ => rfl
  simp only [compileTV, List.tail_cons, hemp]
  rfl

/-- the all-zero filter: `for unused in seq: yield zero` -/
theorem compileTV_const (b as : List (Coef K)) (a0 : Coef K) (zero : K)
    (hz : (∀ c ∈ b, c = Coef.const 0) ∧ (∀ c ∈ as, c = Coef.const 0)) :
    compileTV b (a0 :: as) zero = TIR.constLoop zero := by
  have hnil : numAtomsTV 0 b ++ denAtomsTV 1 as = [] := (dataSumTV_eq_nil b as).2 hz
  simp [compileTV, hnil]

/-! ### constant coefficients: the generated source is C04's -/

theorem numAtomsTV_const (l : List K) (k : Nat) :
    numAtomsTV k (l.map Coef.const) = (numAtoms k l).map TAtom.lti := by
  induction l generalizing k with
  | nil => rfl
  | cons c cs ih =>
    simp only [List.map_cons, numAtomsTV, ih, numAtoms, List.append_nil, List.map_append]

theorem denAtomsTV_const (l : List K) (k : Nat) :
    denAtomsTV k (l.map Coef.const) = (denAtoms k l).map TAtom.lti := by
  induction l generalizing k with
  | nil => rfl
  | cons c cs ih =>
    simp only [List.map_cons, denAtomsTV, ih, denAtoms, List.append_nil, List.map_append]

theorem evalSumTV_lti (e : Env K) (its : Its K) (l : List (Atom K)) :
    evalSumTV e its (l.map TAtom.lti) = (its, some (evalSum e l)) := by
  rw [evalSumTV_eq_foldTV]
  have := foldTV_lti e its l 0 []
  simp only [List.append_nil] at this
  rw [this, foldTV_nil, evalSum_eq]
  simp

/-- with constant coefficients only, the time-varying loop is C04's loop and reads no iterator -/
theorem runLoopTV_lti (sum : List (Atom K)) (gain : Gain K) (shifts : List (Var × Var)) (xs : List K) :
    ∀ (e : Env K) (its : Its K),
      runLoopTV (sum.map TAtom.lti) gain shifts e its xs = (runLoop sum gain shifts e xs, its) := by
  induction xs with
  | nil => intros; rfl
  | cons x xs ih =>
    intro e its
    simp only [runLoopTV, runLoop, evalSumTV_lti, ih]

theorem map_const_eq_zero (l : List K) :
    (∀ c ∈ l.map Coef.const, c = Coef.const 0) ↔ ∀ c ∈ l, c = 0 := by
  simp

/-! ### the rewritten coefficients of the variable-gain path -/

theorem mulPresent_eq_zero (inv : List K) (c : Coef K) :
    mulPresent (Coef.strm inv) c = Coef.const 0 ↔ c = Coef.const 0 := by
  unfold mulPresent
  by_cases h : c = Coef.const 0
  · simp [h]
  · simp only [h, if_false, iff_false]
    cases c with
    | const x =>
      show Coef.lift2 (· * ·) (Coef.const x) (Coef.strm inv) ≠ _
      simp [Coef.lift2]
    | strm s =>
      show Coef.lift2 (· * ·) (Coef.strm s) (Coef.strm inv) ≠ _
      simp [Coef.lift2]

theorem map_mulPresent_zero (inv : List K) (l : List (Coef K)) :
    (∀ c ∈ l.map (mulPresent (Coef.strm inv)), c = Coef.const 0) ↔ ∀ c ∈ l, c = Coef.const 0 := by
  simp only [List.mem_map, forall_exists_index, and_imp, forall_apply_eq_imp_iff₂, mulPresent_eq_zero]

/-! ### dense coefficient lists of a `Coef` polynomial -/

theorem dense_cons_coef (den : Terms (Coef K)) (g : K) (h0 : coefAt den 0 = Coef.const g) (hg : g ≠ 0) :
    dense den = Coef.const g :: (dense den).tail := by
  have hne : den.isEmpty = false := by
    cases den with
    | nil =>
      have : (Coef.const (0 : K)) = Coef.const g := h0
      exact absurd (Coef.const.inj this).symm hg
    | cons _ _ => rfl
  rw [← h0]
  simp only [dense, hne, Bool.false_eq_true, if_false, List.range_succ_eq_map, List.map_cons,
    List.tail_cons]
  rfl

/-- the generated time-varying loop computes `tvspec` (constant gain, not all-zero) -/
theorem evalTV_eq_tvspec (b as : List (Coef K)) (a0 zero : K) (mem xs : List K)
    (hmem : mem.length = as.length)
    (hnz : ¬ ((∀ c ∈ b, c = Coef.const 0) ∧ (∀ c ∈ as, c = Coef.const 0))) :
    (evalTV (compileTV b (Coef.const a0 :: as) zero) mem zero (itsOf b as) xs).1
      = tvspec b as (Coef.const a0) zero 0 mem [] xs := by
  rw [compileTV_loop b as a0 zero hnz, itsOf_eq]
  simp only [evalTV]
  rw [runLoopTV_eq_tvrun b as a0 _ (applyGain_compile a0) xs 0 0 0 mem
    (List.replicate (b.length - 1) zero) hmem (by simp)]
  have h2 := tvrun_eq_tvspec b as (Coef.const a0) zero xs 0 mem [] (by omega)
  rw [takeP_nil, ← hmem, List.take_length] at h2
  exact h2

end ALV.C06
