/-
  C05 — substitution of a monomial `c·z^(−d)` (any non-zero gain) in closed form, and substitution
  against exact evaluation at points.
-/
import ALV.Lemmas.C05Spec
import ALV.Spec.C05Subst

set_option linter.unusedSectionVars false
set_option linter.unusedSimpArgs false
set_option linter.unusedVariables false

open LaurentPolynomial

namespace ALV.C05
open ALV.C07
variable {K : Type} [Field K] [DecidableEq K]

theorem valid_monoZF {c : K} (hc : c ≠ 0) (d : ℤ) : Valid (monoZF c d) := by
  refine ⟨⟨by simp [monoZF, keys], ?_⟩, ⟨by simp [monoZF, keys], ?_⟩, by simp [monoZF]⟩
  · intro kv h; simp [monoZF] at h; subst h; exact hc
  · intro kv h; simp [monoZF] at h; subst h; exact one_ne_zero

theorem val_monoZF (c : K) (d : ℤ) : val (monoZF c d) = ι (AddMonoidAlgebra.single d c) := by
  unfold val N D monoZF
  simp only [toLaurent_cons, toLaurent_nil, add_zero]
  have : (AddMonoidAlgebra.single (0 : ℤ) (1 : K) : K[T;T⁻¹]) = 1 := rfl
  rw [this, map_one, div_one]

/-- evaluating a polynomial at the monomial is the closed form `monoSubst` -/
theorem evalQ_mono (p : MPoly K) (c : K) (d : ℤ) :
    evalQ (ι (AddMonoidAlgebra.single d c)) p = ι (toLaurent (monoSubst p c d)) := by
  induction p with
  | nil => simp [evalQ, monoSubst]
  | cons a t ih =>
    unfold evalQ monoSubst at ih ⊢
    rw [List.map_cons, List.sum_cons, ih, List.map_cons, toLaurent_cons, map_add]
    congr 1
    rw [← ι_single_zpow, ← map_mul, powInt_eq]
    congr 1
    rw [single_eq_C_mul_T, single_eq_C_mul_T]
    show C a.2 * (C (c ^ (-a.1)) * T (d * -a.1)) = C (a.2 * c ^ (-a.1)) * T (-d * a.1)
    rw [← mul_assoc, ← map_mul]
    congr 2
    ring

theorem wf_monoSubst {p : MPoly K} (hp : WF p) {c : K} (hc : c ≠ 0) {d : ℤ} (hd : d ≠ 0) :
    WF (monoSubst p c d) := by
  constructor
  · have : keys (monoSubst p c d) = (keys p).map (fun k => -d * k) := by
      simp [keys, monoSubst, List.map_map, Function.comp_def]
    rw [this]
    exact hp.1.map (fun a b h => by
      have := mul_left_cancel₀ (neg_ne_zero.2 hd) h
      exact this)
  · intro kv hkv
    obtain ⟨kv', hkv', rfl⟩ := List.mem_map.1 hkv
    rw [powInt_eq]
    exact mul_ne_zero (hp.2 kv' hkv') (zpow_ne_zero _ hc)

/-- the substituted denominator cannot vanish when the monomial has a delay `d ≠ 0` -/
theorem monoSubst_ne_zero {p : MPoly K} (hp : WF p) (h0 : p ≠ []) {c : K} (hc : c ≠ 0) {d : ℤ} (hd : d ≠ 0) :
    toLaurent (monoSubst p c d) ≠ 0 :=
  toLaurent_ne_zero (wf_monoSubst hp hc hd) (by
    intro e; apply h0; unfold monoSubst at e; exact List.map_eq_nil_iff.1 e)

/-- **`f(c·z^(−d))`** runs and denotes the closed form, for every gain `c ≠ 0` and delay `d ≠ 0` -/
theorem subst_mono_den {f : ZF K} (hf : Valid f) {c : K} (hc : c ≠ 0) {d : ℤ} (hd : d ≠ 0) :
    Den (subst f (monoZF c d))
      (ι (toLaurent (monoSubst f.num c d)) / ι (toLaurent (monoSubst f.den c d))) := by
  have hg := valid_monoZF hc d
  have hg0 : (monoZF c d).num ≠ [] := by simp [monoZF]
  have hne : evalQ (val (monoZF c d)) f.den ≠ 0 := by
    rw [val_monoZF, evalQ_mono]
    exact fun e => monoSubst_ne_zero hf.2.1 hf.2.2 hc hd (ι_eq_zero.1 e)
  have h := subst_den hf hg hg0 hne
  rwa [val_monoZF, evalQ_mono, evalQ_mono] at h

/-! ### evaluation at a point -/

theorem evalAt_eq (p : MPoly K) (z0 : K) : evalAt p z0 = (p.map fun kv => kv.2 * z0 ^ (-kv.1)).sum := by
  induction p with
  | nil => simp [evalAt]
  | cons a t ih =>
    unfold evalAt at ih ⊢
    simp only [List.foldr_cons, List.map_cons, List.sum_cons, powInt_eq] at ih ⊢
    rw [ih]

/-- evaluation at `z = z0 ≠ 0` as a ring homomorphism `K[T;T⁻¹] → K` (`T = z⁻¹ ↦ z0⁻¹`) -/
noncomputable def evalL (z0 : K) (h : z0 ≠ 0) : K[T;T⁻¹] →+* K :=
  LaurentPolynomial.eval₂ (RingHom.id K) (Units.mk0 z0⁻¹ (inv_ne_zero h))

theorem evalL_single (z0 : K) (h : z0 ≠ 0) (k : ℤ) (c : K) :
    evalL z0 h (AddMonoidAlgebra.single k c) = c * z0 ^ (-k) := by
  unfold evalL
  rw [single_eq_C_mul_T, eval₂_C_mul_T]
  simp [Units.val_zpow_eq_zpow_val]

theorem evalL_toLaurent (z0 : K) (h : z0 ≠ 0) (p : MPoly K) : evalL z0 h (toLaurent p) = evalAt p z0 := by
  rw [evalAt_eq]
  induction p with
  | nil => simp
  | cons a t ih => rw [toLaurent_cons, map_add, evalL_single, ih]; simp

/-- the closed form evaluated at `z0` is the polynomial evaluated at `c·z0^(−d)` -/
theorem evalAt_monoSubst (p : MPoly K) (c : K) (d : ℤ) (z0 : K) (hz : z0 ≠ 0) :
    evalAt (monoSubst p c d) z0 = evalAt p (c * z0 ^ (-d)) := by
  rw [evalAt_eq, evalAt_eq]
  unfold monoSubst
  rw [List.map_map]
  congr 1
  apply List.map_congr_left
  intro kv _
  simp only [Function.comp, powInt_eq]
  rw [mul_zpow, ← zpow_mul, mul_assoc]
  congr 3
  ring

/-- two valid pairs denoting the same rational function have the same value wherever both
denominators do not vanish -/
theorem evalZF_of_val_eq {r s : ZF K} (hr : D r ≠ 0) (hs : D s ≠ 0) (h : val r = val s) (z0 : K) (hz : z0 ≠ 0)
    (hr0 : evalAt r.den z0 ≠ 0) (hs0 : evalAt s.den z0 ≠ 0) : evalZF r z0 = evalZF s z0 := by
  unfold val at h
  rw [div_eq_div_iff (fun e => hr (ι_eq_zero.1 e)) (fun e => hs (ι_eq_zero.1 e)), ← map_mul, ← map_mul] at h
  have h' := congrArg (evalL z0 hz) (ι_inj h)
  unfold N D at h'
  simp only [map_mul, evalL_toLaurent] at h'
  unfold evalZF
  rw [if_neg hr0, if_neg hs0]
  congr 1
  rw [div_eq_div_iff hr0 hs0, h']

end ALV.C05
