/-
  C10 — helper lemmas, part 1: the list-level model read as finite sums over a field.
-/
import Mathlib.Algebra.BigOperators.Intervals
import Mathlib.Algebra.BigOperators.Ring.Finset
import Mathlib.Tactic.Ring
import Mathlib.Tactic.FieldSimp
import Mathlib.Tactic.Linarith
import ALV.Model.C10
import ALV.Spec.C10

namespace ALV.C10
open Finset
variable {K : Type} [Field K]

/-! ### Python `sum` is the finite sum -/

theorem foldl_add_eq (l : List K) (x : K) : l.foldl (· + ·) x = x + l.sum := by
  induction l generalizing x with
  | nil => simp
  | cons y ys ih => simp [List.foldl_cons, ih, add_assoc]

theorem sumL_eq_sum (l : List K) : sumL l = l.sum := by
  simp [sumL, foldl_add_eq]

theorem sumL_map_range (f : ℕ → K) (n : ℕ) :
    sumL ((List.range n).map f) = ∑ i ∈ range n, f i := by
  rw [sumL_eq_sum]
  induction n with
  | zero => simp
  | succ n ih => simp [List.range_succ, Finset.sum_range_succ, ih]

theorem sumL_flatMap_range (g : ℕ → ℕ → K) (n m : ℕ) :
    sumL ((List.range n).flatMap fun i => (List.range m).map (g i)) =
      ∑ i ∈ range n, ∑ j ∈ range m, g i j := by
  rw [sumL_eq_sum]
  induction n with
  | zero => simp
  | succ n ih =>
    rw [List.range_succ, List.flatMap_append, List.sum_append, ih, Finset.sum_range_succ]
    simp only [List.flatMap_singleton, add_right_inj]
    rw [← sumL_eq_sum, sumL_map_range]

/-! ### coefficients -/

theorem coef_of_length_le (l : List K) (i : ℕ) (h : l.length ≤ i) : coef l i = 0 := by
  simp [coef, List.getD_eq_getElem?_getD, List.getElem?_eq_none h]

theorem coef_nil (i : ℕ) : coef ([] : List K) i = 0 := by simp [coef]

theorem coef_cons_zero (x : K) (l : List K) : coef (x :: l) 0 = x := by simp [coef]

theorem coef_cons_succ (x : K) (l : List K) (i : ℕ) : coef (x :: l) (i + 1) = coef l i := by
  simp [coef]

theorem coef_map_range (f : ℕ → K) (n i : ℕ) :
    coef ((List.range n).map f) i = if i < n then f i else 0 := by
  unfold coef
  split
  · next h => simp [List.getD_eq_getElem?_getD, h]
  · next h => simp [List.getD_eq_getElem?_getD, h]

section dec
variable [DecidableEq K]

theorem trim_length_le (l : List K) : (trim l).length ≤ l.length := by
  induction l with
  | nil => simp [trim]
  | cons x xs ih =>
    simp only [trim]
    split
    · simp
    · simp; omega

theorem coef_trim (l : List K) (i : ℕ) : coef (trim l) i = coef l i := by
  induction l generalizing i with
  | nil => simp [trim]
  | cons x xs ih =>
    simp only [trim]
    split
    · next h =>
      obtain ⟨h1, h2⟩ := h
      have hnil : trim xs = [] := by simpa using h1
      cases i with
      | zero => simp [coef_cons_zero, coef_nil, h2]
      | succ i => rw [coef_cons_succ, ← ih i, hnil]; simp [coef_nil]
    · cases i with
      | zero => simp [coef_cons_zero]
      | succ i => simp [coef_cons_succ, ih]

omit [DecidableEq K] in
theorem coef_delay (m i : ℕ) : coef (delay m : List K) i = if i = m then 1 else 0 := by
  unfold delay coef
  rw [List.getD_eq_getElem?_getD]
  by_cases h : i < m
  · simp [List.getElem?_append_left, h, Nat.ne_of_lt h]
  · by_cases h2 : i = m
    · subst h2; simp
    · have : m + 1 ≤ i := by omega
      rw [List.getElem?_eq_none (by simpa using this)]
      simp [h2]

omit [DecidableEq K] in
theorem delay_length (m : ℕ) : (delay m : List K).length = m + 1 := by simp [delay]

theorem coef_revShift (m : ℕ) (a : List K) (j : ℕ) :
    coef (revShift m a) j = if j ≤ m then coef a (m - j) else 0 := by
  simp only [revShift, coef_trim, coef_map_range, Nat.lt_succ_iff]

theorem revShift_length (m : ℕ) (a : List K) : (revShift m a).length ≤ m + 1 := by
  refine (trim_length_le _).trans ?_
  simp

theorem coef_subScaled (a : List K) (c : K) (b : List K) (i : ℕ) :
    coef (subScaled a c b) i = coef a i - c * coef b i := by
  simp only [subScaled, coef_trim, coef_map_range]
  split
  · rfl
  · next h =>
    rw [coef_of_length_le a i (by omega), coef_of_length_le b i (by omega)]
    simp

theorem subScaled_length (a : List K) (c : K) (b : List K) :
    (subScaled a c b).length ≤ max a.length b.length := by
  refine (trim_length_le _).trans ?_
  simp

theorem coef_addScaled (a : List K) (c : K) (b : List K) (i : ℕ) :
    coef (addScaled a c b) i = coef a i + c * coef b i := by
  simp only [addScaled, coef_trim, coef_map_range]
  split
  · rfl
  · next h =>
    rw [coef_of_length_le a i (by omega), coef_of_length_le b i (by omega)]
    simp

theorem addScaled_length (a : List K) (c : K) (b : List K) :
    (addScaled a c b).length ≤ max a.length b.length := by
  refine (trim_length_le _).trans ?_
  simp

omit [DecidableEq K] in
theorem coef_zeroExt (r : List K) (p k : ℕ) : coef (zeroExt r p) k = coef r k := by
  unfold zeroExt
  split
  · unfold coef
    rw [List.getD_eq_getElem?_getD, List.getD_eq_getElem?_getD]
    by_cases h : k < r.length
    · rw [List.getElem?_append_left h]
    · rw [List.getElem?_append_right (by omega), List.getElem?_eq_none (l := r) (by omega)]
      simp [List.getElem?_replicate]
      split <;> rfl
  · rfl

end dec
end ALV.C10
