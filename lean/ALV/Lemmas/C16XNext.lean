/-
  C16 — the next sample after a history with failed operations, in closed form
  (corollary of `xrun_eq_view` and `fused_next_after_history`).
-/
import ALV.Lemmas.C16Main
import ALV.Lemmas.C16Gen
import ALV.Lemmas.C16X
namespace ALV.C16
variable {ε α : Type}

theorem erase_append : ∀ (a b : List (XOp ε α)), erase (a ++ b) = erase a ++ erase b
  | [], _ => rfl
  | .add d x :: a, b => by simp [erase, erase_append a b]
  | .addFail d e :: a, b => by simp [erase, erase_append a b]
  | .next :: a, b => by simp [erase, erase_append a b]
  | .setKeep k :: a, b => by simp [erase, erase_append a b]

/-- no sample of `os` is an exception -/
def NoRaise (os : List (Obs (Except ε α))) : Prop := ∀ e k, Obs.out (Except.error e) k ∉ os

theorem xview_one (o : Obs (Except ε α)) : xview ([.next] : List (XOp ε α)) [o] = [conv o] := by
  cases o with
  | out v k => cases v <;> simp [xview, conv]
  | ok => simp [xview, conv]
  | valueError => simp [xview, conv]
  | stop => simp [xview, conv]

theorem xview_snoc_next : ∀ (ops : List (XOp ε α)) (os : List (Obs (Except ε α))) (o : Obs (Except ε α)),
    os.length = (erase ops).length → NoRaise os →
    xview (ops ++ [.next]) (os ++ [o]) = xview ops os ++ [conv o]
  | [], os, o, hl, _ => by
    cases os with
    | nil => simpa [xview] using xview_one o
    | cons a l => simp [erase] at hl
  | .addFail d e :: ops, os, o, hl, hn => by
    simp only [List.cons_append, xview_addFail]
    rw [xview_snoc_next ops os o (by simpa [erase] using hl) hn]
  | .add d x :: ops, os, o, hl, hn => by
    cases os with
    | nil => simp [erase] at hl
    | cons a l =>
      have ha : ∀ e k, a ≠ Obs.out (Except.error e) k := fun e k h => hn e k (by simp [h])
      have hn' : NoRaise l := fun e k h => hn e k (List.mem_cons_of_mem _ h)
      have ih := xview_snoc_next ops l o (by simpa [erase] using hl) hn'
      simp only [List.cons_append, xview]
      rw [ih]
  | .next :: ops, os, o, hl, hn => by
    cases os with
    | nil => simp [erase] at hl
    | cons a l =>
      have ha : ∀ e k, a ≠ Obs.out (Except.error e) k := fun e k h => hn e k (by simp [h])
      have hn' : NoRaise l := fun e k h => hn e k (List.mem_cons_of_mem _ h)
      have ih := xview_snoc_next ops l o (by simpa [erase] using hl) hn'
      simp only [List.cons_append, xview]
      rw [ih]
  | .setKeep b :: ops, os, o, hl, hn => by
    cases os with
    | nil => simp [erase] at hl
    | cons a l =>
      have ha : ∀ e k, a ≠ Obs.out (Except.error e) k := fun e k h => hn e k (by simp [h])
      have hn' : NoRaise l := fun e k h => hn e k (List.mem_cons_of_mem _ h)
      have ih := xview_snoc_next ops l o (by simpa [erase] using hl) hn'
      simp only [List.cons_append, xview]
      rw [ih]

theorem srun_length [Add α] (zero : α) : ∀ (ops : List (Op α)) (s : SState α), (srun zero s ops).2.length = ops.length
  | [], _ => rfl
  | op :: ops, s => by simp [srun, srun_length zero ops]

end ALV.C16

namespace ALV.C16
variable {ε α : Type}

/-- the next sample after any history with failed adds in which no read has raised so far -/
theorem x_next_after_history [XAdd ε α] (zero : α) (keep : Bool) (ops : List (XOp ε α))
    (hal : NoRaise (srun (Except.ok zero : Except ε α) (SState.init keep) (erase ops)).2) :
    (xrun zero (PState.init keep) (ops ++ [.next])).2 =
      (xrun zero (PState.init keep) ops).2 ++
        [conv (if (srun (Except.ok zero : Except ε α) (SState.init keep) (erase ops)).1.dead = true ∨
            ((srun (Except.ok zero : Except ε α) (SState.init keep) (erase ops)).1.keep = false ∧
              mixLength (srun (Except.ok zero : Except ε α) (SState.init keep) (erase ops)).1.evs ≤
                (srun (Except.ok zero : Except ε α) (SState.init keep) (erase ops)).1.n)
         then .stop
         else outObs (Except.ok zero : Except ε α) (srun (Except.ok zero : Except ε α) (SState.init keep) (erase ops)).1.evs
                (srun (Except.ok zero : Except ε α) (SState.init keep) (erase ops)).1.n)] := by
  have h1 := xrun_eq_view zero (ops ++ [.next]) (PState.init keep)
  have h2 := xrun_eq_view zero ops (PState.init keep)
  have hm : ∀ o : List (Op (Except ε α)), (prun (Except.ok zero : Except ε α) (PState.init keep) o).2 =
      (srun (Except.ok zero : Except ε α) (SState.init keep) o).2 := fun o => by
    rw [(prun_refines _ o _ (pinv_init keep)).1, absP_init, fused_eq_spec]
  have hn := fused_next_after_history (Except.ok zero : Except ε α) keep (erase ops)
  rw [fused_eq_spec, fused_eq_spec] at hn
  rw [h1, h2, erase_append, hm, hm]
  simp only [erase]
  rw [hn]
  exact xview_snoc_next ops _ _ (srun_length _ _ _) hal

end ALV.C16
