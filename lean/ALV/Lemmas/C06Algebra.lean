/-
  C06 — helper lemmas, part 3: `Poly` arithmetic on Stream coefficients acts element by element.

  `Coef` arithmetic is `lift2` (Stream operators: `map` / `zipWith`, broadcast of numbers).  The
  C07 `Poly` model instantiated at `Coef K` is the arithmetic of the filter polynomials.  Reading
  every coefficient at time `n` (`snap n`) is a homomorphism into the Laurent polynomials:
      toLaurent (snap n (p * q)) = toLaurent (snap n p) * toLaurent (snap n q)      (any p, q)
      toLaurent (snap n (p + q)) = toLaurent (snap n p) + toLaurent (snap n q)      (distinct keys)
      toLaurent (snap n (-p))    = - toLaurent (snap n p)
  for every `n` inside all the streams involved; and a product / sum coefficient is defined at `n`
  exactly when both operands are (ends with the shortest).
-/
import ALV.Lemmas.C06Spec
import ALV.Lemmas.C07Laurent

set_option linter.unusedSectionVars false
set_option linter.unusedSimpArgs false
set_option linter.unusedVariables false
namespace ALV.C06
open ALV.C07 LaurentPolynomial
variable {K : Type} [Field K] [DecidableEq K]

/-! ### coefficients -/

theorem defined_lift2 (f : K → K → K) (a b : Coef K) (n : Nat) :
    (Coef.lift2 f a b).defined n ↔ a.defined n ∧ b.defined n := by
  cases a <;> cases b <;> simp [Coef.lift2, Coef.defined]

theorem val_lift2 (f : K → K → K) (a b : Coef K) (n : Nat) (ha : a.defined n) (hb : b.defined n) :
    (Coef.lift2 f a b).val n = f (a.val n) (b.val n) := by
  cases a with
  | const x =>
    cases b with
    | const y => simp [Coef.lift2, Coef.val, Coef.get?]
    | strm t =>
      have ht : n < t.length := hb
      simp [Coef.lift2, Coef.val, Coef.get?, List.getElem?_eq_getElem ht]
  | strm s =>
    have hs : n < s.length := ha
    cases b with
    | const y => simp [Coef.lift2, Coef.val, Coef.get?, List.getElem?_eq_getElem hs]
    | strm t =>
      have ht : n < t.length := hb
      simp [Coef.lift2, Coef.val, Coef.get?, List.getElem?_zipWith, List.getElem?_eq_getElem hs,
        List.getElem?_eq_getElem ht]

theorem defined_lift1 (f : K → K) (a : Coef K) (n : Nat) : (Coef.lift1 f a).defined n ↔ a.defined n := by
  cases a <;> simp [Coef.lift1, Coef.defined]

theorem val_lift1 (f : K → K) (a : Coef K) (n : Nat) (ha : a.defined n) :
    (Coef.lift1 f a).val n = f (a.val n) := by
  cases a with
  | const x => simp [Coef.lift1, Coef.val, Coef.get?]
  | strm s =>
    have hs : n < s.length := ha
    simp [Coef.lift1, Coef.val, Coef.get?, List.getElem?_eq_getElem hs]

theorem defined_mul (a b : Coef K) (n : Nat) : (a * b).defined n ↔ a.defined n ∧ b.defined n :=
  defined_lift2 _ a b n
theorem defined_add (a b : Coef K) (n : Nat) : (a + b).defined n ↔ a.defined n ∧ b.defined n :=
  defined_lift2 _ a b n
theorem defined_sub (a b : Coef K) (n : Nat) : (a - b).defined n ↔ a.defined n ∧ b.defined n :=
  defined_lift2 _ a b n
theorem defined_div (a b : Coef K) (n : Nat) : (a / b).defined n ↔ a.defined n ∧ b.defined n :=
  defined_lift2 _ a b n
theorem defined_neg (a : Coef K) (n : Nat) : (-a).defined n ↔ a.defined n := defined_lift1 _ a n

theorem val_mul (a b : Coef K) (n : Nat) (ha : a.defined n) (hb : b.defined n) :
    (a * b).val n = a.val n * b.val n := val_lift2 _ a b n ha hb
theorem val_add (a b : Coef K) (n : Nat) (ha : a.defined n) (hb : b.defined n) :
    (a + b).val n = a.val n + b.val n := val_lift2 _ a b n ha hb
theorem val_sub (a b : Coef K) (n : Nat) (ha : a.defined n) (hb : b.defined n) :
    (a - b).val n = a.val n - b.val n := val_lift2 _ a b n ha hb
theorem val_div (a b : Coef K) (n : Nat) (ha : a.defined n) (hb : b.defined n) :
    (a / b).val n = a.val n / b.val n := val_lift2 _ a b n ha hb
theorem val_neg (a : Coef K) (n : Nat) (ha : a.defined n) : (-a).val n = - a.val n :=
  val_lift1 _ a n ha

theorem val_zero (n : Nat) : (0 : Coef K).val n = 0 := rfl
theorem val_const (c : K) (n : Nat) : (Coef.const c).val n = c := rfl

/-! ### snapshots of polynomials -/

@[simp] theorem snap_nil (n : Nat) : snap n ([] : List (Int × Coef K)) = [] := rfl
@[simp] theorem snap_cons (n : Nat) (kv : Int × Coef K) (p : List (Int × Coef K)) :
    snap n (kv :: p) = (kv.1, kv.2.val n) :: snap n p := rfl
theorem snap_append (n : Nat) (p q : List (Int × Coef K)) : snap n (p ++ q) = snap n p ++ snap n q := by
  simp [snap]

theorem keys_snap (n : Nat) (p : MPoly (Coef K)) : keys (snap n p) = keys p := by
  simp [keys, snap, List.map_map, Function.comp]

theorem polyDefined_cons {n : Nat} {kv : Int × Coef K} {p : MPoly (Coef K)} :
    polyDefined n (kv :: p) ↔ kv.2.defined n ∧ polyDefined n p := by
  simp [polyDefined]

theorem polyDefined_append {n : Nat} {p q : MPoly (Coef K)} :
    polyDefined n (p ++ q) ↔ polyDefined n p ∧ polyDefined n q := by
  simp only [polyDefined, List.mem_append]
  constructor
  · intro h; exact ⟨fun kv hk => h kv (Or.inl hk), fun kv hk => h kv (Or.inr hk)⟩
  · rintro ⟨h1, h2⟩ kv (hk | hk)
    · exact h1 kv hk
    · exact h2 kv hk

/-- compaction only drops constants equal to zero: invisible in the snapshot -/
theorem toLaurent_snap_compact (n : Nat) (p : MPoly (Coef K)) :
    toLaurent (snap n (compact p)) = toLaurent (snap n p) := by
  induction p with
  | nil => rfl
  | cons a t ih =>
    unfold compact at ih ⊢
    rw [List.filter_cons]
    by_cases h : a.2 = 0
    · simp [h, ih, val_zero]
    · simp [h, ih]

theorem polyDefined_compact {n : Nat} {p : MPoly (Coef K)} (h : polyDefined n p) :
    polyDefined n (compact p) := by
  intro kv hk
  exact h kv (List.mem_of_mem_filter hk)

/-! ### product -/

theorem snap_accum (n : Nat) (d : MPoly (Coef K)) (k : Int) (v : Coef K)
    (hd : polyDefined n d) (hv : v.defined n) :
    toLaurent (snap n (accum d k v)) = toLaurent (snap n d) + AddMonoidAlgebra.single k (v.val n)
      ∧ polyDefined n (accum d k v) := by
  induction d with
  | nil =>
    simp only [accum, snap_cons, snap_nil, toLaurent_cons, toLaurent_nil]
    exact ⟨by abel, by simpa [polyDefined] using hv⟩
  | cons a t ih =>
    obtain ⟨k', c⟩ := a
    obtain ⟨hc, ht⟩ := polyDefined_cons.1 hd
    by_cases h : k' = k
    · subst h
      simp only [accum, if_true, snap_cons, toLaurent_cons]
      refine ⟨?_, polyDefined_cons.2 ⟨(defined_add c v n).2 ⟨hc, hv⟩, ht⟩⟩
      rw [val_add c v n hc hv, AddMonoidAlgebra.single_add]
      abel
    · obtain ⟨i1, i2⟩ := ih ht
      simp only [accum, h, if_false, snap_cons, toLaurent_cons, i1]
      exact ⟨by abel, polyDefined_cons.2 ⟨hc, i2⟩⟩

theorem snap_mulInner (n : Nat) (a : Int × Coef K) (ha : a.2.defined n) (q : MPoly (Coef K))
    (hq : polyDefined n q) :
    ∀ d : MPoly (Coef K), polyDefined n d →
      toLaurent (snap n (q.foldl (fun d kv2 => accum d (a.1 + kv2.1) (a.2 * kv2.2)) d))
        = toLaurent (snap n d) + AddMonoidAlgebra.single a.1 (a.2.val n) * toLaurent (snap n q)
      ∧ polyDefined n (q.foldl (fun d kv2 => accum d (a.1 + kv2.1) (a.2 * kv2.2)) d) := by
  induction q with
  | nil => intro d hd; simp [hd]
  | cons b u ih =>
    intro d hd
    obtain ⟨hb, hu⟩ := polyDefined_cons.1 hq
    obtain ⟨s1, s2⟩ := snap_accum n d (a.1 + b.1) (a.2 * b.2) hd ((defined_mul _ _ n).2 ⟨ha, hb⟩)
    obtain ⟨i1, i2⟩ := ih hu _ s2
    refine ⟨?_, i2⟩
    simp only [List.foldl_cons, i1, s1, snap_cons, toLaurent_cons, mul_add,
      AddMonoidAlgebra.single_mul_single, val_mul _ _ n ha hb]
    abel

theorem snap_mulOuter (n : Nat) (p q : MPoly (Coef K)) (hp : polyDefined n p) (hq : polyDefined n q) :
    ∀ d : MPoly (Coef K), polyDefined n d →
      toLaurent (snap n (p.foldl (fun d kv1 => q.foldl
          (fun d kv2 => accum d (kv1.1 + kv2.1) (kv1.2 * kv2.2)) d) d))
        = toLaurent (snap n d) + toLaurent (snap n p) * toLaurent (snap n q)
      ∧ polyDefined n (p.foldl (fun d kv1 => q.foldl
          (fun d kv2 => accum d (kv1.1 + kv2.1) (kv1.2 * kv2.2)) d) d) := by
  induction p with
  | nil => intro d hd; simp [hd]
  | cons a t ih =>
    intro d hd
    obtain ⟨ha, ht⟩ := polyDefined_cons.1 hp
    obtain ⟨s1, s2⟩ := snap_mulInner n a ha q hq d hd
    obtain ⟨i1, i2⟩ := ih ht _ s2
    refine ⟨?_, i2⟩
    simp only [List.foldl_cons, i1, s1, snap_cons, toLaurent_cons, add_mul]
    abel

/-- `Poly.__mul__` on Stream coefficients, read at time `n`, is the product of the Laurent ring -/
theorem toLaurent_snap_mul (n : Nat) (p q : MPoly (Coef K)) (hp : polyDefined n p)
    (hq : polyDefined n q) :
    toLaurent (snap n (mul p q)) = toLaurent (snap n p) * toLaurent (snap n q) := by
  unfold mul mulLoop
  rw [toLaurent_snap_compact, (snap_mulOuter n p q hp hq [] (by simp [polyDefined])).1]
  simp

theorem polyDefined_mul (n : Nat) (p q : MPoly (Coef K)) (hp : polyDefined n p) (hq : polyDefined n q) :
    polyDefined n (mul p q) := by
  unfold mul mulLoop
  exact polyDefined_compact (snap_mulOuter n p q hp hq [] (by simp [polyDefined])).2

/-! ### sum, negation -/

theorem snap_set (n : Nat) (d : MPoly (Coef K)) (k : Int) (v : Coef K) :
    snap n (set d k v) = set (snap n d) k (v.val n) := by
  induction d with
  | nil => rfl
  | cons a t ih =>
    obtain ⟨k', c⟩ := a
    by_cases h : k' = k
    · simp [C07.set, h]
    · simp [C07.set, h, ih]

theorem snap_ofPairs (n : Nat) (l : List (Int × Coef K)) : snap n (ofPairs l) = ofPairs (snap n l) := by
  unfold ofPairs
  suffices h : ∀ d : MPoly (Coef K), snap n (l.foldl (fun d kv => set d kv.1 kv.2) d)
      = (snap n l).foldl (fun d kv => set d kv.1 kv.2) (snap n d) from h []
  induction l with
  | nil => intro d; rfl
  | cons a t ih => intro d; simp only [List.foldl_cons, snap_cons, ih, snap_set]

theorem find?_snap (n : Nat) (q : MPoly (Coef K)) (k : Int) :
    find? (snap n q) k = (find? q k).map (fun c => c.val n) := by
  induction q with
  | nil => rfl
  | cons a t ih =>
    obtain ⟨k', c⟩ := a
    by_cases h : k' = k
    · simp [find?, h]
    · simp [find?, h, ih]

theorem inter_cons {α : Type} [Add α] (k : Int) (c : α) (t q : MPoly α) :
    inter ((k, c) :: t) q
      = (match find? q k with
          | some w => [(k, c + w)]
          | none => []) ++ inter t q := by
  unfold inter
  simp only [List.filterMap_cons]
  cases find? q k <;> rfl

theorem snap_inter (n : Nat) (p q : MPoly (Coef K)) (hp : polyDefined n p) (hq : polyDefined n q) :
    snap n (inter p q) = inter (snap n p) (snap n q) ∧ polyDefined n (inter p q) := by
  induction p with
  | nil => exact ⟨rfl, by simp [inter, polyDefined]⟩
  | cons a t ih =>
    obtain ⟨k, c⟩ := a
    obtain ⟨hc, ht⟩ := polyDefined_cons.1 hp
    obtain ⟨i1, i2⟩ := ih ht
    rw [inter_cons, snap_cons, inter_cons, snap_append, i1, find?_snap]
    cases hf : find? q k with
    | none => exact ⟨rfl, by simpa using i2⟩
    | some w =>
      have hw : w.defined n := hq (k, w) (find?_some_mem hf)
      refine ⟨?_, ?_⟩
      · simp [val_add c w n hc hw]
      · simp only [List.singleton_append]
        exact polyDefined_cons.2 ⟨(defined_add c w n).2 ⟨hc, hw⟩, i2⟩

/-- `Poly.__add__` on Stream coefficients, read at time `n`, is the sum of the Laurent ring -/
theorem toLaurent_snap_add (n : Nat) (p q : MPoly (Coef K)) (hp : polyDefined n p)
    (hq : polyDefined n q) (kp : (keys p).Nodup) (kq : (keys q).Nodup) :
    toLaurent (snap n (add p q)) = toLaurent (snap n p) + toLaurent (snap n q) := by
  have h1 : toLaurent (snap n (add p q)) = toLaurent (add (snap n p) (snap n q)) := by
    unfold add mk
    rw [toLaurent_snap_compact, snap_ofPairs, snap_append, snap_append, (snap_inter n p q hp hq).1,
      toLaurent_compact]
  rw [h1, toLaurent_add (by rwa [keys_snap]) (by rwa [keys_snap])]

theorem polyDefined_ofPairs {n : Nat} (l : List (Int × Coef K)) (h : polyDefined n l) :
    polyDefined n (ofPairs l) := by
  unfold ofPairs
  suffices hh : ∀ d : MPoly (Coef K), polyDefined n d →
      polyDefined n (l.foldl (fun d kv => set d kv.1 kv.2) d) from hh [] (by simp [polyDefined])
  induction l with
  | nil => intro d hd; exact hd
  | cons a t ih =>
    intro d hd
    obtain ⟨ha, ht⟩ := polyDefined_cons.1 h
    simp only [List.foldl_cons]
    apply ih ht
    intro kv hk
    rcases mem_set hk with h1 | h1
    · exact hd kv h1
    · rw [h1]; exact ha

theorem polyDefined_add (n : Nat) (p q : MPoly (Coef K)) (hp : polyDefined n p) (hq : polyDefined n q) :
    polyDefined n (add p q) := by
  unfold add mk
  apply polyDefined_compact
  apply polyDefined_ofPairs
  exact polyDefined_append.2 ⟨polyDefined_append.2 ⟨hp, hq⟩, (snap_inter n p q hp hq).2⟩

/-- `-Poly` on Stream coefficients, read at time `n` -/
theorem toLaurent_snap_neg (n : Nat) (p : MPoly (Coef K)) (hp : polyDefined n p) (kp : (keys p).Nodup) :
    toLaurent (snap n (neg p)) = - toLaurent (snap n p) := by
  have h1 : toLaurent (snap n (neg p)) = toLaurent (neg (snap n p)) := by
    unfold neg mk
    rw [toLaurent_snap_compact, snap_ofPairs, toLaurent_compact]
    congr 2
    induction p with
    | nil => rfl
    | cons a t ih =>
      obtain ⟨ha, ht⟩ := polyDefined_cons.1 hp
      have kt : (keys t).Nodup := by
        simp only [keys, List.map_cons, List.nodup_cons] at kp; exact kp.2
      simp only [List.map_cons, snap_cons, val_neg a.2 n ha, ih ht kt]
  rw [h1, toLaurent_neg (by rwa [keys_snap])]

end ALV.C06
