/-
  C19 — helper lemmas for the `TableLookup` operators, `normalize`, `harmonize`.
-/
import ALV.Lemmas.C19Shapes

namespace ALV.C19
set_option linter.unusedSectionVars false

variable {K : Type} [Field K] [LinearOrder K] [IsStrictOrderedRing K] [FloorRing K]

theorem tblSlice_length_dvd (t : List K) (q : Nat) (hq : 0 < q) (hd : q ∣ t.length) :
    (tblSlice t q).length = t.length / q := by
  obtain ⟨m, hm⟩ := hd
  simp only [tblSlice, List.length_map, List.length_range, hm]
  rw [Nat.mul_div_cancel_left _ hq]
  have : q * m + q - 1 = q * m + (q - 1) := by omega
  rw [this, Nat.mul_add_div hq, Nat.div_eq_of_lt (by omega)]; simp

theorem tblHarmonize_eq (t : List K) (harm : List (Nat × K))
    (hd : ∀ pa ∈ harm, (pa.1 + 1) ∣ t.length) :
    tblHarmonize t harm = harmonizeSpec t harm := by
  unfold tblHarmonize harmonizeSpec
  apply List.map_congr_left
  intro k hk
  have hkL : k < t.length := List.mem_range.mp hk
  apply List.foldl_ext
  intro acc pa hpa
  obtain ⟨m, hm⟩ := hd pa hpa
  have hq : 0 < pa.1 + 1 := Nat.succ_pos _
  have hm0 : 0 < m := by
    rcases Nat.eq_zero_or_pos m with h | h
    · rw [h, Nat.mul_zero] at hm; omega
    · exact h
  have hlen : (tblSlice t (pa.1 + 1)).length = m := by
    rw [tblSlice_length_dvd t _ hq ⟨m, hm⟩, hm, Nat.mul_div_cancel_left _ hq]
  simp only [hlen]
  congr 2
  have hi : k % m < (t.length + (pa.1 + 1) - 1) / (pa.1 + 1) := by
    have := tblSlice_length_dvd t _ hq ⟨m, hm⟩
    simp only [tblSlice, List.length_map, List.length_range] at this
    rw [this, hm, Nat.mul_div_cancel_left _ hq]; exact Nat.mod_lt _ hm0
  rw [tblSlice, List.getD_eq_getElem?_getD, List.getElem?_map, List.getElem?_range hi]
  simp only [Option.map_some, Option.getD_some]
  congr 1
  rw [hm, Nat.mul_comm (pa.1 + 1) m, Nat.mul_mod_mul_right]

theorem tblBinary_ok (op : TOp) (t1 t2 : List K) (c : K) (h : t1.length = t2.length) :
    tblBinary op t1 c t2 c = .ok (List.zipWith op.app t1 t2) := by
  simp [tblBinary, h]

theorem absA_eq (x : K) : absA x = |x| := by
  unfold absA
  split
  · next h => rw [abs_of_neg h]
  · next h => rw [abs_of_nonneg (not_lt.mp h)]

theorem foldl_maxAbs (xs : List K) : ∀ (x : K),
    let m := xs.foldl (fun m y => if absA m < absA y then y else m) x
    (m = x ∨ m ∈ xs) ∧ |x| ≤ |m| ∧ ∀ y ∈ xs, |y| ≤ |m| := by
  induction xs with
  | nil => intro x; simp
  | cons y ys ih =>
    intro x
    simp only [List.foldl_cons]
    by_cases h : absA x < absA y
    · simp only [h, if_true]
      obtain ⟨h1, h2, h3⟩ := ih y
      rw [absA_eq, absA_eq] at h
      refine ⟨?_, by linarith, ?_⟩
      · rcases h1 with h1 | h1
        · right; rw [h1]; simp
        · right; simp [h1]
      · intro z hz
        rcases List.mem_cons.mp hz with rfl | hz
        · exact h2
        · exact h3 z hz
    · simp only [h, if_false]
      obtain ⟨h1, h2, h3⟩ := ih x
      rw [absA_eq, absA_eq] at h
      refine ⟨?_, h2, ?_⟩
      · rcases h1 with h1 | h1
        · left; exact h1
        · right; simp [h1]
      · intro z hz
        rcases List.mem_cons.mp hz with rfl | hz
        · linarith [not_lt.mp h]
        · exact h3 z hz

theorem maxAbs_spec (t : List K) (m : K) (h : maxAbs t = some m) :
    m ∈ t ∧ ∀ y ∈ t, |y| ≤ |m| := by
  rcases t with _ | ⟨x, xs⟩
  · simp [maxAbs] at h
  · simp only [maxAbs, Option.some.injEq] at h
    obtain ⟨h1, h2, h3⟩ := foldl_maxAbs xs x
    rw [h] at h1 h2 h3
    refine ⟨?_, ?_⟩
    · rcases h1 with h1 | h1
      · rw [h1]; simp
      · simp [h1]
    · intro y hy
      rcases List.mem_cons.mp hy with rfl | hy
      · exact h2
      · exact h3 y hy

/-- `normalize`: every value within [-1, 1], and the value 1 is reached -/
theorem tblNormalize_range (t r : List K) (h : tblNormalize t = .ok r) :
    r.length = t.length ∧ (∀ x ∈ r, |x| ≤ 1) ∧ (1 : K) ∈ r := by
  unfold tblNormalize at h
  rcases hm : maxAbs t with _ | m
  · simp [hm] at h
  · simp only [hm] at h
    by_cases h0 : m = 0
    · simp [h0] at h
    · simp only [h0, if_false, Except.ok.injEq] at h
      obtain ⟨hmem, hmax⟩ := maxAbs_spec t m hm
      subst h
      refine ⟨by simp, ?_, ?_⟩
      · intro x hx
        obtain ⟨d, hd, rfl⟩ := List.mem_map.mp hx
        rw [abs_div, div_le_one (abs_pos.mpr h0)]
        exact hmax d hd
      · exact List.mem_map.mpr ⟨m, hmem, div_self h0⟩

end ALV.C19
