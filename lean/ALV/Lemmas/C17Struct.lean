/-
  C17 — structural invariant: stream state per program counter, `_threads` membership, the
  manager lock, what `close` finds; and from it: the assertion in `close` never fails, the
  backend protocol is never violated, everything is closed once the backend is terminated.
  Core Lean only.
-/
import ALV.Lemmas.C17Inv
namespace ALV.C17

/-- per-player part (player `k`, record `q`, in state `s`) -/
structure SP (s : State) (k : Nat) (q : Player) : Prop where
  sst : sstOK q.pc q.sst = true
  thrIn : inThreads q.pc = true → k ∈ s.threads
  newMain : q.pc = .new → creating s.mpc = some k
  ml : q.pc = .tfRel → s.mlock = some (.player k)
  closedT : (1 ≤ s.terminated ∨ s.mpc = .kTerm) → q.sst = .closed
  startSst : q.pc = .new → s.mpc = .pStart k → q.sst = .active

/-- global part -/
structure SG (s : State) : Prop where
  creat : ∀ i, creating s.mpc = some i → pcAt s i = some .new
  startIn : ∀ i, s.mpc = .pStart i → i ∈ s.threads
  mlMain : mainHoldsM s.mpc = true → s.mlock = some .main
  found : ∀ f, s.mpc = .kMRel f → f = s.threads.head?
  closedG : (1 ≤ s.terminated ∨ s.mpc = .kTerm) → s.threads = []
  noAssert : s.mpc ≠ .kAssertRel
  noPerr : s.perr = false

structure SI (s : State) : Prop where
  g : SG s
  p : ∀ (k : Nat) (q : Player), s.players[k]? = some q → SP s k q

theorem SP_set {s s' : State} {i : Nat} {p' : Player} (hs' : s'.players = s.players.set i p')
    (frame : ∀ k q, s.players[k]? = some q → k ≠ i → SP s' k q) (hi : SP s' i p') :
    ∀ (k : Nat) (q : Player), s'.players[k]? = some q → SP s' k q := by
  intro k q hk
  rw [hs', List.getElem?_set] at hk
  split at hk
  · split at hk
    · cases hk; subst_vars; exact hi
    · cases hk
  · rename_i hne
    exact frame k q hk (fun e => hne e.symm)

theorem SP_append {s s' : State} {p' : Player} (hs' : s'.players = s.players ++ [p'])
    (frame : ∀ k q, s.players[k]? = some q → SP s' k q) (hi : SP s' s.players.length p') :
    ∀ (k : Nat) (q : Player), s'.players[k]? = some q → SP s' k q := by
  intro k q hk
  rw [hs'] at hk
  exact forall_append (P := fun k q => SP s' k q) frame hi k q hk

theorem si_init (script : List Cmd) : SI (init script) := by
  constructor
  · constructor <;> simp [init, creating, mainHoldsM]
  · intro k q hk; simp [init] at hk

theorem pcAt_of_get {s : State} {i : Nat} {p : Player} (h : s.players[i]? = some p) :
    pcAt s i = some p.pc := by simp [pcAt, h]

set_option maxHeartbeats 1600000 in
theorem si_stepPlayer_g (cfg : Cfg) (s s' : State) (i : Nat) (h : stepPlayer cfg s i = some s')
    (inv : SI s) : SG s' := by
  unfold stepPlayer at h
  split at h
  · cases h
  · rename_i p hp
    obtain ⟨q1, q2, q3, q4, q5, q6⟩ := inv.p i p hp
    obtain ⟨g1, g2, g3, g4, g5, g6, g7⟩ := inv.g
    have hpc := pcAt_of_get hp
    have hne : p.pc ≠ .new → ∀ j, creating s.mpc = some j → ¬ j = i := by
      intro hn j hj e; subst e
      have := g1 j hj; rw [hpc] at this; simp at this; exact hn this
    have ht0 : inThreads p.pc = true → s.terminated = 0 ∧ s.mpc ≠ .kTerm := by
      intro hin
      have hmem := q2 hin
      constructor
      · by_cases h1 : 1 ≤ s.terminated
        · rw [g5 (Or.inl h1)] at hmem; cases hmem
        · omega
      · intro hk; rw [g5 (Or.inr hk)] at hmem; cases hmem
    have hcl : p.pc ≠ .tfAcq → inThreads p.pc = true → p.sst ≠ .closed := by
      intro hx hin hc; rw [hc] at q1; revert q1 hin hx; cases p.pc <;> simp [sstOK, inThreads]
    have hml : s.mlock.isSome = false → ∀ f, s.mpc ≠ .kMRel f := by
      intro hm f hf
      have := g3 (by rw [hf]; rfl)
      rw [this] at hm; cases hm
    simp only at h
    cases hpcv : p.pc <;> simp only [hpcv] at h <;> (try split at h) <;> (try cases h) <;> (try split at h) <;> (try cases h) <;>
    (have hnn := hne (by rw [hpcv]; simp)) <;>
    (constructor <;>
      (first
        | (clear hml; simp_all [setP, pcAt, pcAt_set hp, sstOK, inThreads, mainHoldsM, creating]; done)
        | (intro f hf; exfalso; exact hml (by simp_all) f hf)))

set_option maxHeartbeats 1600000 in
theorem si_stepPlayer_p (cfg : Cfg) (s s' : State) (i : Nat) (h : stepPlayer cfg s i = some s')
    (inv : SI s) : ∀ (k : Nat) (q : Player), s'.players[k]? = some q → SP s' k q := by
  unfold stepPlayer at h
  split at h
  · cases h
  · rename_i p hp
    obtain ⟨q1, q2, q3, q4, q5, q6⟩ := inv.p i p hp
    obtain ⟨g1, g2, g3, g4, g5, g6, g7⟩ := inv.g
    have hall := inv.p
    have ht0 : inThreads p.pc = true → s.terminated = 0 ∧ s.mpc ≠ .kTerm := by
      intro hin
      have hmem := q2 hin
      constructor
      · by_cases h1 : 1 ≤ s.terminated
        · rw [g5 (Or.inl h1)] at hmem; cases hmem
        · omega
      · intro hk; rw [g5 (Or.inr hk)] at hmem; cases hmem
    have hml2 : p.pc = .tfRel → ∀ k q, s.players[k]? = some q → k ≠ i → q.pc ≠ .tfRel := by
      intro hh k q hk hne hq
      have a1 := q4 hh
      have a2 := (hall k q hk).ml hq
      rw [a1] at a2; cases a2; exact hne rfl
    simp only at h
    cases hpcv : p.pc <;> simp only [hpcv] at h <;> (try split at h) <;> (try cases h) <;> (try split at h) <;> (try cases h) <;>
    (refine SP_set (i := i) (hs' := rfl) ?_ ?_
     · intro k q hk hne
       obtain ⟨r1, r2, r3, r4, r5, r6⟩ := hall k q hk
       have hm2 := fun hh => hml2 hh k q hk hne
       constructor <;> simp_all [setP, List.mem_erase_of_ne]
     · rcases loopHead_cases p with ⟨ht, hf, hl⟩ | ⟨ht, hl⟩ <;>
       (constructor <;> (try split) <;> simp_all [setP, sstOK, inThreads]))

/-- main-step cases that update one player record: generic shape -/
theorem si_main_set (s : State) (i : Nat) (p p' : Player) (m' : MPc) (th' : List Nat) (e' : Bool)
    (inv : SI s) (hp : s.players[i]? = some p)
    -- the global part for the new state
    (hg : SG { s with players := s.players.set i p', mpc := m', threads := th', perr := e' })
    -- frame for the other players
    (hf : ∀ (k : Nat) (q : Player), s.players[k]? = some q → k ≠ i → SP s k q →
      SP { s with players := s.players.set i p', mpc := m', threads := th', perr := e' } k q)
    (hi : SP s i p → SP { s with players := s.players.set i p', mpc := m', threads := th', perr := e' } i p') :
    SI { s with players := s.players.set i p', mpc := m', threads := th', perr := e' } := by
  constructor
  · exact hg
  · refine SP_set (i := i) (p' := p') (hs' := rfl) ?_ ?_
    · intro k q hk hne; exact hf k q hk hne (inv.p k q hk)
    · exact hi (inv.p i p hp)

theorem pcAt_players_set {s s' : State} {i : Nat} {p p' : Player}
    (hs : s'.players = s.players.set i p') (hp : s.players[i]? = some p) (k : Nat) :
    pcAt s' k = if k = i then some p'.pc else pcAt s k := by
  unfold pcAt; rw [hs]; exact pcAt_set hp k

theorem pcAt_players_append {s s' : State} {p' : Player}
    (hs : s'.players = s.players ++ [p']) (k : Nat) :
    pcAt s' k = if k = s.players.length then some p'.pc else pcAt s k := by
  unfold pcAt; rw [hs]; exact pcAt_append k


theorem si_main_pGoSet (cfg : Cfg) (s s' : State) (i : Nat) (hm : s.mpc = .pGoSet i) (h : stepMain cfg s = some s')
    (mi : MI s) (inv : SI s) : SI s' := by
  obtain ⟨g1, g2, g3, g4, g5, g6, g7⟩ := inv.g
  obtain ⟨m1, m2, m3, m4, m5, m6, m7, m8⟩ := mi
  have hall := inv.p
  unfold stepMain at h
  simp only [hm] at h
  split at h
  · rename_i p hp
    
    cases h
    have hpc := pcAt_of_get hp
    have hnew : p.pc = .new := by
      have := g1 i (by rw [hm]; rfl); rw [hpc] at this; simpa using this
    have hT0 : s.terminated = 0 := m2 (m4 i (by rw [hm]; rfl))
    have := si_main_set s i p { p with go := true } (.pOpen i) (s.threads) (s.perr) inv hp ?_ ?_ ?_
    · simpa [setP] using this
    · have hc := fun k => pcAt_players_set (s := s) (s' := { s with players := s.players.set i { p with go := true }, mpc := .pOpen i, threads := s.threads, perr := s.perr }) rfl hp k
      constructor <;> simp_all [creating, mainHoldsM]
    · intro k q hk hne ⟨r1, r2, r3, r4, r5, r6⟩
      have hne' : ¬ i = k := fun e => hne e.symm
      constructor <;> simp_all [creating]
    · intro ⟨r1, r2, r3, r4, r5, r6⟩
      constructor <;> simp_all [creating, sstOK, inThreads]
  · cases h

theorem si_main_pOpen (cfg : Cfg) (s s' : State) (i : Nat) (hm : s.mpc = .pOpen i) (h : stepMain cfg s = some s')
    (mi : MI s) (inv : SI s) : SI s' := by
  obtain ⟨g1, g2, g3, g4, g5, g6, g7⟩ := inv.g
  obtain ⟨m1, m2, m3, m4, m5, m6, m7, m8⟩ := mi
  have hall := inv.p
  unfold stepMain at h
  simp only [hm] at h
  split at h
  · rename_i p hp
    
    cases h
    have hpc := pcAt_of_get hp
    have hnew : p.pc = .new := by
      have := g1 i (by rw [hm]; rfl); rw [hpc] at this; simpa using this
    have hT0 : s.terminated = 0 := m2 (m4 i (by rw [hm]; rfl))
    have := si_main_set s i p { p with sst := .active } (.pStart i) (s.threads ++ [i]) (s.perr || decide (s.terminated > 0)) inv hp ?_ ?_ ?_
    · simpa [setP] using this
    · have hc := fun k => pcAt_players_set (s := s) (s' := { s with players := s.players.set i { p with sst := .active }, mpc := .pStart i, threads := s.threads ++ [i], perr := s.perr || decide (s.terminated > 0) }) rfl hp k
      constructor <;> simp_all [creating, mainHoldsM]
    · intro k q hk hne ⟨r1, r2, r3, r4, r5, r6⟩
      have hne' : ¬ i = k := fun e => hne e.symm
      constructor <;> simp_all [creating]
    · intro ⟨r1, r2, r3, r4, r5, r6⟩
      constructor <;> simp_all [creating, sstOK, inThreads]
  · cases h

theorem si_main_pStart (cfg : Cfg) (s s' : State) (i : Nat) (hm : s.mpc = .pStart i) (h : stepMain cfg s = some s')
    (mi : MI s) (inv : SI s) : SI s' := by
  obtain ⟨g1, g2, g3, g4, g5, g6, g7⟩ := inv.g
  obtain ⟨m1, m2, m3, m4, m5, m6, m7, m8⟩ := mi
  have hall := inv.p
  unfold stepMain at h
  simp only [hm] at h
  split at h
  · rename_i p hp
    
    cases h
    have hpc := pcAt_of_get hp
    have hnew : p.pc = .new := by
      have := g1 i (by rw [hm]; rfl); rw [hpc] at this; simpa using this
    have hT0 : s.terminated = 0 := m2 (m4 i (by rw [hm]; rfl))
    have := si_main_set s i p { p with pc := .begin } (.pRel) (s.threads) (s.perr) inv hp ?_ ?_ ?_
    · simpa [setP] using this
    · have hc := fun k => pcAt_players_set (s := s) (s' := { s with players := s.players.set i { p with pc := .begin }, mpc := .pRel, threads := s.threads, perr := s.perr }) rfl hp k
      constructor <;> simp_all [creating, mainHoldsM]
    · intro k q hk hne ⟨r1, r2, r3, r4, r5, r6⟩
      have hne' : ¬ i = k := fun e => hne e.symm
      constructor <;> simp_all [creating]
    · intro ⟨r1, r2, r3, r4, r5, r6⟩
      constructor <;> simp_all [creating, sstOK, inThreads]
  · cases h

theorem si_main_cEvt (cfg : Cfg) (s s' : State) (c : Ctl) (i : Nat) (hm : s.mpc = .cEvt c i) (h : stepMain cfg s = some s')
    (mi : MI s) (inv : SI s) : SI s' := by
  obtain ⟨g1, g2, g3, g4, g5, g6, g7⟩ := inv.g
  obtain ⟨m1, m2, m3, m4, m5, m6, m7, m8⟩ := mi
  have hall := inv.p
  unfold stepMain at h
  simp only [hm] at h
  split at h
  · rename_i p hp
    
    cases h
    have hpc := pcAt_of_get hp
    have hnoNew : ∀ (k : Nat) (q : Player), s.players[k]? = some q → q.pc ≠ .new := by
      intro k q hk hq
      have := (hall k q hk).newMain hq
      rw [hm] at this; cases this
    have := si_main_set s i p { p with go := ctlGo cfg c } (.cRel c i) (s.threads) (s.perr) inv hp ?_ ?_ ?_
    · simpa [setP] using this
    · have hc := fun k => pcAt_players_set (s := s) (s' := { s with players := s.players.set i { p with go := ctlGo cfg c }, mpc := .cRel c i, threads := s.threads, perr := s.perr }) rfl hp k
      constructor <;> simp_all [creating, mainHoldsM]
    · intro k q hk hne ⟨r1, r2, r3, r4, r5, r6⟩
      have hne' : ¬ i = k := fun e => hne e.symm
      constructor <;> simp_all [creating]
    · intro ⟨r1, r2, r3, r4, r5, r6⟩
      constructor <;> simp_all [creating, sstOK, inThreads]
  · cases h

theorem si_main_kSEvtX (cfg : Cfg) (s s' : State) (i : Nat) (hm : s.mpc = .kSEvt i) (h : stepMain cfg s = some s')
    (mi : MI s) (inv : SI s) : SI s' := by
  obtain ⟨g1, g2, g3, g4, g5, g6, g7⟩ := inv.g
  obtain ⟨m1, m2, m3, m4, m5, m6, m7, m8⟩ := mi
  have hall := inv.p
  unfold stepMain at h
  simp only [hm] at h
  split at h
  · rename_i p hp
    
    cases h
    have hpc := pcAt_of_get hp
    have hnoNew : ∀ (k : Nat) (q : Player), s.players[k]? = some q → q.pc ≠ .new := by
      intro k q hk hq
      have := (hall k q hk).newMain hq
      rw [hm] at this; cases this
    have := si_main_set s i p { p with go := ctlGo cfg .stop } (.kSRel i) (s.threads) (s.perr) inv hp ?_ ?_ ?_
    · simpa [setP] using this
    · have hc := fun k => pcAt_players_set (s := s) (s' := { s with players := s.players.set i { p with go := ctlGo cfg .stop }, mpc := .kSRel i, threads := s.threads, perr := s.perr }) rfl hp k
      constructor <;> simp_all [creating, mainHoldsM]
    · intro k q hk hne ⟨r1, r2, r3, r4, r5, r6⟩
      have hne' : ¬ i = k := fun e => hne e.symm
      constructor <;> simp_all [creating]
    · intro ⟨r1, r2, r3, r4, r5, r6⟩
      constructor <;> simp_all [creating, sstOK, inThreads]
  · cases h

theorem si_main_kSRel (cfg : Cfg) (s s' : State) (i : Nat) (hm : s.mpc = .kSRel i) (h : stepMain cfg s = some s')
    (mi : MI s) (inv : SI s) : SI s' := by
  obtain ⟨g1, g2, g3, g4, g5, g6, g7⟩ := inv.g
  obtain ⟨m1, m2, m3, m4, m5, m6, m7, m8⟩ := mi
  have hall := inv.p
  unfold stepMain at h
  simp only [hm] at h
  split at h
  · rename_i p hp
    
    cases h
    have hpc := pcAt_of_get hp
    have hnoNew : ∀ (k : Nat) (q : Player), s.players[k]? = some q → q.pc ≠ .new := by
      intro k q hk hq
      have := (hall k q hk).newMain hq
      rw [hm] at this; cases this
    have := si_main_set s i p { p with lk := none } (.kJoin i) (s.threads) (s.perr) inv hp ?_ ?_ ?_
    · simpa [setP] using this
    · have hc := fun k => pcAt_players_set (s := s) (s' := { s with players := s.players.set i { p with lk := none }, mpc := .kJoin i, threads := s.threads, perr := s.perr }) rfl hp k
      constructor <;> simp_all [creating, mainHoldsM]
    · intro k q hk hne ⟨r1, r2, r3, r4, r5, r6⟩
      have hne' : ¬ i = k := fun e => hne e.symm
      constructor <;> simp_all [creating]
    · intro ⟨r1, r2, r3, r4, r5, r6⟩
      constructor <;> simp_all [creating, sstOK, inThreads]
  · cases h

theorem si_main_kSAcq (cfg : Cfg) (s s' : State) (i : Nat) (hm : s.mpc = .kSAcq i) (h : stepMain cfg s = some s')
    (mi : MI s) (inv : SI s) : SI s' := by
  obtain ⟨g1, g2, g3, g4, g5, g6, g7⟩ := inv.g
  obtain ⟨m1, m2, m3, m4, m5, m6, m7, m8⟩ := mi
  have hall := inv.p
  unfold stepMain at h
  simp only [hm] at h
  split at h
  · rename_i p hp
    split at h
    · cases h
    cases h
    have hpc := pcAt_of_get hp
    have hnoNew : ∀ (k : Nat) (q : Player), s.players[k]? = some q → q.pc ≠ .new := by
      intro k q hk hq
      have := (hall k q hk).newMain hq
      rw [hm] at this; cases this
    have := si_main_set s i p { p with lk := some .main, halting := true } (.kSEvt i) (s.threads) (s.perr) inv hp ?_ ?_ ?_
    · simpa [setP] using this
    · have hc := fun k => pcAt_players_set (s := s) (s' := { s with players := s.players.set i { p with lk := some .main, halting := true }, mpc := .kSEvt i, threads := s.threads, perr := s.perr }) rfl hp k
      constructor <;> simp_all [creating, mainHoldsM]
    · intro k q hk hne ⟨r1, r2, r3, r4, r5, r6⟩
      have hne' : ¬ i = k := fun e => hne e.symm
      constructor <;> simp_all [creating]
    · intro ⟨r1, r2, r3, r4, r5, r6⟩
      constructor <;> simp_all [creating, sstOK, inThreads]
  · cases h

theorem si_main_cAcq (cfg : Cfg) (s s' : State) (c : Ctl) (i : Nat) (hm : s.mpc = .cAcq c i) (h : stepMain cfg s = some s')
    (mi : MI s) (inv : SI s) : SI s' := by
  obtain ⟨g1, g2, g3, g4, g5, g6, g7⟩ := inv.g
  obtain ⟨m1, m2, m3, m4, m5, m6, m7, m8⟩ := mi
  have hall := inv.p
  unfold stepMain at h
  simp only [hm] at h
  split at h
  · rename_i p hp
    split at h
    · cases h
    cases h
    have hpc := pcAt_of_get hp
    have hnoNew : ∀ (k : Nat) (q : Player), s.players[k]? = some q → q.pc ≠ .new := by
      intro k q hk hq
      have := (hall k q hk).newMain hq
      rw [hm] at this; cases this
    have := si_main_set s i p { p with lk := some .main, halting := p.halting || (c == .stop) } (.cEvt c i) (s.threads) (s.perr) inv hp ?_ ?_ ?_
    · simpa [setP] using this
    · have hc := fun k => pcAt_players_set (s := s) (s' := { s with players := s.players.set i { p with lk := some .main, halting := p.halting || (c == .stop) }, mpc := .cEvt c i, threads := s.threads, perr := s.perr }) rfl hp k
      constructor <;> simp_all [creating, mainHoldsM]
    · intro k q hk hne ⟨r1, r2, r3, r4, r5, r6⟩
      have hne' : ¬ i = k := fun e => hne e.symm
      constructor <;> simp_all [creating]
    · intro ⟨r1, r2, r3, r4, r5, r6⟩
      constructor <;> simp_all [creating, sstOK, inThreads]
  · cases h


theorem si_main_pAcq (cfg : Cfg) (s s' : State) (a : List Int) (c : Nat) (hm : s.mpc = .pAcq a c)
    (h : stepMain cfg s = some s') (mi : MI s) (inv : SI s) : SI s' := by
  obtain ⟨g1, g2, g3, g4, g5, g6, g7⟩ := inv.g
  obtain ⟨m1, m2, m3, m4, m5, m6, m7, m8⟩ := mi
  have hall := inv.p
  have hnoNew : ∀ (k : Nat) (q : Player), s.players[k]? = some q → q.pc ≠ .new := by
    intro k q hk hq
    have := (hall k q hk).newMain hq
    rw [hm] at this; cases this
  have hmlN : s.mlock.isSome = false → ∀ (k : Nat) (q : Player), s.players[k]? = some q → q.pc ≠ .tfRel := by
    intro hn k q hk hq
    have := (hall k q hk).ml hq
    rw [this] at hn; cases hn
  unfold stepMain at h
  simp only [hm] at h
  split at h
  · cases h
  · rename_i hlk
    split at h
    · -- finished: raise
      cases h
      constructor
      · constructor <;> simp_all [creating, mainHoldsM]
      · intro k q hk
        obtain ⟨r1, r2, r3, r4, r5, r6⟩ := hall k q hk
        have hn1 := hmlN (by simpa using hlk) k q hk
        have hn2 := hnoNew k q hk
        constructor <;> simp_all [creating]
    · rename_i hfin
      cases h
      have hT0 : s.terminated = 0 := m2 (by simpa using hfin)
      constructor
      · have hc := fun k => pcAt_players_append (s := s) (s' := { s with mlock := some .main, players := s.players ++ [{ pc := .new, audio := a, cs := c, all := playChunks c a (cfg.fails.getD s.players.length false), todo := playChunks c a (cfg.fails.getD s.players.length false), written := [], sst := .unopened, lk := none, go := false, halting := false, fail := cfg.fails.getD s.players.length false }], mpc := .pGoSet s.players.length }) rfl k
        constructor <;> simp_all [creating, mainHoldsM]
      · refine SP_append (hs' := rfl) ?_ ?_
        · intro k q hk
          obtain ⟨r1, r2, r3, r4, r5, r6⟩ := hall k q hk
          have hn1 := hmlN (by simpa using hlk) k q hk
          have hn2 := hnoNew k q hk
          constructor <;> simp_all [creating]
        · constructor <;> simp_all [creating, sstOK, inThreads]

/-- the control script moves on to its next call -/
theorem si_nextCmd (X : State) (sc : List Cmd)
    (hp : ∀ (k : Nat) (q : Player), X.players[k]? = some q →
      sstOK q.pc q.sst = true ∧ (inThreads q.pc = true → k ∈ X.threads) ∧ q.pc ≠ .new ∧
      (q.pc = .tfRel → X.mlock = some (.player k)) ∧ (1 ≤ X.terminated → q.sst = .closed))
    (hg : 1 ≤ X.terminated → X.threads = []) (he : X.perr = false) : SI (nextCmd X sc) := by
  obtain ⟨n1, n2, n3, n4, n5, n6, n7, n8, n9, n10⟩ := nextCmd_startPc X sc
  constructor
  · constructor
    · intro i hi; rw [n2] at hi; cases hi
    · intro i hi; rw [hi] at n2; cases n2
    · intro hm; rw [n5] at hm; cases hm
    · intro f hf; exact absurd hf (n9 f)
    · intro h; rcases h with h | h
      · simpa using hg (by simpa using h)
      · exact absurd h n8
    · exact n7
    · simpa using he
  · intro k q hk
    simp only [nextCmd_players] at hk
    obtain ⟨a, b, c, d, e⟩ := hp k q hk
    constructor
    · exact a
    · simpa using b
    · intro h; exact absurd h c
    · simpa using d
    · intro h; rcases h with h | h
      · exact e (by simpa using h)
      · exact absurd h n8
    · intro h; exact absurd h c



/-- `close` found `_threads` empty: every stream is closed -/
theorem all_closed_of_threads_nil {s : State} (hall : ∀ (k : Nat) (q : Player), s.players[k]? = some q → SP s k q)
    (hc : creating s.mpc = none) (ht : s.threads = []) :
    ∀ (k : Nat) (q : Player), s.players[k]? = some q → q.sst = .closed ∧ streamOpen q = false := by
  intro k q hk
  obtain ⟨r1, r2, r3, _, _, _⟩ := hall k q hk
  have hnew : q.pc ≠ .new := by
    intro hq; have := r3 hq; rw [hc] at this; cases this
  have hnin : inThreads q.pc = false := by
    cases hin : inThreads q.pc
    · rfl
    · have := r2 hin; rw [ht] at this; cases this
  revert r1 hnew hnin
  cases hpc : q.pc <;> cases hs : q.sst <;> simp [sstOK, inThreads, streamOpen, hs]

theorem any_streamOpen_false {s : State}
    (h : ∀ (k : Nat) (q : Player), s.players[k]? = some q → q.sst = .closed ∧ streamOpen q = false) :
    s.players.any streamOpen = false := by
  rw [List.any_eq_false]
  intro q hq
  obtain ⟨k, hk⟩ := List.getElem?_of_mem hq
  simp [(h k q hk).2]

theorem si_main_kMRelNone (cfg : Cfg) (s s' : State) (hm : s.mpc = .kMRel none)
    (h : stepMain cfg s = some s') (mi : MI s) (inv : SI s) : SI s' := by
  obtain ⟨g1, g2, g3, g4, g5, g6, g7⟩ := inv.g
  have hall := inv.p
  have hnil : s.threads = [] := by
    have := g4 none hm
    cases ht : s.threads with
    | nil => rfl
    | cons a l => rw [ht] at this; cases this
  have hclosed := all_closed_of_threads_nil hall (by rw [hm]; rfl) hnil
  have hany := any_streamOpen_false hclosed
  unfold stepMain at h
  simp only [hm, hany] at h
  cases h
  constructor
  · constructor
    · intro i hi; cases hi
    · intro i hi; cases hi
    · intro hh; cases hh
    · intro f hf; cases hf
    · intro _; exact hnil
    · intro hh; cases hh
    · exact g7
  · intro k q hk
    obtain ⟨r1, r2, r3, r4, r5, r6⟩ := hall k q hk
    have hq : q.pc ≠ .new := by
      intro hq; have := r3 hq; rw [hm] at this; cases this
    have hq2 : q.pc ≠ .tfRel := by
      intro hq2; have a := r4 hq2; rw [g3 (by rw [hm]; rfl)] at a; cases a
    constructor
    · exact r1
    · exact r2
    · intro hh; exact absurd hh hq
    · intro hh; exact absurd hh hq2
    · intro _; exact (hclosed k q hk).1
    · intro hh; exact absurd hh hq


theorem si_main_kMRelSome (cfg : Cfg) (s s' : State) (j : Nat) (hm : s.mpc = .kMRel (some j))
    (h : stepMain cfg s = some s') (mi : MI s) (inv : SI s) : SI s' := by
  obtain ⟨g1, g2, g3, g4, g5, g6, g7⟩ := inv.g
  obtain ⟨m1, m2, m3, m4, m5, m6, m7, m8⟩ := mi
  have hall := inv.p
  have hpre := m3 (by rw [hm]; rfl)
  unfold stepMain at h
  simp only [hm] at h
  cases h
  constructor
  · constructor
    · intro i hi; cases hw : cfg.wait <;> simp [hw, creating] at hi
    · intro i hi; cases hw : cfg.wait <;> simp [hw] at hi
    · intro hh; cases hw : cfg.wait <;> simp [hw, mainHoldsM] at hh
    · intro f hf; cases hw : cfg.wait <;> simp [hw] at hf
    · intro hh
      rcases hh with hh | hh
      · exact g5 (Or.inl hh)
      · cases hw : cfg.wait <;> simp [hw] at hh
    · cases hw : cfg.wait <;> simp [hw]
    · exact g7
  · intro k q hk
    obtain ⟨r1, r2, r3, r4, r5, r6⟩ := hall k q hk
    have hq : q.pc ≠ .new := by
      intro hq; have := r3 hq; rw [hm] at this; cases this
    have hq2 : q.pc ≠ .tfRel := by
      intro hq2; have a := r4 hq2; rw [g3 (by rw [hm]; rfl)] at a; cases a
    constructor
    · exact r1
    · exact r2
    · intro hh; exact absurd hh hq
    · intro hh; exact absurd hh hq2
    · intro hh
      rcases hh with hh | hh
      · exact r5 (Or.inl hh)
      · cases hw : cfg.wait <;> simp [hw] at hh
    · intro hh; exact absurd hh hq


set_option maxHeartbeats 3200000 in
theorem si_stepMain (cfg : Cfg) (s s' : State) (h : stepMain cfg s = some s')
    (mi : MI s) (inv : SI s) : SI s' := by
  obtain ⟨g1, g2, g3, g4, g5, g6, g7⟩ := inv.g
  obtain ⟨m1, m2, m3, m4, m5, m6, m7, m8⟩ := mi
  have hall := inv.p
  have hnoNew : creating s.mpc = none → ∀ (k : Nat) (q : Player), s.players[k]? = some q → q.pc ≠ .new := by
    intro hc k q hk hq
    have := (hall k q hk).newMain hq
    rw [hc] at this; cases this
  have hT0 : ∀ i, creating s.mpc = some i → s.terminated = 0 := fun i hi => m2 (m4 i hi)
  have hmlN : s.mlock.isSome = false → ∀ (k : Nat) (q : Player), s.players[k]? = some q → q.pc ≠ .tfRel := by
    intro hn k q hk hq
    have := (hall k q hk).ml hq
    rw [this] at hn; cases hn
  have hmlM : mainHoldsM s.mpc = true → ∀ (k : Nat) (q : Player), s.players[k]? = some q → q.pc ≠ .tfRel := by
    intro hn k q hk hq
    have a := (hall k q hk).ml hq
    rw [g3 hn] at a; cases a
  cases hm : s.mpc <;>
  (first
    | exact si_main_pAcq cfg s s' _ _ hm h ⟨m1, m2, m3, m4, m5, m6, m7, m8⟩ inv
    | exact si_main_pGoSet cfg s s' _ hm h ⟨m1, m2, m3, m4, m5, m6, m7, m8⟩ inv
    | exact si_main_pOpen cfg s s' _ hm h ⟨m1, m2, m3, m4, m5, m6, m7, m8⟩ inv
    | exact si_main_pStart cfg s s' _ hm h ⟨m1, m2, m3, m4, m5, m6, m7, m8⟩ inv
    | exact si_main_cAcq cfg s s' _ _ hm h ⟨m1, m2, m3, m4, m5, m6, m7, m8⟩ inv
    | exact si_main_cEvt cfg s s' _ _ hm h ⟨m1, m2, m3, m4, m5, m6, m7, m8⟩ inv
    | exact si_main_kSAcq cfg s s' _ hm h ⟨m1, m2, m3, m4, m5, m6, m7, m8⟩ inv
    | exact si_main_kSEvtX cfg s s' _ hm h ⟨m1, m2, m3, m4, m5, m6, m7, m8⟩ inv
    | exact si_main_kSRel cfg s s' _ hm h ⟨m1, m2, m3, m4, m5, m6, m7, m8⟩ inv
    | (rename_i f; cases f <;>
        (first
          | exact si_main_kMRelNone cfg s s' hm h ⟨m1, m2, m3, m4, m5, m6, m7, m8⟩ inv
          | exact si_main_kMRelSome cfg s s' _ hm h ⟨m1, m2, m3, m4, m5, m6, m7, m8⟩ inv))
    | skip) <;>
  unfold stepMain at h <;> simp only [hm] at h <;> (try split at h) <;> (try split at h) <;>
    (try split at h) <;> (try cases h) <;>
  (first
    | ((try unfold State.next); apply si_nextCmd
       · first
          | (simp only [setP]
             refine forall_set (P := fun k q => _) ?_ ?_
             · intro k q hk
               obtain ⟨r1, r2, r3, r4, r5, r6⟩ := hall k q hk
               have hn := hnoNew (by rw [hm]; rfl) k q hk
               simp_all [mainHoldsM]
             · rename_i p hp
               obtain ⟨r1, r2, r3, r4, r5, r6⟩ := hall _ p hp
               have hn := hnoNew (by rw [hm]; rfl) _ p hp
               simp_all [mainHoldsM])
          | (intro k q hk
             obtain ⟨r1, r2, r3, r4, r5, r6⟩ := hall k q hk
             have hn := hnoNew (by rw [hm]; rfl) k q hk
             simp_all [mainHoldsM])
       · simp_all [setP]
       · simp_all [setP])
    | (constructor
       · constructor <;> simp_all [creating, mainHoldsM, pcAt] <;> done
       · intro k q hk
         obtain ⟨r1, r2, r3, r4, r5, r6⟩ := hall k q hk
         have hn1 := fun hh => hmlN hh k q hk
         have hn2 := fun hh => hmlM hh k q hk
         constructor <;> simp_all [creating, mainHoldsM] <;> done)
    )


theorem si_reach {cfg : Cfg} {script : List Cmd} {s : State} (h : Reach cfg script s) : SI s := by
  induction h with
  | init => exact si_init script
  | step hr hs ih =>
    rename_i s s' t
    cases t with
    | main => exact si_stepMain cfg s s' hs (mi_reach hr) ih
    | player i => exact ⟨si_stepPlayer_g cfg s s' i hs ih, si_stepPlayer_p cfg s s' i hs ih⟩

end ALV.C17
