/-
  C10 — helper lemmas, part 13 (ordered field): the minimiser is UNIQUE whenever the code returns.
  `energy(b) = energy(a) + Q(b − a)` by orthogonality, `Q` is a sum of squares, so
  `energy(b) ≤ energy(a)` forces every output of the filter `b − a` to vanish; then `b − a` solves
  the homogeneous normal equations, and a returning Levinson recursion (all intermediate errors
  non-zero: the Toeplitz system is non-singular) leaves only `b − a = 0`.  Same for `lpc.kcovar`
  through the dependency argument of `no_dependent_of_betas`.
-/
import ALV.Lemmas.C10Min
import ALV.Lemmas.C10Uniq
import ALV.Lemmas.C10CovErr

namespace ALV.C10
open Finset
variable {K : Type} [Field K]

/-- a returning `lpc.kautocor` call: the lags of the block and the loop run that returned `a` -/
theorem kautocor_ok_iter [DecidableEq K] {blk : List K} {order : Option ℕ} {a : List K} {e : K}
    (h : kautocor blk order = .ok (a, e)) :
    ∃ r : List K, (∀ tau, tau ≤ order.getD (blk.length - 1) → coef r tau =
        ∑ k ∈ range (blk.length - tau), coef blk k * coef blk (k + tau)) ∧
      levIter r (order.getD (blk.length - 1)) = .ok a := by
  unfold kautocor at h
  cases order with
  | none =>
    obtain ⟨h0, h1, _⟩ := levinson_none_ok h
    have hlen : (acorr blk none).length = blk.length := by simp [acorr]
    rw [hlen] at h0 h1
    refine ⟨acorr blk none, fun tau ht => ?_, h1⟩
    exact coef_acorr blk none tau (by simp only [Option.getD_none] at ht; show tau < blk.length; omega)
  | some p =>
    obtain ⟨h1, _⟩ := levinson_some_ok h
    refine ⟨zeroExt (acorr blk (some p)) p, fun tau ht => ?_, h1⟩
    rw [coef_zeroExt]
    exact coef_acorr blk (some p) tau (by simp only [Option.getD_some] at ht; show tau < p + 1; omega)

theorem bilT_unit_left (r : List K) (n : ℕ) (v : ℕ → K) (i : ℕ) (hi : i < n) :
    bilT r n (fun k => if k = i then 1 else 0) v = Nf r v n i := by
  rw [bilT_eq_sum_Nf, Finset.sum_eq_single i]
  · simp
  · intro k _ hk; simp [hk]
  · intro h; exact absurd (by simpa using hi) h

variable [LinearOrder K] [IsStrictOrderedRing K]

/-- the Toeplitz form of an autocorrelation is a sum of squares: a null vector is orthogonal to
    everything -/
theorem bilT_acorr_null (x : ℕ → K) (N : ℕ) (hx : ∀ n, N ≤ n → x n = 0) (r : List K) (p : ℕ)
    (hr : ∀ tau, tau ≤ p → coef r tau = ∑ k ∈ range (N - tau), x k * x (k + tau)) (d : ℕ → K)
    (h0 : bilT r (p + 1) d d = 0) (v : ℕ → K) : bilT r (p + 1) d v = 0 := by
  rw [bilT_acorr x N hx r p hr] at h0 ⊢
  have hz := (Finset.sum_eq_zero_iff_of_nonneg (fun n _ => mul_self_nonneg (filt x p d n))).1 h0
  refine Finset.sum_eq_zero fun n hn => ?_
  rw [mul_self_eq_zero.1 (hz n hn), zero_mul]

/-- uniqueness of the minimiser over coefficient functions -/
theorem bilT_minimiser_unique [DecidableEq K] (x : ℕ → K) (N : ℕ) (hx : ∀ n, N ≤ n → x n = 0)
    (r : List K) (p : ℕ)
    (hr : ∀ tau, tau ≤ p → coef r tau = ∑ k ∈ range (N - tau), x k * x (k + tau))
    {A : List K} (hA : levIter r p = .ok A) (b : ℕ → K) (hb0 : b 0 = 1) (hbtop : ∀ j, p < j → b j = 0)
    (hle : bilT r (p + 1) b b ≤ bilT r (p + 1) (coef A) (coef A)) : ∀ j, b j = coef A j := by
  have hinv := levIter_inv r p A hA
  set d : ℕ → K := fun i => b i - coef A i with hd
  have hb : b = fun i => coef A i + d i := funext fun i => by simp [hd]
  have hd0 : d 0 = 0 := by simp [hd, hb0, hinv.a0]
  have hexp : bilT r (p + 1) b b = bilT r (p + 1) (coef A) (coef A) + bilT r (p + 1) d d := by
    rw [hb, bilT_add_add, bilT_orth r p (coef A) d hd0 hinv.ne]; ring
  have hnn := bilT_acorr_self_nonneg x N hx r p hr d
  have hzero : bilT r (p + 1) d d = 0 := by linarith
  have hnull := bilT_acorr_null x N hx r p hr d hzero
  have hall := yuleWalker_diff_zero hA d hd0
    (fun j hj => by simp only [hd]; rw [hbtop j hj, hinv.coef_top j (by omega)]; simp)
    (fun i _ h2 => by
      rw [← bilT_unit_left r (p + 1) d i (by omega), bilT_symm]
      exact hnull _)
  intro j
  have := hall j
  simp only [hd] at this
  exact sub_eq_zero.1 this

/-! ### covariance method -/

/-- the lag-table form is a sum of squares: a null vector has zero output on the whole window -/
theorem bil_lagTable_null (blk : List K) (p : ℕ) (d : ℕ → K)
    (h0 : bil (phiOf (lagTable blk p)) (p + 1) d d = 0) (k : ℕ) (hk : k < blk.length - p) :
    ∑ i ∈ range (p + 1), d i * coef blk (p + k - i) = 0 := by
  rw [bil_lagTable_eq] at h0
  have hz := (Finset.sum_eq_zero_iff_of_nonneg (fun k _ => mul_self_nonneg
    (∑ i ∈ range (p + 1), d i * coef blk (p + k - i)))).1 h0
  exact mul_self_eq_zero.1 (hz k (by simpa using hk))

/-- uniqueness of the covariance minimiser, given that no dependency of the delays exists -/
theorem bil_lagTable_minimiser_unique (blk : List K) (p : ℕ) (a b : ℕ → K) (ha0 : a 0 = 1)
    (hb0 : b 0 = 1) (hatop : ∀ j, p < j → a j = 0) (hbtop : ∀ j, p < j → b j = 0)
    (ha : ∀ i, 1 ≤ i → i < p + 1 → bil (phiOf (lagTable blk p)) (p + 1) a (unitv i) = 0)
    (hnd : ¬ ∃ c, CovDependent blk p c)
    (hle : bil (phiOf (lagTable blk p)) (p + 1) b b ≤ bil (phiOf (lagTable blk p)) (p + 1) a a) :
    ∀ j, b j = a j := by
  set d : ℕ → K := fun i => b i - a i with hd
  have hb : b = fun i => a i + d i := funext fun i => by simp [hd]
  have hd0 : d 0 = 0 := by simp [hd, hb0, ha0]
  have hexp : bil (phiOf (lagTable blk p)) (p + 1) b b =
      bil (phiOf (lagTable blk p)) (p + 1) a a + bil (phiOf (lagTable blk p)) (p + 1) d d := by
    rw [hb, bil_add_add _ (phiOf_lagTable_symm blk p), bil_orth_right _ _ a d hd0 ha]; ring
  have hnn := bil_lagTable_self_nonneg blk p d
  have hzero : bil (phiOf (lagTable blk p)) (p + 1) d d = 0 := by linarith
  have hwin := bil_lagTable_null blk p d hzero
  -- the list of the difference
  set c : List K := (List.range (p + 1)).map d with hc
  have hcoef : ∀ j, coef c j = if j < p + 1 then d j else 0 := fun j => coef_map_range d (p + 1) j
  by_contra hne
  obtain ⟨j, hj⟩ := not_forall.1 hne
  have hjp : j ≤ p := by
    by_contra hjp
    exact hj (by rw [hbtop j (by omega), hatop j (by omega)])
  refine hnd ⟨c, ?_, by simp [hc], ⟨j, ?_⟩, fun k hk => ?_⟩
  · rw [hcoef, if_pos (by omega)]; exact hd0
  · rw [hcoef, if_pos (by omega)]; simp only [hd]; exact sub_ne_zero.2 hj
  · rw [winOut_eq, ← hwin k hk]
    refine Finset.sum_congr rfl fun i hi => ?_
    rw [hcoef, if_pos (by simpa using hi)]

end ALV.C10
