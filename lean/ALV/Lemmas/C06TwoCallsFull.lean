/-
  C06 — helper lemmas, part 10: the two-call contract for EVERY history
  (`callTwice = specCallTwice`, also when a coefficient stream ended the first output).

  * a key-preserving, kind-preserving rewriting of the coefficients (`advance`, `dropC`) keeps a
    filter object normalised and causal (`ShapeMap`, `normObj_vmap`);
  * a normalised causal object holding an ENDED stream yields nothing (`callTV_ended_stream`);
  * a generated loop that stopped before its input leaves an EMPTY iterator behind
    (`runLoopTV_short_hasEmpty`), which `advance` stores in the object;
  * `Poly(dict)` / `LinearFilter.__init__` commute with `dropC` (`mkPoly_map_dropC`).
-/
import ALV.Lemmas.C06TwoCalls
import ALV.Lemmas.C06Pipeline

set_option linter.unusedSectionVars false
set_option linter.unusedSimpArgs false
set_option linter.unusedVariables false
namespace ALV.C06
open ALV.C04
variable {K : Type} [Field K] [DecidableEq K]

/-! ### rewritings of the coefficients that keep keys and kinds -/

/-- `f` keeps a constant and turns a Stream into a Stream -/
def ShapeMap (f : Int → Coef K → Coef K) : Prop :=
  ∀ k c, (∀ v, c = Coef.const v → f k c = Coef.const v) ∧ (∀ s, c = Coef.strm s → ∃ s', f k c = Coef.strm s')

def vmap (f : Int → Coef K → Coef K) (t : Terms (Coef K)) : Terms (Coef K) :=
  t.map fun kv => (kv.1, f kv.1 kv.2)

theorem advance_eq_vmap (off : Nat) (t : Terms (Coef K)) (its : List (List K)) :
    advance off t its = vmap (fun k c => match c with
      | .strm _ => Coef.strm (its.getD (k.toNat - off) [])
      | .const v => Coef.const v) t := advance_eq_map off t its

theorem shape_advance (off : Nat) (its : List (List K)) :
    ShapeMap (fun (k : Int) (c : Coef K) => match c with
      | .strm _ => Coef.strm (its.getD (k.toNat - off) [])
      | .const v => Coef.const v) := by
  intro k c
  constructor
  · intro v h; subst h; rfl
  · intro s h; subst h; exact ⟨_, rfl⟩

theorem shape_dropC (n : Nat) : ShapeMap (fun (_ : Int) (c : Coef K) => c.dropC n) := by
  intro k c
  constructor
  · intro v h; subst h; rfl
  · intro s h; subst h; exact ⟨_, rfl⟩

theorem coefAt_vmap (f : Int → Coef K → Coef K) (hf : ShapeMap f) (t : Terms (Coef K)) (j : Int) :
    coefAt (vmap f t) j = f j (coefAt t j) := by
  have hp : ((fun kv : Int × Coef K => kv.1 == j) ∘ fun kv : Int × Coef K => (kv.1, f kv.1 kv.2))
      = (fun kv => kv.1 == j) := by funext kv; rfl
  simp only [coefAt, vmap, List.find?_map, hp]
  cases h : t.find? (fun kv => kv.1 == j) with
  | none => exact ((hf j (Coef.const 0)).1 0 rfl).symm
  | some kv =>
    have hk : kv.1 = j := by simpa using List.find?_some h
    subst hk
    rfl

theorem vmap_ne_zero (f : Int → Coef K → Coef K) (hf : ShapeMap f) (k : Int) (c : Coef K)
    (h : c ≠ Coef.const 0) : f k c ≠ Coef.const 0 := by
  cases c with
  | const v => rw [(hf k _).1 v rfl]; exact h
  | strm s =>
    obtain ⟨s', hs⟩ := (hf k _).2 s rfl
    rw [hs]; intro h'; cases h'

/-- a normalised filter object (what `__init__` leaves), causal -/
structure NormObj (num den : Terms (Coef K)) : Prop where
  hnum : List.Pairwise (fun x y : Int × Coef K => x.1 < y.1) num
  hden : List.Pairwise (fun x y : Int × Coef K => x.1 < y.1) den
  hstored : ∀ kv ∈ num ++ den, kv.2 ≠ Coef.const 0
  hc : ∀ kv ∈ num ++ den, 0 ≤ kv.1
  h0 : coefAt den 0 ≠ Coef.const 0

theorem normObj_vmap (f g : Int → Coef K → Coef K) (hf : ShapeMap f) (hg : ShapeMap g)
    (num den : Terms (Coef K)) (h : NormObj num den) : NormObj (vmap f num) (vmap g den) := by
  refine ⟨?_, ?_, ?_, ?_, ?_⟩
  · unfold vmap; rw [List.pairwise_map]; exact h.hnum
  · unfold vmap; rw [List.pairwise_map]; exact h.hden
  · intro kv hkv
    rcases List.mem_append.1 hkv with hm | hm
    · obtain ⟨kv', hm', rfl⟩ := List.mem_map.1 hm
      exact vmap_ne_zero f hf _ _ (h.hstored kv' (by simp [hm']))
    · obtain ⟨kv', hm', rfl⟩ := List.mem_map.1 hm
      exact vmap_ne_zero g hg _ _ (h.hstored kv' (by simp [hm']))
  · intro kv hkv
    rcases List.mem_append.1 hkv with hm | hm
    · obtain ⟨kv', hm', rfl⟩ := List.mem_map.1 hm
      exact h.hc kv' (by simp [hm'])
    · obtain ⟨kv', hm', rfl⟩ := List.mem_map.1 hm
      exact h.hc kv' (by simp [hm'])
  · rw [coefAt_vmap g hg]
    exact vmap_ne_zero g hg _ _ h.h0

theorem order_vmap (f : Int → Coef K → Coef K) (t : Terms (Coef K)) : order (vmap f t) = order t :=
  order_map_snd t (fun kv => f kv.1 kv.2)

theorem vmap_isEmpty (f : Int → Coef K → Coef K) (t : Terms (Coef K)) :
    (vmap f t).isEmpty = t.isEmpty := by cases t <;> rfl

/-- `values()` of a rewritten object: every dense coefficient rewritten at its own delay -/
theorem dense_vmap_get (f : Int → Coef K → Coef K) (hf : ShapeMap f) (t : Terms (Coef K)) (i : Nat)
    (c : Coef K) (h : (dense t)[i]? = some c) : (dense (vmap f t))[i]? = some (f (i : Int) c) := by
  by_cases ht : t.isEmpty = true
  · simp [dense, ht] at h
  · have ht' : t.isEmpty = false := by simpa using ht
    have hi : i < order t + 1 := by
      by_contra hcon
      simp only [dense, ht', Bool.false_eq_true, if_false, List.getElem?_map] at h
      rw [List.getElem?_eq_none (by simp; omega)] at h
      simp at h
    rw [dense_getD t i (by omega) ht'] at h
    rw [dense_getD (vmap f t) i (by rw [order_vmap]; omega) (by rw [vmap_isEmpty]; exact ht'),
      coefAt_vmap f hf]
    cases h
    rfl

/-! ### a normalised causal object that holds an ended stream yields nothing -/

theorem callTV_ended_stream (num den : Terms (Coef K)) (mem : Mem K) (zero : K) (xs : List K)
    (h : NormObj num den)
    (hnz : ¬ ((∀ c ∈ dense num, c = Coef.const 0) ∧ (∀ c ∈ (dense den).tail, c = Coef.const 0)))
    (hend : Coef.strm [] ∈ coefAt den 0 :: (dense num ++ (dense den).tail)) :
    (callTV num den mem zero xs).map Prod.fst = .ok [] := by
  rw [(callTV_normalised num den mem zero xs h.hnum h.hden h.hstored h.hc h.h0).2 hnz]
  congr 1
  apply List.eq_nil_of_length_eq_zero
  rw [tvspec_length]
  have := endLen_le_stream _ [] hend xs.length
  simpa using this

/-- an output shorter than the input was ended by a stream of exactly that length -/
theorem endLen_lt_exists (cs : List (Coef K)) :
    ∀ n, endLen n cs < n → ∃ s, Coef.strm s ∈ cs ∧ s.length = endLen n cs := by
  induction cs with
  | nil => intro n h; simp [endLen] at h
  | cons c cs ih =>
    intro n h
    cases c with
    | const v =>
      obtain ⟨s, hs, hl⟩ := ih n h
      exact ⟨s, List.mem_cons_of_mem _ hs, hl⟩
    | strm s =>
      simp only [endLen] at h ⊢
      by_cases h2 : endLen (min n s.length) cs < min n s.length
      · obtain ⟨s', hs', hl⟩ := ih _ h2
        exact ⟨s', List.mem_cons_of_mem _ hs', hl⟩
      · have hle := endLen_le cs (min n s.length)
        refine ⟨s, by simp, ?_⟩
        omega

/-! ### a loop that stopped before its input leaves an empty iterator -/

/-- some `next(b{k})` / `next(a{k})` of the sum finds its iterator empty -/
def HasEmpty (its : Its K) (sum : List (TAtom K)) : Prop :=
  (∃ k, TAtom.nextB k ∈ sum ∧ its.b.getD k [] = []) ∨ (∃ k, TAtom.nextA k ∈ sum ∧ its.a.getD (k - 1) [] = [])

theorem HasEmpty.cons {its : Its K} {sum : List (TAtom K)} (t : TAtom K) (h : HasEmpty its sum) :
    HasEmpty its (t :: sum) := by
  rcases h with ⟨k, hm, he⟩ | ⟨k, hm, he⟩
  · exact Or.inl ⟨k, List.mem_cons_of_mem _ hm, he⟩
  · exact Or.inr ⟨k, List.mem_cons_of_mem _ hm, he⟩

theorem evalAtomTV_none (e : Env K) (its its' : Its K) (t : TAtom K)
    (h : evalAtomTV e its t = (its', none)) : HasEmpty its' [t] := by
  cases t with
  | lti a => simp [evalAtomTV] at h
  | nextB k =>
    simp only [evalAtomTV] at h
    cases hk : its.b.getD k [] with
    | nil =>
      rw [hk] at h
      simp only [Prod.mk.injEq, and_true] at h
      subst h
      exact Or.inl ⟨k, by simp, hk⟩
    | cons v r => rw [hk] at h; simp at h
  | nextA k =>
    simp only [evalAtomTV] at h
    cases hk : its.a.getD (k - 1) [] with
    | nil =>
      rw [hk] at h
      simp only [Prod.mk.injEq, and_true] at h
      subst h
      exact Or.inr ⟨k, by simp, hk⟩
    | cons v r => rw [hk] at h; simp at h

theorem foldTV_none (e : Env K) (ts : List (TAtom K)) :
    ∀ (its its' : Its K) (acc : K), foldTV e its acc ts = (its', none) → HasEmpty its' ts := by
  induction ts with
  | nil => intro its its' acc h; simp [foldTV] at h
  | cons t ts ih =>
    intro its its' acc h
    simp only [foldTV] at h
    cases hev : evalAtomTV e its t with
    | mk its1 o =>
      rw [hev] at h
      cases o with
      | none =>
        simp only [Prod.mk.injEq, and_true] at h
        subst h
        rcases evalAtomTV_none e its its1 t hev with ⟨k, hm, he⟩ | ⟨k, hm, he⟩
        · exact Or.inl ⟨k, by simp at hm; simp [hm], he⟩
        · exact Or.inr ⟨k, by simp at hm; simp [hm], he⟩
      | some v => exact (ih its1 its' _ h).cons t

theorem evalSumTV_none_hasEmpty (e : Env K) (its its' : Its K) (ts : List (TAtom K))
    (h : evalSumTV e its ts = (its', none)) : HasEmpty its' ts := by
  cases ts with
  | nil => simp [evalSumTV] at h
  | cons t ts =>
    simp only [evalSumTV] at h
    cases hev : evalAtomTV e its t with
    | mk its1 o =>
      rw [hev] at h
      cases o with
      | none =>
        simp only [Prod.mk.injEq, and_true] at h
        subst h
        rcases evalAtomTV_none e its its1 t hev with ⟨k, hm, he⟩ | ⟨k, hm, he⟩
        · exact Or.inl ⟨k, by simp at hm; simp [hm], he⟩
        · exact Or.inr ⟨k, by simp at hm; simp [hm], he⟩
      | some v => exact (foldTV_none e ts its1 its' _ h).cons t

theorem runLoopTV_short_hasEmpty (sum : List (TAtom K)) (gain : Gain K) (shifts : List (Var × Var))
    (xs : List K) : ∀ (e : Env K) (its : Its K),
      (runLoopTV sum gain shifts e its xs).1.length < xs.length →
      HasEmpty (runLoopTV sum gain shifts e its xs).2 sum := by
  induction xs with
  | nil => intro e its h; simp at h
  | cons x xs ih =>
    intro e its h
    simp only [runLoopTV] at h ⊢
    cases hev : evalSumTV (e.set (.d 0) x) its sum with
    | mk its1 o =>
      rw [hev] at h
      cases o with
      | none => exact evalSumTV_none_hasEmpty _ _ _ _ hev
      | some s =>
        simp only [List.length_cons, Nat.add_lt_add_iff_right] at h ⊢
        exact ih _ _ h


/-! ### which delays own a `next(b{k})` / `next(a{k})` summand -/

theorem nextB_mem_numAtomsTV (cs : List (Coef K)) : ∀ (j k : Nat), TAtom.nextB k ∈ numAtomsTV j cs →
    j ≤ k ∧ ∃ s, cs[k - j]? = some (Coef.strm s) := by
  induction cs with
  | nil => intro j k h; simp [numAtomsTV] at h
  | cons c cs ih =>
    intro j k h
    cases c with
    | strm s =>
      simp only [numAtomsTV, List.mem_cons, TAtom.nextB.injEq] at h
      rcases h with h | h
      · subst h; exact ⟨Nat.le_refl _, s, by simp⟩
      · obtain ⟨hle, s', hs'⟩ := ih (j + 1) k h
        refine ⟨by omega, s', ?_⟩
        have : k - j = (k - (j + 1)) + 1 := by omega
        rw [this, List.getElem?_cons_succ]; exact hs'
    | const v =>
      simp only [numAtomsTV, List.mem_append, List.mem_map] at h
      rcases h with ⟨a, _, ha⟩ | h
      · cases ha
      · obtain ⟨hle, s', hs'⟩ := ih (j + 1) k h
        refine ⟨by omega, s', ?_⟩
        have : k - j = (k - (j + 1)) + 1 := by omega
        rw [this, List.getElem?_cons_succ]; exact hs'

theorem nextA_mem_denAtomsTV (cs : List (Coef K)) : ∀ (j k : Nat), TAtom.nextA k ∈ denAtomsTV j cs →
    j ≤ k ∧ ∃ s, cs[k - j]? = some (Coef.strm s) := by
  induction cs with
  | nil => intro j k h; simp [denAtomsTV] at h
  | cons c cs ih =>
    intro j k h
    cases c with
    | strm s =>
      simp only [denAtomsTV, List.mem_cons, TAtom.nextA.injEq] at h
      rcases h with h | h
      · subst h; exact ⟨Nat.le_refl _, s, by simp⟩
      · obtain ⟨hle, s', hs'⟩ := ih (j + 1) k h
        refine ⟨by omega, s', ?_⟩
        have : k - j = (k - (j + 1)) + 1 := by omega
        rw [this, List.getElem?_cons_succ]; exact hs'
    | const v =>
      simp only [denAtomsTV, List.mem_append, List.mem_map] at h
      rcases h with ⟨a, _, ha⟩ | h
      · cases ha
      · obtain ⟨hle, s', hs'⟩ := ih (j + 1) k h
        refine ⟨by omega, s', ?_⟩
        have : k - j = (k - (j + 1)) + 1 := by omega
        rw [this, List.getElem?_cons_succ]; exact hs'

theorem nextB_not_mem_denAtomsTV (cs : List (Coef K)) : ∀ (j k : Nat), TAtom.nextB k ∉ denAtomsTV j cs := by
  induction cs with
  | nil => intro j k h; simp [denAtomsTV] at h
  | cons c cs ih =>
    intro j k h
    cases c with
    | strm s =>
      simp only [denAtomsTV, List.mem_cons] at h
      rcases h with h | h
      · cases h
      · exact ih _ _ h
    | const v =>
      simp only [denAtomsTV, List.mem_append, List.mem_map] at h
      rcases h with ⟨a, _, ha⟩ | h
      · cases ha
      · exact ih _ _ h

theorem nextA_not_mem_numAtomsTV (cs : List (Coef K)) : ∀ (j k : Nat), TAtom.nextA k ∉ numAtomsTV j cs := by
  induction cs with
  | nil => intro j k h; simp [numAtomsTV] at h
  | cons c cs ih =>
    intro j k h
    cases c with
    | strm s =>
      simp only [numAtomsTV, List.mem_cons] at h
      rcases h with h | h
      · cases h
      · exact ih _ _ h
    | const v =>
      simp only [numAtomsTV, List.mem_append, List.mem_map] at h
      rcases h with ⟨a, _, ha⟩ | h
      · cases ha
      · exact ih _ _ h

/-! ### the first output was ended by a coefficient stream: the second output is empty -/

/-- constant gain: the failed last evaluation left an empty iterator, the object holds it -/
theorem callTwice_const_short (num den : Terms (Coef K)) (mem1 mem2 : Mem K) (zero1 zero2 : K)
    (xs1 xs2 : List K) (g : K) (h : NormObj num den) (h0 : coefAt den 0 = Coef.const g)
    (ys : List K) (its : Its K) (hr : callTV num den mem1 zero1 xs1 = .ok (ys, its))
    (hne : ys.length ≠ xs1.length) :
    (callTwice num den mem1 zero1 xs1 mem2 zero2 xs2).2.map Prod.fst = .ok [] := by
  have hg : g ≠ 0 := by
    intro hz; subst hz; exact h.h0 h0
  have hu := callTV_const_unfold num den mem1 zero1 xs1 g h.hc h0 hg
  rw [hu] at hr
  simp only [Except.ok.injEq] at hr
  have hlenE := evalTV_length (dense num) (dense den).tail g zero1
    (memoryOf zero1 (dense den).tail.length mem1) xs1 (memoryOf_length _ _ _)
  rw [hr] at hlenE
  simp only at hlenE
  have hlt : endLen xs1.length (dense num ++ (dense den).tail) < xs1.length := by
    have := endLen_le (dense num ++ (dense den).tail) xs1.length
    omega
  obtain ⟨s0, hs0, _⟩ := endLen_lt_exists _ _ hlt
  have hnz : ¬ ((∀ c ∈ dense num, c = Coef.const 0) ∧ (∀ c ∈ (dense den).tail, c = Coef.const 0)) := by
    intro hz
    rcases List.mem_append.1 hs0 with hm | hm
    · have := hz.1 _ hm; cases this
    · have := hz.2 _ hm; cases this
  rw [compileTV_loop _ _ g zero1 hnz] at hr
  simp only [evalTV] at hr
  have hE := runLoopTV_short_hasEmpty (numAtomsTV 0 (dense num) ++ denAtomsTV 1 (dense den).tail)
    (if g = -1 then Gain.negOne else if g ≠ 1 then Gain.div g else Gain.one)
    (mShifts (dense den).tail.length ++ dShifts ((dense num).length - 1)) xs1
    ⟨0 :: memoryOf zero1 (dense den).tail.length mem1, 0 :: List.replicate ((dense num).length - 1) zero1⟩
    (itsOf (dense num) (dense den).tail)
  rw [hr] at hE
  simp only at hE
  have hE' := hE (by omega)
  -- the object after the call
  simp only [callTwice, objAfter, hu, h0]
  rw [compileTV_loop _ _ g zero1 hnz]
  simp only [evalTV, hr]
  rw [advance_eq_vmap, advance_eq_vmap]
  have hN := normObj_vmap _ _ (shape_advance 0 its.b) (shape_advance 1 its.a) num den h
  have hend : Coef.strm [] ∈ dense (vmap (fun (k : Int) (c : Coef K) => match c with
        | .strm _ => Coef.strm (its.b.getD (k.toNat - 0) [])
        | .const v => Coef.const v) num)
      ++ (dense (vmap (fun (k : Int) (c : Coef K) => match c with
        | .strm _ => Coef.strm (its.a.getD (k.toNat - 1) [])
        | .const v => Coef.const v) den)).tail := by
    rcases hE' with ⟨k, hm, he⟩ | ⟨k, hm, he⟩
    · rcases List.mem_append.1 hm with hm | hm
      · obtain ⟨_, s, hs⟩ := nextB_mem_numAtomsTV _ _ _ hm
        rw [Nat.sub_zero] at hs
        have := dense_vmap_get _ (shape_advance 0 its.b) num k _ hs
        simp only [Int.toNat_natCast, Nat.sub_zero, he] at this
        exact List.mem_append_left _ (List.mem_of_getElem? this)
      · exact absurd hm (nextB_not_mem_denAtomsTV _ _ _)
    · rcases List.mem_append.1 hm with hm | hm
      · exact absurd hm (nextA_not_mem_numAtomsTV _ _ _)
      · obtain ⟨hk1, s, hs⟩ := nextA_mem_denAtomsTV _ _ _ hm
        rw [List.getElem?_tail] at hs
        have hkk : k - 1 + 1 = k := by omega
        rw [hkk] at hs
        have := dense_vmap_get _ (shape_advance 1 its.a) den k _ hs
        simp only [Int.toNat_natCast, he] at this
        apply List.mem_append_right
        have h2 : (dense (vmap (fun (k : Int) (c : Coef K) => match c with
            | .strm _ => Coef.strm (its.a.getD (k.toNat - 1) [])
            | .const v => Coef.const v) den)).tail[k - 1]? = some (Coef.strm []) := by
          rw [List.getElem?_tail, hkk]; exact this
        exact List.mem_of_getElem? h2
  refine callTV_ended_stream _ _ mem2 zero2 xs2 hN ?_ (List.mem_cons_of_mem _ hend)
  intro hz
  rcases List.mem_append.1 hend with hm | hm
  · have := hz.1 _ hm; cases this
  · have := hz.2 _ hm; cases this

theorem dense_vmap_dropC (t : Terms (Coef K)) (k : Nat) :
    dense (vmap (fun (_ : Int) (c : Coef K) => c.dropC k) t) = (dense t).map (Coef.dropC k) :=
  dense_map_dropC t k

theorem coefAt_vmap_dropC (t : Terms (Coef K)) (k : Nat) (j : Int) :
    coefAt (vmap (fun (_ : Int) (c : Coef K) => c.dropC k) t) j = (coefAt t j).dropC k :=
  coefAt_map_dropC t k j

/-- Stream gain: the ended stream has exactly `|ys|` items, `|ys|` items further it is empty -/
theorem callTwice_gain_short (num den : Terms (Coef K)) (mem1 mem2 : Mem K) (zero1 zero2 : K)
    (xs1 xs2 : List K) (gs : List K) (h : NormObj num den) (h0 : coefAt den 0 = Coef.strm gs)
    (ys : List K) (its : Its K) (hr : callTV num den mem1 zero1 xs1 = .ok (ys, its))
    (hne : ys.length ≠ xs1.length) :
    (callTwice num den mem1 zero1 xs1 mem2 zero2 xs2).2.map Prod.fst = .ok [] := by
  have hnz : ¬ ((∀ c ∈ dense num, c = Coef.const 0) ∧ (∀ c ∈ (dense den).tail, c = Coef.const 0)) := by
    intro hz
    have := (callTV_normalised num den mem1 zero1 xs1 h.hnum h.hden h.hstored h.hc h.h0).1 hz
    rw [hr] at this
    simp only [Except.map, Except.ok.injEq] at this
    apply hne
    rw [this, List.length_map]
  obtain ⟨ys', its', hr', hl⟩ := callTV_length num den mem1 zero1 xs1 h.hnum h.hden h.hstored h.hc h.h0
    (fun hcor => hnz hcor.2)
  rw [hr] at hr'
  simp only [Except.ok.injEq, Prod.mk.injEq] at hr'
  obtain ⟨rfl, rfl⟩ := hr'
  have hlt : endLen xs1.length (coefAt den 0 :: (dense num ++ (dense den).tail)) < xs1.length := by
    have := endLen_le (coefAt den 0 :: (dense num ++ (dense den).tail)) xs1.length
    omega
  obtain ⟨s, hs, hsl⟩ := endLen_lt_exists _ _ hlt
  rw [← hl] at hsl
  simp only [callTwice, objAfter, hr, h0]
  show (callTV (vmap (fun (_ : Int) (c : Coef K) => c.dropC ys.length) num)
    (vmap (fun (_ : Int) (c : Coef K) => c.dropC ys.length) den) mem2 zero2 xs2).map Prod.fst = _
  have hN := normObj_vmap _ _ (shape_dropC ys.length) (shape_dropC ys.length) num den h
  refine callTV_ended_stream _ _ mem2 zero2 xs2 hN ?_ ?_
  · rw [dense_vmap_dropC, dense_vmap_dropC, ← List.map_tail, map_dropC_zero, map_dropC_zero]
    exact hnz
  · rw [dense_vmap_dropC, dense_vmap_dropC, coefAt_vmap_dropC, ← List.map_tail, ← List.map_append,
      ← List.map_cons]
    have := List.mem_map_of_mem (f := Coef.dropC ys.length) hs
    have hd : s.drop ys.length = [] := List.drop_eq_nil_of_le (by omega)
    have h3 : Coef.dropC ys.length (Coef.strm s) = Coef.strm [] := by simp [Coef.dropC, hd]
    rw [h3] at this
    exact this

/-! ### the first output was ended by its input: the object holds every stream `|xs1|` further -/

theorem callTV_congr_dense (num den num' den' : Terms (Coef K)) (mem : Mem K) (zero : K) (xs : List K)
    (h : NormObj num den) (h' : NormObj num' den') (hn : dense num = dense num')
    (hd : dense den = dense den') (h0 : coefAt den 0 = coefAt den' 0) :
    (callTV num den mem zero xs).map Prod.fst = (callTV num' den' mem zero xs).map Prod.fst := by
  have a := callTV_normalised num den mem zero xs h.hnum h.hden h.hstored h.hc h.h0
  have b := callTV_normalised num' den' mem zero xs h'.hnum h'.hden h'.hstored h'.hc h'.h0
  rw [← hn, ← hd, ← h0] at b
  by_cases hz : (∀ c ∈ dense num, c = Coef.const 0) ∧ (∀ c ∈ (dense den).tail, c = Coef.const 0)
  · rw [a.1 hz, b.1 hz]
  · rw [a.2 hz, b.2 hz]

theorem callTwice_full_len (num den : Terms (Coef K)) (mem1 mem2 : Mem K) (zero1 zero2 : K)
    (xs1 xs2 : List K) (h : NormObj num den)
    (ys : List K) (its : Its K) (hr : callTV num den mem1 zero1 xs1 = .ok (ys, its))
    (hlen : ys.length = xs1.length) :
    (callTwice num den mem1 zero1 xs1 mem2 zero2 xs2).2.map Prod.fst
      = (callTV (num.map fun kv => (kv.1, kv.2.dropC xs1.length))
          (den.map fun kv => (kv.1, kv.2.dropC xs1.length)) mem2 zero2 xs2).map Prod.fst := by
  cases h0 : coefAt den 0 with
  | strm gs => simp only [callTwice, objAfter, hr, h0, hlen]
  | const g =>
    have ht := callTV_take num den mem1 zero1 xs1 h.hnum h.hden h.hstored h.hc h.h0 ys.length ys its hr
      (Nat.le_refl _)
    rw [hlen, List.take_length, hr] at ht
    simp only [Except.ok.injEq, Prod.mk.injEq, loopCoeffs, h0] at ht
    obtain ⟨_, hits⟩ := ht
    simp only [callTwice, objAfter, h0, hr]
    rw [hits]
    simp only
    have hN1 : NormObj (advance 0 num ((dense num).map (fun c => c.items.drop xs1.length)))
        (advance 1 den ((dense den).tail.map (fun c => c.items.drop xs1.length))) := by
      rw [advance_eq_vmap, advance_eq_vmap]
      exact normObj_vmap _ _ (shape_advance 0 _) (shape_advance 1 _) num den h
    have hN2 := normObj_vmap _ _ (shape_dropC xs1.length) (shape_dropC xs1.length) num den h
    refine callTV_congr_dense _ _ _ _ mem2 zero2 xs2 hN1 hN2 ?_ ?_ ?_
    · rw [dense_advance_num, dense_map_dropC]
    · rw [dense_advance_den den g h0, dense_map_dropC]
    · rw [coefAt_advance, h0, coefAt_map_dropC, h0]
      rfl

/-! ### `Poly(dict)` and `LinearFilter.__init__` commute with `dropC` -/

theorem tinsert_mapD (d : Coef K → Coef K) (k : Int) (v : Coef K) (t : Terms (Coef K)) :
    tinsert k (d v) (t.map fun kv => (kv.1, d kv.2)) = (tinsert k v t).map fun kv => (kv.1, d kv.2) := by
  induction t with
  | nil => rfl
  | cons kv r ih =>
    obtain ⟨k', v'⟩ := kv
    simp only [List.map_cons, tinsert]
    by_cases h1 : k < k'
    · simp [h1]
    · by_cases h2 : k = k'
      · simp [h1, h2]
      · simp [h1, h2, ih]

theorem foldl_tinsert_mapD (d : Coef K → Coef K) (pairs : List (Int × Coef K)) :
    ∀ acc : Terms (Coef K),
      (pairs.map fun kv => (kv.1, d kv.2)).foldl (fun acc kv => tinsert kv.1 kv.2 acc)
          (acc.map fun kv => (kv.1, d kv.2))
        = (pairs.foldl (fun acc kv => tinsert kv.1 kv.2 acc) acc).map fun kv => (kv.1, d kv.2) := by
  induction pairs with
  | nil => intro acc; rfl
  | cons kv r ih =>
    intro acc
    simp only [List.map_cons, List.foldl_cons]
    rw [tinsert_mapD, ih]

theorem dropC_beq_zero (n : Nat) (c : Coef K) : (c.dropC n == 0) = (c == 0) := by
  cases c with
  | const v => rfl
  | strm s =>
    have h1 : (Coef.strm (s.drop n) == (0 : Coef K)) = false := by
      simp [strm_ne_zero (s.drop n)]
    have h2 : (Coef.strm s == (0 : Coef K)) = false := by
      simp [strm_ne_zero s]
    simp only [Coef.dropC, h1, h2]

theorem mkPoly_map_dropC (n : Nat) (pairs : List (Int × Coef K)) :
    mkPoly (pairs.map fun kv => (kv.1, kv.2.dropC n)) = (mkPoly pairs).map fun kv => (kv.1, kv.2.dropC n) := by
  unfold mkPoly
  have := foldl_tinsert_mapD (Coef.dropC n) pairs []
  simp only [List.map_nil] at this
  rw [this, List.filter_map]
  congr 1
  apply List.filter_congr
  intro kv _
  simp only [Function.comp, dropC_beq_zero]

theorem minKey_map_snd (f : Int × Coef K → Coef K) (t : Terms (Coef K)) :
    minKey (t.map fun kv => (kv.1, f kv)) = minKey t := by
  induction t with
  | nil => rfl
  | cons kv r ih =>
    obtain ⟨k, v⟩ := kv
    simp only [List.map_cons, minKey, ih]

theorem shiftKeys_map_dropC (p : Int) (n : Nat) (t : Terms (Coef K)) :
    shiftKeys p (t.map fun kv => (kv.1, kv.2.dropC n)) = (shiftKeys p t).map fun kv => (kv.1, kv.2.dropC n) := by
  simp [shiftKeys, List.map_map, Function.comp]

theorem minKey_mem (t : Terms (Coef K)) (p : Int) (h : minKey t = some p) : ∃ v, (p, v) ∈ t := by
  induction t generalizing p with
  | nil => simp [minKey] at h
  | cons kv r ih =>
    obtain ⟨k, v⟩ := kv
    simp only [minKey] at h
    cases hm : minKey r with
    | none =>
      rw [hm] at h
      simp only [Option.some.injEq] at h
      subst h
      exact ⟨v, by simp⟩
    | some k' =>
      rw [hm] at h
      simp only [Option.some.injEq] at h
      by_cases hlt : k' < k
      · rw [if_pos hlt] at h
        subst h
        obtain ⟨v', hv'⟩ := ih k' hm
        exact ⟨v', List.mem_cons_of_mem _ hv'⟩
      · rw [if_neg hlt] at h
        subst h
        exact ⟨v, by simp⟩

theorem callTV_noncausal (num den : Terms (Coef K)) (mem : Mem K) (zero : K) (xs : List K)
    (h : ∃ kv ∈ num ++ den, kv.1 < 0) :
    callTV num den mem zero xs = .error .valueError := by
  have : checkCausal num den = false := by
    simp only [checkCausal, Bool.not_eq_false', List.any_eq_true]
    obtain ⟨kv, hm, hlt⟩ := h
    exact ⟨kv, hm, by simpa using hlt⟩
  simp [callTV, this]

/-! ### the two-call contract, every history -/

/-- **two calls, every history**: the code-shaped two-call model on the normalised object equals the
two-call contract stated on the raw constructor pairs: refused calls (twice the same error), first
output ended by its input (the second call goes on with every coefficient stream `|xs1|` items
further), first output ended by a coefficient stream (the second output is empty). -/
theorem callTwice_eq_specCallTwice_full (numPairs denPairs : List (Int × Coef K)) (mem1 mem2 : Mem K)
    (zero1 zero2 : K) (xs1 xs2 : List K) (n0 d0 : Terms (Coef K))
    (hn : normalise (mkPoly numPairs) (mkPoly denPairs) = .ok (n0, d0)) :
    ((callTwice n0 d0 mem1 zero1 xs1 mem2 zero2 xs2).1.map Prod.fst,
     (callTwice n0 d0 mem1 zero1 xs1 mem2 zero2 xs2).2.map Prod.fst)
      = specCallTwice numPairs denPairs mem1 zero1 xs1 mem2 zero2 xs2 := by
  have h1 := filterCallTV_eq_specCallTV_full numPairs denPairs mem1 zero1 xs1
  simp only [filterCallTV, hn] at h1
  -- the shape of the normalised object
  cases hmin : minKey (mkPoly denPairs) with
  | none => simp [normalise, hmin] at hn
  | some p =>
    rw [normalise_ok _ _ p hmin] at hn
    simp only [Except.ok.injEq, Prod.mk.injEq] at hn
    obtain ⟨hn0, hd0⟩ := hn
    have hsn : List.Pairwise (fun x y : Int × Coef K => x.1 < y.1) n0 := by
      rw [← hn0]; exact shiftKeys_sorted p _ (mkPoly_sorted numPairs)
    have hsd : List.Pairwise (fun x y : Int × Coef K => x.1 < y.1) d0 := by
      rw [← hd0]; exact shiftKeys_sorted p _ (mkPoly_sorted denPairs)
    have hst : ∀ kv ∈ n0 ++ d0, kv.2 ≠ Coef.const 0 := by
      intro kv hkv
      rcases List.mem_append.1 hkv with hm | hm
      · rw [← hn0] at hm; exact shiftKeys_nonzero p _ (mkPoly_nonzero numPairs) kv hm
      · rw [← hd0] at hm; exact shiftKeys_nonzero p _ (mkPoly_nonzero denPairs) kv hm
    have h00 : coefAt d0 0 ≠ Coef.const 0 := by
      obtain ⟨v, hv⟩ := minKey_mem _ p hmin
      rw [← hd0, coefAt_shiftKeys, Int.zero_add,
        coefAt_of_mem_sorted _ (mkPoly_sorted denPairs) p v hv]
      exact mkPoly_nonzero denPairs (p, v) hv
    -- the second call of the contract on the continued streams is a call of the mapped object
    have h2 := filterCallTV_eq_specCallTV_full (numPairs.map fun kv => (kv.1, kv.2.dropC xs1.length))
      (denPairs.map fun kv => (kv.1, kv.2.dropC xs1.length)) mem2 zero2 xs2
    have hmin' : minKey ((mkPoly denPairs).map fun kv => (kv.1, kv.2.dropC xs1.length)) = some p := by
      rw [minKey_map_snd (fun kv => kv.2.dropC xs1.length)]; exact hmin
    simp only [filterCallTV, mkPoly_map_dropC] at h2
    rw [normalise_ok _ _ p hmin'] at h2
    simp only [shiftKeys_map_dropC, hn0, hd0] at h2
    unfold specCallTwice
    simp only
    rw [← h1, ← h2]
    have hfst : (callTwice n0 d0 mem1 zero1 xs1 mem2 zero2 xs2).1 = callTV n0 d0 mem1 zero1 xs1 := rfl
    rw [hfst]
    congr 1
    by_cases hcz : ∀ kv ∈ n0 ++ d0, 0 ≤ kv.1
    · have hN : NormObj n0 d0 := ⟨hsn, hsd, hst, hcz, h00⟩
      cases hr : callTV n0 d0 mem1 zero1 xs1 with
      | error e =>
        exfalso
        have a := callTV_normalised n0 d0 mem1 zero1 xs1 hsn hsd hst hcz h00
        by_cases hz : (∀ c ∈ dense n0, c = Coef.const 0) ∧ (∀ c ∈ (dense d0).tail, c = Coef.const 0)
        · have := a.1 hz; rw [hr] at this; simp [Except.map] at this
        · have := a.2 hz; rw [hr] at this; simp [Except.map] at this
      | ok r =>
        obtain ⟨ys, its⟩ := r
        simp only [Except.map]
        by_cases hlen : ys.length = xs1.length
        · rw [if_pos hlen]
          exact callTwice_full_len n0 d0 mem1 mem2 zero1 zero2 xs1 xs2 hN ys its hr hlen
        · rw [if_neg hlen]
          cases h0 : coefAt d0 0 with
          | const g => exact callTwice_const_short n0 d0 mem1 mem2 zero1 zero2 xs1 xs2 g hN h0 ys its hr hlen
          | strm gs => exact callTwice_gain_short n0 d0 mem1 mem2 zero1 zero2 xs1 xs2 gs hN h0 ys its hr hlen
    · have hex : ∃ kv ∈ n0 ++ d0, kv.1 < 0 := by
        by_contra hcon
        apply hcz
        intro kv hkv
        by_contra hlt
        exact hcon ⟨kv, hkv, by omega⟩
      have e1 := callTV_noncausal n0 d0 mem1 zero1 xs1 hex
      have e2 := callTV_noncausal n0 d0 mem2 zero2 xs2 hex
      simp only [callTwice, objAfter, e1, e2, Except.map]

end ALV.C06
