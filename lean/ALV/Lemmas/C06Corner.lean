/-
  C06 — helper lemmas, part 7: the call unfolded to the generated loop it runs (constant gain and
  variable-gain path), the all-zero corner, and the domain of `reads_once` / `ends_with_shortest`.
-/
import ALV.Lemmas.C06Pipeline

set_option linter.unusedSectionVars false
set_option linter.unusedSimpArgs false
set_option linter.unusedVariables false
namespace ALV.C06
open ALV.C04
variable {K : Type} [Field K] [DecidableEq K]

/-! ### constants never end the output and own no iterator -/

theorem endLen_consts (cs : List (Coef K)) (n : Nat) (h : ∀ c ∈ cs, c = Coef.const 0) :
    endLen n cs = n := by
  induction cs with
  | nil => rfl
  | cons c cs ih =>
    have hc : c = Coef.const 0 := h c (by simp)
    subst hc
    simpa [endLen] using ih (fun c hc => h c (by simp [hc]))

theorem map_items_drop_consts (l : List (Coef K)) (k : Nat) (h : ∀ c ∈ l, c = Coef.const 0) :
    l.map (fun c => c.items.drop k) = l.map Coef.items := by
  apply List.map_congr_left
  intro c hc
  rw [h c hc]
  simp [Coef.items]

/-- the all-zero filter run on a prefix of the input: the iterators (there is none over a Stream)
are where `reads_once` says -/
theorem evalTV_allzero_take (b as : List (Coef K)) (a0 : Coef K) (zero : K) (mem xs : List K) (k : Nat)
    (hz : (∀ c ∈ b, c = Coef.const 0) ∧ (∀ c ∈ as, c = Coef.const 0)) :
    evalTV (compileTV b (a0 :: as) zero) mem zero (itsOf b as) (xs.take k)
      = ((evalTV (compileTV b (a0 :: as) zero) mem zero (itsOf b as) xs).1.take k,
         ⟨b.map (fun c => c.items.drop k), as.map (fun c => c.items.drop k)⟩) := by
  rw [compileTV_const b as a0 zero hz]
  simp only [evalTV, List.map_take, map_items_drop_consts b k hz.1, map_items_drop_consts as k hz.2,
    itsOf]

/-! ### the call, unfolded to the loop it runs -/

/-- the coefficient lists the loop is generated from: the dense lists of the filter object, or —
Stream gain — every stored coefficient times `1/a0` (its own tee copy) -/
def loopCoeffs (num den : Terms (Coef K)) : List (Coef K) × List (Coef K) :=
  match coefAt den 0 with
  | .strm gs =>
    ((dense num).map (mulPresent (Coef.strm (gs.map (1 / ·)))),
     (dense den).tail.map (mulPresent (Coef.strm (gs.map (1 / ·)))))
  | .const _ => (dense num, (dense den).tail)

/-- the gain the loop is generated with -/
def loopGain (den : Terms (Coef K)) : K :=
  match coefAt den 0 with
  | .strm _ => 1
  | .const g => g

theorem callConst_unfold (num den : Terms (Coef K)) (mem : Mem K) (zero : K) (xs : List K) (g : K)
    (hc : ∀ kv ∈ num ++ den, 0 ≤ kv.1) (h0 : coefAt den 0 = Coef.const g) (hg : g ≠ 0) :
    callConst num den mem zero xs
      = .ok (evalTV (compileTV (dense num) (Coef.const g :: (dense den).tail) zero)
          (memoryOf zero (dense den).tail.length mem) zero (itsOf (dense num) (dense den).tail) xs) := by
  have hcausal := checkCausal_of_nonneg num den hc
  have hd := dense_cons_coef den g h0 hg
  have hl : (dense den).length - 1 = (dense den).tail.length := by simp
  simp only [callConst, hcausal, Bool.not_true, Bool.false_eq_true, if_false, h0, hg, hl]
  rw [← hd]

theorem callTV_const_unfold (num den : Terms (Coef K)) (mem : Mem K) (zero : K) (xs : List K) (g : K)
    (hc : ∀ kv ∈ num ++ den, 0 ≤ kv.1) (h0 : coefAt den 0 = Coef.const g) (hg : g ≠ 0) :
    callTV num den mem zero xs
      = .ok (evalTV (compileTV (dense num) (Coef.const g :: (dense den).tail) zero)
          (memoryOf zero (dense den).tail.length mem) zero (itsOf (dense num) (dense den).tail) xs) := by
  have hcausal := checkCausal_of_nonneg num den hc
  rw [← callConst_unfold num den mem zero xs g hc h0 hg]
  simp only [callTV, hcausal, Bool.not_true, Bool.false_eq_true, if_false, h0]

/-- the variable-gain path, unfolded: rewriting on the dictionaries, `ZFilter(…)` (a no-op
normalisation), second `__call__` with the constant gain 1 -/
theorem callTV_gain_unfold (num rest : Terms (Coef K)) (gs : List K) (mem : Mem K) (zero : K) (xs : List K)
    (hnum : List.Pairwise (fun x y : Int × Coef K => x.1 < y.1) num)
    (hden : List.Pairwise (fun x y : Int × Coef K => x.1 < y.1) (((0 : Int), Coef.strm gs) :: rest))
    (hstored : ∀ kv ∈ num ++ rest, kv.2 ≠ Coef.const 0) (hcn : ∀ kv ∈ num, 0 ≤ kv.1) :
    callTV num (((0 : Int), Coef.strm gs) :: rest) mem zero xs
      = .ok (evalTV (compileTV ((dense num).map (mulPresent (Coef.strm (gs.map (1 / ·)))))
            (Coef.const 1 :: (dense (((0 : Int), Coef.strm gs) :: rest)).tail.map
              (mulPresent (Coef.strm (gs.map (1 / ·))))) zero)
          (memoryOf zero (dense (((0 : Int), Coef.strm gs) :: rest)).tail.length mem) zero
          (itsOf ((dense num).map (mulPresent (Coef.strm (gs.map (1 / ·)))))
            ((dense (((0 : Int), Coef.strm gs) :: rest)).tail.map
              (mulPresent (Coef.strm (gs.map (1 / ·)))))) xs) := by
  have hpos : ∀ kv ∈ rest, (0 : Int) < kv.1 := (List.pairwise_cons.1 hden).1
  have hc : ∀ kv ∈ num ++ (((0 : Int), Coef.strm gs) :: rest), 0 ≤ kv.1 := by
    intro kv hkv
    rcases List.mem_append.1 hkv with h | h
    · exact hcn kv h
    · rcases List.mem_cons.1 h with rfl | h
      · simp
      · exact Int.le_of_lt (hpos kv h)
  have hcausal := checkCausal_of_nonneg _ _ hc
  have hg0 : coefAt (((0 : Int), Coef.strm gs) :: rest) 0 = Coef.strm gs := by simp [coefAt]
  have hpos' : ∀ kv ∈ rest.map (fun kv : Int × Coef K => (kv.1, kv.2 * Coef.strm (gs.map (1 / ·)))),
      (0 : Int) < kv.1 := by
    intro kv hkv
    obtain ⟨kv', hkv', rfl⟩ := List.mem_map.1 hkv
    exact hpos kv' hkv'
  have hmin := minKey_append_zero _ (1 : Coef K) hpos'
  have hnorm : normalise (num.map (fun kv => (kv.1, kv.2 * Coef.strm (gs.map (1 / ·)))))
      (rest.map (fun kv => (kv.1, kv.2 * Coef.strm (gs.map (1 / ·)))) ++ [((0 : Int), (1 : Coef K))])
      = .ok (num.map (fun kv => (kv.1, kv.2 * Coef.strm (gs.map (1 / ·)))),
             rest.map (fun kv => (kv.1, kv.2 * Coef.strm (gs.map (1 / ·)))) ++ [((0 : Int), (1 : Coef K))]) := by
    simp only [normalise, hmin]
    rfl
  have hc' : ∀ kv ∈ num.map (fun kv : Int × Coef K => (kv.1, kv.2 * Coef.strm (gs.map (1 / ·))))
      ++ (rest.map (fun kv : Int × Coef K => (kv.1, kv.2 * Coef.strm (gs.map (1 / ·)))) ++ [((0 : Int), (1 : Coef K))]),
      0 ≤ kv.1 := by
    intro kv hkv
    rcases List.mem_append.1 hkv with h | h
    · obtain ⟨kv', hkv', rfl⟩ := List.mem_map.1 h
      exact hcn kv' hkv'
    · rcases List.mem_append.1 h with h | h
      · exact Int.le_of_lt (hpos' kv h)
      · simp at h; subst h; simp
  have h1 : coefAt (rest.map (fun kv : Int × Coef K => (kv.1, kv.2 * Coef.strm (gs.map (1 / ·))))
      ++ [((0 : Int), (1 : Coef K))]) 0 = Coef.const 1 := coefAt_append_zero_self _ _ hpos'
  have hdn := dense_map_mul num (gs.map (1 / ·)) (fun kv hk => hstored kv (by simp [hk]))
  have hdd := dense_den3 rest (Coef.strm gs) (gs.map (1 / ·)) hpos (fun kv hk => hstored kv (by simp [hk]))
  simp only [callTV, hcausal, Bool.not_true, Bool.false_eq_true, if_false, hg0]
  rw [gainPath_eq num rest gs hnum hden]
  simp only [hnorm]
  rw [callConst_unfold _ _ mem zero xs 1 hc' h1 one_ne_zero, hdn, hdd, List.tail_cons, List.length_map]

/-- any normalised causal filter object: `__call__` runs the loop generated from `loopCoeffs` with
the constant gain `loopGain` -/
theorem callTV_unfold (num den : Terms (Coef K)) (mem : Mem K) (zero : K) (xs : List K)
    (hnum : List.Pairwise (fun x y : Int × Coef K => x.1 < y.1) num)
    (hden : List.Pairwise (fun x y : Int × Coef K => x.1 < y.1) den)
    (hstored : ∀ kv ∈ num ++ den, kv.2 ≠ Coef.const 0) (hc : ∀ kv ∈ num ++ den, 0 ≤ kv.1)
    (h0 : coefAt den 0 ≠ Coef.const 0) :
    callTV num den mem zero xs
      = .ok (evalTV (compileTV (loopCoeffs num den).1 (Coef.const (loopGain den) :: (loopCoeffs num den).2) zero)
          (memoryOf zero (loopCoeffs num den).2.length mem) zero
          (itsOf (loopCoeffs num den).1 (loopCoeffs num den).2) xs) := by
  obtain ⟨rest, hD⟩ := sorted_head_zero den hden (fun kv hkv => hc kv (by simp [hkv])) h0
  cases ha : coefAt den 0 with
  | const g =>
    have hg : g ≠ 0 := by
      intro h; subst h; exact h0 ha
    simp only [loopCoeffs, loopGain, ha]
    exact callTV_const_unfold num den mem zero xs g hc ha hg
  | strm gs =>
    rw [ha] at hD
    subst hD
    have hst : ∀ kv ∈ num ++ rest, kv.2 ≠ Coef.const 0 := by
      intro kv hkv
      apply hstored kv
      rcases List.mem_append.1 hkv with h | h
      · simp [h]
      · simp [h]
    have hcn : ∀ kv ∈ num, 0 ≤ kv.1 := fun kv hkv => hc kv (by simp [hkv])
    simp only [loopCoeffs, loopGain, ha, List.length_map]
    exact callTV_gain_unfold num rest gs mem zero xs hnum hden hst hcn

/-- `loopCoeffs` is all-zero exactly when the filter object is -/
theorem loopCoeffs_allzero (num den : Terms (Coef K)) :
    ((∀ c ∈ (loopCoeffs num den).1, c = Coef.const 0) ∧ (∀ c ∈ (loopCoeffs num den).2, c = Coef.const 0))
      ↔ ((∀ c ∈ dense num, c = Coef.const 0) ∧ (∀ c ∈ (dense den).tail, c = Coef.const 0)) := by
  unfold loopCoeffs
  cases coefAt den 0 with
  | const g => exact Iff.rfl
  | strm gs => simp only [map_mulPresent_zero]

/-! ### `reads_once` and `ends_with_shortest` for the loop, all-zero filter included -/

/-- **reads once**, any constant gain, any coefficients (the all-zero filter has no Stream) -/
theorem evalTV_take (b as : List (Coef K)) (a0 zero : K) (mem xs : List K) (k : Nat)
    (hk : k ≤ (evalTV (compileTV b (Coef.const a0 :: as) zero) mem zero (itsOf b as) xs).1.length) :
    evalTV (compileTV b (Coef.const a0 :: as) zero) mem zero (itsOf b as) (xs.take k)
      = ((evalTV (compileTV b (Coef.const a0 :: as) zero) mem zero (itsOf b as) xs).1.take k,
         ⟨b.map (fun c => c.items.drop k), as.map (fun c => c.items.drop k)⟩) := by
  by_cases hz : (∀ c ∈ b, c = Coef.const 0) ∧ (∀ c ∈ as, c = Coef.const 0)
  · exact evalTV_allzero_take b as _ zero mem xs k hz
  · rw [compileTV_loop b as a0 zero hz, itsOf_eq] at hk ⊢
    simp only [evalTV] at hk ⊢
    rw [runLoopTV_take b as _ _ xs k 0 0 0 mem _ hk]
    simp [itsAt]

/-- **ends with the shortest**, any constant gain, any coefficients -/
theorem evalTV_length (b as : List (Coef K)) (a0 zero : K) (mem xs : List K)
    (hmem : mem.length = as.length) :
    (evalTV (compileTV b (Coef.const a0 :: as) zero) mem zero (itsOf b as) xs).1.length
      = endLen xs.length (b ++ as) := by
  by_cases hz : (∀ c ∈ b, c = Coef.const 0) ∧ (∀ c ∈ as, c = Coef.const 0)
  · rw [compileTV_const b as _ zero hz]
    simp only [evalTV, List.length_map]
    rw [endLen_consts]
    intro c hc
    rcases List.mem_append.1 hc with h | h
    · exact hz.1 c h
    · exact hz.2 c h
  · rw [evalTV_eq_tvspec b as a0 zero mem xs hmem hz, tvspec_length]
    rfl

/-! ### the same for the whole call, with the exact domain -/

/-- the output of `__call__` ends with the shortest of input, coefficient streams and gain stream —
on every normalised causal filter object except the all-zero filter with a Stream gain -/
theorem callTV_length (num den : Terms (Coef K)) (mem : Mem K) (zero : K) (xs : List K)
    (hnum : List.Pairwise (fun x y : Int × Coef K => x.1 < y.1) num)
    (hden : List.Pairwise (fun x y : Int × Coef K => x.1 < y.1) den)
    (hstored : ∀ kv ∈ num ++ den, kv.2 ≠ Coef.const 0) (hc : ∀ kv ∈ num ++ den, 0 ≤ kv.1)
    (h0 : coefAt den 0 ≠ Coef.const 0)
    (hcorner : ¬ ((coefAt den 0).isStream = true ∧ (∀ c ∈ dense num, c = Coef.const 0)
      ∧ (∀ c ∈ (dense den).tail, c = Coef.const 0))) :
    ∃ ys its, callTV num den mem zero xs = .ok (ys, its) ∧
      ys.length = endLen xs.length (coefAt den 0 :: (dense num ++ (dense den).tail)) := by
  by_cases hz : (∀ c ∈ dense num, c = Coef.const 0) ∧ (∀ c ∈ (dense den).tail, c = Coef.const 0)
  · cases ha : coefAt den 0 with
    | strm gs =>
      rw [ha] at hcorner
      exact absurd ⟨rfl, hz⟩ hcorner
    | const g =>
      have hg : g ≠ 0 := by
        intro h; subst h; exact h0 ha
      refine ⟨_, _, callTV_const_allzero num den mem zero xs g hc ha hg hz, ?_⟩
      simp only [List.length_map, endLen]
      rw [endLen_consts]
      intro c hc
      rcases List.mem_append.1 hc with h | h
      · exact hz.1 c h
      · exact hz.2 c h
  · have h := (callTV_normalised num den mem zero xs hnum hden hstored hc h0).2 hz
    cases hr : callTV num den mem zero xs with
    | error e => rw [hr] at h; simp [Except.map] at h
    | ok r =>
      rw [hr] at h
      simp only [Except.map, Except.ok.injEq] at h
      refine ⟨r.1, r.2, rfl, ?_⟩
      rw [h, tvspec_length]

/-- `reads_once` for the whole call: after `k` outputs every iterator handed to the generated loop
has been advanced by exactly `k` items -/
theorem callTV_take (num den : Terms (Coef K)) (mem : Mem K) (zero : K) (xs : List K)
    (hnum : List.Pairwise (fun x y : Int × Coef K => x.1 < y.1) num)
    (hden : List.Pairwise (fun x y : Int × Coef K => x.1 < y.1) den)
    (hstored : ∀ kv ∈ num ++ den, kv.2 ≠ Coef.const 0) (hc : ∀ kv ∈ num ++ den, 0 ≤ kv.1)
    (h0 : coefAt den 0 ≠ Coef.const 0) (k : Nat) (ys : List K) (its : Its K)
    (hr : callTV num den mem zero xs = .ok (ys, its)) (hk : k ≤ ys.length) :
    callTV num den mem zero (xs.take k)
      = .ok (ys.take k, ⟨(loopCoeffs num den).1.map (fun c => c.items.drop k),
                          (loopCoeffs num den).2.map (fun c => c.items.drop k)⟩) := by
  rw [callTV_unfold num den mem zero _ hnum hden hstored hc h0] at hr ⊢
  simp only [Except.ok.injEq] at hr
  have h1 : ys = (evalTV (compileTV (loopCoeffs num den).1
      (Coef.const (loopGain den) :: (loopCoeffs num den).2) zero)
      (memoryOf zero (loopCoeffs num den).2.length mem) zero
      (itsOf (loopCoeffs num den).1 (loopCoeffs num den).2) xs).1 := by rw [hr]
  rw [h1] at hk ⊢
  rw [evalTV_take _ _ _ zero _ xs k hk]

end ALV.C06
