/-
  C04 — the definitions REGENERATED from the source (`ALV/Gen/C04Src.lean`, written by
  `harness/props/c04_tr.py` on every check) are the hand-written model (`ALV/Model/C04.lean`).
  Core Lean only.
-/
import ALV.Gen.C04Src
set_option linter.unusedSectionVars false
namespace ALV.C04.SrcLemmas
open ALV.C04 ALV.C04.Py
variable {α : Type}

theorem xrangeUp_length (lo hi : Nat) : (xrangeUp lo hi).length = hi - lo := by simp [xrangeUp]

theorem xrangeUp_zero (n : Nat) : xrangeUp 0 n = List.range n := by simp [xrangeUp]

theorem shiftsM (lm : Nat) :
    (xrangeDown lm 0).map (fun idx => (Var.m idx, Var.m (idx - 1))) = mShifts lm := by
  simp [xrangeDown, mShifts, List.map_map, Function.comp_def]

theorem shiftsD (nd : Nat) :
    (xrangeDown nd 0).map (fun idx => (Var.d idx, Var.d (idx - 1))) = dShifts nd := by
  simp [xrangeDown, dShifts, List.map_map, Function.comp_def]

section compile
variable [Neg α] [OfNat α 0] [OfNat α 1] [DecidableEq α]

theorem numLoop (b : List α) (k : Nat) (st : St α) :
    forItems ALV.Gen.C04.numBody k b st = ⟨st.data_sum ++ numAtoms k b, st.gain⟩ := by
  induction b generalizing k st with
  | nil => simp [forItems, numAtoms]
  | cons c cs ih =>
    rw [forItems, ih, numAtoms]
    unfold ALV.Gen.C04.numBody
    by_cases h1 : c = 1
    · simp only [if_pos h1]; simp
    · by_cases h2 : c = -1
      · simp only [if_neg h1, if_pos h2]; simp
      · by_cases h3 : c ≠ 0
        · simp only [if_neg h1, if_neg h2, if_pos h3]; simp
        · simp only [if_neg h1, if_neg h2, if_neg h3]; simp

/-- the denominator loop from delay `k ≥ 1` on: only summands -/
theorem denLoopTail (as : List α) (k : Nat) (hk : k ≠ 0) (st : St α) :
    forItems ALV.Gen.C04.denBody k as st = ⟨st.data_sum ++ denAtoms k as, st.gain⟩ := by
  induction as generalizing k st with
  | nil => simp [forItems, denAtoms]
  | cons c cs ih =>
    rw [forItems, ih _ (by omega), denAtoms]
    unfold ALV.Gen.C04.denBody
    simp only [if_neg hk]
    by_cases h1 : c = -1
    · simp only [if_pos h1]; simp
    · by_cases h2 : c = 1
      · simp only [if_neg h1, if_pos h2]; simp
      · by_cases h3 : c ≠ 0
        · simp only [if_neg h1, if_neg h2, if_pos h3]; simp
        · simp only [if_neg h1, if_neg h2, if_neg h3]; simp

/-- the whole denominator loop: delay 0 sets the gain, the rest are the feedback summands -/
theorem denLoop (a : List α) (st : St α) :
    forItems ALV.Gen.C04.denBody 0 a st
      = ⟨st.data_sum ++ denAtoms 1 a.tail, a.headD st.gain⟩ := by
  cases a with
  | nil => simp [forItems, denAtoms]
  | cons a0 as =>
    rw [forItems, denLoopTail _ _ (by omega)]
    simp [ALV.Gen.C04.denBody]

theorem compile_eq (b a : List α) (zero : α) : ALV.Gen.C04.compile b a zero = compile b a zero := by
  unfold ALV.Gen.C04.compile compile
  simp only [numLoop, denLoop, List.nil_append, xrangeUp_length, shiftsM, shiftsD]
  have hlen : ∀ l : List (Atom α), (l.length = 0) = (l.isEmpty = true) := by
    intro l; cases l <;> simp
  have hm : (if a.length > 1 then a.length - 1 else 0) = a.length - 1 := by split <;> omega
  have hb : (if b.length > 1 then b.length - 1 else 0) = b.length - 1 := by split <;> omega
  simp only [hlen, hm, hb]

end compile

theorem memoryOf_eq (zero : α) (lm : Nat) (mem : Mem α) :
    ALV.Gen.C04.memoryOf zero lm mem = memoryOf zero lm mem := by
  have pad : ∀ l : List α,
      (if (l.take lm).length < lm then zeroPad (l.take lm) (lm - (l.take lm).length) zero else l.take lm)
        = memFromIter zero lm l := by
    intro l
    unfold memFromIter zeroPad
    split
    · rfl
    · have : lm - (l.take lm).length = 0 := by omega
      show _ = List.replicate (lm - (l.take lm).length) zero ++ l.take lm
      rw [this]; simp
  cases mem with
  | none => simp [ALV.Gen.C04.memoryOf, memoryOf, isNone, xrangeUp_zero, List.map_const']
  | iter l => simpa [ALV.Gen.C04.memoryOf, memoryOf, isNone, isIterable, takewhileIdxLt] using pad l
  | gen g =>
    have h := pad ((List.range lm).map g)
    have ht : ((List.range lm).map g).take lm = (List.range lm).map g := List.take_of_length_le (by simp)
    rw [ht] at h
    simpa [ALV.Gen.C04.memoryOf, memoryOf, isNone, isIterable, takewhileIdxLt, memFromIter] using h
  | callable f => simpa [ALV.Gen.C04.memoryOf, memoryOf, isNone, isIterable, callMem, takewhileIdxLt] using pad (f lm)

section call
variable [Add α] [Mul α] [Sub α] [Neg α] [Div α] [OfNat α 0] [OfNat α 1] [DecidableEq α]

theorem call_eq (num den : Terms α) (mem : Mem α) (zero : α) (xs : List α) :
    ALV.Gen.C04.call num den mem zero xs = call num den mem zero xs := by
  unfold ALV.Gen.C04.call call checkCausal
  simp only [compile_eq, memoryOf_eq, Bool.not_not]

end call
end ALV.C04.SrcLemmas
