/-
  C07 — Lagrange interpolation: `lagrange.func(pairs)` passes through its points
  (distinct abscissae; at least two points for the code as it stands, at least one
  for the repaired variant); the single-point failure D14.
-/
import Mathlib.Algebra.BigOperators.Group.List.Basic
import ALV.Lemmas.C07Eval

set_option linter.unusedSectionVars false

namespace ALV.C07
variable {K : Type} [Field K] [DecidableEq K]

/-! ### generic unfolding of `lagrangeGen` -/

theorem mapM_ok {α β : Type} (f : α → Except PyErr β) (g : α → β) (l : List α)
    (h : ∀ a ∈ l, f a = .ok (g a)) : l.mapM f = .ok (l.map g) := by
  induction l with
  | nil => rfl
  | cons a t ih =>
    rw [List.mapM_cons, h a List.mem_cons_self, ih (fun b hb => h b (List.mem_cons_of_mem _ hb))]
    rfl

/-- the factors of the j-th basis polynomial -/
def lagFactors {β : Type} (ops : LagOps K β) (xv : List K) (rj : K) (k : β) : List β :=
  (xv.filter (fun rk => !decide (rj = rk))).map (fun rk => ops.divS (ops.subS k rk) (rj - rk))

def prodFold {β : Type} (ops : LagOps K β) (fixed : Bool) : List β → β
  | [] => ops.one
  | a :: t => if fixed then (a :: t).foldl ops.mul ops.one else t.foldl ops.mul a

def sumFold {β : Type} (ops : LagOps K β) (z : β) : List β → β
  | [] => z
  | t :: ts => ts.foldl ops.add (ops.zeroAdd t)

theorem prodReduce_ok {β : Type} (ops : LagOps K β) (fixed : Bool) (fs : List β)
    (h : fixed = true ∨ fs ≠ []) :
    prodReduce ops.mul (if fixed then some ops.one else none) fs = .ok (prodFold ops fixed fs) := by
  cases fs with
  | nil =>
    rcases h with h | h
    · subst h; rfl
    · exact absurd rfl h
  | cons a t =>
    cases fixed <;> rfl

theorem lagrangeGen_ok {β : Type} (ops : LagOps K β) (fixed : Bool) (z : β) (pairs : List (K × K))
    (k : β) (hne : pairs ≠ [])
    (h : fixed = true ∨ ∀ pr ∈ pairs, lagFactors ops (pairs.map (·.1)) pr.1 k ≠ []) :
    lagrangeGen ops fixed z pairs k =
      .ok (sumFold ops z (pairs.map fun pr =>
        ops.scale pr.2 (prodFold ops fixed (lagFactors ops (pairs.map (·.1)) pr.1 k)))) := by
  unfold lagrangeGen
  have he : pairs.isEmpty = false := by cases pairs <;> simp_all
  simp only [he, Bool.false_eq_true, if_false]
  rw [mapM_ok _ (fun pr => ops.scale pr.2 (prodFold ops fixed (lagFactors ops (pairs.map (·.1)) pr.1 k)))]
  · cases hp : pairs.map (fun pr =>
        ops.scale pr.2 (prodFold ops fixed (lagFactors ops (pairs.map (·.1)) pr.1 k))) with
    | nil => rfl
    | cons t ts => rfl
  · intro pr hpr
    have : prodReduce ops.mul (if fixed then some ops.one else none)
        (lagFactors ops (pairs.map (·.1)) pr.1 k) = _ :=
      prodReduce_ok ops fixed _ (h.imp id (fun h => h pr hpr))
    unfold lagFactors at this
    simp only [bind, Except.bind, this]
    rfl

/-- D14: one interpolation point ⇒ the product is empty ⇒ `reduce` raises TypeError -/
theorem lagrangeGen_single_point {β : Type} (ops : LagOps K β) (z : β) (x y : K) (k : β) :
    lagrangeGen ops false z [(x, y)] k = .error .type := by
  simp [lagrangeGen, prodReduce, List.mapM_cons, bind, Except.bind]

theorem lagrangeGen_no_point {β : Type} (ops : LagOps K β) (fixed : Bool) (z : β) (k : β) :
    lagrangeGen ops fixed z [] k = .error .value := rfl

/-! ### numbers -/

theorem foldl_mul_eq (l : List K) (a : K) : l.foldl (fun a b => a * b) a = a * l.prod := by
  induction l generalizing a with
  | nil => simp
  | cons b t ih => simp [ih, mul_assoc]

theorem prodFold_num (fixed : Bool) (fs : List K) : prodFold numOps fixed fs = fs.prod := by
  cases fs with
  | nil => rfl
  | cons a t =>
    cases fixed
    · simp [prodFold, numOps, foldl_mul_eq]
    · simp only [prodFold, numOps, if_true]
      rw [foldl_mul_eq]; simp

theorem foldl_add_eq' (l : List K) (a : K) : l.foldl (fun a b => a + b) a = a + l.sum := by
  induction l generalizing a with
  | nil => simp
  | cons b t ih => simp [ih, add_assoc]

theorem sumFold_num (l : List K) : sumFold numOps 0 l = l.sum := by
  cases l with
  | nil => rfl
  | cons a t => simp [sumFold, numOps, foldl_add_eq']

/-- the Waring–Lagrange formula `Σ_j y_j · Π_{k ≠ j} (v − x_k)/(x_j − x_k)` -/
def lagSum (pairs : List (K × K)) (v : K) : K :=
  (pairs.map fun pr => pr.2 *
    (((pairs.map (·.1)).filter (fun rk => !decide (pr.1 = rk))).map
      (fun rk => (v - rk) / (pr.1 - rk))).prod).sum

theorem lagFactors_ne_nil {β : Type} (ops : LagOps K β) {pairs : List (K × K)} (k : β)
    (hd : (pairs.map (·.1)).Nodup) (h2 : 2 ≤ pairs.length) :
    ∀ pr ∈ pairs, lagFactors ops (pairs.map (·.1)) pr.1 k ≠ [] := by
  intro pr hpr
  unfold lagFactors
  intro hnil
  rw [List.map_eq_nil_iff, List.filter_eq_nil_iff] at hnil
  -- every abscissa equals pr.1, impossible with two distinct ones
  have hall : ∀ a ∈ pairs.map (·.1), a = pr.1 := by
    intro a ha
    have := hnil a ha
    have h' : pr.1 = a := by simpa using this
    exact h'.symm
  match pairs, hd, h2, hall with
  | a :: b :: t, hd, _, hall =>
    simp only [List.map_cons, List.nodup_cons, List.mem_cons, not_or] at hd
    have ha := hall a.1 (by simp)
    have hb := hall b.1 (by simp)
    exact hd.1.1 (ha.trans hb.symm)

theorem lagrangeFunc_eq_lagSum {pairs : List (K × K)} (fixed : Bool) (v : K) (hne : pairs ≠ [])
    (h : fixed = true ∨ ((pairs.map (·.1)).Nodup ∧ 2 ≤ pairs.length)) :
    lagrangeFunc pairs v fixed = .ok (lagSum pairs v) := by
  unfold lagrangeFunc
  rw [lagrangeGen_ok numOps fixed 0 pairs v hne
    (h.imp id (fun h => lagFactors_ne_nil numOps v h.1 h.2)), sumFold_num]
  congr 2
  apply List.map_congr_left
  intro pr _
  rw [prodFold_num]
  rfl

/-! ### the interpolation property -/

theorem basis_at_node {xs : List K} {xi rj : K} (hi : xi ∈ xs) :
    ((xs.filter (fun rk => !decide (rj = rk))).map (fun rk => (xi - rk) / (rj - rk))).prod =
      if rj = xi then 1 else 0 := by
  by_cases h : rj = xi
  · subst h
    simp only [if_true]
    apply List.prod_eq_one
    intro a ha
    obtain ⟨rk, hrk, rfl⟩ := List.mem_map.1 ha
    have hne : rj ≠ rk := by simpa using (List.mem_filter.1 hrk).2
    exact div_self (sub_ne_zero.2 hne)
  · simp only [h, if_false]
    apply List.prod_eq_zero
    apply List.mem_map.2
    refine ⟨xi, List.mem_filter.2 ⟨hi, by simpa using h⟩, by simp⟩

theorem sum_single_node {pairs : List (K × K)} (hd : (pairs.map (·.1)).Nodup) {xi yi : K}
    (hm : (xi, yi) ∈ pairs) :
    (pairs.map fun pr => pr.2 * (if pr.1 = xi then (1 : K) else 0)).sum = yi := by
  induction pairs with
  | nil => simp at hm
  | cons a t ih =>
    simp only [List.map_cons, List.nodup_cons] at hd
    rcases List.mem_cons.1 hm with h | h
    · subst h
      simp only [List.map_cons, List.sum_cons, if_true, mul_one]
      suffices hs : (t.map fun pr => pr.2 * (if pr.1 = xi then (1 : K) else 0)).sum = 0 by
        rw [hs, add_zero]
      apply List.sum_eq_zero
      intro b hb
      obtain ⟨pr, hpr, rfl⟩ := List.mem_map.1 hb
      have : pr.1 ≠ xi := fun e => hd.1 (List.mem_map.2 ⟨pr, hpr, e⟩)
      simp [this]
    · have : a.1 ≠ xi := fun e => hd.1 (List.mem_map.2 ⟨(xi, yi), h, e.symm⟩)
      rw [List.map_cons, List.sum_cons, ih hd.2 h, if_neg this]
      simp

/-- the Waring–Lagrange sum takes the value `y_i` at the abscissa `x_i` -/
theorem lagSum_at_node {pairs : List (K × K)} (hd : (pairs.map (·.1)).Nodup) {xi yi : K}
    (hm : (xi, yi) ∈ pairs) : lagSum pairs xi = yi := by
  unfold lagSum
  have hi : xi ∈ pairs.map (·.1) := List.mem_map.2 ⟨(xi, yi), hm, rfl⟩
  rw [← sum_single_node hd hm]
  congr 1
  apply List.map_congr_left
  intro pr _
  rw [basis_at_node hi]

end ALV.C07
