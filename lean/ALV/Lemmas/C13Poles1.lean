/-
  C13 — helper lemmas, part 9: the single pole of every lowpass / highpass strategy.
-/
import ALV.Lemmas.C13Shape
import ALV.Lemmas.C13Complex

set_option linter.unusedSectionVars false
set_option linter.unusedSimpArgs false

namespace ALV.C13
open ALV ALV.TrigField Complex

/-- the pole of `lowpass[st](c)`: `R` for the all-pole designs (`1 - R z⁻¹`), `-R` for the
one-zero designs (`1 + R z⁻¹`) -/
noncomputable def lowpassPoleAt (st : Strategy) (c : ℝ) : ℝ :=
  match st with
  | .pole | .poleExp => lowpassR st c
  | .z | .zExp => -lowpassR st c

/-- the pole of `highpass[st](c)`: `-R` for the all-pole designs (`1 + R z⁻¹`), `R` for the
one-zero designs (`1 - R z⁻¹`) -/
noncomputable def highpassPoleAt (st : Strategy) (c : ℝ) : ℝ :=
  match st with
  | .pole | .poleExp => -highpassR st c
  | .z | .zExp => highpassR st c

theorem lowpass_isPole_iff (st : Strategy) (c : ℝ) (p : ℂ) :
    IsPole (lowpass st c) p ↔ p ≠ 0 ∧ p = ((lowpassPoleAt st c : ℝ) : ℂ) := by
  rw [lowpass_eq]
  cases st <;> simp only [lowpassPoleAt, onePoleLP, oneZeroLP, isPole_first, neg_neg]

theorem highpass_isPole_iff (st : Strategy) (c : ℝ) (p : ℂ) :
    IsPole (highpass st c) p ↔ p ≠ 0 ∧ p = ((highpassPoleAt st c : ℝ) : ℂ) := by
  rw [highpass_eq]
  cases st <;> simp only [highpassPoleAt, onePoleHP, oneZeroHP, isPole_first, neg_neg]

theorem lowpassPoleAt_abs (st : Strategy) (c : ℝ) (h0 : 0 < c) (h1 : c < Real.pi) :
    |lowpassPoleAt st c| < 1 := by
  obtain ⟨a, b, _⟩ := lowpassR_bounds st c h0 h1
  cases st <;> simp only [lowpassPoleAt] <;> rw [abs_lt] <;> constructor <;> linarith

theorem highpassPoleAt_abs (st : Strategy) (c : ℝ) (h0 : 0 < c) (h1 : c < Real.pi) :
    |highpassPoleAt st c| < 1 := by
  obtain ⟨a, b, _⟩ := highpassR_bounds st c h0 h1
  cases st <;> simp only [highpassPoleAt] <;> rw [abs_lt] <;> constructor <;> linarith

end ALV.C13
