/-
  C09 — lemmas of round 4: rejected keyword sets of the wrapper, zero blocks, short signals,
  histories of partial applications.
-/
import ALV.Lemmas.C09Wnd
import ALV.Lemmas.C08
import ALV.Model.C09Hist
namespace ALV.C09
open ALV.C08

/-! ### the loop over the remaining keywords: what it rejects -/

theorem routeRest_error (ola : PV) : ∀ (rest acc : Dict) (e : PlanErr), routeRest ola rest acc = .error e →
    (∃ k v k', e = .olaOptionWithoutOla k ∧ (k, v) ∈ rest ∧ k = "ola_" ++ k' ∧ ola = .none) ∨
    (∃ k v, e = .unknownKey k ∧ (k, v) ∈ rest ∧ stripOla k = none) := by
  intro rest
  induction rest with
  | nil => intro acc e h; simp [routeRest] at h
  | cons kv rest ih =>
    intro acc e h
    obtain ⟨k, v⟩ := kv
    unfold routeRest at h
    cases hs : stripOla k with
    | none =>
      simp only [hs, Except.error.injEq] at h
      exact Or.inr ⟨k, v, h.symm, List.mem_cons_self, hs⟩
    | some k' =>
      simp only [hs] at h
      by_cases ho : ola = .none
      · simp only [ho, ne_eq, not_true_eq_false, if_false, Except.error.injEq] at h
        exact Or.inl ⟨k, v, k', h.symm, List.mem_cons_self, (stripOla_spec _ _).1 hs, ho⟩
      · simp only [ne_eq, ho, not_false_eq_true, if_true] at h
        rcases ih _ _ h with ⟨k1, v1, k1', he, hm, hk, ho'⟩ | ⟨k1, v1, he, hm, hk⟩
        · exact Or.inl ⟨k1, v1, k1', he, List.mem_cons_of_mem _ hm, hk, ho'⟩
        · exact Or.inr ⟨k1, v1, he, List.mem_cons_of_mem _ hm, hk⟩

/-- the keywords left after the eight `pop`s -/
def restKws (merged : Dict) : Dict :=
  List.filter (fun x => decide (x.fst ≠ "after"))
    (List.filter (fun x => decide (x.fst ≠ "before"))
    (List.filter (fun x => decide (x.fst ≠ "inverse_transform"))
    (List.filter (fun x => decide (x.fst ≠ "transform"))
    (List.filter (fun x => decide (x.fst ≠ "ola"))
    (List.filter (fun x => decide (x.fst ≠ "wnd"))
    (List.filter (fun x => decide (x.fst ≠ "hop"))
    (List.filter (fun x => decide (x.fst ≠ "size")) merged)))))))

theorem mem_restKws (merged : Dict) (kv : String × PV) :
    kv ∈ restKws merged ↔ kv ∈ merged ∧
      kv.1 ∉ ["size", "hop", "wnd", "ola", "transform", "inverse_transform", "before", "after"] := by
  simp only [restKws, List.mem_filter, decide_eq_true_eq, List.mem_cons, List.not_mem_nil, or_false,
    not_or]
  tauto

/-! ### zero blocks -/

section zero
variable {K : Type} [Add K] [Mul K] [OfNat K 0]

theorem olaSpec_nil (g : K) (w : List K) (size hop : Nat) :
    olaSpec g w size hop [] = List.replicate (size - hop) 0 := by
  unfold olaSpec
  have : olaAt g w size hop ([] : List (List K)) = fun _ => (0 : K) := by
    funext n; rfl
  rw [this]
  simp

end zero

/-! ### signals too short to form a block -/

theorem nFull_short (size hop len : Nat) (h : len < size) : nFull size hop len = 0 := by
  simp [nFull, h]

theorem blocksClosed_short {α : Type} (size hop : Nat) (h0 : 0 < hop) (hh : hop ≤ size) (pad : α) (xs : List α)
    (h : xs.length ≤ size - hop) : blocksClosed size hop pad xs = [] := by
  have hl : xs.length < size := by omega
  unfold blocksClosed
  simp only [nFull_short size hop xs.length hl, List.range_zero, List.map_nil, Nat.zero_mul,
    List.drop_zero, List.nil_append]
  rw [if_neg]
  omega

theorem blocksClosed_nonempty {α : Type} (size hop : Nat) (pad : α) (xs : List α)
    (h : size - hop < xs.length) : blocksClosed size hop pad xs ≠ [] := by
  unfold blocksClosed
  by_cases hl : xs.length < size
  · simp only [nFull_short size hop xs.length hl, List.range_zero, List.map_nil, Nat.zero_mul,
      List.drop_zero, List.nil_append]
    rw [if_pos (by omega)]
    simp
  · have : nFull size hop xs.length = (xs.length - size) / hop + 1 := by simp [nFull, hl]
    simp [this, List.range_succ]

/-! ### histories of partial applications -/

theorem runOps_snoc (ops : List POp) (op : POp) : runOps (ops ++ [op]) = pstep (runOps ops) op := by
  simp [runOps, List.foldl_append]

theorem runChains_snoc (ops : List POp) (op : POp) : runChains (ops ++ [op]) = cstep (runChains ops) op := by
  simp [runChains, List.foldl_append]

/-- one event only appends -/
theorem pstep_prefix (s : PStore) (op : POp) :
    (∃ t, (pstep s op).partials = s.partials ++ t) ∧ (∃ u, (pstep s op).procs = s.procs ++ u) := by
  cases op <;> simp [pstep]

theorem foldl_pstep_prefix (more : List POp) : ∀ s : PStore,
    (∃ t, (more.foldl pstep s).partials = s.partials ++ t) ∧
    (∃ u, (more.foldl pstep s).procs = s.procs ++ u) := by
  induction more with
  | nil => intro s; exact ⟨⟨[], by simp⟩, ⟨[], by simp⟩⟩
  | cons op more ih =>
    intro s
    obtain ⟨⟨t1, h1⟩, ⟨u1, h2⟩⟩ := pstep_prefix s op
    obtain ⟨⟨t2, h3⟩, ⟨u2, h4⟩⟩ := ih (pstep s op)
    refine ⟨⟨t1 ++ t2, ?_⟩, ⟨u1 ++ u2, ?_⟩⟩
    · rw [List.foldl_cons, h3, h1, List.append_assoc]
    · rw [List.foldl_cons, h4, h2, List.append_assoc]

theorem runOps_append_prefix (ops more : List POp) :
    (∃ t, (runOps (ops ++ more)).partials = (runOps ops).partials ++ t) ∧
    (∃ u, (runOps (ops ++ more)).procs = (runOps ops).procs ++ u) := by
  unfold runOps
  rw [List.foldl_append]
  exact foldl_pstep_prefix more _

theorem stftDefaults_nil : stftDefaults [] = [] := rfl

theorem getD_map_stftDefaults (l : List (List Dict)) (i : Nat) :
    (l.map stftDefaults).getD i [] = stftDefaults (l.getD i []) := by
  simp only [List.getD_eq_getElem?_getD, List.getElem?_map]
  cases l[i]? <;> rfl

/-- one event keeps "every record is the merge of its own path" -/
theorem pstep_cstep (s : PStore) (c : CStore) (op : POp)
    (h1 : s.partials = c.partials.map stftDefaults) (h2 : s.procs = c.procs.map stftDefaults) :
    (pstep s op).partials = (cstep c op).partials.map stftDefaults ∧
    (pstep s op).procs = (cstep c op).procs.map stftDefaults := by
  cases op with
  | new kw => simp [pstep, cstep, h1, h2, stftDefaults]
  | derive i kw =>
    simp only [pstep, cstep, PStore.record, h1, h2, getD_map_stftDefaults, List.map_append, List.map_cons,
      List.map_nil, stftDefaults_snoc, and_self]
  | build i kw =>
    simp only [pstep, cstep, PStore.record, h1, h2, getD_map_stftDefaults, List.map_append, List.map_cons,
      List.map_nil, stftDefaults_snoc, and_self]
  | direct kw => simp [pstep, cstep, h1, h2, stftDefaults]

theorem foldl_pstep_cstep (ops : List POp) : ∀ (s : PStore) (c : CStore),
    s.partials = c.partials.map stftDefaults → s.procs = c.procs.map stftDefaults →
    (ops.foldl pstep s).partials = (ops.foldl cstep c).partials.map stftDefaults ∧
    (ops.foldl pstep s).procs = (ops.foldl cstep c).procs.map stftDefaults := by
  induction ops with
  | nil => intro s c h1 h2; exact ⟨h1, h2⟩
  | cons op ops ih =>
    intro s c h1 h2
    obtain ⟨h3, h4⟩ := pstep_cstep s c op h1 h2
    exact ih _ _ h3 h4

theorem runOps_eq_chains (ops : List POp) :
    (runOps ops).partials = (runChains ops).partials.map stftDefaults ∧
    (runOps ops).procs = (runChains ops).procs.map stftDefaults :=
  foldl_pstep_cstep ops .empty .empty rfl rfl

/-! ### the tags of the wrapper's rejections are distinct -/

theorem app_inj (p a b : String) (h : p ++ a = p ++ b) : a = b := by
  have := congrArg String.toList h
  simp only [String.toList_append] at this
  exact String.toList_inj.1 (List.append_cancel_left this)
/-- first character of a tag -/
def hd (s : String) : Option Char := s.toList.head?
theorem hd_ola (k : String) : hd ("ola-option-without-ola:" ++ k) = some 'o' := by
  simp [hd, String.toList_append]
theorem hd_unk (k : String) : hd ("unknown-key:" ++ k) = some 'u' := by
  simp [hd, String.toList_append]
theorem hd_ms : hd "missing-size" = some 'm' := by decide
theorem hd_hg : hd "hop-gt-size" = some 'h' := by decide
theorem hd_hn : hd "hop-not-comparable" = some 'h' := by decide
theorem hd_ne (a b : String) (x y : Option Char) (ha : hd a = x) (hb : hd b = y) (hxy : x ≠ y) : a ≠ b := by
  intro e; subst e; exact hxy (ha.symm.trans hb)
theorem PlanErr.tag_inj (e e' : PlanErr) (h : e.tag = e'.tag) : e = e' := by
  cases e with
  | missingSize =>
    cases e' with
    | missingSize => rfl
    | hopGtSize => exact absurd h (hd_ne _ _ _ _ hd_ms hd_hg (by decide))
    | hopNotComparable => exact absurd h (hd_ne _ _ _ _ hd_ms hd_hn (by decide))
    | olaOptionWithoutOla k => exact absurd h (hd_ne _ _ _ _ hd_ms (hd_ola k) (by decide))
    | unknownKey k => exact absurd h (hd_ne _ _ _ _ hd_ms (hd_unk k) (by decide))
  | hopGtSize =>
    cases e' with
    | missingSize => exact absurd h (hd_ne _ _ _ _ hd_hg hd_ms (by decide))
    | hopGtSize => rfl
    | hopNotComparable => exact absurd h (by decide)
    | olaOptionWithoutOla k => exact absurd h (hd_ne _ _ _ _ hd_hg (hd_ola k) (by decide))
    | unknownKey k => exact absurd h (hd_ne _ _ _ _ hd_hg (hd_unk k) (by decide))
  | hopNotComparable =>
    cases e' with
    | missingSize => exact absurd h (hd_ne _ _ _ _ hd_hn hd_ms (by decide))
    | hopGtSize => exact absurd h (by decide)
    | hopNotComparable => rfl
    | olaOptionWithoutOla k => exact absurd h (hd_ne _ _ _ _ hd_hn (hd_ola k) (by decide))
    | unknownKey k => exact absurd h (hd_ne _ _ _ _ hd_hn (hd_unk k) (by decide))
  | olaOptionWithoutOla k0 =>
    cases e' with
    | missingSize => exact absurd h (hd_ne _ _ _ _ (hd_ola k0) hd_ms (by decide))
    | hopGtSize => exact absurd h (hd_ne _ _ _ _ (hd_ola k0) hd_hg (by decide))
    | hopNotComparable => exact absurd h (hd_ne _ _ _ _ (hd_ola k0) hd_hn (by decide))
    | olaOptionWithoutOla k => rw [app_inj "ola-option-without-ola:" k0 k h]
    | unknownKey k => exact absurd h (hd_ne _ _ _ _ (hd_ola k0) (hd_unk k) (by decide))
  | unknownKey k0 =>
    cases e' with
    | missingSize => exact absurd h (hd_ne _ _ _ _ (hd_unk k0) hd_ms (by decide))
    | hopGtSize => exact absurd h (hd_ne _ _ _ _ (hd_unk k0) hd_hg (by decide))
    | hopNotComparable => exact absurd h (hd_ne _ _ _ _ (hd_unk k0) hd_hn (by decide))
    | olaOptionWithoutOla k => exact absurd h (hd_ne _ _ _ _ (hd_unk k0) (hd_ola k) (by decide))
    | unknownKey k => rw [app_inj "unknown-key:" k0 k h]

end ALV.C09
