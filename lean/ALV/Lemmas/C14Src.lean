/-
  C14 — the program `Loop.model` (the reading of `_generate_window_strategies` the hand-written model was
  made for) runs, row by row and for every state, as the hand-written `genStep`.  Core Lean only.
-/
import ALV.Model.C14Loop
namespace ALV.C14.Loop
open ALV ALV.Gen.Windows ALV.C14

theorem lookup_append_of_none {β : Type} (k : String) (xs ys : List (String × β))
    (h : xs.lookup k = none) : (xs ++ ys).lookup k = ys.lookup k := by
  induction xs with
  | nil => rfl
  | cons x xs ih =>
    obtain ⟨a, b⟩ := x
    by_cases hk : k = a
    · subst hk; simp [List.lookup] at h
    · have : (k == a) = false := by simpa using hk
      simp only [List.cons_append, List.lookup, this] at h ⊢
      exact ih h

theorem lookup_filter_not_contains {β : Type} (k : String) (keys : List String) (xs : List (String × β))
    (h : k ∈ keys) : (xs.filter fun kv => !keys.contains kv.1).lookup k = none := by
  induction xs with
  | nil => rfl
  | cons x xs ih =>
    obtain ⟨a, b⟩ := x
    by_cases ha : keys.contains a
    · simp only [List.filter, ha, Bool.not_true]; exact ih
    · have hne : (k == a) = false := by
        have : k ≠ a := fun e => ha (by simpa [e] using h)
        simpa using this
      simp only [List.filter, ha, Bool.not_false, List.lookup, hne]; exact ih

/-- after `d[(k, …)] = v`, `d[k]` is `v` -/
theorem get_setKeys_head (d : SDict) (k : String) (ks : List String) (v : Func) :
    (d.setKeys (k :: ks) v).get k = some v := by
  unfold SDict.get SDict.setKeys
  rw [lookup_append_of_none _ _ _ (lookup_filter_not_contains k (k :: ks) d.items (by simp))]
  simp

/-- **every iteration of the outer loop of `Loop.model` is `genStep`** (all states, all rows with a name) -/
theorem model_row (st : State) (row : Row) (h : row.names ≠ []) :
    runRow model st row = some (genStep st row) := by
  obtain ⟨names, distinct, params⟩ := row
  cases names with
  | nil => exact absurd rfl h
  | cons sname rest =>
    have e1 : (DictId.window == DictId.wsymm) = false := by decide
    cases distinct <;>
      simp [runRow, model, foldM', runOuter, runSimple, runInners, runInner, runSimples, evalD, evalF, applyDec,
        nsRequired, setAttrs, setDict, State.dict, genStep, get_setKeys_head, e1, List.lookup]

theorem model_rows (rs : List Row) (h : ∀ r ∈ rs, r.names ≠ []) (st : State) :
    foldM' (runRow model) st rs = some (rs.foldl genStep st) := by
  induction rs generalizing st with
  | nil => rfl
  | cons r rs ih =>
    simp only [foldM', model_row st r (h r (by simp)), List.foldl]
    exact ih (fun r' hr' => h r' (by simp [hr'])) _

/-- **the whole loop of `Loop.model` is the fold of `genStep`** over any table whose rows have a name -/
theorem model_table (rs : List Row) (h : ∀ r ∈ rs, r.names ≠ []) :
    runTable model rs = some (rs.foldl genStep {}) := by
  have : model.table = ("window", "_content_generation_table") ∧ model.calls = 1 := ⟨rfl, rfl⟩
  simp only [runTable, this, and_self, if_true]
  exact model_rows rs h {}

end ALV.C14.Loop
