/-
  C11 — helper lemmas, part 7: the SHARP form of "step-down inverts step-up": for EVERY reflection
  vector (also with critical entries `k² = 1`, also with entries as close to ±1 as one likes) the
  step-down of `stepUp ks` yields the coefficients last first up to and including the first critical
  one and breaks down there; it completes when there is none.  No tolerance anywhere.
-/
import ALV.Lemmas.C11Coded

set_option linter.unusedSectionVars false
set_option linter.unusedVariables false

namespace ALV.C11
variable {K : Type} [Field K] [DecidableEq K]

theorem cutAtUnit_cons (k : K) (l : List K) :
    cutAtUnit (k :: l) = if k * k = 1 then ([k], true)
      else (k :: (cutAtUnit l).1, (cutAtUnit l).2) := rfl

/-- no critical entry: everything, no break-down -/
theorem cutAtUnit_of_ne : ∀ (l : List K), (∀ k ∈ l, k * k ≠ 1) → cutAtUnit l = (l, false)
  | [], _ => rfl
  | k :: l, h => by
    rw [cutAtUnit_cons, if_neg (h k (by simp)), cutAtUnit_of_ne l (fun x hx => h x (by simp [hx]))]

/-- break-down exactly when the vector has a critical entry -/
theorem cutAtUnit_raised_iff : ∀ (l : List K), (cutAtUnit l).2 = true ↔ ∃ k ∈ l, k * k = 1
  | [] => by simp [cutAtUnit]
  | k :: l => by
    rw [cutAtUnit_cons]
    by_cases hk : k * k = 1
    · simp [hk]
    · rw [if_neg hk]
      simp only [List.mem_cons, exists_eq_or_imp, hk, false_or]
      exact cutAtUnit_raised_iff l

/-- the yielded coefficients: the entries before the first critical one, then that one -/
theorem cutAtUnit_split : ∀ (l pre post : List K) (kc : K), l = pre ++ kc :: post →
    (∀ k ∈ pre, k * k ≠ 1) → kc * kc = 1 → cutAtUnit l = (pre ++ [kc], true)
  | _, [], post, kc, rfl, _, hc => by simp [cutAtUnit_cons, hc]
  | _, k :: pre, post, kc, rfl, h, hc => by
    rw [List.cons_append, cutAtUnit_cons, if_neg (h k (by simp)),
      cutAtUnit_split _ pre post kc rfl (fun x hx => h x (by simp [hx])) hc]
    rfl

/-- **sharp step-down of a stepped-up filter**: every reflection vector -/
theorem sdLoop_stepUp_sharp (ks : List K) :
    sdLoop ks.length (stepUp ks) = cutAtUnit ks.reverse := by
  induction ks using List.reverseRecOn with
  | nil => simp [sdLoop, cutAtUnit]
  | append_singleton ks k ih =>
    obtain ⟨t, ht⟩ := stepUp_head ks
    have hlast : (stepUp1 (stepUp ks) k).getLastD 0 = k := by
      rw [ht, stepUp1_getLast]; ring
    rw [stepUp_append, List.length_append, List.length_singleton, sdLoop_succ, hlast,
      List.reverse_append, List.reverse_singleton, List.singleton_append, cutAtUnit_cons]
    by_cases hk : k * k = 1
    · rw [if_pos hk, if_pos hk]
    · rw [if_neg hk, if_neg hk, stepDown1_stepUp1 _ _ hk, ih]

theorem parcorSpec_stepUp_sharp (ks : List K) (hlast : ks.getLastD 1 ≠ 0) :
    parcorSpec (stepUp ks) = cutAtUnit ks.reverse := by
  obtain ⟨t, ht⟩ := stepUp_head ks
  have hs : stripZeros (stepUp ks) = 1 :: t := by
    rw [stripZeros_of_last_ne _ (stepUp_last_ne ks hlast), ht]
  unfold parcorSpec
  rw [hs, monic_cons 1 t one_ne_zero]
  have : (1 : K) :: t.map (fun x => x / 1) = stepUp ks := by rw [ht]; simp
  rw [this]
  show sdLoop ((stepUp ks).length - 1) (stepUp ks) = _
  rw [stepUp_length, Nat.add_sub_cancel]
  exact sdLoop_stepUp_sharp ks

theorem stripZeros_stepUp (ks : List K) (hlast : ks.getLastD 1 ≠ 0) :
    ∃ t, stripZeros (stepUp ks) = 1 :: t := by
  obtain ⟨t, ht⟩ := stepUp_head ks
  exact ⟨t, by rw [stripZeros_of_last_ne _ (stepUp_last_ne ks hlast), ht]⟩

section Order
variable {L : Type} [Field L] [LinearOrder L] [IsStrictOrderedRing L]

theorem absLt1_sq_ne (k : L) (h : absLt1 k = true) : k * k ≠ 1 := by
  rw [absLt1_iff] at h
  simp only [Bool.and_eq_true, decide_eq_true_eq] at h
  intro hk
  nlinarith

/-- the verdict computed from `cutAtUnit`: every entry strictly inside (-1, 1) -/
theorem cutAtUnit_verdict : ∀ (l : List L),
    (!(cutAtUnit l).2 && (cutAtUnit l).1.all absLt1) = l.all absLt1
  | [] => by simp [cutAtUnit]
  | k :: l => by
    rw [cutAtUnit_cons]
    by_cases hk : k * k = 1
    · rw [if_pos hk]
      have : absLt1 k = false := by
        rw [Bool.eq_false_iff]; intro h; exact absLt1_sq_ne k h hk
      simp [this]
    · rw [if_neg hk]
      have ih := cutAtUnit_verdict l
      simp only [List.all_cons]
      rw [← ih]
      cases absLt1 k <;> simp

end Order

end ALV.C11
