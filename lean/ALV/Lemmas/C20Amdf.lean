/-
  C20 — index form of the moving average, the lag filter of `amdf`, envelope facts.
-/
import ALV.Lemmas.C20Mavg

namespace ALV.C20
variable {K : Type}
set_option linter.unusedSectionVars false

/-! ### items of the zero-extended window are `ext` -/

theorem win_get (zero : K) (xs : List K) (k m j : Nat) (hm : m ≤ xs.length) (hj : j < k) :
    (lastN k (List.replicate k zero ++ xs.take m))[j]? =
      some (ext zero xs ((m : Int) + (j : Int) - (k : Int))) := by
  unfold lastN ext
  have hlen : (List.replicate k zero ++ xs.take m).length - k = m := by
    simp [Nat.min_eq_left hm]
  rw [hlen, List.getElem?_drop, List.getElem?_append]
  by_cases h : m + j < k
  · have hneg : (m : Int) + (j : Int) - (k : Int) < 0 := by omega
    simp [h, hneg]
  · have hnn : ¬ ((m : Int) + (j : Int) - (k : Int) < 0) := by omega
    have hidx : ((m : Int) + (j : Int) - (k : Int)).toNat = m + j - k := by omega
    have hlt : m + j - k < m := by omega
    have hlt' : m + j - k < xs.length := by omega
    simp only [List.length_replicate, h, if_false, hnn, hidx]
    rw [List.getElem?_take_of_lt hlt]
    simp [List.getD_eq_getElem?_getD, List.getElem?_eq_getElem hlt']

section field
variable [Field K]

/-- the window read backwards is `x[n], x[n-1], …, x[n-size+1]` -/
theorem window_reverse (zero : K) (xs : List K) (size n : Nat) (hn : n < xs.length) :
    (List.range size).map (fun (k : Nat) => ext zero xs ((n : Int) - (k : Int))) =
      (lastN size (List.replicate size zero ++ xs.take (n + 1))).reverse := by
  have hlen : (lastN size (List.replicate size zero ++ xs.take (n + 1))).length = size := by
    apply lastN_length; simp
  apply List.ext_getElem?
  intro i
  by_cases hi : i < size
  · rw [List.getElem?_reverse (by omega), hlen,
      win_get zero xs size (n + 1) (size - 1 - i) (by omega) (by omega)]
    simp only [List.getElem?_map, List.getElem?_range hi, Option.map_some]
    congr 2
    omega
  · have h1 : ((List.range size).map (fun (k : Nat) => ext zero xs ((n : Int) - (k : Int))))[i]? = none := by
      apply List.getElem?_eq_none; simp; omega
    have h2 : (lastN size (List.replicate size zero ++ xs.take (n + 1))).reverse[i]? = none := by
      apply List.getElem?_eq_none; simp [hlen]; omega
    rw [h1, h2]

theorem mavgClosed_eq_mavgSpec (size : Nat) (zero : K) (xs : List K) :
    mavgClosed size zero xs = mavgSpec size zero xs := by
  unfold mavgClosed mavgSpec
  apply List.map_congr_left
  intro n hn
  have hn' : n < xs.length := List.mem_range.mp hn
  rw [window_reverse zero xs size n hn', sumL_reverse]

/-! ### the lag filter `1 - z^-lag` -/

def lagFrom : List K → List K → List K
  | _, [] => []
  | w, x :: xs => (x - w.headD 0) :: lagFrom (w.drop 1 ++ [x]) xs

theorem lagFrom_eq (lag : Nat) (hl : 0 < lag) (rest : List K) : ∀ pre : List K, lag ≤ pre.length →
    lagFrom (lastN lag pre) rest =
      (List.range rest.length).map fun n =>
        rest.getD n 0 - (lastN lag (pre ++ rest.take n)).headD 0 := by
  induction rest with
  | nil => intro pre _; simp [lagFrom]
  | cons x rest ih =>
    intro pre hp
    have hw := lastN_append_singleton lag pre x hl hp
    have ih' := ih (pre ++ [x]) (by simp; omega)
    rw [hw] at ih'
    simp only [lagFrom, List.length_cons, List.range_succ_eq_map, List.map_cons, List.map_map]
    rw [ih']
    congr 1
    · simp
    · apply List.map_congr_left; intro n _
      simp only [Function.comp, List.take_succ_cons, List.getD_cons_succ, List.append_assoc,
        List.singleton_append]

theorem lagLoop_eq (lag : Nat) (hl : 0 < lag) (xs : List K) :
    ∀ (w : List K) (s : FState K), w.length = lag → s.d = w.reverse → s.m = [] →
      floop (1 :: (List.replicate (lag - 1) 0 ++ [-1])) [] s xs = lagFrom w xs := by
  induction xs with
  | nil => intro w s _ _ _; simp [floop, lagFrom]
  | cons x rest ih =>
    intro w s hlw hd hm
    cases w with
    | nil => simp at hlw; omega
    | cons a wt =>
      have hwt : wt.reverse.length = lag - 1 := by simp at hlw ⊢; omega
      have hy : (fstep (1 :: (List.replicate (lag - 1) 0 ++ [-1])) [] s x).2 = x - a := by
        simp only [fstep, hd, List.reverse_cons, dot_cons, dot_nil_left]
        rw [dot_zeros_append _ _ _ _ hwt]
        ring
      simp only [floop, lagFrom, List.headD_cons, List.drop_succ_cons, List.drop_zero]
      rw [hy]
      congr 1
      apply ih
      · simpa using hlw
      · show (x :: s.d).take s.d.length = _
        rw [hd]; simp
      · simp [fstep, hm]

theorem lagFilter_eq_spec (lag : Nat) (zero : K) (xs : List K) :
    frun (lagNum lag) [] zero xs = lagDiffSpec lag zero xs := by
  by_cases hl : lag = 0
  · subst hl
    have hz : ∀ (ys : List K) (s : FState K), s.d = [] → s.m = [] →
        floop [0] [] s ys = ys.map fun _ => (0 : K) := by
      intro ys
      induction ys with
      | nil => intro s _ _; simp [floop]
      | cons y t ih =>
        intro s hd hm
        simp only [floop, List.map_cons]
        rw [ih _ (by simp [fstep, hd]) (by simp [fstep, hm])]
        simp [fstep, hd]
    have : lagDiffSpec 0 zero xs = xs.map fun _ => (0 : K) := by
      unfold lagDiffSpec
      apply List.ext_getElem (by simp)
      intro i h1 h2
      simp
    rw [this]
    simp only [frun, lagNum, if_true]
    exact hz xs _ (by simp [finit]) (by simp [finit])
  · have hl' : 0 < lag := Nat.pos_of_ne_zero hl
    have hnum : lagNum lag = (1 : K) :: (List.replicate (lag - 1) 0 ++ [-1]) := by
      simp [lagNum, hl]
    have h1 := lagLoop_eq lag hl' xs (List.replicate lag zero) (finit (lagNum lag) [] zero)
      (by simp) (by simp [finit, hnum]; omega) (by simp [finit])
    have h2 := lagFrom_eq lag hl' xs (List.replicate lag zero) (by simp)
    have e : lastN lag (List.replicate lag zero) = List.replicate lag zero := by
      simpa using lastN_eq_self (List.replicate lag zero)
    rw [e] at h2
    simp only [frun]
    rw [← hnum] at h1
    rw [h1, h2]
    unfold lagDiffSpec
    apply List.map_congr_left
    intro n hn
    have hn' : n < xs.length := List.mem_range.mp hn
    have hg := win_get zero xs lag n 0 (by omega) hl'
    have hhead : (lastN lag (List.replicate lag zero ++ xs.take n)).headD 0 =
        ext zero xs ((n : Int) - (lag : Int)) := by
      rw [List.headD_eq_head?_getD, List.head?_eq_getElem?, hg]
      simp
    rw [hhead]
    congr 1
    unfold ext
    have : ¬ ((n : Int) < 0) := by omega
    simp [this, List.getD_eq_getElem?_getD, List.getElem?_eq_getElem hn']

end field

/-! ### envelope: a one-pole low-pass with non-negative gain and pole keeps the sign -/
section ord
variable [Field K] [LinearOrder K] [IsStrictOrderedRing K]

theorem onePole_nonneg (g r : K) (hg : 0 ≤ g) (hr : 0 ≤ r) (xs : List K) (hx : ∀ x ∈ xs, 0 ≤ x) :
    ∀ (s : FState K), s.d = [] → (∃ m, s.m = [m] ∧ 0 ≤ m) →
      ∀ y ∈ floop [g] [-r] s xs, 0 ≤ y := by
  induction xs with
  | nil => intro s _ _ y hy; simp [floop] at hy
  | cons x rest ih =>
    intro s hd ⟨m, hm, hm0⟩ y hy
    have hx0 : 0 ≤ x := hx x (by simp)
    have hval : (fstep [g] [-r] s x).2 = g * x + r * m := by
      simp [fstep, hd, hm]
    have hnn : 0 ≤ g * x + r * m := by positivity
    simp only [floop] at hy
    rcases List.mem_cons.mp hy with rfl | hy
    · rw [hval]; exact hnn
    · refine ih (fun z hz => hx z (by simp [hz])) _ (by simp [fstep, hd]) ?_ y hy
      refine ⟨g * x + r * m, ?_, hnn⟩
      show ((fstep [g] [-r] s x).2 :: s.m).take s.m.length = _
      rw [hval, hm]; simp

end ord

end ALV.C20
