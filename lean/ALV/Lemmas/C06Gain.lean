/-
  C06 — helper lemmas, part 5: the variable-gain rewriting on the dictionaries
  (`den[0] = 0; den *= inv_gain.copy(); den[0] = 1; numpoly * inv_gain`) and the whole call.
-/
import ALV.Lemmas.C06Call
import ALV.Lemmas.C07Basic
import ALV.Lemmas.C04Pipeline

set_option linter.unusedSectionVars false
set_option linter.unusedSimpArgs false
set_option linter.unusedVariables false
namespace ALV.C06
open ALV.C04
variable {K : Type} [Field K] [DecidableEq K]

/-! ### `Poly * Poly(Stream)` on a dictionary with distinct keys -/

theorem strm_ne_zero (s : List K) : (Coef.strm s : Coef K) ≠ 0 := by
  intro h; cases h

theorem mul_strm_isStrm (c : Coef K) (t : List K) : ∃ u, c * Coef.strm t = Coef.strm u := by
  cases c with
  | const x => exact ⟨_, rfl⟩
  | strm s => exact ⟨_, rfl⟩

theorem ofScalar_strm (t : List K) : ALV.C07.ofScalar (Coef.strm t) = [((0 : Int), Coef.strm t)] := by
  unfold ALV.C07.ofScalar ALV.C07.mk ALV.C07.compact ALV.C07.ofPairs
  simp [ALV.C07.set, strm_ne_zero]

theorem accum_of_not_mem (d : ALV.C07.MPoly (Coef K)) (k : Int) (v : Coef K) (h : k ∉ ALV.C07.keys d) :
    ALV.C07.accum d k v = d ++ [(k, v)] := by
  induction d with
  | nil => rfl
  | cons a t ih =>
    obtain ⟨k', c⟩ := a
    have hk : k' ≠ k := by
      intro e; apply h; simp [ALV.C07.keys, e]
    have ht : k ∉ ALV.C07.keys t := by
      intro e; apply h; simp only [ALV.C07.keys, List.map_cons, List.mem_cons]; exact Or.inr e
    simp [ALV.C07.accum, hk, ih ht]

/-- `p * Poly(stream)`: every stored coefficient multiplied, same powers, same order -/
theorem mulLoop_single (p : ALV.C07.MPoly (Coef K)) (v : Coef K) (hp : (ALV.C07.keys p).Nodup) :
    ∀ d : ALV.C07.MPoly (Coef K), (∀ k ∈ ALV.C07.keys p, k ∉ ALV.C07.keys d) →
      p.foldl (fun d kv1 => ALV.C07.accum d kv1.1 (kv1.2 * v)) d
        = d ++ p.map (fun kv => (kv.1, kv.2 * v)) := by
  induction p with
  | nil => intro d _; simp
  | cons a t ih =>
    intro d hd
    obtain ⟨k, c⟩ := a
    have hk : k ∉ ALV.C07.keys d := hd k (by simp [ALV.C07.keys])
    simp only [ALV.C07.keys, List.map_cons, List.nodup_cons] at hp
    simp only [List.foldl_cons]
    rw [accum_of_not_mem d k (c * v) hk, ih hp.2]
    · simp
    · intro k' hk'
      simp only [ALV.C07.keys, List.map_append, List.map_cons, List.map_nil, List.mem_append,
        List.mem_singleton, not_or]
      refine ⟨hd k' (by simp only [ALV.C07.keys, List.map_cons, List.mem_cons]; exact Or.inr hk'), ?_⟩
      intro e; subst e; exact hp.1 hk'

theorem mul_single_strm (p : ALV.C07.MPoly (Coef K)) (t : List K) (hp : (ALV.C07.keys p).Nodup) :
    ALV.C07.mul p [((0 : Int), Coef.strm t)] = p.map (fun kv => (kv.1, kv.2 * Coef.strm t)) := by
  unfold ALV.C07.mul ALV.C07.mulLoop
  simp only [List.foldl_cons, List.foldl_nil, Int.add_zero]
  rw [mulLoop_single p (Coef.strm t) hp [] (by simp [ALV.C07.keys])]
  simp only [List.nil_append, ALV.C07.compact]
  apply List.filter_eq_self.2
  intro kv hkv
  obtain ⟨kv', _, rfl⟩ := List.mem_map.1 hkv
  obtain ⟨u, hu⟩ := mul_strm_isStrm kv'.2 t
  simp [hu, strm_ne_zero]


/-! ### dense lists of the rewritten dictionaries -/

theorem coefAt_map_mul (t : Terms (Coef K)) (inv : List K) (hnz : ∀ kv ∈ t, kv.2 ≠ Coef.const 0) (k : Int) :
    coefAt (t.map (fun kv => (kv.1, kv.2 * Coef.strm inv))) k = mulPresent (Coef.strm inv) (coefAt t k) := by
  have hp : ((fun kv : Int × Coef K => kv.1 == k) ∘ fun kv : Int × Coef K => (kv.1, kv.2 * Coef.strm inv))
      = (fun kv => kv.1 == k) := by funext kv; rfl
  simp only [coefAt, List.find?_map, hp]
  cases h : t.find? (fun kv => kv.1 == k) with
  | none => simp [mulPresent, show (0 : Coef K) = Coef.const 0 from rfl]
  | some kv =>
    have hm : kv ∈ t := List.mem_of_find?_eq_some h
    simp [mulPresent, hnz kv hm]

theorem order_map_snd (t : Terms (Coef K)) (f : Int × Coef K → Coef K) :
    order (t.map (fun kv => (kv.1, f kv))) = order t := by
  induction t with
  | nil => rfl
  | cons a r ih => obtain ⟨k, c⟩ := a; simp [order, ih]

theorem order_append_zero (t : Terms (Coef K)) (v : Coef K) : order (t ++ [((0 : Int), v)]) = order t := by
  induction t with
  | nil => simp [order]
  | cons a r ih => obtain ⟨k, c⟩ := a; simp [order, ih]

theorem dense_map_mul (t : Terms (Coef K)) (inv : List K) (hnz : ∀ kv ∈ t, kv.2 ≠ Coef.const 0) :
    dense (t.map (fun kv => (kv.1, kv.2 * Coef.strm inv))) = (dense t).map (mulPresent (Coef.strm inv)) := by
  cases t with
  | nil => rfl
  | cons a r =>
    simp only [dense, List.map_cons, List.isEmpty_cons, Bool.false_eq_true, if_false, List.map_map]
    rw [← List.map_cons (f := fun kv : Int × Coef K => (kv.1, kv.2 * Coef.strm inv)),
      order_map_snd (a :: r) (fun kv => kv.2 * Coef.strm inv)]
    apply List.map_congr_left
    intro i _
    exact coefAt_map_mul (a :: r) inv hnz _

theorem coefAt_append_zero_ne (t : Terms (Coef K)) (v : Coef K) (k : Int) (hk : k ≠ 0) :
    coefAt (t ++ [((0 : Int), v)]) k = coefAt t k := by
  simp only [coefAt, List.find?_append]
  cases t.find? (fun kv => kv.1 == k) with
  | some kv => rfl
  | none =>
    have : ((0 : Int) == k) = false := by simp; omega
    simp [this]

theorem coefAt_append_zero_self (t : Terms (Coef K)) (v : Coef K) (hpos : ∀ kv ∈ t, (0 : Int) < kv.1) :
    coefAt (t ++ [((0 : Int), v)]) 0 = v := by
  have : t.find? (fun kv => kv.1 == (0 : Int)) = none := by
    rw [List.find?_eq_none]
    intro kv hkv
    have := hpos kv hkv
    simp; omega
  simp [coefAt, List.find?_append, this]

theorem coefAt_cons_zero_ne (c : Coef K) (t : Terms (Coef K)) (k : Int) (hk : k ≠ 0) :
    coefAt (((0 : Int), c) :: t) k = coefAt t k := by
  have : ((0 : Int) == k) = false := by simp; omega
  simp [coefAt, List.find?_cons, this]

/-- the rewritten denominator, as a dense list -/
theorem dense_den3 (rest : Terms (Coef K)) (g : Coef K) (iv : List K)
    (hpos : ∀ kv ∈ rest, (0 : Int) < kv.1) (hnz : ∀ kv ∈ rest, kv.2 ≠ Coef.const 0) :
    dense (rest.map (fun kv => (kv.1, kv.2 * Coef.strm iv)) ++ [((0 : Int), (1 : Coef K))])
      = Coef.const 1 :: (dense (((0 : Int), g) :: rest)).tail.map (mulPresent (Coef.strm iv)) := by
  have hne : (rest.map (fun kv : Int × Coef K => (kv.1, kv.2 * Coef.strm iv)) ++ [((0 : Int), (1 : Coef K))]).isEmpty = false := by
    cases rest <;> rfl
  have hord : order (((0 : Int), g) :: rest) = order rest := by simp [order]
  have hpos' : ∀ kv ∈ rest.map (fun kv : Int × Coef K => (kv.1, kv.2 * Coef.strm iv)), (0 : Int) < kv.1 := by
    intro kv hkv
    obtain ⟨kv', hkv', rfl⟩ := List.mem_map.1 hkv
    exact hpos kv' hkv'
  simp only [dense, hne, List.isEmpty_cons, Bool.false_eq_true, if_false, order_append_zero,
    order_map_snd rest (fun kv => kv.2 * Coef.strm iv), hord,
    List.range_succ_eq_map, List.map_cons, List.tail_cons, List.map_map]
  congr 1
  · exact coefAt_append_zero_self _ _ hpos'
  · apply List.map_congr_left
    intro i _
    simp only [Function.comp]
    have hi : (Int.ofNat (i + 1)) ≠ 0 := by simp; omega
    rw [coefAt_append_zero_ne _ _ _ hi, coefAt_cons_zero_ne _ _ _ hi]
    exact coefAt_map_mul rest iv hnz _

theorem nodup_of_sorted (t : Terms (Coef K)) (ht : List.Pairwise (fun x y : Int × Coef K => x.1 < y.1) t) :
    (ALV.C07.keys t).Nodup := by
  unfold ALV.C07.keys
  rw [List.nodup_iff_pairwise_ne, List.pairwise_map]
  exact ht.imp (fun h => by omega)

/-- the rewriting on the dictionaries, explicitly: every stored coefficient times `1/a0`, the
gain entry removed and re-inserted (at the end of the `OrderedDict`) as the constant 1 -/
theorem gainPath_eq (num rest : Terms (Coef K)) (gs : List K)
    (hnum : List.Pairwise (fun x y : Int × Coef K => x.1 < y.1) num)
    (hden : List.Pairwise (fun x y : Int × Coef K => x.1 < y.1) (((0 : Int), Coef.strm gs) :: rest)) :
    gainPath num (((0 : Int), Coef.strm gs) :: rest)
      = (num.map (fun kv => (kv.1, kv.2 * Coef.strm (gs.map (1 / ·)))),
         rest.map (fun kv => (kv.1, kv.2 * Coef.strm (gs.map (1 / ·)))) ++ [((0 : Int), (1 : Coef K))]) := by
  have hrest : List.Pairwise (fun x y : Int × Coef K => x.1 < y.1) rest := (List.pairwise_cons.1 hden).2
  have hpos : ∀ kv ∈ rest, (0 : Int) < kv.1 := (List.pairwise_cons.1 hden).1
  have hc : coefAt (((0 : Int), Coef.strm gs) :: rest) 0 = Coef.strm gs := by simp [coefAt]
  have hinv : (1 : Coef K) / coefAt (((0 : Int), Coef.strm gs) :: rest) 0 = Coef.strm (gs.map (1 / ·)) := by
    rw [hc]; rfl
  generalize gs.map (1 / ·) = iv at hinv ⊢
  have hden1 : ALV.C07.setItem (((0 : Int), Coef.strm gs) :: rest) 0 0 = rest := by
    simp [ALV.C07.setItem, ALV.C07.has, ALV.C07.find?, ALV.C07.del]
  have hone : (1 : Coef K) ≠ 0 := by
    intro h
    have : (1 : K) = 0 := Coef.const.inj h
    exact one_ne_zero this
  have h0rest : (0 : Int) ∉ ALV.C07.keys (rest.map (fun kv : Int × Coef K => (kv.1, kv.2 * Coef.strm iv))) := by
    simp only [ALV.C07.keys, List.map_map, List.mem_map, Function.comp, not_exists, not_and]
    intro kv hkv e
    have := hpos kv hkv
    omega
  have hset : ALV.C07.setItem (rest.map (fun kv : Int × Coef K => (kv.1, kv.2 * Coef.strm iv))) 0 1
      = rest.map (fun kv : Int × Coef K => (kv.1, kv.2 * Coef.strm iv)) ++ [((0 : Int), (1 : Coef K))] := by
    simp only [ALV.C07.setItem, hone, ne_eq, not_false_eq_true, if_true]
    exact ALV.C07.set_of_not_mem h0rest 1
  simp only [gainPath, hinv, hden1, Coef.copy, ofScalar_strm]
  rw [mul_single_strm num _ (nodup_of_sorted num hnum), mul_single_strm rest _ (nodup_of_sorted rest hrest),
    hset]

/-- **the dictionary form of the variable-gain rewriting** on a normalised filter (keys ascending,
denominator starting at delay 0 with the Stream gain, no stored constant zero), as dense lists -/
theorem gainPath_dense (num rest : Terms (Coef K)) (gs : List K)
    (hnum : List.Pairwise (fun x y : Int × Coef K => x.1 < y.1) num)
    (hden : List.Pairwise (fun x y : Int × Coef K => x.1 < y.1) (((0 : Int), Coef.strm gs) :: rest))
    (hnz : ∀ kv ∈ num ++ rest, kv.2 ≠ Coef.const 0) :
    dense (gainPath num (((0 : Int), Coef.strm gs) :: rest)).1
        = (dense num).map (mulPresent (Coef.strm (gs.map (1 / ·))))
    ∧ dense (gainPath num (((0 : Int), Coef.strm gs) :: rest)).2
        = Coef.const 1 :: (dense (((0 : Int), Coef.strm gs) :: rest)).tail.map
            (mulPresent (Coef.strm (gs.map (1 / ·)))) := by
  rw [gainPath_eq num rest gs hnum hden]
  exact ⟨dense_map_mul num _ (fun kv hk => hnz kv (by simp [hk])),
    dense_den3 rest _ _ (List.pairwise_cons.1 hden).1 (fun kv hk => hnz kv (by simp [hk]))⟩

/-! ### the whole call -/

theorem minKey_append_zero (t : Terms (Coef K)) (v : Coef K) (hpos : ∀ kv ∈ t, (0 : Int) < kv.1) :
    minKey (t ++ [((0 : Int), v)]) = some 0 := by
  induction t with
  | nil => rfl
  | cons a r ih =>
    obtain ⟨k, c⟩ := a
    have hk : (0 : Int) < k := hpos (k, c) (by simp)
    simp only [List.cons_append, minKey, ih (fun kv hkv => hpos kv (by simp [hkv]))]
    simp [hk]

theorem checkCausal_of_nonneg (num den : Terms (Coef K)) (h : ∀ kv ∈ num ++ den, 0 ≤ kv.1) :
    checkCausal num den = true := by
  simp only [checkCausal, Bool.not_eq_true', List.any_eq_false]
  intro kv hm
  have := h kv hm
  simp; omega

/-- the part of `__call__` after the gain test, constant gain `g ≠ 0`, causal, not all-zero: the
time-varying difference equation on the dense coefficient lists -/
theorem callConst_eq (num den : Terms (Coef K)) (mem : Mem K) (zero : K) (xs : List K) (g : K)
    (hc : ∀ kv ∈ num ++ den, 0 ≤ kv.1) (h0 : coefAt den 0 = Coef.const g) (hg : g ≠ 0)
    (hnz : ¬ ((∀ c ∈ dense num, c = Coef.const 0) ∧ (∀ c ∈ (dense den).tail, c = Coef.const 0))) :
    (callConst num den mem zero xs).map Prod.fst
      = .ok (tvspec (dense num) (dense den).tail (Coef.const g) zero 0
              (memoryOf zero (dense den).tail.length mem) [] xs) := by
  have hcausal := checkCausal_of_nonneg num den hc
  have hd := dense_cons_coef den g h0 hg
  have hl : (dense den).length - 1 = (dense den).tail.length := by simp
  simp only [callConst, hcausal, Bool.not_true, Bool.false_eq_true, if_false, h0, hg, hl,
    Except.map]
  congr 1
  have := evalTV_eq_tvspec (dense num) (dense den).tail g zero
    (memoryOf zero (dense den).tail.length mem) xs (memoryOf_length _ _ _) hnz
  rw [← this]
  congr 3

theorem callTV_const_eq (num den : Terms (Coef K)) (mem : Mem K) (zero : K) (xs : List K) (g : K)
    (hc : ∀ kv ∈ num ++ den, 0 ≤ kv.1) (h0 : coefAt den 0 = Coef.const g) (hg : g ≠ 0)
    (hnz : ¬ ((∀ c ∈ dense num, c = Coef.const 0) ∧ (∀ c ∈ (dense den).tail, c = Coef.const 0))) :
    (callTV num den mem zero xs).map Prod.fst
      = .ok (tvspec (dense num) (dense den).tail (Coef.const g) zero 0
              (memoryOf zero (dense den).tail.length mem) [] xs) := by
  have hcausal := checkCausal_of_nonneg num den hc
  rw [← callConst_eq num den mem zero xs g hc h0 hg hnz]
  simp only [callTV, hcausal, Bool.not_true, Bool.false_eq_true, if_false, h0]

/-- `LinearFilter.__call__` with a Stream gain: rewriting, `ZFilter(…)` constructor (a no-op
normalisation), second `__call__` — the difference equation with gain `a0[n]` on the ORIGINAL dense
coefficient lists -/
theorem callTV_gain_eq (num rest : Terms (Coef K)) (gs : List K) (mem : Mem K) (zero : K) (xs : List K)
    (hnum : List.Pairwise (fun x y : Int × Coef K => x.1 < y.1) num)
    (hden : List.Pairwise (fun x y : Int × Coef K => x.1 < y.1) (((0 : Int), Coef.strm gs) :: rest))
    (hstored : ∀ kv ∈ num ++ rest, kv.2 ≠ Coef.const 0) (hcn : ∀ kv ∈ num, 0 ≤ kv.1)
    (hnz : ¬ ((∀ c ∈ dense num, c = Coef.const 0)
      ∧ (∀ c ∈ (dense (((0 : Int), Coef.strm gs) :: rest)).tail, c = Coef.const 0))) :
    (callTV num (((0 : Int), Coef.strm gs) :: rest) mem zero xs).map Prod.fst
      = .ok (tvspec (dense num) (dense (((0 : Int), Coef.strm gs) :: rest)).tail (Coef.strm gs) zero 0
              (memoryOf zero (dense (((0 : Int), Coef.strm gs) :: rest)).tail.length mem) [] xs) := by
  have hpos : ∀ kv ∈ rest, (0 : Int) < kv.1 := (List.pairwise_cons.1 hden).1
  have hc : ∀ kv ∈ num ++ (((0 : Int), Coef.strm gs) :: rest), 0 ≤ kv.1 := by
    intro kv hkv
    rcases List.mem_append.1 hkv with h | h
    · exact hcn kv h
    · rcases List.mem_cons.1 h with rfl | h
      · simp
      · exact Int.le_of_lt (hpos kv h)
  have hcausal := checkCausal_of_nonneg _ _ hc
  have hg0 : coefAt (((0 : Int), Coef.strm gs) :: rest) 0 = Coef.strm gs := by simp [coefAt]
  -- the rewritten dictionaries
  have hpos' : ∀ kv ∈ rest.map (fun kv : Int × Coef K => (kv.1, kv.2 * Coef.strm (gs.map (1 / ·)))),
      (0 : Int) < kv.1 := by
    intro kv hkv
    obtain ⟨kv', hkv', rfl⟩ := List.mem_map.1 hkv
    exact hpos kv' hkv'
  have hmin := minKey_append_zero _ (1 : Coef K) hpos'
  have hnorm : normalise (num.map (fun kv => (kv.1, kv.2 * Coef.strm (gs.map (1 / ·)))))
      (rest.map (fun kv => (kv.1, kv.2 * Coef.strm (gs.map (1 / ·)))) ++ [((0 : Int), (1 : Coef K))])
      = .ok (num.map (fun kv => (kv.1, kv.2 * Coef.strm (gs.map (1 / ·)))),
             rest.map (fun kv => (kv.1, kv.2 * Coef.strm (gs.map (1 / ·)))) ++ [((0 : Int), (1 : Coef K))]) := by
    simp only [normalise, hmin]
    rfl
  have hc' : ∀ kv ∈ num.map (fun kv : Int × Coef K => (kv.1, kv.2 * Coef.strm (gs.map (1 / ·))))
      ++ (rest.map (fun kv : Int × Coef K => (kv.1, kv.2 * Coef.strm (gs.map (1 / ·)))) ++ [((0 : Int), (1 : Coef K))]),
      0 ≤ kv.1 := by
    intro kv hkv
    rcases List.mem_append.1 hkv with h | h
    · obtain ⟨kv', hkv', rfl⟩ := List.mem_map.1 h
      exact hcn kv' hkv'
    · rcases List.mem_append.1 h with h | h
      · exact Int.le_of_lt (hpos' kv h)
      · simp at h; subst h; simp
  have h1 : coefAt (rest.map (fun kv : Int × Coef K => (kv.1, kv.2 * Coef.strm (gs.map (1 / ·))))
      ++ [((0 : Int), (1 : Coef K))]) 0 = Coef.const 1 := coefAt_append_zero_self _ _ hpos'
  have hdn := dense_map_mul num (gs.map (1 / ·)) (fun kv hk => hstored kv (by simp [hk]))
  have hdd := dense_den3 rest (Coef.strm gs) (gs.map (1 / ·)) hpos (fun kv hk => hstored kv (by simp [hk]))
  have hnz' : ¬ ((∀ c ∈ dense (num.map (fun kv : Int × Coef K => (kv.1, kv.2 * Coef.strm (gs.map (1 / ·))))),
        c = Coef.const 0)
      ∧ (∀ c ∈ (dense (rest.map (fun kv : Int × Coef K => (kv.1, kv.2 * Coef.strm (gs.map (1 / ·))))
        ++ [((0 : Int), (1 : Coef K))])).tail, c = Coef.const 0)) := by
    rw [hdn, hdd, List.tail_cons, map_mulPresent_zero, map_mulPresent_zero]
    exact hnz
  have hcall := callConst_eq _ _ mem zero xs 1 hc' h1 one_ne_zero hnz'
  simp only [callTV, hcausal, Bool.not_true, Bool.false_eq_true, if_false, hg0]
  rw [gainPath_eq num rest gs hnum hden]
  simp only [hnorm]
  rw [hcall, hdn, hdd, List.tail_cons, List.length_map]
  congr 1
  exact tvspec_gain _ _ gs zero hnz xs 0 _ []

end ALV.C06
