/-
  C20 — the definitions REGENERATED FROM THE SOURCE (`ALV.Gen.C20`, written by harness/props/c20_tr.py on every run)
  are the hand-written model functions of `ALV.Model.C20`.  Core Lean only.

  The generated loops carry the source's own state (all parameters and every local bound at loop entry); the
  model's loops carry less (e.g. `zphase2 h s`), so the loop lemmas say which generated arguments are what.
-/
import ALV.Model.C20
import ALV.Gen.C20Src

set_option linter.unusedSectionVars false
namespace ALV.C20.Src
open ALV.C20
variable {α : Type}

section clip
variable [LT α] [DecidableLT α]

theorem clip_eq (low high : Option α) (xs : List α) : Gen.C20.clip low high xs = C20.clip low high xs := by
  cases low <;> cases high <;> rfl

end clip

section zcross
variable [Mul α] [Neg α] [OfNat α 0] [OfNat α 1] [LT α] [DecidableLT α] [DecidableEq α]

theorem zcross_loop2_eq (h fs s : α) (xs : List α) :
    Gen.C20.zcross_loop2 h fs (-h) s xs = zphase2 h s xs := by
  induction xs generalizing s with
  | nil => rfl
  | cons x xs ih =>
    simp only [Gen.C20.zcross_loop2, zphase2, sgnPM]
    split <;> simp only [ih]

theorem zcross_loop1_eq (h fs s : α) (xs : List α) :
    Gen.C20.zcross_loop1 h fs (-h) s xs = zphase1 h xs := by
  induction xs with
  | nil => rfl
  | cons x xs ih =>
    simp only [Gen.C20.zcross_loop1, zphase1, sgnPM]
    split <;> simp only [ih, zcross_loop2_eq]

theorem zcross_eq (h fs : α) (xs : List α) : Gen.C20.zcross h fs xs = C20.zcross h fs xs := by
  simp only [Gen.C20.zcross, C20.zcross, sgnPM]
  split <;> simp only [zcross_loop1_eq, zcross_loop2_eq]

end zcross

section unwrap
variable [Add α] [Mul α] [Sub α] [Neg α] [Div α] [OfNat α 0] [LT α] [DecidableLT α]

theorem unwrap_loop1_eq (fl : α → α) (md step d0 delta : α) (xs : List α) :
    Gen.C20.unwrap_loop1 fl md step d0 delta xs = unwrapLoop fl md step d0 delta xs := by
  induction xs generalizing d0 delta with
  | nil => rfl
  | cons x xs ih => simp only [Gen.C20.unwrap_loop1, unwrapLoop, ih]

theorem unwrap_eq (fl : α → α) (md step : α) (xs : List α) :
    Gen.C20.unwrap fl md step xs = C20.unwrap fl md step xs := by
  cases xs with
  | nil => rfl
  | cons x xs => simp only [Gen.C20.unwrap, C20.unwrap, unwrap_loop1_eq]

end unwrap

section accumulate
variable [Add α] [Mul α] [Sub α] [Neg α] [OfNat α 0] [OfNat α 1]

theorem accumulate_func_loop1_eq (s : α) (xs : List α) :
    Gen.C20.accumulate_func_loop1 s xs = accLoop s xs := by
  induction xs generalizing s with
  | nil => rfl
  | cons x xs ih => simp only [Gen.C20.accumulate_func_loop1, accLoop, ih]

theorem accumulate_func_eq (xs : List α) : Gen.C20.accumulate_func xs = accumulateFunc xs := by
  cases xs with
  | nil => rfl
  | cons x xs => simp only [Gen.C20.accumulate_func, accumulateFunc, accumulate_func_loop1_eq]

end accumulate

section maverage
variable [Add α] [Mul α] [Sub α] [Neg α] [Div α] [OfNat α 0] [OfNat α 1] [NatCast α]

theorem maverage_deque_loop1_eq (size : Nat) (zero : α) (data : List α) (mean : α) (xs : List α) :
    Gen.C20.maverage_deque_loop1 size zero (1 / (size : α)) data mean xs = dqLoop size ⟨data, mean⟩ xs := by
  induction xs generalizing data mean with
  | nil => rfl
  | cons x xs ih => simp only [Gen.C20.maverage_deque_loop1, dqLoop, dqStep, sizeInv, ih]

theorem maverage_deque_eq (size : Nat) (zero : α) (xs : List α) :
    Gen.C20.maverage_deque size zero xs = maverageDeque size zero xs := by
  simp only [Gen.C20.maverage_deque, maverageDeque, sizeInv, maverage_deque_loop1_eq]

end maverage

section amdf
variable [Add α] [Mul α] [Sub α] [Neg α] [Div α] [OfNat α 0] [OfNat α 1] [NatCast α] [LT α] [DecidableLT α]

theorem amdf_eq (lag size : Nat) (zero : α) (xs : List α) :
    Gen.C20.amdf lag size zero xs = C20.amdf lag size zero xs := by
  simp only [Gen.C20.amdf, C20.amdf, maverage_deque_eq]

theorem envelope_abs_eq (b a xs : List α) : Gen.C20.envelope_abs b a xs = envelopeAbs b a xs := rfl

theorem envelope_squared_eq (b a xs : List α) : Gen.C20.envelope_squared b a xs = envelopeSquared b a xs := rfl

end amdf

end ALV.C20.Src
