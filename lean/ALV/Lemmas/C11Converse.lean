/-
  C11 — helper lemmas, part 7: Schur–Cohn, NECESSITY, every order (all poles strictly inside the
  unit circle ⇒ every |k| < 1), without Rouché:

  * the pole polynomial P of a monic filter `1 :: t` splits over ℂ (`Complex.isAlgClosed`):
      P(z) = Π (z − r_i),   Q(z) = z^n P(1/z) = Π (1 − r_i z)      (n roots, `card_pole_roots`);
  * real coefficients: |Q(z)| = |Q(z̄)|;  one Blaschke factor:
      |w̄ − r|² − |1 − r w|² = (|w|² − 1)(1 − |r|²)  ⇒  |Q(z)| ≤ |P(z)| for |z| ≥ 1  (`blaschke_le`);
  * the last coefficient is ± the product of the roots: |k_n| < 1 (`last_sq_lt_one`);
  * a root z, |z| ≥ 1, of the stepped-down pole polynomial would give P(z) = k Q(z), hence
    |Q| ≤ |P| = |k||Q| < |Q| unless Q(z) = 0 = P(z): impossible  (`converse_monic`).
-/
import ALV.Lemmas.C11Poles
import Mathlib.Analysis.Complex.Polynomial.Basic
import Mathlib.Algebra.Order.BigOperators.GroupWithZero.Multiset

set_option linter.unusedSectionVars false
set_option linter.unusedVariables false

namespace ALV.C11
open Polynomial Complex

/-- the polynomial in `ℂ[X]` with real coefficient list `a` (index = power) -/
noncomputable def toPoly : List ℝ → ℂ[X]
  | [] => 0
  | c :: t => C (c : ℂ) + X * toPoly t

theorem eval_toPoly (a : List ℝ) (z : ℂ) : (toPoly a).eval z = evalC a z := by
  induction a with
  | nil => simp [toPoly]
  | cons c t ih => simp [toPoly, ih]

theorem toPoly_append (a b : List ℝ) : toPoly (a ++ b) = toPoly a + X ^ a.length * toPoly b := by
  induction a with
  | nil => simp [toPoly]
  | cons c t ih => simp only [List.cons_append, toPoly, ih, List.length_cons, pow_succ]; ring

theorem degree_toPoly_lt (a : List ℝ) : (toPoly a).degree < a.length := by
  induction a with
  | nil => simp [toPoly]
  | cons c t ih =>
    simp only [toPoly, List.length_cons]
    refine lt_of_le_of_lt (degree_add_le _ _) (max_lt ?_ ?_)
    · exact lt_of_le_of_lt degree_C_le (by exact_mod_cast Nat.succ_pos _)
    · by_cases h0 : toPoly t = 0
      · rw [h0, mul_zero, degree_zero]; exact WithBot.bot_lt_coe _
      · rw [mul_comm, degree_mul_X]
        have := ih
        rw [degree_eq_natDegree h0] at this ⊢
        have h2 : (toPoly t).natDegree < t.length := by exact_mod_cast this
        exact_mod_cast Nat.succ_lt_succ h2

/-- the pole polynomial of a monic filter `1 :: t` is `X^n + lower` -/
theorem toPoly_reverse_monic (t : List ℝ) :
    toPoly (1 :: t).reverse = X ^ t.length + toPoly t.reverse := by
  rw [List.reverse_cons, toPoly_append, List.length_reverse]
  simp [toPoly]; ring

theorem monic_pole (t : List ℝ) : (toPoly (1 :: t).reverse).Monic := by
  rw [toPoly_reverse_monic]
  exact monic_X_pow_add (by simpa using degree_toPoly_lt t.reverse)

theorem natDegree_pole (t : List ℝ) : (toPoly (1 :: t).reverse).natDegree = t.length := by
  rw [toPoly_reverse_monic]
  have h : (toPoly t.reverse).degree < (X ^ t.length : ℂ[X]).degree := by
    rw [degree_X_pow]; simpa using degree_toPoly_lt t.reverse
  apply natDegree_eq_of_degree_eq_some
  rw [degree_add_eq_left_of_degree_lt h, degree_X_pow]

theorem evalC_conj (a : List ℝ) (z : ℂ) :
    evalC a ((starRingEnd ℂ) z) = (starRingEnd ℂ) (evalC a z) := by
  induction a with
  | nil => simp
  | cons c t ih => simp [ih, map_add, map_mul, conj_ofReal]

/-- one Blaschke factor: `|w̄ − r|² − |1 − r w|² = (|w|² − 1)(1 − |r|²)` -/
theorem normSq_blaschke (r w : ℂ) :
    normSq ((starRingEnd ℂ) w - r) - normSq (1 - r * w) = (normSq w - 1) * (1 - normSq r) := by
  simp only [normSq_apply, sub_re, sub_im, conj_re, conj_im, one_re, one_im, mul_re, mul_im]
  ring

/-- the pole polynomial of `1 :: t`, factored over its complex roots -/
theorem eval_pole_prod (t : List ℝ) (z : ℂ) :
    evalC (1 :: t).reverse z = ((toPoly (1 :: t).reverse).roots.map (fun r => z - r)).prod := by
  have hs : (toPoly (1 :: t).reverse).Splits := IsAlgClosed.splits _
  have h := hs.eq_prod_roots
  rw [(monic_pole t).leadingCoeff, C_1, one_mul] at h
  rw [← eval_toPoly]
  conv_lhs => rw [h]
  rw [eval_multiset_prod, Multiset.map_map]
  congr 1
  apply Multiset.map_congr rfl
  intro r _
  simp

theorem card_pole_roots (t : List ℝ) : (toPoly (1 :: t).reverse).roots.card = t.length := by
  have hs : (toPoly (1 :: t).reverse).Splits := IsAlgClosed.splits _
  rw [← hs.natDegree_eq_card_roots, natDegree_pole]

/-- the reversed polynomial `Q(z) = z^n P(1/z)` over the same roots -/
theorem eval_rev_prod (t : List ℝ) (z : ℂ) (hz : z ≠ 0) :
    evalC (1 :: t) z = ((toPoly (1 :: t).reverse).roots.map (fun r => 1 - r * z)).prod := by
  have h := evalC_reverse (1 :: t).reverse z hz
  rw [List.reverse_reverse, List.length_reverse, List.length_cons, pow_succ, eval_pole_prod] at h
  have h2 : evalC (1 :: t) z = z ^ t.length *
      ((toPoly (1 :: t).reverse).roots.map (fun r => z⁻¹ - r)).prod := by
    apply mul_left_cancel₀ hz
    rw [h]; ring
  rw [h2, ← card_pole_roots t, ← Multiset.prod_replicate, ← Multiset.map_const',
    ← Multiset.prod_map_mul]
  congr 1
  apply Multiset.map_congr rfl
  intro r _
  field_simp

theorem prod_lt_one (s : Multiset ℝ) (h : ∀ x ∈ s, 0 ≤ x ∧ x < 1) :
    (0 ≤ s.prod ∧ s.prod ≤ 1) ∧ (s ≠ 0 → s.prod < 1) := by
  induction s using Multiset.induction_on with
  | empty => simp
  | cons a s ih =>
    obtain ⟨⟨h0, h1⟩, _⟩ := ih (fun x hx => h x (Multiset.mem_cons_of_mem hx))
    obtain ⟨ha0, ha1⟩ := h a (Multiset.mem_cons_self a s)
    rw [Multiset.prod_cons]
    refine ⟨⟨mul_nonneg ha0 h0, ?_⟩, fun _ => ?_⟩
    · nlinarith
    · nlinarith

/-- **Blaschke**: if all roots of the pole polynomial are strictly inside the unit circle then
`|Q(z)| ≤ |P(z)|` on and outside it -/
theorem blaschke_le (t : List ℝ) (hroots : ∀ z : ℂ, evalC (1 :: t).reverse z = 0 → normSq z < 1)
    (z : ℂ) (hz : 1 ≤ normSq z) :
    normSq (evalC (1 :: t) z) ≤ normSq (evalC (1 :: t).reverse z) := by
  set w := (starRingEnd ℂ) z with hw
  have hwn : normSq w = normSq z := normSq_conj z
  have hw0 : w ≠ 0 := by
    intro h0; rw [h0, map_zero] at hwn; linarith
  have hzw : z = (starRingEnd ℂ) w := by rw [hw, Complex.conj_conj]
  have hP0 : toPoly (1 :: t).reverse ≠ 0 := (monic_pole t).ne_zero
  have hmem : ∀ r ∈ (toPoly (1 :: t).reverse).roots, normSq r < 1 := by
    intro r hr
    apply hroots
    rw [← eval_toPoly]
    exact (mem_roots hP0).mp hr
  have e1 : normSq (evalC (1 :: t) z) = normSq (evalC (1 :: t) w) := by
    rw [hw, evalC_conj, normSq_conj]
  rw [e1, eval_rev_prod t w hw0, eval_pole_prod t z, map_multiset_prod, map_multiset_prod,
    Multiset.map_map, Multiset.map_map]
  apply Multiset.prod_map_le_prod_map₀
  · intro r _; exact normSq_nonneg _
  · intro r hr
    simp only [Function.comp]
    have := normSq_blaschke r w
    rw [← hzw] at this
    have h1 := hmem r hr
    nlinarith [normSq_nonneg r]

theorem evalC_reverse_zero (t : List ℝ) : evalC (1 :: t).reverse 0 = (((1 :: t).getLastD 0 : ℝ) : ℂ) := by
  rw [reverse_of_getLastD (1 :: t) (by simp) _ rfl]
  simp

/-- the last coefficient is the product of the roots (up to sign): `|k| < 1` -/
theorem last_sq_lt_one (t : List ℝ) (hlen : 1 ≤ t.length)
    (hroots : ∀ z : ℂ, evalC (1 :: t).reverse z = 0 → normSq z < 1) :
    (1 :: t).getLastD 0 * (1 :: t).getLastD 0 < 1 := by
  have hP0 : toPoly (1 :: t).reverse ≠ 0 := (monic_pole t).ne_zero
  have h := eval_pole_prod t 0
  rw [evalC_reverse_zero] at h
  have h2 := congrArg normSq h
  rw [normSq_ofReal, map_multiset_prod, Multiset.map_map] at h2
  rw [h2]
  apply (prod_lt_one _ ?_).2
  · intro h0
    have := congrArg Multiset.card h0
    rw [Multiset.card_map, card_pole_roots, Multiset.card_zero] at this
    omega
  · intro x hx
    rw [Multiset.mem_map] at hx
    obtain ⟨r, hr, rfl⟩ := hx
    simp only [Function.comp, zero_sub, normSq_neg]
    refine ⟨normSq_nonneg r, hroots r ?_⟩
    rw [← eval_toPoly]
    exact (mem_roots hP0).mp hr

/-- **Schur–Cohn, necessity, every order** (monic form): all roots of the pole polynomial strictly
inside the unit circle ⇒ the step-down never breaks down and every |k| < 1 -/
theorem converse_monic : ∀ (n : ℕ) (t : List ℝ), t.length = n →
    (∀ z : ℂ, evalC (1 :: t).reverse z = 0 → normSq z < 1) →
    (sdLoop n (1 :: t)).2 = false ∧ ∀ k ∈ (sdLoop n (1 :: t)).1, -1 < k ∧ k < 1
  | 0, t, _, _ => by simp [sdLoop]
  | n + 1, t, hlen, hroots => by
    have hkk := last_sq_lt_one t (by omega) hroots
    generalize hkdef : (1 :: t).getLastD 0 = k at hkk
    have hk : ¬ k * k = 1 := by intro h; linarith
    obtain ⟨t', ht'⟩ := stepDown1_head t k hk hkdef (by omega)
    have hlen' : t'.length = n := by
      have := stepDown1_length (1 :: t) k
      rw [ht'] at this; simp at this; omega
    have hup : stepUp1 (1 :: t') k = 1 :: t := by
      rw [← ht']; exact stepUp1_stepDown1 t k hk hkdef
    have hroots' : ∀ z : ℂ, evalC (1 :: t').reverse z = 0 → normSq z < 1 := by
      intro z hz
      by_contra hcon
      have hz1 : 1 ≤ normSq z := not_lt.mp hcon
      have hP : evalC (1 :: t).reverse z = (k : ℂ) * evalC (1 :: t') z := by
        rw [← hup, evalC_stepUp1_reverse, hz, mul_zero, zero_add]
      have hQ : evalC (1 :: t) z = evalC (1 :: t') z := by
        rw [← hup, evalC_stepUp1, hz, mul_zero, mul_zero, add_zero]
      have hB := blaschke_le t hroots z hz1
      rw [hP, hQ, map_mul, normSq_ofReal] at hB
      have hQ0 : normSq (evalC (1 :: t') z) = 0 := by
        nlinarith [normSq_nonneg (evalC (1 :: t') z)]
      have h0 : evalC (1 :: t).reverse z = 0 := by
        rw [hP, normSq_eq_zero.mp hQ0, mul_zero]
      have := hroots z h0
      linarith
    obtain ⟨ih1, ih2⟩ := converse_monic n t' hlen' hroots'
    rw [sdLoop_succ, hkdef, if_neg hk, ht']
    refine ⟨ih1, ?_⟩
    intro x hx
    rw [List.mem_cons] at hx
    rcases hx with rfl | hx
    · constructor <;> nlinarith
    · exact ih2 x hx

/-- **Schur–Cohn, necessity, every order**: all poles strictly inside ⇒ verdict `true` -/
theorem poles_inside_stableSpec (den t : List ℝ) (g : ℝ) (hg : g ≠ 0) (hs : stripZeros den = g :: t)
    (h : ∀ z : ℂ, evalC den.reverse z = 0 → normSq z < 1) : parcorStableSpec den = true := by
  rw [parcorStableSpec_true_iff]
  have hsd : parcorSpec den = sdLoop t.length (1 :: t.map (fun x => x / g)) := by
    unfold parcorSpec
    rw [hs, monic_cons g t hg]
    simp
  rw [hsd]
  apply converse_monic t.length _ (by simp)
  intro z hz
  apply h
  have hm : (1 : ℝ) :: t.map (fun x => x / g) = (g :: t).map (fun x => x / g) := by
    simp [div_self hg]
  rw [hm, ← List.map_reverse, evalC_map_div] at hz
  have hgc : (g : ℂ) ≠ 0 := by exact_mod_cast hg
  have hz' : evalC (g :: t).reverse z = 0 := by
    rcases div_eq_zero_iff.mp hz with h1 | h1
    · exact h1
    · exact absurd h1 hgc
  obtain ⟨j, hj⟩ := exists_stripZeros_append den
  rw [hs] at hj
  rw [hj, List.reverse_append, List.reverse_replicate, evalC_append, evalC_replicate_zero,
    List.length_replicate, zero_add, hz', mul_zero]

/-! ### the constructed family: every prescribed pole inside ⇒ verdict `true` -/

theorem fromPoles_stable (g : ℝ) (hg : g ≠ 0) (reals : List ℝ) (pairs : List (ℝ × ℝ))
    (h : polesInside reals pairs = true) : parcorStableSpec (fromPoles g reals pairs) = true := by
  obtain ⟨t, ht⟩ := fromPoles_head g reals pairs
  obtain ⟨t', ht'⟩ := stripZeros_head g hg t
  rw [← ht] at ht'
  apply poles_inside_stableSpec _ t' g hg ht'
  intro z hz
  by_cases hz0 : z = 0
  · rw [hz0]; simp
  have h2 := evalC_reverse (fromPoles g reals pairs) z hz0
  rw [hz, mul_zero] at h2
  have hw : evalC (fromPoles g reals pairs) z⁻¹ = 0 :=
    (mul_eq_zero.mp h2.symm).resolve_left (pow_ne_zero _ hz0)
  rw [evalC_fromPoles] at hw
  unfold polesInside at h
  rw [Bool.and_eq_true, List.all_eq_true, List.all_eq_true] at h
  obtain ⟨hr, hp⟩ := h
  have hgc : (g : ℂ) ≠ 0 := by exact_mod_cast hg
  rcases mul_eq_zero.mp hw with h1 | h1
  · rcases mul_eq_zero.mp h1 with h3 | h3
    · exact absurd h3 hgc
    · -- a real pole
      rw [List.prod_eq_zero_iff, List.mem_map] at h3
      obtain ⟨p, hp1, hp2⟩ := h3
      have hpp : p * p < 1 := by simpa using hr p hp1
      simp only [evalC_cons, evalC_nil, mul_zero, add_zero] at hp2
      have hzp : z = (p : ℂ) := by
        have : (1 : ℂ) + z⁻¹ * ((-p : ℝ) : ℂ) = 0 := by simpa using hp2
        field_simp at this
        push_cast at this
        linear_combination this
      rw [hzp, normSq_ofReal]; exact hpp
  · -- a conjugate pair
    rw [List.prod_eq_zero_iff, List.mem_map] at h1
    obtain ⟨c, hc1, hc2⟩ := h1
    have hcc : c.1 * c.1 + c.2 * c.2 < 1 := by simpa using hp c hc1
    simp only [evalC_cons, evalC_nil, mul_zero, add_zero] at hc2
    -- z² − 2 re z + |c|² = 0
    have hq : z * z - 2 * (c.1 : ℂ) * z + ((c.1 * c.1 + c.2 * c.2 : ℝ) : ℂ) = 0 := by
      have : (1 : ℂ) + z⁻¹ * (((-(c.1 + c.1) : ℝ) : ℂ) + z⁻¹ * ((c.1 * c.1 + c.2 * c.2 : ℝ) : ℂ)) = 0 := by
        simpa using hc2
      field_simp at this
      push_cast at this ⊢
      linear_combination this
    -- real and imaginary parts
    have hre := congrArg Complex.re hq
    have him := congrArg Complex.im hq
    simp only [sub_re, add_re, mul_re, sub_im, add_im, mul_im, ofReal_re, ofReal_im, zero_re, zero_im,
      re_ofNat, im_ofNat] at hre him
    rw [normSq_apply]
    -- (x − re)² − y² + im² = 0 and 2 y (x − re) = 0
    by_cases hy : z.im = 0
    · rw [hy] at hre
      have : (z.re - c.1) * (z.re - c.1) + c.2 * c.2 = 0 := by nlinarith
      have h1 : z.re - c.1 = 0 := by nlinarith [mul_self_nonneg (z.re - c.1), mul_self_nonneg c.2]
      have h2 : c.2 * c.2 = 0 := by nlinarith [mul_self_nonneg (z.re - c.1), mul_self_nonneg c.2]
      rw [hy]; nlinarith
    · have hx : z.re = c.1 := by
        have : z.im * (z.re - c.1) = 0 := by nlinarith
        rcases mul_eq_zero.mp this with h | h
        · exact absurd h hy
        · linarith
      rw [hx] at hre ⊢
      nlinarith

end ALV.C11
