import ALV.Common.Json
import ALV.Model.C07Zero
/-!
  Driver entries of the zero / spelling model (`Model/C07Zero.lean`):

    pynum   Python's value semantics of two tagged numbers (==, hash, + - * / **, kinds, exactness)
    zhist   a history of `ZOp`s; variables are named by the index of the step that returned them
-/
namespace ALV.Driver.C07Zero
open ALV ALV.J ALV.C07

def numJ : PyNum → Json
  | .bool b => Json.arr [Json.str "b", Json.int (if b then 1 else 0)]
  | .int n => Json.arr [Json.str "i", Json.int n]
  | .frac q => Json.arr [Json.str "F", ratToJson q]
  | .float q e => Json.arr [Json.str "f", ratToJson q, Json.bool e]
  | .cplx r i e => Json.arr [Json.str "c", ratToJson r, ratToJson i, Json.bool e]

def valJ : PyVal → Json
  | .num x => numJ x
  | .elist => Json.str "[]"
  | .edict => Json.str "{}"

def getNum (j : Json) : Except String PyNum := do
  match ← getArr j with
  | [Json.str "b", v] => pure (.bool ((← getInt v) ≠ 0))
  | [Json.str "i", v] => pure (.int (← getInt v))
  | [Json.str "F", v] => pure (.frac (← getRat v))
  | [Json.str "f", v] => do
      let q ← getRat v
      pure (.float q (PyNum.isDouble q))
  | [Json.str "c", r, i] => do
      let r ← getRat r
      let i ← getRat i
      pure (.cplx r i (PyNum.isDouble r && PyNum.isDouble i))
  | _ => throw s!"bad number {j.compress}"

def getVal (j : Json) : Except String PyVal :=
  match j with
  | Json.str "[]" => pure .elist
  | Json.str "{}" => pure .edict
  | _ => do pure (.num (← getNum j))

def getOptVal (j : Json) : Except String (Option PyVal) :=
  match j with
  | Json.null => pure none
  | _ => do pure (some (← getVal j))

def getPairN (j : Json) : Except String (Int × PyNum) := do
  match ← getArr j with
  | [a, b] => pure (← getInt a, ← getNum b)
  | _ => throw "expected [power, number]"

def errJ (e : PyErr) : Json := Json.mkObj [("err", Json.str e.name)]

def polyExact (p : ZPoly) : Bool :=
  p.data.all (fun kv => kv.2.isExact) && (match p.zero with | .num z => z.isExact | _ => true)

def objJ (o : ZObj) : Json :=
  Json.mkObj [("terms", arr (fun kv => Json.arr [intToJson kv.1, numJ kv.2]) (sortAsc o.p.data)),
    ("items", arr (fun kv => intToJson kv.1) o.p.data),
    ("zero", valJ o.p.zero), ("hashed", Json.bool o.hashed), ("exact", Json.bool (polyExact o.p)),
    ("len", natToJson o.p.data.length),
    ("getitem", arr (fun (k : Int) => valJ (getZ o.p k)) [-1, 0, 1, 1, 7]),
    ("is_polynomial", Json.bool (isPolynomial o.p.data)),
    ("order", match order o.p.data with | .ok n => intToJson n | .error e => errJ e),
    ("values", match valuesZ o.p with | .ok l => arr valJ l | .error e => errJ e)]

def getHorner (j : Json) : Except String Horner :=
  match j with
  | Json.str "auto" => pure .auto
  | Json.bool true => pure .yes
  | Json.bool false => pure .no
  | _ => throw "bad horner"

def getBin (s : String) : Except String BinOp :=
  match s with
  | "add" => pure .add | "sub" => pure .sub | "mul" => pure .mul
  | _ => throw s!"bad bin {s}"

def getScal (s : String) : Except String ScalOp :=
  match s with
  | "adds" => pure .adds | "radds" => pure .radds | "subs" => pure .subs | "rsubs" => pure .rsubs
  | "muls" => pure .muls | "rmuls" => pure .rmuls
  | _ => throw s!"bad scal {s}"

def getEk (j : Json) : Except String ExpKind :=
  match j with
  | Json.str "i" => pure .int | Json.str "b" => pure .bool | Json.str "f" => pure .float
  | _ => throw "bad exponent kind"

/-- variable (step index) → pool index -/
abbrev Vars := List (Option Nat)

def ref (vars : Vars) (j : Json) : Except String (Option Nat) := do
  let i ← getNat j
  pure ((vars[i]?).join)

/-- parse one step; `none` = it names an unbound variable (skipped) -/
def getOp (vars : Vars) (j : Json) : Except String (Option ZOp) := do
  let l ← getArr j
  let r1 (i : Json) (f : Nat → ZOp) : Except String (Option ZOp) := do
    pure ((← ref vars i).map f)
  let r2 (i k : Json) (f : Nat → Nat → ZOp) : Except String (Option ZOp) := do
    match ← ref vars i, ← ref vars k with
    | some a, some b => pure (some (f a b))
    | _, _ => pure none
  match l with
  | [Json.str "ctor", Json.str "dict", d, z] =>
      pure (some (.ctorDict (← getList getPairN d) (← getOptVal z)))
  | [Json.str "ctor", Json.str "list", d, z] => pure (some (.ctorList (← getList getNum d) (← getOptVal z)))
  | [Json.str "ctor", Json.str "num", d, z] => pure (some (.ctorNum (← getNum d) (← getOptVal z)))
  | [Json.str "ctor", Json.str "none", _, z] => pure (some (.ctorNone (← getOptVal z)))
  | [Json.str "ctor", Json.str "poly", i, z] => do
      let z ← getOptVal z
      r1 i (fun a => .ctorPoly a z)
  | [Json.str "copy", i, z] => do
      let z ← getOptVal z
      r1 i (fun a => .copy a z)
  | [Json.str "neg", i] => r1 i .neg
  | [Json.str "pos", i] => r1 i .pos
  | [Json.str "bin", Json.str b, i, k] => do
      let b ← getBin b
      r2 i k (.bin b)
  | [Json.str "scal", Json.str s, i, c] => do
      let s ← getScal s
      let c ← getNum c
      r1 i (fun a => .scal s a c)
  | [Json.str "divs", i, c] => do
      let c ← getNum c
      r1 i (fun a => .divs a c)
  | [Json.str "div", i, k] => r2 i k .div
  | [Json.str "pow", i, n, ek] => do
      let n ← getInt n
      let ek ← getEk ek
      r1 i (fun a => .pow a n ek)
  | [Json.str "powp", i, k] => r2 i k .powPoly
  | [Json.str "comp", i, k] => r2 i k .comp
  | [Json.str "call", i, v, h] => do
      let v ← getNum v
      let h ← getHorner h
      r1 i (fun a => .call a v h)
  | [Json.str "diff", i, n] => do
      let n ← getNat n
      r1 i (fun a => .diff a n)
  | [Json.str "integ", i] => r1 i .integ
  | [Json.str "setitem", i, k, c] => do
      let k ← getInt k
      let c ← getNum c
      r1 i (fun a => .setitem a k c)
  | [Json.str "setzero", i, z] => do
      let z ← getVal z
      r1 i (fun a => .setzero a z)
  | [Json.str "hash", i] => r1 i .hash
  | [Json.str "eq", i, k] => r2 i k .eq
  | [Json.str "ne", i, k] => r2 i k .ne
  | [Json.str "eqs", i, c] => do
      let c ← getNum c
      r1 i (fun a => .eqs a c)
  | _ => throw s!"bad zhist step {j.compress}"

def heapJ (st : ZState) : Json := arr objJ st.heap

def stepJ (st st' : ZState) (a : ZAct) : Json :=
  let atA (ad : Nat) : List (String × Json) :=
    [("addr", natToJson ad), ("obj", match st'.heap[ad]? with | some o => objJ o | none => Json.null)]
  match a with
  | .alloc _ => Json.mkObj ([("r", Json.str "obj")] ++ atA st.heap.length)
  | .alias ad => Json.mkObj ([("r", Json.str "obj")] ++ atA ad)
  | .store ad _ => Json.mkObj ([("r", Json.str "none")] ++ atA ad)
  | .frozen ad _ _ => Json.mkObj ([("r", Json.str "hash")] ++ atA ad)
  | .val v => Json.mkObj [("r", Json.str "val"), ("v", valJ v),
      ("exact", Json.bool (match v with | .num x => x.isExact | _ => true))]
  | .bool b => Json.mkObj [("r", Json.str "bool"), ("v", Json.bool b)]
  | .fail e => Json.mkObj [("r", Json.str "err"), ("err", Json.str e.name)]
  | .bad => Json.mkObj [("r", Json.str "skip")]

def runSteps : ZState → Vars → List Json → List Json → Except String (List Json × ZState × Vars)
  | st, vars, acc, [] => pure (acc.reverse, st, vars)
  | st, vars, acc, j :: js => do
    match ← getOp vars j with
    | none => runSteps st (vars ++ [none]) (Json.mkObj [("r", Json.str "skip")] :: acc) js
    | some op =>
      let a := zact st op
      let st' := zapply st a
      let v : Option Nat := match a with
        | .alloc _ => some st.pool.length
        | .alias _ => some st.pool.length
        | _ => none
      runSteps st' (vars ++ [v]) (stepJ st st' a :: acc) js

/-- classes of equal hash keys over the heap (`-1`: unhashable zero) -/
def hashClasses (heap : List ZObj) : List Int :=
  let keys := heap.map (fun o => hashZ o.p)
  keys.map (fun k => match k with
    | .error _ => (-1 : Int)
    | .ok kk => match keys.findIdx? (fun k' => match k' with | .ok kk' => kk' == kk | .error _ => false) with
      | some i => (i : Int)
      | none => -1)

def handle (entry : String) (j : Json) : Except String Json := do
  match entry with
  | "pynum" =>
    let a ← getNum (← field j "a")
    let b ← getNum (← field j "b")
    let n ← getInt (← field j "n")
    let powOk := !(n < 0 && a.isZero)
    pure <| Json.mkObj [("model", Json.mkObj [
      ("eq", Json.bool (a.eq b)), ("hash_a", intToJson a.hash), ("hash_b", intToJson b.hash),
      ("add", numJ (a + b)), ("sub", numJ (a - b)), ("mul", numJ (a * b)),
      ("div", if b.isZero then errJ .zeroDivision else numJ (a / b)),
      ("neg", numJ (-a)), ("pos", numJ a.pos),
      ("pow", if powOk then numJ (a.powInt n) else errJ .zeroDivision),
      ("powf", if powOk then numJ (a.powFloat n) else errJ .zeroDivision)])]
  | "zhist" =>
    let ops ← getArr (← field j "ops")
    let (steps, fin, vars) ← runSteps ZState.empty [] [] ops
    let addrs : List Json := vars.map (fun v => match v.bind (fun i => fin.pool[i]?) with
      | some a => natToJson a
      | none => Json.null)
    let eqM := fin.heap.map (fun o => Json.arr (fin.heap.map (fun o' => Json.bool (eqZ o.p o'.p))))
    pure <| Json.mkObj [("model", Json.mkObj [("steps", Json.arr steps), ("addrs", Json.arr addrs),
      ("eq", Json.arr eqM), ("hclass", ints (hashClasses fin.heap)), ("heap", heapJ fin)])]
  | _ => throw s!"C07Zero: unknown entry {entry}"

end ALV.Driver.C07Zero
