import ALV.Common.Json
namespace ALV.Driver.C03
open ALV ALV.J

/-- stub: the C03 slice is not built yet -/
def handle (entry : String) (_j : Json) : Except String Json :=
  throw s!"C03: unknown entry {entry}"

end ALV.Driver.C03
