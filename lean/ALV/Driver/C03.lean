import ALV.Common.Json
import ALV.Model.C03
import ALV.Spec.C03
import ALV.Spec.C03Call
import ALV.Spec.C03X
import ALV.Spec.C03XC
namespace ALV.Driver.C03
open ALV ALV.J ALV.C03

/-- the element functions a history may use (the harness holds the same table in Python) -/
def mapTable (k : Nat) : Int → Int :=
  match k with
  | 0 => fun x => x + 1
  | 1 => fun x => 2 * x
  | 2 => fun x => -x
  | 3 => fun x => x * x
  | 4 => fun x => x % 3          -- Python `%` with a positive modulus = Int.emod
  | 5 => fun x => x - 7
  | _ => fun x => x

def predTable (k : Nat) : Int → Bool :=
  match k with
  | 0 => fun x => x % 2 == 0
  | 1 => fun x => decide (x > 0)
  | 2 => fun x => x != 0
  | 3 => fun x => x % 3 != 1
  | 4 => fun _ => true
  | 5 => fun _ => false
  | 6 => fun x => decide (x < 5)
  | _ => fun _ => true

def getCnt (j : Json) : Except String Cnt := do
  let t ← getStr (← field j "t")
  match t with
  | "none" => pure .none
  | "int" => pure (.int (← getInt (← field j "v")))
  | "flt" => pure (.flt (← getRat (← field j "v")))
  | "inf" => pure .inf
  | "ninf" => pure .ninf
  | "nan" => pure .nan
  | _ => throw s!"bad count {t}"

/-- element type of a history: how items travel, and the element functions a history may
    use (the harness holds the same tables in Python) -/
structure Codec (α : Type) where
  get : Json → Except String α
  put : α → Json
  mapT : Nat → α → α
  predT : Nat → α → Bool

/-- plain integers -/
def intCodec : Codec Int := ⟨getInt, Json.int, mapTable, predTable⟩

/-- tagged items `[value, tag]`: the functions act on the value, the tag (which Python object
    represents the value: int / float / Fraction / unhashable / ...) travels with the item -/
def tagCodec : Codec (Int × Nat) where
  get j := do
    match ← getArr j with
    | [v, t] => pure (← getInt v, ← getNat t)
    | _ => throw "bad tagged item"
  put x := Json.arr [Json.int x.1, natToJson x.2]
  mapT k x := (mapTable k x.1, x.2)
  predT k x := predTable k x.1

section
variable {α : Type} (c : Codec α)

def getSrc (j : Json) : Except String (Src α) := do
  let k ← getStr (← field j "k")
  match k with
  | "list" => pure (.list (← getList c.get (← field j "xs")))
  | "cyc" => pure (.cyc (← getList c.get (← field j "xs")))
  | "chain" => pure (.chain (← getList (getList c.get) (← field j "xss")))
  | "const" => pure (.const (← c.get (← field j "v")))
  | "obj" => pure (.obj (← getNat (← field j "j")))
  | "mixed" => pure (.mixed (← getList c.get (← field j "pre")) (← getNat (← field j "j"))
      (← getList c.get (← field j "post")))
  | _ => throw s!"bad source {k}"

def getOp (j : Json) : Except String (Op α) := do
  let o ← getStr (← field j "op")
  let i : Except String Nat := do getNat (← field j "i")
  match o with
  | "new" => pure (.new (← getSrc c (← field j "src")))
  | "take" => pure (.take (← i) (← getCnt (← field j "n")))
  | "peek" => pure (.peek (← i) (← getCnt (← field j "n")))
  | "skip" => pure (.skip (← i) (← getCnt (← field j "n")))
  | "limit" => pure (.limit (← i) (← getCnt (← field j "n")))
  | "append" => pure (.append (← i) (← getSrc c (← field j "src")))
  | "map" => pure (.map (← i) (c.mapT (← getNat (← field j "f"))))
  | "filter" => pure (.filter (← i) (c.predT (← getNat (← field j "p"))))
  | "copy" => pure (.copy (← i))
  | "next" => pure (.next (← i))
  | "drain" => pure (.drain (← i))
  | "thub" => pure (.thub (← getSrc c (← field j "src")) (← getNat (← field j "n")))
  | "tee" => pure (.tee (← i) (← getNat (← field j "n")))
  | _ => throw s!"bad op {o}"

def getMut (j : Json) : Except String (Mut α) := do
  let k ← getStr (← field j "k")
  match k with
  | "clear" => pure .clear
  | "reverse" => pure .reverse
  | "pop0" => pure .pop0
  | "poplast" => pure .popLast
  | "extend" => pure (.extend (← getList c.get (← field j "xs")))
  | "fill" => pure (.fill (← c.get (← field j "v")))
  | _ => throw s!"bad mutation {k}"

/-- a step of a `hist` history: the operations of `history`, plus `lit`, `mut` and sources
    `{"k":"ref","j":j}` (a list of the caller) for `new` / `append` / `thub` -/
def getHOp (j : Json) : Except String (HOp α) := do
  let o ← getStr (← field j "op")
  let refOf : Except String (Option Nat) := do
    match optField j "src" with
    | none => pure none
    | some s =>
      if (← getStr (← field s "k")) == "ref" then pure (some (← getNat (← field s "j"))) else pure none
  match o with
  | "lit" => pure (.lit (← getList c.get (← field j "xs")))
  | "mut" => pure (.edit (← getNat (← field j "j")) (← getMut c (← field j "m")))
  | _ =>
    match ← refOf with
    | none => pure (.op (← getOp c j))
    | some r =>
      match o with
      | "new" => pure (.newRef r)
      | "append" => pure (.appendRef (← getNat (← field j "i")) r)
      | "thub" => pure (.thubRef r (← getNat (← field j "n")))
      | _ => throw s!"bad ref op {o}"

def getSpell (j : Json) : Except String Arg := do
  let t ← getStr (← field j "t")
  match t with
  | "omitted" => pure .omitted
  | "none" => pure (.given .none)
  | "int" => pure (.given (.int (← getInt (← field j "v"))))
  | "bool" => pure (.given (.bool ((← getInt (← field j "v")) != 0)))
  | "flt" => pure (.given (.flt (← getRat (← field j "v"))))
  | "frac" => pure (.given (.frac (← getRat (← field j "v"))))
  | "inf" => pure (.given .inf)
  | "ninf" => pure (.given .ninf)
  | "nan" => pure (.given .nan)
  | "other" => pure (.given .other)
  | _ => throw s!"bad spelling {t}"

def getNSpell (j : Json) : Except String NSpell := do
  let t ← getStr (← field j "t")
  match t with
  | "int" => pure (.int (← getInt (← field j "v")))
  | "bool" => pure (.bool ((← getInt (← field j "v")) != 0))
  | "flt" => pure .flt
  | _ => throw s!"bad n {t}"

def getCArg (j : Json) : Except String (CArg α) := do
  let k ← getStr (← field j "k")
  match k with
  | "lst" => pure (.lst (← getList c.get (← field j "xs")))
  | "scalar" => pure (.scalar (← c.get (← field j "v")))
  | "obj" => pure (.obj (← getNat (← field j "j")))
  | "endless" => pure (.endless (← getList c.get (← field j "xs")))
  | _ => throw s!"bad argument {k}"

/-- a step of a `calls` history: a call as the caller writes it (`"call"` present) or a `hist` step -/
def getCall (j : Json) : Except String (Call α) := do
  match optField j "call" with
  | none => pure (.plain (← getHOp c j))
  | some _ =>
    let o ← getStr (← field j "op")
    let i : Except String Nat := do getNat (← field j "i")
    match o with
    | "take" => pure (.take (← i) (← getSpell (← field j "a")))
    | "peek" => pure (.peek (← i) (← getSpell (← field j "a")))
    | "skip" => pure (.skip (← i) (← getSpell (← field j "a")))
    | "limit" => pure (.limit (← i) (← getSpell (← field j "a")))
    | "new" => pure (.stream (← getList (getCArg c) (← field j "args")))
    | "append" => pure (.append (← i) (← getList (getCArg c) (← field j "args")))
    | "thub" => pure (.thub (← getCArg c (← field j "data")) (← getNSpell (← field j "n")))
    | "tee" =>
      let n ← match optField j "n" with
        | none => pure none
        | some Json.null => pure none
        | some x => do pure (some (← getNSpell x))
      pure (.tee (← getCArg c (← field j "data")) n)
    | _ => throw s!"bad call {o}"

def obsJson : Option (Obs α) → Json
  | none => Json.mkObj [("hang", Json.bool true)]
  | some .unit => Json.mkObj [("self", Json.bool true)]
  | some (.item v) => Json.mkObj [("x", c.put v)]
  | some (.items vs) => Json.mkObj [("v", arr c.put vs)]
  | some (.new k) => Json.mkObj [("new", nats [k])]
  | some (.news ks) => Json.mkObj [("new", nats ks)]
  | some (.const v) => Json.mkObj [("const", c.put v)]
  | some (.err e) => Json.mkObj [("err", Json.str e)]

end

/-- fuel of the model run: bounds the nesting depth of iterators plus the longest run of
    items a `filter` rejects / a `list()` collects in one call -/
def fuel : Nat := 20000

def histOf {α : Type} (c : Codec α) (fl : Nat) (j : Json) : Except String Json := do
  let hops ← getList (getHOp c) (← field j "ops")
  let m := hrun fl (HSt.empty : HSt α) hops
  let s := hspecRun (⟨[], []⟩ : HSp α) hops
  pure <| Json.mkObj [("model", arr (obsJson c) m.1), ("spec", arr (obsJson c) s.1),
    ("model_lists", arr (arr c.put) m.2), ("spec_lists", arr (arr c.put) s.2)]

/-! raising element functions (the harness holds the same tables in Python) -/
def mapXT (k : Nat) : Int → Ev Int :=
  match k with
  | 0 => fun x => if x = 0 then .error "ZeroDivisionError" else .ok (Int.fdiv 12 x)      -- 12 // x
  | 1 => fun x => if x % 3 = 0 then .error "ValueError" else .ok (x + 1)
  | 2 => fun x => if x = 1 then .ok 5 else if x = 2 then .ok 7 else if x = 4 then .ok 1 else .error "KeyError"
  | 3 => fun x => .ok (2 * x)
  | _ => fun x => if x < 0 then .error "IndexError" else .ok x

def predXT (k : Nat) : Int → Ev Bool :=
  match k with
  | 0 => fun x => if x = 0 then .error "ZeroDivisionError" else .ok (Int.fmod 6 x == 0)  -- 6 % x == 0
  | 1 => fun x => if x = 5 then .error "TypeError" else .ok (decide (x > 2))
  | _ => fun x => .ok (x % 2 == 0)

/-- `s.real`, `s.imag`, `s.denominator`, `s.bit_length()`, `s.nope`, `s.conjugate()`, `s()` on ints -/
def attrXT (k : Nat) : Int → Ev Int :=
  match k with
  | 0 => fun x => .ok x
  | 1 => fun _ => .ok 0
  | 2 => fun _ => .ok 1
  | 3 => fun x => .ok (if x = 0 then 0 else (Nat.log2 x.natAbs + 1 : Nat))
  | 4 => fun _ => .error "AttributeError"
  | 5 => fun x => .ok x
  | _ => fun _ => .error "TypeError"

def getEv (j : Json) : Except String (Ev Int) :=
  match optField j "raise" with
  | some e => do pure (.error (← getStr e))
  | none => do pure (.ok (← getInt j))

def getXOp (j : Json) : Except String (XOp Int) := do
  let o ← getStr (← field j "op")
  let i : Except String Nat := do getNat (← field j "i")
  match o with
  | "new" => pure (.new (← getList getEv (← field j "es")))
  | "take" => pure (.take (← i) (← getCnt (← field j "n")))
  | "peek" => pure (.peek (← i) (← getCnt (← field j "n")))
  | "skip" => pure (.skip (← i) (← getNat (← field j "n")))
  | "skipc" => pure (xskipOf (← i) (← getCnt (← field j "n")))      -- any count, refused ones included
  | "limit" => pure (.limit (← i) (← getNat (← field j "n")))
  | "append" => pure (.append (← i) (← getList getEv (← field j "es")))
  | "map" => pure (.map (← i) (mapXT (← getNat (← field j "f"))))
  | "filter" => pure (.filter (← i) (predXT (← getNat (← field j "p"))))
  | "copy" => pure (.copy (← i))
  | "next" => pure (.next (← i))
  | "drain" => pure (.drain (← i))
  | "attr" => pure (.attr (← i) (attrXT (← getNat (← field j "g"))))
  | "nextattr" => pure (.nextAttr (← i))
  | _ => throw s!"bad xop {o}"

def callsOf {α : Type} (c : Codec α) (fl : Nat) (j : Json) : Except String Json := do
  let cs ← getList (getCall c) (← field j "ops")
  let m := crun fl (HSt.empty : HSt α) cs
  let s := cspecRun (⟨[], []⟩ : HSp α) cs
  pure <| Json.mkObj [("model", arr (obsJson c) m.1), ("spec", arr (obsJson c) s.1),
    ("model_lists", arr (arr c.put) m.2), ("spec_lists", arr (arr c.put) s.2)]

def handle (entry : String) (j : Json) : Except String Json := do
  match entry with
  | "xhist" =>
    let ops ← getList getXOp (← field j "ops")
    let m := xrun fuel (XSt.empty : XSt Int) ops
    let s := xspecRun ([] : XPool Int) ops
    -- the specification with copies (Spec/C03XC.lean): compared on EVERY history, copies or not
    let sc := srun fuel (SSt.empty : SSt Int) ops
    pure <| Json.mkObj [("model", arr (obsJson intCodec) m), ("spec", arr (obsJson intCodec) s),
      ("spec_copies", arr (obsJson intCodec) sc)]
  | "calls" =>
    let tagged := match optField j "tagged" with | some (Json.bool b) => b | _ => false
    let fl := match optField j "fuel" with | some (Json.int n) => n.toNat | _ => fuel
    if tagged then callsOf tagCodec fl j else callsOf intCodec fl j
  | "history" =>
    let ops ← getList (getOp intCodec) (← field j "ops")
    let m := run fuel (St.empty : St Int) ops
    let s := specRun ([] : SPool Int) ops
    pure <| Json.mkObj [("model", arr (obsJson intCodec) m), ("spec", arr (obsJson intCodec) s)]
  | "hist" =>
    -- histories with the caller's containers; items plain ints or tagged `[value, tag]`
    let tagged := match optField j "tagged" with | some (Json.bool b) => b | _ => false
    let fl := match optField j "fuel" with | some (Json.int n) => n.toNat | _ => fuel
    if tagged then histOf tagCodec fl j else histOf intCodec fl j
  | "count" =>
    let c ← getCnt (← field j "n")
    let tm : Json := match takeMode c with
      | .one => Json.str "one" | .all => Json.str "all" | .n k => natToJson k
    let rc : Json := match roundCount c with
      | .ok k => natToJson k | .error e => Json.str e
    pure <| Json.mkObj [("take", tm), ("round", rc)]
  | _ => throw s!"C03: unknown entry {entry}"

end ALV.Driver.C03
