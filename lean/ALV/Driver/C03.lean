import ALV.Common.Json
import ALV.Model.C03
import ALV.Spec.C03
namespace ALV.Driver.C03
open ALV ALV.J ALV.C03

/-- the element functions a history may use (the harness holds the same table in Python) -/
def mapTable (k : Nat) : Int → Int :=
  match k with
  | 0 => fun x => x + 1
  | 1 => fun x => 2 * x
  | 2 => fun x => -x
  | 3 => fun x => x * x
  | 4 => fun x => x % 3          -- Python `%` with a positive modulus = Int.emod
  | 5 => fun x => x - 7
  | _ => fun x => x

def predTable (k : Nat) : Int → Bool :=
  match k with
  | 0 => fun x => x % 2 == 0
  | 1 => fun x => decide (x > 0)
  | 2 => fun x => x != 0
  | 3 => fun x => x % 3 != 1
  | 4 => fun _ => true
  | 5 => fun _ => false
  | 6 => fun x => decide (x < 5)
  | _ => fun _ => true

def getCnt (j : Json) : Except String Cnt := do
  let t ← getStr (← field j "t")
  match t with
  | "none" => pure .none
  | "int" => pure (.int (← getInt (← field j "v")))
  | "flt" => pure (.flt (← getRat (← field j "v")))
  | "inf" => pure .inf
  | "ninf" => pure .ninf
  | "nan" => pure .nan
  | _ => throw s!"bad count {t}"

def getSrc (j : Json) : Except String (Src Int) := do
  let k ← getStr (← field j "k")
  match k with
  | "list" => pure (.list (← getList getInt (← field j "xs")))
  | "cyc" => pure (.cyc (← getList getInt (← field j "xs")))
  | "chain" => pure (.chain (← getList (getList getInt) (← field j "xss")))
  | "const" => pure (.const (← getInt (← field j "v")))
  | "obj" => pure (.obj (← getNat (← field j "j")))
  | _ => throw s!"bad source {k}"

def getOp (j : Json) : Except String (Op Int) := do
  let o ← getStr (← field j "op")
  let i : Except String Nat := do getNat (← field j "i")
  match o with
  | "new" => pure (.new (← getSrc (← field j "src")))
  | "take" => pure (.take (← i) (← getCnt (← field j "n")))
  | "peek" => pure (.peek (← i) (← getCnt (← field j "n")))
  | "skip" => pure (.skip (← i) (← getCnt (← field j "n")))
  | "limit" => pure (.limit (← i) (← getCnt (← field j "n")))
  | "append" => pure (.append (← i) (← getSrc (← field j "src")))
  | "map" => pure (.map (← i) (mapTable (← getNat (← field j "f"))))
  | "filter" => pure (.filter (← i) (predTable (← getNat (← field j "p"))))
  | "copy" => pure (.copy (← i))
  | "next" => pure (.next (← i))
  | "drain" => pure (.drain (← i))
  | "thub" => pure (.thub (← getSrc (← field j "src")) (← getNat (← field j "n")))
  | "tee" => pure (.tee (← i) (← getNat (← field j "n")))
  | _ => throw s!"bad op {o}"

def obsJson : Option (Obs Int) → Json
  | none => Json.mkObj [("hang", Json.bool true)]
  | some .unit => Json.mkObj [("self", Json.bool true)]
  | some (.item v) => Json.mkObj [("x", Json.int v)]
  | some (.items vs) => Json.mkObj [("v", ints vs)]
  | some (.new k) => Json.mkObj [("new", nats [k])]
  | some (.news ks) => Json.mkObj [("new", nats ks)]
  | some (.const v) => Json.mkObj [("const", Json.int v)]
  | some (.err e) => Json.mkObj [("err", Json.str e)]

/-- fuel of the model run: bounds the nesting depth of iterators plus the longest run of
    items a `filter` rejects / a `list()` collects in one call -/
def fuel : Nat := 20000

def handle (entry : String) (j : Json) : Except String Json := do
  match entry with
  | "history" =>
    let ops ← getList getOp (← field j "ops")
    let m := run fuel (St.empty : St Int) ops
    let s := specRun ([] : SPool Int) ops
    pure <| Json.mkObj [("model", arr obsJson m), ("spec", arr obsJson s)]
  | "count" =>
    let c ← getCnt (← field j "n")
    let tm : Json := match takeMode c with
      | .one => Json.str "one" | .all => Json.str "all" | .n k => natToJson k
    let rc : Json := match roundCount c with
      | .ok k => natToJson k | .error e => Json.str e
    pure <| Json.mkObj [("take", tm), ("round", rc)]
  | _ => throw s!"C03: unknown entry {entry}"

end ALV.Driver.C03
