import ALV.Common.Json
import ALV.Model.C19Src
/-!
  C19 driver, float entries: binary64 values travel as their 64-bit patterns (JSON integers), so
  that `-0.0`, denormals, inf and nan survive the transport and the comparison is bit for bit.
-/
namespace ALV.Driver.C19Float
open ALV ALV.J ALV.C19

def getF (j : Json) : Except String Float := do
  let n ← getNat j
  pure (Float.ofBits n.toUInt64)

def bitsJson (x : Float) : Json := natToJson x.toBits.toNat

def getArgF (j : Json) : Except String (Arg Float) :=
  match j.getObjVal? "num" with
  | some v => do pure (.num (← getF v))
  | none =>
    match j.getObjVal? "strm" with
    | some v => do pure (.strm (← getList getF v))
    | none => throw "float argument must be {num} or {strm}"

def optF (j : Json) (k : String) : Except String (Option Float) :=
  match optField j k with
  | none => pure none
  | some v => do pure (some (← getF v))

def runJson (r : Run Float) : List (String × Json) :=
  [("out", arr bitsJson r.1), ("err", optJson Json.str r.2)]

def handle (entry : String) (j : Json) : Except String Json := do
  let o := floatOps
  match entry with
  | "mc_float" =>
    let a ← getArgF (← field j "start")
    let m ← getArgF (← field j "modulo")
    let s ← getArgF (← field j "step")
    let n ← getNat (← field j "n")
    pure <| Json.mkObj (runJson (mcNow o a m s n) ++ [("branch", Json.str (mcBranchG o a m s))])
  | "sin_float" =>
    -- `sinusoid(freq, phase)`: the counter `modulo_counter(phase, 2*pi, freq)` and its sines
    let twoPi ← getF (← field j "two_pi")
    let f ← getArgF (← field j "freq")
    let p ← getArgF (← field j "phase")
    let n ← getNat (← field j "n")
    let r := mcNow o p (.num twoPi) f n
    pure <| Json.mkObj (runJson r ++ [("sin", arr bitsJson (sinusoidNow o Float.sin twoPi f p n).1),
                                      ("branch", Json.str (mcBranchG o p (.num twoPi) f))])
  | "line_float" =>
    let dur ← getF (← field j "dur")
    let b ← getF (← field j "begin")
    let e ← getF (← field j "end")
    let fin ← getBool (← field j "finish")
    let n ← getNat (← field j "n")
    pure <| Json.mkObj (runJson (lineG o dur b e fin n))
  | "const_float" =>
    let v ← getF (← field j "v")
    let dur ← optF j "dur"
    let n ← getNat (← field j "n")
    pure <| Json.mkObj (runJson (constG o v dur n))
  | "impulse_float" =>
    let dur ← optF j "dur"
    let n ← getNat (← field j "n")
    let r := impulseG o dur (1 : Nat) (0 : Nat) n
    pure <| Json.mkObj [("out", nats r.1), ("err", optJson Json.str r.2)]
  | "adsr_float" =>
    let dur ← getF (← field j "dur")
    let a ← getF (← field j "a")
    let d ← getF (← field j "d")
    let s ← getF (← field j "s")
    let r ← getF (← field j "r")
    let n ← getNat (← field j "n")
    pure <| Json.mkObj (runJson (adsrG o dur a d s r n))
  | "attack_float" =>
    let a ← getF (← field j "a")
    let d ← getF (← field j "d")
    let s ← getArgF (← field j "s")
    let n ← getNat (← field j "n")
    pure <| Json.mkObj (runJson (attackNow o a d s n))
  | "table_float" =>
    let tbl ← getList getF (← field j "table")
    let den ← getF (← field j "den")
    let f ← getArgF (← field j "freq")
    let p ← getArgF (← field j "phase")
    let n ← getNat (← field j "n")
    let r := tableCallG o tbl den f p n
    -- the outputs: today's code (`tableCallNow`, what the source translates to); the positions: the counter
    pure <| Json.mkObj (runJson (tableCallNow o tbl den f p n) ++ [("idx", arr bitsJson r.2)])
  | _ => throw s!"C19: unknown entry {entry}"

end ALV.Driver.C19Float
