import ALV.Common.Json
namespace ALV.Driver.C06
open ALV ALV.J

/-- stub: the C06 slice is not built yet -/
def handle (entry : String) (_j : Json) : Except String Json :=
  throw s!"C06: unknown entry {entry}"

end ALV.Driver.C06
