import ALV.Common.Json
import ALV.Model.C06
import ALV.Model.C06Hub
import ALV.Spec.C06
import ALV.Driver.C04
namespace ALV.Driver.C06
open ALV ALV.J ALV.C04 ALV.C06
open ALV.Driver.C04 (getMem varJson atomJson gainJson errJson)

/-! Driver for C06.  Numbers are exact rationals.

  coefficient : q  |  {"s":[q …]}        (a Stream, by the items it delivers)
  entry "call":
    num, den : [[power, coefficient], …]   raw pairs of `ZFilter(num, den)`
    mem (optional, as in C04), zero : q, xs : [q …]
    numdiv, dendiv (optional) : a Stream by which the numerator / denominator `Poly` is divided
  entry "call2": as "call" plus  second : {mem (optional), zero, xs}  — the same filter object called again
    payload: {"model": {"first": <as for "call">, "second": {"err":kind} | {"out":[…]}, "gainpath":bool,
                        "den_after": the object's denominator after the first call},
              "spec":  {"first": {"err"} | {"out"}, "second": {"err"} | {"out"}}}
  entry "expr":
    tree : ["z",k] | ["c",q] | ["s",[q…]] | ["neg",t] | ["add"|"sub"|"mul"|"div", l, r]   (+ mem, zero, xs)
  payload: {"model": {"err":kind}
                   | {"out":[…], "ir":TIR, "b":[coef…], "a":[coef…], "gainpath":bool,
                      "num0":[[k,coef]…], "den0":[…]  (the filter object's polynomials),
                      "bpos":[[k, items consumed from b{k}] …], "apos":[…],
                      "a0zero": null | index of the first zero of a Stream gain},
            "spec" : {"err":kind} | {"out":[…]}}
-/

/-! entry "hub": the tee / thub bookkeeping machine (`ALV.C06.Hub`)
    srcs : [{"items":[q…], "raises":bool} …]        the sources wrapped by the leaf Streams
    num, den : PE   with  PE = ["poly", [[power, C] …]] | ["mul", PE, PE] | ["divs", PE, C]
                          C  = q | {"src":k}         (the SAME k twice = the same Stream object twice)
    zero, xs
    payload {"model": {"out":[…], "trace":[[pulls per source] per output], "final":[…], "end":"input"|"stop"|"raise",
                       "at_call":[…]}} -/
def getHC (j : Json) : Except String (ALV.C06.Hub.HC Rat) :=
  match optField j "src" with
  | some k => do pure (.s (.src (← getNat k)))
  | none => do pure (.c (← getRat j))

def getHPair (j : Json) : Except String (Int × ALV.C06.Hub.HC Rat) := do
  match j with
  | Json.arr [k, v] => pure (← getInt k, ← getHC v)
  | _ => throw s!"expected [power, coeff], got {j.compress}"

partial def getPE (j : Json) : Except String (ALV.C06.Hub.PE Rat) := do
  match j with
  | Json.arr [Json.str "poly", ps] => pure (.poly (← getList getHPair ps))
  | Json.arr [Json.str "mul", a, b] => pure (.mul (← getPE a) (← getPE b))
  | Json.arr [Json.str "divs", a, c] => pure (.divs (← getPE a) (← getHC c))
  | _ => throw s!"bad polynomial expression {j.compress}"

def getSrc (j : Json) : Except String (ALV.C06.Hub.Src Rat) := do
  pure ⟨← getList getRat (← field j "items"), ← getBool (← field j "raises")⟩

def hubJson (r : ALV.C06.Hub.Run Rat) : Json :=
  Json.mkObj [("out", rats r.out), ("trace", arr nats r.trace), ("final", nats r.final),
    ("end", Json.str (match r.ending with | .ok _ => "input" | .stop => "stop" | .raise => "raise")),
    ("at_call", nats r.atCall)]


def getCoef (j : Json) : Except String (Coef Rat) :=
  match optField j "s" with
  | some s => do pure (Coef.strm (← getList getRat s))
  | none => do pure (Coef.const (← getRat j))

def getPair (j : Json) : Except String (Int × Coef Rat) := do
  match j with
  | Json.arr [k, v] => pure (← getInt k, ← getCoef v)
  | _ => throw s!"expected [power, coeff], got {j.compress}"

def coefJson : Coef Rat → Json
  | .const c => ratToJson c
  | .strm s => Json.mkObj [("s", rats s)]

def pairsJson (t : Terms (Coef Rat)) : Json :=
  arr (fun (kv : Int × Coef Rat) => Json.arr [intToJson kv.1, coefJson kv.2]) t

def tatomJson : TAtom Rat → Json
  | .lti a => atomJson a
  | .nextB k => Json.arr [Json.str "next", Json.str "b", natToJson k, Json.str "d", natToJson k]
  | .nextA k => Json.arr [Json.str "negnext", Json.str "a", natToJson k, Json.str "m", natToJson k]

def tirJson : TIR Rat → Json
  | .constLoop z => Json.mkObj [("kind", Json.str "const"), ("zero", ratToJson z)]
  | .loop nm nd sum gain shifts bargs aargs => Json.mkObj [
      ("kind", Json.str "loop"), ("nm", natToJson nm), ("nd", natToJson nd),
      ("sum", arr tatomJson sum), ("gain", gainJson gain),
      ("shifts", arr (fun (ts : Var × Var) => Json.arr (varJson ts.1 ++ varJson ts.2)) shifts),
      ("bargs", nats bargs), ("aargs", nats aargs)]

/-- items consumed from every Stream coefficient: [[delay, count] …] -/
def posJson (k0 : Nat) (cs : List (Coef Rat)) (its : List (List Rat)) : Json :=
  let rec go (k : Nat) : List (Coef Rat) → List (List Rat) → List Json
    | .strm s :: cs, r :: rs => Json.arr [natToJson k, natToJson (s.length - r.length)] :: go (k + 1) cs rs
    | _ :: cs, _ :: rs => go (k + 1) cs rs
    | _, _ => []
  Json.arr (go k0 cs its)

def firstZero (l : List Rat) : Option Nat :=
  let rec go (i : Nat) : List Rat → Option Nat
    | [] => none
    | x :: xs => if x = 0 then some i else go (i + 1) xs
  go 0 l

/-- the model observation of `filt(xs, memory, zero)` for a filter object with polynomials `n0`, `d0` -/
def callJson (n0 d0 : Terms (Coef Rat)) (mem : Mem Rat) (zero : Rat) (xs : List Rat) : Json :=
  match callTV n0 d0 mem zero xs with
  | .error e => errJson e
  | .ok (out, its) =>
    -- the coefficients the loop is generated from (after the variable-gain rewriting)
    let gp := (coefAt d0 0).isStream
    let nd : Terms (Coef Rat) × Terms (Coef Rat) :=
      if gp then
        match normalise (gainPath n0 d0).1 (gainPath n0 d0).2 with
        | .ok r => r
        | .error _ => (n0, d0)
      else (n0, d0)
    let a := dense nd.2
    let b := dense nd.1
    Json.mkObj [("out", rats out), ("ir", tirJson (compileTV b a zero)),
                ("b", arr coefJson b), ("a", arr coefJson a), ("gainpath", Json.bool gp),
                ("num0", pairsJson n0), ("den0", pairsJson d0),
                ("bpos", posJson 0 b its.b), ("apos", posJson 1 a.tail its.a),
                ("a0zero", match coefAt d0 0 with
                           | .strm g => optJson natToJson (firstZero g)
                           | .const _ => Json.null)]

/-- the specification on the coefficient sequences `num`, `den` (dense lists from delay 0) -/
def specJson (n0 d0 : Terms (Coef Rat)) (mem : Mem Rat) (zero : Rat) (xs : List Rat) : Json :=
  match specCallTV n0 d0 mem zero xs with
  | .error e => errJson e
  | .ok out => Json.mkObj [("out", rats out)]

partial def getTree (j : Json) : Except String (Tree Rat) := do
  match j with
  | Json.arr [Json.str "z", k] => pure (.z (← getNat k))
  | Json.arr [Json.str "c", v] => pure (.c (← getRat v))
  | Json.arr [Json.str "s", v] => pure (.s (← getList getRat v))
  | Json.arr [Json.str "neg", t] => pure (.neg (← getTree t))
  | Json.arr [Json.str "add", l, r] => pure (.add (← getTree l) (← getTree r))
  | Json.arr [Json.str "sub", l, r] => pure (.sub (← getTree l) (← getTree r))
  | Json.arr [Json.str "mul", l, r] => pure (.mul (← getTree l) (← getTree r))
  | Json.arr [Json.str "div", l, r] => pure (.div (← getTree l) (← getTree r))
  | _ => throw s!"bad tree {j.compress}"

def handle (entry : String) (j : Json) : Except String Json := do
  match entry with
  | "call" =>
    let num ← getList getPair (← field j "num")
    let den ← getList getPair (← field j "den")
    let mem ← getMem j
    let zero ← getRat (← field j "zero")
    let xs ← getList getRat (← field j "xs")
    -- optional: the polynomials are divided by a Stream first (`Poly.__truediv__`: every
    -- coefficient divided by its own tee copy of the Stream)
    let numdiv ← match optField j "numdiv" with
      | some c => do pure (some (← getCoef c))
      | none => pure none
    let dendiv ← match optField j "dendiv" with
      | some c => do pure (some (← getCoef c))
      | none => pure none
    -- optional: the numerator `Poly` is divided by a `Poly` (`Poly.__truediv__`: one term — every
    -- coefficient divided by that term, powers shifted —, none: ZeroDivisionError, several:
    -- NotImplementedError)
    let numpdiv ← match optField j "numpdiv" with
      | some c => do pure (some (← getList getPair c))
      | none => pure none
    -- optional: `filt.denpoly[0] = v` on the built object before the call (`Poly.__setitem__`)
    let setden0 ← match optField j "setden0" with
      | some c => do pure (some (← getCoef c))
      | none => pure none
    let divM (p : Terms (Coef Rat)) (c : Option (Coef Rat)) : Terms (Coef Rat) :=
      match c with
      | none => p
      | some c => match ALV.C07.divScalar p c with
        | .ok q => q
        | .error _ => p
    let divS (p : List (Int × Coef Rat)) (c : Option (Coef Rat)) : List (Int × Coef Rat) :=
      match c with
      | none => p
      | some c => p.map (fun kv => if kv.2 = 0 then kv else (kv.1, kv.2 / c))   -- a zero stays absent
    let pyErr (e : ALV.C07.PyErr) : Json := Json.mkObj [("err", Json.str e.name)]
    -- numerator polynomial of the model / numerator pairs of the spec after the Poly division
    let numM : Except ALV.C07.PyErr (Terms (Coef Rat)) :=
      match numpdiv with
      | none => .ok (divM (mkPoly num) numdiv)
      | some pd => ALV.C07.divPoly (mkPoly num) (ALV.C07.mk pd)
    let numS : List (Int × Coef Rat) :=
      match numpdiv with
      | none => divS num numdiv
      | some pd => match ALV.C07.mk pd with
        | [(d, w)] => num.map (fun kv => if kv.2 = 0 then (kv.1 - d, kv.2) else (kv.1 - d, kv.2 / w))
        | _ => num
    let setM (d0 : Terms (Coef Rat)) : Terms (Coef Rat) :=
      match setden0 with
      | none => d0
      | some v => ALV.C07.setItem d0 0 v
    let model : Json :=
      match numM with
      | .error e => pyErr e
      | .ok nM =>
        match normalise nM (divM (mkPoly den) dendiv) with
        | .error e => errJson e
        | .ok (n0, d0) => callJson n0 (setM d0) mem zero xs
    let denS := divS den dendiv
    let spec : Json :=
      match numM, setden0 with
      | .error e, _ => pyErr e
      | .ok _, some (.const 0) => model      -- a deleted gain: outside the property, the model's answer
      | .ok _, sd =>
        let denS' : List (Int × Coef Rat) :=
          match sd, listMin (keysNZ denS) with
          | some v, some p => denS ++ [(p, v)]
          | _, _ => denS
        match specCallTV numS denS' mem zero xs with
        | .error e => errJson e
        | .ok out => Json.mkObj [("out", rats out)]
    pure <| Json.mkObj [("model", model), ("spec", spec)]
  | "call2" =>
    -- two calls of the SAME filter object, the first output consumed to its end before the second
    -- call: "second" : {mem (optional), zero, xs}.  model = the code (`callTwice` / `objAfter`: the
    -- object keeps its polynomials, every coefficient Stream is where the first call left it);
    -- spec = the contract over the history (`specCallTwice`: the coefficient streams continued)
    let num ← getList getPair (← field j "num")
    let den ← getList getPair (← field j "den")
    let mem ← getMem j
    let zero ← getRat (← field j "zero")
    let xs ← getList getRat (← field j "xs")
    let sec ← field j "second"
    let mem2 ← getMem sec
    let zero2 ← getRat (← field sec "zero")
    let xs2 ← getList getRat (← field sec "xs")
    let outJson (r : Except Err (List Rat)) : Json :=
      match r with
      | .error e => errJson e
      | .ok out => Json.mkObj [("out", rats out)]
    let model : Json :=
      match normalise (mkPoly num) (mkPoly den) with
      | .error e => Json.mkObj [("first", errJson e), ("second", errJson e), ("init", Json.bool true)]
      | .ok (n0, d0) =>
        let r := callTwice n0 d0 mem zero xs mem2 zero2 xs2
        Json.mkObj [("first", callJson n0 d0 mem zero xs), ("second", outJson (r.2.map Prod.fst)),
                    ("gainpath", Json.bool (coefAt d0 0).isStream),
                    ("den_after", pairsJson (objAfter n0 d0 r.1).2)]
    let r := specCallTwice num den mem zero xs mem2 zero2 xs2
    let spec : Json := Json.mkObj [("first", outJson r.1), ("second", outJson r.2)]
    pure <| Json.mkObj [("model", model), ("spec", spec)]
  | "expr" =>
    -- the filter is built by ZFilter / Poly arithmetic (C07 model at Stream coefficients); the
    -- specification is the time-varying difference equation on the resulting coefficient sequences
    let tree ← getTree (← field j "tree")
    let mem ← getMem j
    let zero ← getRat (← field j "zero")
    let xs ← getList getRat (← field j "xs")
    match evalTree tree with
    | .error e => pure <| Json.mkObj [("model", errJson e), ("spec", errJson e), ("stage", Json.str "init")]
    | .ok (.num _) => throw "expr: the tree evaluates to a number, not to a filter"
    | .ok (.filt f) =>
      pure <| Json.mkObj [("model", callJson f.num f.den mem zero xs), ("spec", specJson f.num f.den mem zero xs)]
  | "hub" =>
    let srcs ← getList getSrc (← field j "srcs")
    let num ← getPE (← field j "num")
    let den ← getPE (← field j "den")
    let zero ← getRat (← field j "zero")
    let xs ← getList getRat (← field j "xs")
    let sf : Nat → ALV.C06.Hub.Src Rat := fun k => srcs.getD k ⟨[], false⟩
    pure <| Json.mkObj [("model", hubJson (ALV.C06.Hub.callH sf srcs.length num den zero xs))]
  | _ => throw s!"C06: unknown entry {entry}"

end ALV.Driver.C06
