import ALV.Common.Json
namespace ALV.Driver.C18
open ALV ALV.J

/-- stub: the C18 slice is not built yet -/
def handle (entry : String) (_j : Json) : Except String Json :=
  throw s!"C18: unknown entry {entry}"

end ALV.Driver.C18
