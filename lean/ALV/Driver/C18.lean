import ALV.Common.Json
import ALV.Model.C18
import ALV.Model.C18Res
import ALV.Model.C18Riff
import ALV.Model.C18Call
import ALV.Spec.C18
namespace ALV.Driver.C18
open ALV ALV.J ALV.C18

/-- the `byte_order` argument as it is spelled in the call -/
def orderArgOf (j : Json) : Except String OrderArg :=
  match j with
  | Json.null => pure .none
  | Json.str "omit" => pure .omitted
  | Json.str "@" => pure .at
  | Json.str "=" => pure .eq
  | Json.str "<" => pure .lt
  | Json.str ">" => pure .gt
  | Json.str "!" => pure .bang
  | _ => throw s!"bad byte order {j.compress}"

def excName : Exc → String
  | .structError => "struct.error" | .overflowError => "OverflowError" | .typeError => "TypeError"
  | .indexError => "IndexError"

def pyv (j : Json) : Except String PyV :=
  match j with
  | Json.null => pure .none
  | Json.bool b => pure (.bool b)
  | Json.int n => pure (.int n)
  | Json.str "FILE" => pure .file
  | Json.obj _ => do
    match optField j "list", optField j "s" with
    | some lj, _ => pure (.list (← getNat lj))
    | none, some sj => pure (.str (← getStr sj))
    | none, none => pure (.flt (Float.ofBits (UInt64.ofNat (← getNat (← field j "f")))))
  | _ => throw s!"bad argument {j.compress}"

def orderOf (j : Json) : Except String (Option Order) :=
  match j with
  | Json.null => pure none
  | Json.str "<" => pure (some .little)
  | Json.str ">" => pure (some .big)
  | _ => throw s!"bad byte order {j.compress}"

/-- (format of the struct strategy, format of the array strategy): they differ for l / L under a
    standard-size prefix (4 bytes for struct, the machine's `long` in an array) -/
def fmtOf (s : String) (std : Bool) (long : Nat) : Except String (Fmt × Fmt) :=
  match s with
  | "b" => pure (.b, .b) | "h" => pure (.h, .h) | "i" => pure (.i, .i) | "f" => pure (.f, .f) | "d" => pure (.d, .d)
  | "B" => pure (.u 1, .u 1) | "H" => pure (.u 2, .u 2) | "I" => pure (.u 4, .u 4)
  | "q" => pure (.s 8, .s 8) | "Q" => pure (.u 8, .u 8)
  | "l" => pure (.s (if std then 4 else long), .s long)
  | "L" => pure (.u (if std then 4 else long), .u long)
  | _ => throw s!"bad format {s}"

/-- Python number: JSON integer = int, `{"f": bits}` = the double with that bit pattern -/
def pval (j : Json) : Except String PVal :=
  match j with
  | Json.int n => pure (.int n)
  | Json.obj _ => do
    match optField j "b" with
    | some bj => pure (.bool (← getBool bj))
    | none =>
      let b ← getNat (← field j "f")
      let x := Float.ofBits (UInt64.ofNat b)
      pure (if (optField j "q").isSome then .frac x else .flt x)
  | _ => throw s!"bad value {j.compress}"

def bytesJson (b : Bytes) : Json := arr (fun (x : UInt8) => Json.int x.toNat) b

def getBytes (j : Json) : Except String Bytes := do
  let l ← getList getNat j
  pure (l.map UInt8.ofNat)

def absErr : PackErr → String
  | .range => "range" | .notInt => "notInt" | .floatRange => "floatRange"

def genJson {ε} (name : ε → String) (g : Gen Bytes ε) : Json :=
  Json.mkObj [("out", arr bytesJson g.out), ("err", optJson (fun e => Json.str (name e)) g.err)]

def wavErr : WavErr → String
  | .structLen => "struct.error" | .ordLen => "TypeError" | .noUnpacker => "KeyError"

def sampleJson : Sample Rat → Json
  | .raw n => Json.int n
  | .scaled x => ratToJson x

def kindOf : List (Sample Rat) → String
  | [] => "none"
  | .raw _ :: _ => "int"
  | .scaled _ :: _ => "float"

def handleJson (h : Handle) : Json :=
  Json.mkObj [("owner", Json.str (match h.owner with | .stream => "stream" | .caller => "caller")),
    ("open", Json.bool h.isOpen), ("closes", natToJson h.closeCalls), ("abandoned", Json.bool h.abandoned)]

def obsJson : Option (Obs (Sample Rat) WavErr) → Json
  | none => Json.null
  | some (.item b) => Json.mkObj [("item", sampleJson b)]
  | some .stop => Json.str "stop"
  | some (.raised e) => Json.str (wavErr e)

def openErr : OpenErr → String
  | .eof => "OTHER:EOFError" | .waveError => "wave.Error" | .runtime => "RuntimeError"

/-- the wave file of a request: parsed by the Lean RIFF reader from the bytes of the whole file
    (`file`), or given by its header fields and data chunk -/
def wavFileOf (j : Json) : Except String (Except OpenErr WavFile) := do
  match optField j "file" with
  | some fj => pure (parseRiff (← getBytes fj))
  | none =>
    let bits ← getNat (← field j "bits")
    let channels ← getNat (← field j "channels")
    let rate ← getNat (← field j "rate")
    let data ← getBytes (← field j "data")
    pure (.ok ⟨channels, headerSampwidth bits, rate, data⟩)

def sourceOf (s : String) : Except String Source :=
  match s with
  | "name" => pure .name | "fileobj" => pure .fileObj | "memory" => pure .memory
  | "refused" => pure .refusedName
  | _ => throw s!"bad source {s}"

def evOf (s : String) : Except String Ev :=
  match s with
  | "n" => pure .next | "c" => pure .collect
  | _ => throw s!"bad event {s}"

/-- the life-cycle machine for one way of handing the file over -/
def resRun (j : Json) (src : Source) : Except String Json := do
  let keep ← getBool (← field j "keep")
  let hok0 ← getBool (← field j "header_ok")
  let npre ← getNat (← field j "pre")
  let evs ← getList (fun e => do evOf (← getStr e)) (← field j "events")
  let pf ← wavFileOf j
  let (hok, f, perr) := match pf with
    | .ok f => (hok0, f, "")
    | .error e => (false, (⟨1, 1, 1, []⟩ : WavFile), openErr e)
  let o : WavObs Rat := wavStream f keep
  let g := o.gen
  let early := decide (g.err = some WavErr.noUnpacker)
  let pre := List.replicate npre (Handle.fresh .caller)
  match construct src hok pre with
  | .error hs => pure <| Json.mkObj [("open", Json.str "error"), ("handles", arr handleJson hs),
      ("parse_err", Json.str perr)]
  | .ok s0 =>
    let tr := rTrace g early evs s0
    let k := (evs.filter (· == Ev.next)).length
    pure <| Json.mkObj [("open", Json.str "ok"), ("early", Json.bool early),
      ("handles", arr handleJson s0.handles), ("fp", Json.bool s0.wr.fp),
      ("trace", arr (fun (p : Option (Obs (Sample Rat) WavErr) × RS) =>
          Json.mkObj [("obs", obsJson p.1), ("fp", Json.bool p.2.wr.fp), ("handles", arr handleJson p.2.handles)]) tr),
      -- the closed form of theorem res_next_values, for histories made of next() calls only
      ("expect", if evs.all (· == Ev.next) then arr (fun x => obsJson (some x)) (expectObs g k) else Json.null),
      ("kind", Json.str (kindOf g.out)),
      ("hdr", Json.mkObj [("rate", natToJson o.rate), ("channels", natToJson o.channels), ("bits", natToJson o.bits)])]

/-- `res`: the file life-cycle machine run over the value model's own `Gen`; `alt_source` asks for a
    second prediction (a name kind the code may accept or refuse: both answers are given) -/
def handleRes (j : Json) : Except String Json := do
  let src ← sourceOf (← getStr (← field j "source"))
  let main ← resRun j src
  match optField j "alt_source" with
  | none => pure main
  | some a => do
    let alt ← resRun j (← sourceOf (← getStr a))
    pure <| Json.mkObj [("main", main), ("alt", alt)]

/-- one generator alone: the chunk generators of one `chunks(...)` call, or one `WavStream` -/
def handle1 (entry : String) (j : Json) : Except String Json := do
  match entry with
  | "chunks" =>
    let long ← getNat (fieldD j "long" (Json.int 8))
    let native ← orderOf (← field j "native")
    let native ← match native with | some o => pure o | none => throw "native order required"
    let oa ← orderArgOf (fieldD j "order" Json.null)
    let std := oa.std
    let (fmt, afmt) ← fmtOf (← getStr (← field j "fmt")) std long
    let order := resolveOrder native oa.order
    let size ← getNat (← field j "size")
    if size = 0 then throw "size must be positive"
    let pad ← pval (← field j "pad")
    let xs ← getList pval (← field j "xs")
    let s := chunksStructPy native oa fmt size pad xs
    let a := chunksArrayPy native oa afmt size pad xs
    let dflt ← match fieldD j "default" (Json.str "struct") with
      | Json.str "struct" => pure Strategy.struct
      | Json.str "array" => pure Strategy.array
      | d => throw s!"bad default strategy {d.compress}"
    let en := chunksEntry dflt native oa fmt afmt size pad xs
    let sp := chunksSpec (encOrder order (leElem true fmt)) size pad xs
    let spa := chunksSpec (encOrder order (leElem false afmt)) size pad xs
    pure <| Json.mkObj [
      ("struct", genJson (fun e => excName (structExc e)) s), ("array", genJson (fun e => excName (arrayExc e)) a),
      ("dict_entry", genJson excName en),
      ("spec", genJson absErr sp), ("spec_array", genJson absErr spa),
      ("width", natToJson fmt.width), ("awidth", natToJson afmt.width), ("padlen", natToJson (padLen size xs.length))]
  | "wav" =>
    let bits ← getNat (← field j "bits")
    let keep ← getBool (← field j "keep")
    let pf ← wavFileOf j
    match pf with
    | .error e => pure <| Json.mkObj [("open_err", Json.str (openErr e))]
    | .ok f =>
    let channels := f.channels
    let data := f.data
    let o : WavObs Rat := wavStream f keep
    let base := [
      ("model", Json.mkObj [("out", arr sampleJson o.gen.out),
        ("err", optJson (fun e => Json.str (wavErr e)) o.gen.err),
        ("kind", Json.str (kindOf o.gen.out)),
        ("rate", natToJson o.rate), ("channels", natToJson o.channels), ("bits", natToJson o.bits)])]
    let specPart ← match optField j "samples" with
      | none => pure []
      | some sj => do
        let samples ← getList getInt sj
        let sp : List (Sample Rat) := wavSpec bits keep samples
        pure [("spec", Json.mkObj [("out", arr sampleJson sp), ("kind", Json.str (kindOf sp)),
                ("valid", Json.bool (samples.all fun n => decide (stored bits n))),
                ("enc", bytesJson (pcmData bits samples))])]
    let w := bits / 8
    let anyPart :=
      if (channels = 1 ∨ channels = 2) ∧ bits % 8 = 0 ∧ w ≠ 0 ∧ data.length % (w * channels) = 0 then
        let sp : List (Sample Rat) := wavSpec bits keep ((splitEvery w data).map (storedValue bits))
        [("spec_any", Json.mkObj [("out", arr sampleJson sp), ("kind", Json.str (kindOf sp))])]
      else []
    let lazyPart ← match optField j "take" with
      | none => pure []
      | some tj => do
        let k ← getNat tj
        let sw := (8 * f.sampwidth) / 8
        let r := wavTake channels sw (f.sampwidth * channels) k ⟨data, [], false⟩
        let n := (sampleReader channels sw (blockReader (f.sampwidth * channels) data)).length
        pure [("lazy", Json.mkObj [("taken", natToJson r.1.length), ("closed", Json.bool r.2.closed),
                ("spec_taken", natToJson (min k n)), ("spec_closed", Json.bool (closedAfter n k)),
                ("read", natToJson (data.length - r.2.data.length)),
                ("spec_read", natToJson (bytesRead channels (f.sampwidth * channels) data k)),
                ("align", natToJson (alignByte channels (f.sampwidth * channels) data k))])]
    pure <| Json.mkObj (base ++ specPart ++ anyPart ++ lazyPart)
  | "wavcall" =>
    -- `WavStream(*pos, **kw)`: the binding to `(wave_file, keep=False)` and the truth value are the model's
    let pos ← getList pyv (← field j "pos")
    let kw ← getList (fun p => do pure ((← getStr (← field p "k")), (← pyv (← field p "v")))) (← field j "kw")
    let pf ← wavFileOf j
    match pf with
    | .error e => pure <| Json.mkObj [("open_err", Json.str (openErr e))]
    | .ok f =>
      match (wavStreamCall f pos kw : Except CallErr (WavObs Rat)) with
      | .error .typeError => pure <| Json.mkObj [("err", Json.str "TypeError")]
      | .error .notAFile => pure <| Json.mkObj [("err", Json.str "notAFile")]
      | .ok o => pure <| Json.mkObj [("out", arr sampleJson o.gen.out),
          ("gen_err", optJson (fun e => Json.str (wavErr e)) o.gen.err), ("kind", Json.str (kindOf o.gen.out)),
          ("rate", natToJson o.rate), ("channels", natToJson o.channels), ("bits", natToJson o.bits)]
  | "res" => handleRes j
  | _ => throw s!"C18: unknown entry {entry}"

/-- `conc`: several generators alive at once.  The model has no shared state: every generator is
    the pure function `handle1` of ITS OWN request, whatever the schedule in which the real
    generators were advanced (the schedule is not even sent to the driver). -/
def handle (entry : String) (j : Json) : Except String Json := do
  match entry with
  | "conc" =>
    let gs ← getList (fun g => do handle1 (← getStr (← field g "entry")) g) (← field j "gens")
    pure <| Json.mkObj [("gens", Json.arr gs)]
  | _ => handle1 entry j

end ALV.Driver.C18
