import ALV.Common.Json
import ALV.Model.C05
import ALV.Spec.C05
namespace ALV.Driver.C05
open ALV ALV.J ALV.C07 ALV.C05

/-- driver problem (bad request) or a Python exception predicted by the model -/
inductive Err where
  | drv (s : String)
  | py (e : PyErr)

abbrev M := Except Err

def liftD {β} (x : Except String β) : M β :=
  match x with
  | .ok v => .ok v
  | .error s => .error (.drv s)

def liftP {β} (x : Except PyErr β) : M β :=
  match x with
  | .ok v => .ok v
  | .error e => .error (.py e)

abbrev P := MPoly Rat
abbrev F := ZF Rat

def pairJ (kv : Int × Rat) : Json := Json.arr [intToJson kv.1, ratToJson kv.2]
def polyJ (p : P) : Json := arr pairJ p

def getPair (j : Json) : Except String (Int × Rat) := do
  match ← getArr j with
  | [a, b] => pure (← getInt a, ← getRat b)
  | _ => throw "expected [power, coeff]"

def errJ (e : PyErr) : Json := Json.mkObj [("err", Json.str e.name)]

def exceptJ {β} (f : β → Json) : Except PyErr β → Json
  | .ok v => f v
  | .error e => errJ e

def mToJson (x : M Json) : Except String Json :=
  match x with
  | .ok j => .ok j
  | .error (.py e) => .ok (errJ e)
  | .error (.drv s) => .error s

def boolJ (b : Bool) : Json := Json.bool b

/-- model evaluation of an expression tree, operator by operator as Python dispatches them -/
partial def evalM (j : Json) : M F := do
  let l ← liftD (getArr j)
  let rat (c : Json) : M Rat := liftD (getRat c)
  match l with
  | [Json.str "f", n, d] => do
      let n ← liftD (getList getPair n)
      let d ← liftD (getList getPair d)
      liftP (ofData n d)
  | [Json.str "fl", n, d] => do
      let n ← liftD (getList getRat n)
      let d ← liftD (getList getRat d)
      liftP (ofPolys (ofList n) (ofList d))
  | [Json.str "z"] => liftP C05.z
  | [Json.str "s", c] => do liftP (ofScalar (← rat c))
  | [Json.str "neg", a] => do liftP (neg (← evalM a))
  | [Json.str "pos", a] => do liftP (pos (← evalM a))
  | [Json.str "add", a, b] => do
      let f ← evalM a
      let g ← evalM b
      liftP (add f g)
  | [Json.str "sub", a, b] => do
      let f ← evalM a
      let g ← evalM b
      liftP (sub f g)
  | [Json.str "mul", a, b] => do
      let f ← evalM a
      let g ← evalM b
      liftP (mul f g)
  | [Json.str "div", a, b] => do
      let f ← evalM a
      let g ← evalM b
      liftP (truediv f g)
  | [Json.str "pow", a, n] => do
      let f ← evalM a
      liftP (pow f (← liftD (getInt n)))
  | [Json.str "subst", a, b] => do
      let f ← evalM a
      let g ← evalM b
      liftP (subst f g)
  | [Json.str "adds", a, c] => do let f ← evalM a; liftP (addScalar f (← rat c))
  | [Json.str "subs", a, c] => do let f ← evalM a; liftP (subScalar f (← rat c))
  | [Json.str "muls", a, c] => do let f ← evalM a; liftP (mulScalar f (← rat c))
  | [Json.str "divs", a, c] => do let f ← evalM a; liftP (divScalar f (← rat c))
  | [Json.str "radds", c, a] => do let f ← evalM a; liftP (raddScalar (← rat c) f)
  | [Json.str "rsubs", c, a] => do let f ← evalM a; liftP (rsubScalar (← rat c) f)
  | [Json.str "rmuls", c, a] => do let f ← evalM a; liftP (rmulScalar (← rat c) f)
  | [Json.str "rdivs", c, a] => do let f ← evalM a; liftP (rdivScalar (← rat c) f)
  | _ => throw (.drv s!"C05: bad expression {j.compress}")

/-- the rational function a tree denotes (textbook field of fractions); `none` = undefined
(division by the zero function, zero denominator) -/
partial def evalS (j : Json) : Except String (Option F) := do
  let l ← getArr j
  let un (a : Json) (f : F → Option F) : Except String (Option F) := do
    pure ((← evalS a).bind f)
  let bin (a b : Json) (f : F → F → Option F) : Except String (Option F) := do
    let p ← evalS a
    let q ← evalS b
    pure (p.bind fun p => q.bind fun q => f p q)
  let nz (f : F) : Option F := if f.den = [] then none else some f
  match l with
  | [Json.str "f", n, d] => do
      let n ← getList getPair n
      let d ← getList getPair d
      pure (nz ⟨canon (ofPairs n), canon (ofPairs d)⟩)
  | [Json.str "fl", n, d] => do
      let n ← getList getRat n
      let d ← getList getRat d
      pure (nz ⟨canon (C07.enumFrom 0 n), canon (C07.enumFrom 0 d)⟩)
  | [Json.str "z"] => pure (some rZ)
  | [Json.str "s", c] => do pure (some (rScalar (← getRat c)))
  | [Json.str "neg", a] => un a (fun f => some (rNeg f))
  | [Json.str "pos", a] => un a some
  | [Json.str "add", a, b] => bin a b (fun f g => some (rAdd f g))
  | [Json.str "sub", a, b] => bin a b (fun f g => some (rSub f g))
  | [Json.str "mul", a, b] => bin a b (fun f g => some (rMul f g))
  | [Json.str "div", a, b] => bin a b rDiv
  | [Json.str "pow", a, n] => do let n ← getInt n; un a (fun f => rPow f n)
  | [Json.str "subst", a, b] => bin a b rSubst
  | [Json.str "adds", a, c] => do let c ← getRat c; un a (fun f => some (rAdd f (rScalar c)))
  | [Json.str "subs", a, c] => do let c ← getRat c; un a (fun f => some (rSub f (rScalar c)))
  | [Json.str "muls", a, c] => do let c ← getRat c; un a (fun f => some (rMul f (rScalar c)))
  | [Json.str "divs", a, c] => do let c ← getRat c; un a (fun f => rDiv f (rScalar c))
  | [Json.str "radds", c, a] => do let c ← getRat c; un a (fun f => some (rAdd (rScalar c) f))
  | [Json.str "rsubs", c, a] => do let c ← getRat c; un a (fun f => some (rSub (rScalar c) f))
  | [Json.str "rmuls", c, a] => do let c ← getRat c; un a (fun f => some (rMul (rScalar c) f))
  | [Json.str "rdivs", c, a] => do let c ← getRat c; un a (fun f => rDiv (rScalar c) f)
  | _ => throw s!"C05: bad expression {j.compress}"

def sigJ (r : Except PyErr (List Rat)) : Json := exceptJ rats r

/-- what is observed of a filter object -/
def observe (f : F) (xs : List Rat) : Json :=
  Json.mkObj [
    ("num", polyJ (sortAsc f.num)), ("den", polyJ (sortAsc f.den)),
    ("items_num", polyJ f.num), ("items_den", polyJ f.den),
    ("causal", boolJ (isCausal f)),
    ("hash", ints (hashKey f)),
    ("linearize", exceptJ (fun g => Json.mkObj [("num", polyJ (sortAsc g.num)), ("den", polyJ (sortAsc g.den))])
      (linearize f)),
    ("out", sigJ (call f xs))]

def observeS (s : F) (xs : List Rat) : Json :=
  let out := match rNorm s with
    | some g => if isPolynomial g.num then rats (apply g xs) else Json.null
    | none => Json.null
  Json.mkObj [("num", polyJ s.num), ("den", polyJ s.den), ("causal", boolJ (rCausal s)), ("out", out)]

/-- `Except` results compared up to the rational function they denote -/
def equivR (a b : Except PyErr F) : Json :=
  match a, b with
  | .ok x, .ok y => boolJ (rEquiv (rOf x) (rOf y))
  | _, _ => Json.null

def sigEq (a b : Except PyErr (List Rat)) : Json :=
  match a, b with
  | .ok x, .ok y => boolJ (x == y)
  | _, _ => Json.null

def bindE {β γ} (a : Except PyErr β) (f : β → Except PyErr γ) : Except PyErr γ := a >>= f

/-- the laws of the property evaluated through the model; `null` = an operand does not exist
(an exception) or the law does not apply (non-causal) -/
def laws (f g h : F) (n m : Nat) (c : Rat) (k : Nat) (xs : List Rat) (withSubst : Bool) : List (String × Json) :=
  let one : Except PyErr F := C05.ofScalar (1 : Rat)
  let zero : Except PyErr F := C05.ofScalar (0 : Rat)
  let addE (a b : Except PyErr F) : Except PyErr F := bindE a fun x => bindE b fun y => add x y
  let mulE (a b : Except PyErr F) : Except PyErr F := bindE a fun x => bindE b fun y => mul x y
  let sbE (a b : Except PyErr F) : Except PyErr F := bindE a fun x => bindE b fun y => sub x y
  let divE (a b : Except PyErr F) : Except PyErr F := bindE a fun x => bindE b fun y => truediv x y
  let powE (a : Except PyErr F) (e : Int) : Except PyErr F := bindE a fun x => pow x e
  let subE (a b : Except PyErr F) : Except PyErr F := bindE a fun x => bindE b fun y => subst x y
  let F' : Except PyErr F := .ok f
  let G' : Except PyErr F := .ok g
  let H' : Except PyErr F := .ok h
  let callE (a : Except PyErr F) (x : Except PyErr (List Rat)) : Except PyErr (List Rat) :=
    bindE a fun a => bindE x fun x => call a x
  let X : Except PyErr (List Rat) := .ok xs
  let mapE (fn : List Rat → List Rat) (a : Except PyErr (List Rat)) : Except PyErr (List Rat) := a.map fn
  let zipE (fn : List Rat → List Rat → List Rat) (a b : Except PyErr (List Rat)) : Except PyErr (List Rat) :=
    bindE a fun x => b.map fun y => fn x y
  let iter (a : F) : Nat → Except PyErr (List Rat) → Except PyErr (List Rat) := fun cnt x =>
    Nat.rec x (fun _ acc => callE (.ok a) acc) cnt
  let zk := powE C05.z (-(k : Int))
  let sdef := withSubst && (rSubst (rOf f) (rOf h)).isSome && (rSubst (rOf g) (rOf h)).isSome &&
    (rSubst (rAdd (rOf f) (rOf g)) (rOf h)).isSome && (rSubst (rMul (rOf f) (rOf g)) (rOf h)).isSome
  [ ("add_comm", equivR (addE F' G') (addE G' F')),
    ("add_assoc", equivR (addE (addE F' G') H') (addE F' (addE G' H'))),
    ("mul_comm", equivR (mulE F' G') (mulE G' F')),
    ("mul_assoc", equivR (mulE (mulE F' G') H') (mulE F' (mulE G' H'))),
    ("distrib", equivR (mulE F' (addE G' H')) (addE (mulE F' G') (mulE F' H'))),
    ("sub_self", equivR (sbE F' F') zero),
    ("add_neg", equivR (sbE F' G') (addE F' (bindE G' neg))),
    ("div_self", if f.num.isEmpty then Json.null else equivR (divE F' F') one),
    ("div_mul_cancel", if g.num.isEmpty then Json.null else equivR (mulE (divE F' G') G') F'),
    ("pow_add", equivR (powE F' ((n : Int) + m)) (mulE (powE F' n) (powE F' m))),
    ("pow_neg", if f.num.isEmpty then Json.null else equivR (powE F' (-(n : Int))) (divE one (powE F' n))),
    ("pow_nfold", equivR (powE F' n) (Nat.rec one (fun _ acc => mulE acc F') n)),
    ("scalar_mul", equivR (mulScalar f c) (bindE (C05.ofScalar c) fun s => mul s f)),
    -- substitution is only defined where no 1/0 occurs (the code evaluates `0 ** -1` of the zero filter to 0)
    ("subst_add", if sdef then equivR (subE (addE F' G') H') (addE (subE F' H') (subE G' H')) else Json.null),
    ("subst_mul", if sdef then equivR (subE (mulE F' G') H') (mulE (subE F' H') (subE G' H')) else Json.null),
    ("subst_z", if withSubst then equivR (subE F' C05.z) F' else Json.null),
    -- signals
    ("sig_add", sigEq (callE (addE F' G') X) (zipE addSig (callE F' X) (callE G' X))),
    ("sig_sub", sigEq (callE (sbE F' G') X) (zipE subSig (callE F' X) (callE G' X))),
    ("sig_scale", sigEq (callE (mulScalar f c) X) (mapE (scaleSig c) (callE F' X))),
    ("sig_rscale", sigEq (callE (rmulScalar c f) X) (mapE (scaleSig c) (callE F' X))),
    ("sig_mul", sigEq (callE (mulE F' G') X) (callE F' (callE G' X))),
    ("sig_mul_comm", sigEq (callE F' (callE G' X)) (callE G' (callE F' X))),
    ("sig_div_mul", if g.num.isEmpty then Json.null else sigEq (callE (mulE (divE F' G') G') X) (callE F' X)),
    ("sig_pow", sigEq (callE (powE F' n) X) (iter f n X)),
    ("sig_delay", sigEq (callE zk X) (.ok (delay k xs))),
    ("sig_cascade", sigEq (cascadeCall [f, g, h] xs) (callE (mulE (mulE F' G') H') X)),
    ("sig_parallel", sigEq (parallelCall [f, g, h] xs) (callE (addE (addE F' G') H') X)) ]

def handle (entry : String) (j : Json) : Except String Json := do
  let xs ← getList getRat (fieldD j "xs" (Json.arr []))
  match entry with
  | "tree" =>
    let e ← field j "tree"
    let m ← mToJson (do let f ← evalM e; pure (observe f xs))
    let s ← evalS e
    pure <| Json.mkObj [("model", m), ("spec", optJson (fun s => observeS s xs) s)]
  | "laws" =>
    let n ← getNat (← field j "n")
    let mm ← getNat (← field j "m")
    let k ← getNat (← field j "k")
    let c ← getRat (← field j "c")
    let ws ← getBool (fieldD j "subst" (Json.bool false))
    let m ← mToJson (do
      let f ← evalM (← liftD (field j "f"))
      let g ← evalM (← liftD (field j "g"))
      let h ← evalM (← liftD (field j "h"))
      pure (Json.mkObj (laws f g h n mm c k xs ws)))
    pure <| Json.mkObj [("model", m)]
  | "eq" =>
    let m ← mToJson (do
      let p ← evalM (← liftD (field j "p"))
      let q ← evalM (← liftD (field j "q"))
      pure (Json.mkObj [("eq", boolJ (C05.eq p q)), ("ne", boolJ (C05.ne p q)),
        ("ne_fixed", boolJ (neFixed p q)), ("hash_equal", boolJ (hashKey p == hashKey q))]))
    let sp ← evalS (← field j "p")
    let sq ← evalS (← field j "q")
    -- `==` on filter objects compares the normalised pair of polynomials
    let s := match sp.bind rNorm, sq.bind rNorm with
      | some a, some b => Json.mkObj [("eq", boolJ (a.num == b.num && a.den == b.den)),
          ("equiv", boolJ (rEquiv a b))]
      | _, _ => Json.null
    pure <| Json.mkObj [("model", m), ("spec", s)]
  | "list" =>
    -- CascadeFilter / ParallelFilter of the parts
    let kind ← getStr (← field j "kind")
    let ts ← getArr (← field j "fs")
    let m ← mToJson (do
      let fs ← ts.mapM evalM
      if kind == "cascade" then
        pure (Json.mkObj [("numpoly", exceptJ (fun p => polyJ (sortAsc p)) (cascadeNumpoly fs)),
          ("denpoly", exceptJ (fun p => polyJ (sortAsc p)) (cascadeDenpoly fs)),
          ("out", sigJ (cascadeCall fs xs))])
      else
        pure (Json.mkObj [("numpoly", exceptJ (fun p => polyJ (sortAsc p)) (parallelNumpoly fs)),
          ("denpoly", exceptJ (fun p => polyJ (sortAsc p)) (parallelDenpoly fs)),
          ("denpoly_fixed", exceptJ (fun p => polyJ (sortAsc p)) (parallelDenpolyFixed fs)),
          ("shortcut", boolJ (match fs with
            | [] => false
            | f :: t => (t.foldl (fun (st : Bool × Except PyErr F) g =>
                match st.2 with
                | .ok a => (st.1 || C07.eq a.den g.den, add a g)
                | .error e => (st.1, .error e)) (false, .ok f)).1)),
          ("out", sigJ (parallelCall fs xs))]))
    let ss ← ts.mapM evalS
    let s := match ss.mapM id with
      | none => Json.null
      | some fs =>
        let r := if kind == "cascade" then rProd fs else rSum fs
        let causal := fs.all rCausal
        let parts := fs.filterMap rNorm
        Json.mkObj [("num", polyJ r.num), ("den", polyJ r.den),
          ("out", if causal then rats (if kind == "cascade" then cascadeApply parts xs else parallelApply parts xs)
                  else Json.null)]
    pure <| Json.mkObj [("model", m), ("spec", s)]
  | _ => throw s!"C05: unknown entry {entry}"

end ALV.Driver.C05
