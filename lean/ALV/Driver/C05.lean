import ALV.Common.Json
namespace ALV.Driver.C05
open ALV ALV.J

/-- stub: the C05 slice is not built yet -/
def handle (entry : String) (_j : Json) : Except String Json :=
  throw s!"C05: unknown entry {entry}"

end ALV.Driver.C05
