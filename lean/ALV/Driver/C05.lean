import ALV.Common.Json
import ALV.Model.C05
import ALV.Model.C05List
import ALV.Model.C05Lin
import ALV.Spec.C05
import ALV.Spec.C05List
import ALV.Model.C05Hist
import ALV.Spec.C05Subst
namespace ALV.Driver.C05
open ALV ALV.J ALV.C07 ALV.C05

/-- driver problem (bad request) or a Python exception predicted by the model -/
inductive Err where
  | drv (s : String)
  | py (e : PyErr)

abbrev M := Except Err

def liftD {β} (x : Except String β) : M β :=
  match x with
  | .ok v => .ok v
  | .error s => .error (.drv s)

def liftP {β} (x : Except PyErr β) : M β :=
  match x with
  | .ok v => .ok v
  | .error e => .error (.py e)

abbrev P := MPoly Rat
abbrev F := ZF Rat

def pairJ (kv : Int × Rat) : Json := Json.arr [intToJson kv.1, ratToJson kv.2]
def polyJ (p : P) : Json := arr pairJ p

def getPair (j : Json) : Except String (Int × Rat) := do
  match ← getArr j with
  | [a, b] => pure (← getInt a, ← getRat b)
  | _ => throw "expected [power, coeff]"

def errJ (e : PyErr) : Json := Json.mkObj [("err", Json.str e.name)]

def exceptJ {β} (f : β → Json) : Except PyErr β → Json
  | .ok v => f v
  | .error e => errJ e

def mToJson (x : M Json) : Except String Json :=
  match x with
  | .ok j => .ok j
  | .error (.py e) => .ok (errJ e)
  | .error (.drv s) => .error s

def boolJ (b : Bool) : Json := Json.bool b

def getOp (j : Json) : Except String BinOp := do
  match ← getStr j with
  | "add" => pure .add
  | "sub" => pure .sub
  | "mul" => pure .mul
  | "div" => pure .div
  | s => throw s!"C05: bad operator {s}"

def getKind (j : Json) : Except String NumKind := do
  match ← getStr j with
  | "int" => pure .int
  | "bool" => pure .bool
  | "float" => pure .float
  | "fraction" => pure .fraction
  | "complex" => pure .complex
  | s => throw s!"C05: bad number kind {s}"

/-- model evaluation of an expression tree, operator by operator as Python dispatches them -/
partial def evalM (j : Json) : M F := do
  let l ← liftD (getArr j)
  let rat (c : Json) : M Rat := liftD (getRat c)
  match l with
  | [Json.str "f", n, d] => do
      let n ← liftD (getList getPair n)
      let d ← liftD (getList getPair d)
      liftP (ofData n d)
  | [Json.str "fl", n, d] => do
      let n ← liftD (getList getRat n)
      let d ← liftD (getList getRat d)
      liftP (ofPolys (ofList n) (ofList d))
  | [Json.str "z"] => liftP C05.z
  | [Json.str "s", c] => do liftP (ofScalar (← rat c))
  | [Json.str "neg", a] => do liftP (neg (← evalM a))
  | [Json.str "pos", a] => do liftP (pos (← evalM a))
  | [Json.str "add", a, b] => do
      let f ← evalM a
      let g ← evalM b
      liftP (add f g)
  | [Json.str "sub", a, b] => do
      let f ← evalM a
      let g ← evalM b
      liftP (sub f g)
  | [Json.str "mul", a, b] => do
      let f ← evalM a
      let g ← evalM b
      liftP (mul f g)
  | [Json.str "div", a, b] => do
      let f ← evalM a
      let g ← evalM b
      liftP (truediv f g)
  | [Json.str "pow", a, n] => do
      let f ← evalM a
      liftP (pow f (← liftD (getInt n)))
  | [Json.str "subst", a, b] => do
      let f ← evalM a
      let g ← evalM b
      liftP (subst f g)
  | [Json.str "adds", a, c] => do let f ← evalM a; liftP (addScalar f (← rat c))
  | [Json.str "subs", a, c] => do let f ← evalM a; liftP (subScalar f (← rat c))
  | [Json.str "muls", a, c] => do let f ← evalM a; liftP (mulScalar f (← rat c))
  | [Json.str "divs", a, c] => do let f ← evalM a; liftP (divScalar f (← rat c))
  | [Json.str "radds", c, a] => do let f ← evalM a; liftP (raddScalar (← rat c) f)
  | [Json.str "rsubs", c, a] => do let f ← evalM a; liftP (rsubScalar (← rat c) f)
  | [Json.str "rmuls", c, a] => do let f ← evalM a; liftP (rmulScalar (← rat c) f)
  | [Json.str "rdivs", c, a] => do let f ← evalM a; liftP (rdivScalar (← rat c) f)
  -- the right operand is a LinearFilter that is not a ZFilter / a ZFilter handed to a reflected dunder
  | [Json.str "dom", op, a, b] => do
      let _ ← evalM a
      let _ ← evalM b
      throw (.py (opForeign (← liftD (getOp op))))
  | [Json.str "rdom", op, a, b] => do
      let _ ← evalM a
      let _ ← evalM b
      throw (.py (ropZFilter (← liftD (getOp op))))
  -- the exponent spelled as int / bool / float / Fraction / complex
  | [Json.str "powk", a, n, k] => do
      let f ← evalM a
      liftP (powSpelled f (← liftD (getInt n)) (← liftD (getKind k)))
  -- type casts through the constructor
  | [Json.str "cast", a] => do liftP (C05.cast (← evalM a))
  | [Json.str "lfcast", a] => do liftP (C05.cast (← evalM a))
  | [Json.str "castdiv", a, b] => do
      let f ← evalM a
      let g ← evalM b
      liftP (castDiv f g)
  | [Json.str "castdivs", a, c] => do let f ← evalM a; liftP (castDivScalar f (← rat c))
  | _ => throw (.drv s!"C05: bad expression {j.compress}")

/-- the rational function a tree denotes (textbook field of fractions); `none` = undefined
(division by the zero function, zero denominator) -/
partial def evalS (j : Json) : Except String (Option F) := do
  let l ← getArr j
  let un (a : Json) (f : F → Option F) : Except String (Option F) := do
    pure ((← evalS a).bind f)
  let bin (a b : Json) (f : F → F → Option F) : Except String (Option F) := do
    let p ← evalS a
    let q ← evalS b
    pure (p.bind fun p => q.bind fun q => f p q)
  let nz (f : F) : Option F := if f.den = [] then none else some f
  match l with
  | [Json.str "f", n, d] => do
      let n ← getList getPair n
      let d ← getList getPair d
      pure (nz ⟨canon (ofPairs n), canon (ofPairs d)⟩)
  | [Json.str "fl", n, d] => do
      let n ← getList getRat n
      let d ← getList getRat d
      pure (nz ⟨canon (C07.enumFrom 0 n), canon (C07.enumFrom 0 d)⟩)
  | [Json.str "z"] => pure (some rZ)
  | [Json.str "s", c] => do pure (some (rScalar (← getRat c)))
  | [Json.str "neg", a] => un a (fun f => some (rNeg f))
  | [Json.str "pos", a] => un a some
  | [Json.str "add", a, b] => bin a b (fun f g => some (rAdd f g))
  | [Json.str "sub", a, b] => bin a b (fun f g => some (rSub f g))
  | [Json.str "mul", a, b] => bin a b (fun f g => some (rMul f g))
  | [Json.str "div", a, b] => bin a b rDiv
  | [Json.str "pow", a, n] => do let n ← getInt n; un a (fun f => rPow f n)
  | [Json.str "subst", a, b] => bin a b rSubst
  | [Json.str "adds", a, c] => do let c ← getRat c; un a (fun f => some (rAdd f (rScalar c)))
  | [Json.str "subs", a, c] => do let c ← getRat c; un a (fun f => some (rSub f (rScalar c)))
  | [Json.str "muls", a, c] => do let c ← getRat c; un a (fun f => some (rMul f (rScalar c)))
  | [Json.str "divs", a, c] => do let c ← getRat c; un a (fun f => rDiv f (rScalar c))
  | [Json.str "radds", c, a] => do let c ← getRat c; un a (fun f => some (rAdd (rScalar c) f))
  | [Json.str "rsubs", c, a] => do let c ← getRat c; un a (fun f => some (rSub (rScalar c) f))
  | [Json.str "rmuls", c, a] => do let c ← getRat c; un a (fun f => some (rMul (rScalar c) f))
  | [Json.str "rdivs", c, a] => do let c ← getRat c; un a (fun f => rDiv (rScalar c) f)
  -- operands of different domains: no rational function is specified
  | [Json.str "dom", _, _, _] => pure none
  | [Json.str "rdom", _, _, _] => pure none
  -- the property speaks of integer powers: int / bool spellings
  | [Json.str "powk", a, n, k] => do
      let n ← getInt n
      match ← getKind k with
      | .int | .bool => un a (fun f => rPow f n)
      | _ => pure none
  | [Json.str "cast", a] => un a some
  | [Json.str "lfcast", a] => un a some
  | [Json.str "castdiv", a, b] => bin a b rDiv
  | [Json.str "castdivs", a, c] => do let c ← getRat c; un a (fun f => rDiv f (rScalar c))
  | _ => throw s!"C05: bad expression {j.compress}"

def sigJ (r : Except PyErr (List Rat)) : Json := exceptJ rats r

/-- what is observed of a filter object -/
def observe (f : F) (xs : List Rat) : Json :=
  Json.mkObj [
    ("num", polyJ (sortAsc f.num)), ("den", polyJ (sortAsc f.den)),
    ("items_num", polyJ f.num), ("items_den", polyJ f.den),
    ("causal", boolJ (isCausal f)),
    ("hash", ints (hashKey f)),
    ("linearize", exceptJ (fun g => Json.mkObj [("num", polyJ (sortAsc g.num)), ("den", polyJ (sortAsc g.den))])
      (linearize f)),
    ("out", sigJ (call f xs))]

def observeS (s : F) (xs : List Rat) : Json :=
  let out := match rNorm s with
    | some g => if isPolynomial g.num then rats (apply g xs) else Json.null
    | none => Json.null
  Json.mkObj [("num", polyJ s.num), ("den", polyJ s.den), ("causal", boolJ (rCausal s)), ("out", out)]

/-- `Except` results compared up to the rational function they denote -/
def equivR (a b : Except PyErr F) : Json :=
  match a, b with
  | .ok x, .ok y => boolJ (rEquiv (rOf x) (rOf y))
  | _, _ => Json.null

def sigEq (a b : Except PyErr (List Rat)) : Json :=
  match a, b with
  | .ok x, .ok y => boolJ (x == y)
  | _, _ => Json.null

def bindE {β γ} (a : Except PyErr β) (f : β → Except PyErr γ) : Except PyErr γ := a >>= f

/-- the laws of the property evaluated through the model; `null` = an operand does not exist
(an exception) or the law does not apply (non-causal) -/
def laws (f g h : F) (n m : Nat) (c : Rat) (k : Nat) (xs : List Rat) (withSubst : Bool) : List (String × Json) :=
  let one : Except PyErr F := C05.ofScalar (1 : Rat)
  let zero : Except PyErr F := C05.ofScalar (0 : Rat)
  let addE (a b : Except PyErr F) : Except PyErr F := bindE a fun x => bindE b fun y => add x y
  let mulE (a b : Except PyErr F) : Except PyErr F := bindE a fun x => bindE b fun y => mul x y
  let sbE (a b : Except PyErr F) : Except PyErr F := bindE a fun x => bindE b fun y => sub x y
  let divE (a b : Except PyErr F) : Except PyErr F := bindE a fun x => bindE b fun y => truediv x y
  let powE (a : Except PyErr F) (e : Int) : Except PyErr F := bindE a fun x => pow x e
  let subE (a b : Except PyErr F) : Except PyErr F := bindE a fun x => bindE b fun y => subst x y
  let F' : Except PyErr F := .ok f
  let G' : Except PyErr F := .ok g
  let H' : Except PyErr F := .ok h
  let callE (a : Except PyErr F) (x : Except PyErr (List Rat)) : Except PyErr (List Rat) :=
    bindE a fun a => bindE x fun x => call a x
  let X : Except PyErr (List Rat) := .ok xs
  let mapE (fn : List Rat → List Rat) (a : Except PyErr (List Rat)) : Except PyErr (List Rat) := a.map fn
  let zipE (fn : List Rat → List Rat → List Rat) (a b : Except PyErr (List Rat)) : Except PyErr (List Rat) :=
    bindE a fun x => b.map fun y => fn x y
  let iter (a : F) : Nat → Except PyErr (List Rat) → Except PyErr (List Rat) := fun cnt x =>
    Nat.rec x (fun _ acc => callE (.ok a) acc) cnt
  let zk := powE C05.z (-(k : Int))
  let sdef := withSubst && (rSubst (rOf f) (rOf h)).isSome && (rSubst (rOf g) (rOf h)).isSome &&
    (rSubst (rAdd (rOf f) (rOf g)) (rOf h)).isSome && (rSubst (rMul (rOf f) (rOf g)) (rOf h)).isSome
  [ ("add_comm", equivR (addE F' G') (addE G' F')),
    ("add_assoc", equivR (addE (addE F' G') H') (addE F' (addE G' H'))),
    ("mul_comm", equivR (mulE F' G') (mulE G' F')),
    ("mul_assoc", equivR (mulE (mulE F' G') H') (mulE F' (mulE G' H'))),
    ("distrib", equivR (mulE F' (addE G' H')) (addE (mulE F' G') (mulE F' H'))),
    ("sub_self", equivR (sbE F' F') zero),
    ("add_neg", equivR (sbE F' G') (addE F' (bindE G' neg))),
    ("div_self", if f.num.isEmpty then Json.null else equivR (divE F' F') one),
    ("div_mul_cancel", if g.num.isEmpty then Json.null else equivR (mulE (divE F' G') G') F'),
    ("pow_add", equivR (powE F' ((n : Int) + m)) (mulE (powE F' n) (powE F' m))),
    ("pow_neg", if f.num.isEmpty then Json.null else equivR (powE F' (-(n : Int))) (divE one (powE F' n))),
    ("pow_nfold", equivR (powE F' n) (Nat.rec one (fun _ acc => mulE acc F') n)),
    ("scalar_mul", equivR (mulScalar f c) (bindE (C05.ofScalar c) fun s => mul s f)),
    -- substitution is only defined where no 1/0 occurs (the code evaluates `0 ** -1` of the zero filter to 0)
    ("subst_add", if sdef then equivR (subE (addE F' G') H') (addE (subE F' H') (subE G' H')) else Json.null),
    ("subst_mul", if sdef then equivR (subE (mulE F' G') H') (mulE (subE F' H') (subE G' H')) else Json.null),
    ("subst_z", if withSubst then equivR (subE F' C05.z) F' else Json.null),
    -- signals
    ("sig_add", sigEq (callE (addE F' G') X) (zipE addSig (callE F' X) (callE G' X))),
    ("sig_sub", sigEq (callE (sbE F' G') X) (zipE subSig (callE F' X) (callE G' X))),
    ("sig_scale", sigEq (callE (mulScalar f c) X) (mapE (scaleSig c) (callE F' X))),
    ("sig_rscale", sigEq (callE (rmulScalar c f) X) (mapE (scaleSig c) (callE F' X))),
    ("sig_mul", sigEq (callE (mulE F' G') X) (callE F' (callE G' X))),
    ("sig_mul_comm", sigEq (callE F' (callE G' X)) (callE G' (callE F' X))),
    ("sig_div_mul", if g.num.isEmpty then Json.null else sigEq (callE (mulE (divE F' G') G') X) (callE F' X)),
    ("sig_pow", sigEq (callE (powE F' n) X) (iter f n X)),
    ("sig_delay", sigEq (callE zk X) (.ok (delay k xs))),
    ("sig_cascade", sigEq (cascadeCall [f, g, h] xs) (callE (mulE (mulE F' G') H') X)),
    ("sig_parallel", sigEq (parallelCall [f, g, h] xs) (callE (addE (addE F' G') H') X)) ]

/-! ### filter list objects -/

abbrev O := Obj Rat

instance : Inhabited O := ⟨.plain false .nil⟩
instance : Inhabited (M O) := ⟨.ok default⟩

/-- what the callables with identity `i` do to a sample (the harness builds the same functions) -/
def envFn (i : Nat) (x : Rat) : Rat := if i % 2 == 0 then x * x else x + 1

partial def flShape : FL Rat → Json
  | .leaf _ => Json.str "Z"
  | .num _ => Json.str "N"
  | .other i => Json.arr [Json.str "F", natToJson i]
  | .node k ps => Json.arr [Json.bool k.par, natToJson k.sub, Json.arr (ps.toList.map flShape)]

def objShape : O → Json
  | .fl o => flShape o
  | .plain t ps => Json.arr [Json.str (if t then "tuple" else "list"), Json.arr (ps.toList.map flShape)]

def itemsOf : O → Option (FLs Rat)
  | .fl (.node _ ps) => some ps
  | .plain _ ps => some ps
  | _ => none

def unmodelled {β} (what : String) : M β := throw (.drv s!"C05: outside the object model: {what}")

/-- object expressions: constructor call shapes and the `list` methods -/
partial def evalO (j : Json) : M O := do
  let l ← liftD (getArr j)
  let asFL (x : O) : M (FL Rat) := match x with
    | .fl o => pure o
    | _ => unmodelled "a plain list as a part"
  let node (x : O) : M (FL Rat) := match x with
    | .fl (.node k ps) => pure (.node k ps)
    | _ => unmodelled "method of a filter list on another object"
  match l with
  | [Json.str "zf", t] => do pure (.fl (.leaf (← evalM t)))
  | [Json.str "n", c] => do pure (.fl (.num (← liftD (getRat c))))
  | [Json.str "fn", i] => do pure (.fl (.other (← liftD (getNat i))))
  | [Json.str "plain", t, xs] => do
      let items ← (← liftD (getArr xs)).mapM fun x => do asFL (← evalO x)
      pure (.plain (← liftD (getBool t)) (FLs.ofList items))
  | [Json.str "new", par, sb, shape, xs] => do
      let k : Kind := ⟨← liftD (getBool par), ← liftD (getNat sb)⟩
      let objs ← (← liftD (getArr xs)).mapM evalO
      let args : List (Arg Rat) ← match ← liftD (getStr shape) with
        | "star" => objs.mapM fun x => match x with
            | .fl (.num c) => pure (Arg.number c)
            | .fl o => pure (Arg.filt o)
            | .plain _ ps => pure (Arg.iter ps)
        | _ => do            -- "list" / "tuple" / "gen": one iterable argument holding the parts
            let items ← objs.mapM asFL
            pure [Arg.iter (FLs.ofList items)]
      match construct k args with
      | some o => pure (.fl o)
      | none => unmodelled "a coefficient list as a part"
  | [Json.str "add", a, b] => do liftP (Obj.add (← evalO a) (← evalO b))
  | [Json.str "mul", a, n] => do liftP (Obj.mulInt (← evalO a) (← liftD (getInt n)))
  | [Json.str "rmul", n, a] => do liftP (Obj.mulInt (← evalO a) (← liftD (getInt n)))
  | [Json.str "append", a, x] => do
      match FL.append (← node (← evalO a)) (← asFL (← evalO x)) with
      | some o => pure (.fl o)
      | none => unmodelled "append"
  | [Json.str "extend", a, b] => do
      let bo ← evalO b
      match itemsOf bo with
      | none => unmodelled "extend with a non-list"
      | some items =>
        match FL.extend (← node (← evalO a)) items with
        | some o => pure (.fl o)
        | none => unmodelled "extend"
  | [Json.str "imul", a, n] => do liftP (Obj.mulInt (← evalO a) (← liftD (getInt n)))
  | [Json.str "slice", a, i, jj] => do
      match FL.slice (← node (← evalO a)) (← liftD (getNat i)) (← liftD (getNat jj)) with
      | some o => pure o
      | none => unmodelled "slice"
  | _ => throw (.drv s!"C05: bad object expression {j.compress}")

def polysJ (r : Except PyErr (MPoly Rat × MPoly Rat)) : Json :=
  exceptJ (fun nd => Json.mkObj [("num", polyJ (sortAsc nd.1)), ("den", polyJ (sortAsc nd.2))]) r

partial def flSize : FL Rat → Nat
  | .node k ps => 2 + k.sub + (ps.toList.map flSize).foldl (· + ·) 0
  | _ => 1

def hashJ : O → Json
  | .fl o => match FL.hash o with
    | .ok (.powers l) => Json.mkObj [("powers", ints l)]
    | .ok (.number c) => Json.mkObj [("number", ratToJson c)]
    | .ok (.ident i) => Json.mkObj [("ident", natToJson i)]
    | .error e => errJ e
  | .plain false _ => errJ .type
  | .plain true ps => if ps.toList.all (fun p => match FL.hash p with | .ok _ => true | .error _ => false)
      then Json.mkObj [("tuple", Json.bool true)] else errJ .type

/-- every ZFilter leaf is causal (what the spec's `applyS` needs) and has a non-zero denominator -/
partial def flCausal : FL Rat → Bool
  | .leaf f => rCausal (rOf f)
  | .node _ ps => ps.toList.all flCausal
  | _ => true

def observeO (x : O) (xs : List Rat) : Json :=
  match x with
  | .fl o =>
    let spec : Json := match FL.rval o with
      | none => Json.null
      | some r => Json.mkObj [("num", polyJ r.num), ("den", polyJ r.den)]
    let specOut : Json := match o with
      | .node _ _ => if flCausal o then rats (FL.applyS envFn o xs) else Json.null
      | _ => Json.null
    Json.mkObj [("shape", objShape x), ("len", match x.len with | some n => natToJson n | none => Json.null),
      ("out", match o with
        | .node _ _ => sigJ (FL.call envFn o xs)
        | _ => Json.null),
      ("polys_coded", match FL.polysC (4 * flSize o + 8) o with
        | .ok none => Json.null
        | .ok (some nd) => polysJ (.ok nd)
        | .error e => errJ e),
      ("polys_fixed", polysJ (FL.polys o)),
      ("linear", boolJ (FL.linear o)),
      ("hash", hashJ x), ("spec", spec), ("spec_out", specOut)]
  | .plain _ _ =>
    Json.mkObj [("shape", objShape x), ("len", match x.len with | some n => natToJson n | none => Json.null),
      ("hash", hashJ x)]

/-! ### fractional delays -/

def getFTerm (j : Json) : Except String (Rat × Rat) := do
  match ← getArr j with
  | [a, b] => pure (← getRat a, ← getRat b)
  | _ => throw "expected [power, coeff]"

/-! ### histories of one mutable filter list -/

def getEv (j : Json) : M (Ev Rat) := do
  let l ← liftD (getArr j)
  let part (x : Json) : M (FL Rat) := do
    match ← evalO x with
    | .fl o => pure o
    | _ => unmodelled "a plain list as a part"
  let parts (x : Json) : M (FLs Rat) := do
    pure (FLs.ofList (← (← liftD (getArr x)).mapM part))
  match l with
  | [Json.str "set", i, g] => do pure (.act (.setItem (← liftD (getInt i)) (← part g)))
  | [Json.str "setall", xs] => do pure (.act (.setAll (← parts xs)))
  | [Json.str "append", g] => do pure (.act (.append (← part g)))
  | [Json.str "extend", xs] => do pure (.act (.extend (← parts xs)))
  | [Json.str "polys"] => pure .polys
  | [Json.str "lists"] => pure .lists
  | [Json.str "call", xs] => do pure (.call (← liftD (getList getRat xs)))
  | _ => throw (.drv s!"C05: bad event {j.compress}")

def obsJ : Obs Rat → Json
  | .polys r => Json.mkObj [("polys", polysJ r)]
  | .lists n d => Json.mkObj [("numlist", exceptJ rats n), ("denlist", exceptJ rats d)]
  | .out r => Json.mkObj [("out", sigJ r)]

/-- `g = c·z^(−d)` as the operators build it? -/
def asMono (g : F) : Option (Rat × Int) :=
  match g.num, g.den with
  | [(d, c)], [(0, one)] => if one = 1 ∧ c ≠ 0 ∧ d ≠ 0 then some (c, d) else none
  | _, _ => none

def optRatJ : Option Rat → Json
  | some v => ratToJson v
  | none => Json.null

def handle (entry : String) (j : Json) : Except String Json := do
  let xs ← getList getRat (fieldD j "xs" (Json.arr []))
  match entry with
  | "tree" =>
    let e ← field j "tree"
    let m ← mToJson (do let f ← evalM e; pure (observe f xs))
    let s ← evalS e
    pure <| Json.mkObj [("model", m), ("spec", optJson (fun s => observeS s xs) s)]
  | "laws" =>
    let n ← getNat (← field j "n")
    let mm ← getNat (← field j "m")
    let k ← getNat (← field j "k")
    let c ← getRat (← field j "c")
    let ws ← getBool (fieldD j "subst" (Json.bool false))
    let m ← mToJson (do
      let f ← evalM (← liftD (field j "f"))
      let g ← evalM (← liftD (field j "g"))
      let h ← evalM (← liftD (field j "h"))
      pure (Json.mkObj (laws f g h n mm c k xs ws)))
    pure <| Json.mkObj [("model", m)]
  | "eq" =>
    let m ← mToJson (do
      let p ← evalM (← liftD (field j "p"))
      let q ← evalM (← liftD (field j "q"))
      pure (Json.mkObj [("eq", boolJ (C05.eq p q)), ("ne", boolJ (C05.ne p q)),
        ("ne_fixed", boolJ (neFixed p q)), ("hash_equal", boolJ (hashKey p == hashKey q))]))
    let sp ← evalS (← field j "p")
    let sq ← evalS (← field j "q")
    -- `==` on filter objects compares the normalised pair of polynomials
    let s := match sp.bind rNorm, sq.bind rNorm with
      | some a, some b => Json.mkObj [("eq", boolJ (a.num == b.num && a.den == b.den)),
          ("equiv", boolJ (rEquiv a b))]
      | _, _ => Json.null
    pure <| Json.mkObj [("model", m), ("spec", s)]
  | "list" =>
    -- CascadeFilter / ParallelFilter of the parts
    let kind ← getStr (← field j "kind")
    let ts ← getArr (← field j "fs")
    let m ← mToJson (do
      let fs ← ts.mapM evalM
      if kind == "cascade" then
        pure (Json.mkObj [("numpoly", exceptJ (fun p => polyJ (sortAsc p)) (cascadeNumpoly fs)),
          ("denpoly", exceptJ (fun p => polyJ (sortAsc p)) (cascadeDenpoly fs)),
          ("out", sigJ (cascadeCall fs xs))])
      else
        pure (Json.mkObj [("numpoly", exceptJ (fun p => polyJ (sortAsc p)) (parallelNumpoly fs)),
          ("denpoly", exceptJ (fun p => polyJ (sortAsc p)) (parallelDenpoly fs)),
          ("denpoly_fixed", exceptJ (fun p => polyJ (sortAsc p)) (parallelDenpolyFixed fs)),
          ("shortcut", boolJ (match fs with
            | [] => false
            | f :: t => (t.foldl (fun (st : Bool × Except PyErr F) g =>
                match st.2 with
                | .ok a => (st.1 || C07.eq a.den g.den, add a g)
                | .error e => (st.1, .error e)) (false, .ok f)).1)),
          ("out", sigJ (parallelCall fs xs))]))
    let ss ← ts.mapM evalS
    let s := match ss.mapM id with
      | none => Json.null
      | some fs =>
        let r := if kind == "cascade" then rProd fs else rSum fs
        let causal := fs.all rCausal
        let parts := fs.filterMap rNorm
        Json.mkObj [("num", polyJ r.num), ("den", polyJ r.den),
          ("out", if causal then rats (if kind == "cascade" then cascadeApply parts xs else parallelApply parts xs)
                  else Json.null)]
    pure <| Json.mkObj [("model", m), ("spec", s)]
  | "nest" =>
    let m ← mToJson (do
      let x ← evalO (← liftD (field j "obj"))
      pure (observeO x xs))
    pure <| Json.mkObj [("model", m)]
  | "eqm" =>
    let m ← mToJson (do
      let pool ← (← liftD (getArr (← liftD (field j "pool")))).mapM evalO
      pure (Json.mkObj [
        ("eq", Json.arr (pool.map fun a => Json.arr (pool.map fun b => boolJ (Obj.eq a b)))),
        ("ne", Json.arr (pool.map fun a => Json.arr (pool.map fun b => boolJ (Obj.ne a b)))),
        ("hash", Json.arr (pool.map hashJ)),
        ("shape", Json.arr (pool.map objShape))]))
    pure <| Json.mkObj [("model", m)]
  | "frac" =>
    let num ← getList getFTerm (← field j "num")
    let den ← getList getFTerm (← field j "den")
    let m := exceptJ (fun g => Json.mkObj [("num", polyJ (sortAsc g.num)), ("den", polyJ (sortAsc g.den))])
      (linearizeQ num den)
    -- the weights of one term add up to one: the coefficient sums (the gain at z = 1) are kept
    let sum (l : List (Rat × Rat)) : Rat := l.foldl (fun a kv => a + kv.2) 0
    pure <| Json.mkObj [("model", m), ("spec", Json.mkObj [("sum_num", ratToJson (sum num)), ("sum_den", ratToJson (sum den))])]
  | "hist" =>
    let m ← mToJson (do
      let x ← evalO (← liftD (field j "obj"))
      let evs ← (← liftD (getArr (← liftD (field j "evs")))).mapM getEv
      match x with
      | .fl (.node k ps) =>
        match runHist envFn k ps evs with
        | none => unmodelled "IndexError in a history"
        | some obs =>
          let cached := match runHistCached k ps none evs with
            | some l => Json.arr (l.map polysJ)
            | none => Json.null
          pure (Json.mkObj [("obs", Json.arr (obs.map obsJ)), ("regress_cached", cached)])
      | _ => unmodelled "history of something that is not a filter list")
    pure <| Json.mkObj [("model", m)]
  | "substpt" =>
    let pts ← getList getRat (← field j "pts")
    let m ← mToJson (do
      let f ← evalM (← liftD (field j "f"))
      let g ← evalM (← liftD (field j "g"))
      let spec := Json.mkObj [("comp", Json.arr (pts.map fun z0 => optRatJ (evalComp f g z0))),
        ("mono", match asMono g with
          | some (c, d) => Json.mkObj [("num", polyJ (canon (monoSubst f.num c d))), ("den", polyJ (canon (monoSubst f.den c d)))]
          | none => Json.null)]
      match subst f g with
      | .error e => pure (Json.mkObj [("model", errJ e), ("spec", spec)])
      | .ok h =>
        pure (Json.mkObj [("model", Json.mkObj [("num", polyJ (sortAsc h.num)), ("den", polyJ (sortAsc h.den)),
            ("vals", Json.arr (pts.map fun z0 => optRatJ (evalZF h z0))),
            ("mono_equiv", match asMono g with
              | some (c, d) => boolJ (rEquiv (rOf h) ⟨canon (monoSubst f.num c d), canon (monoSubst f.den c d)⟩)
              | none => Json.null)]),
          ("spec", spec)]))
    pure m
  | _ => throw s!"C05: unknown entry {entry}"

end ALV.Driver.C05
