/- dispatch table of the driver: one line per property -/
import ALV.Driver.C01
import ALV.Driver.C02
import ALV.Driver.C03
import ALV.Driver.C04
import ALV.Driver.C05
import ALV.Driver.C06
import ALV.Driver.C07
import ALV.Driver.C08
import ALV.Driver.C09
import ALV.Driver.C10
import ALV.Driver.C11
import ALV.Driver.C12
import ALV.Driver.C13
import ALV.Driver.C14
import ALV.Driver.C15
import ALV.Driver.C16
import ALV.Driver.C17
import ALV.Driver.C18
import ALV.Driver.C19
import ALV.Driver.C20
namespace ALV.Driver
open ALV

/-- A handler returns the payload; model-level exceptions (the Python
    exceptions the model predicts) are ordinary payloads, e.g. {"err": kind}. -/
def dispatch (id entry : String) (j : Json) : Except String Json :=
  match id with
  | "C01" => (ALV.Driver.C01.handle entry j).map ALV.J.ok
  | "C02" => (ALV.Driver.C02.handle entry j).map ALV.J.ok
  | "C03" => (ALV.Driver.C03.handle entry j).map ALV.J.ok
  | "C04" => (ALV.Driver.C04.handle entry j).map ALV.J.ok
  | "C05" => (ALV.Driver.C05.handle entry j).map ALV.J.ok
  | "C06" => (ALV.Driver.C06.handle entry j).map ALV.J.ok
  | "C07" => (ALV.Driver.C07.handle entry j).map ALV.J.ok
  | "C08" => (ALV.Driver.C08.handle entry j).map ALV.J.ok
  | "C09" => (ALV.Driver.C09.handle entry j).map ALV.J.ok
  | "C10" => (ALV.Driver.C10.handle entry j).map ALV.J.ok
  | "C11" => (ALV.Driver.C11.handle entry j).map ALV.J.ok
  | "C12" => (ALV.Driver.C12.handle entry j).map ALV.J.ok
  | "C13" => (ALV.Driver.C13.handle entry j).map ALV.J.ok
  | "C14" => (ALV.Driver.C14.handle entry j).map ALV.J.ok
  | "C15" => (ALV.Driver.C15.handle entry j).map ALV.J.ok
  | "C16" => (ALV.Driver.C16.handle entry j).map ALV.J.ok
  | "C17" => (ALV.Driver.C17.handle entry j).map ALV.J.ok
  | "C18" => (ALV.Driver.C18.handle entry j).map ALV.J.ok
  | "C19" => (ALV.Driver.C19.handle entry j).map ALV.J.ok
  | "C20" => (ALV.Driver.C20.handle entry j).map ALV.J.ok
  | _ => throw s!"unknown property {id}"

end ALV.Driver
