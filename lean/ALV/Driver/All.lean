/- dispatch table of the driver: one line per property -/
import ALV.Driver.C08
namespace ALV.Driver
open Lean

/-- A handler returns the payload; model-level exceptions (the Python
    exceptions the model predicts) are payloads of the form {"err": kind}. -/
def dispatch (id entry : String) (j : Json) : Except String Json :=
  match id with
  | "C08" => (ALV.Driver.C08.handle entry j).map ALV.J.ok
  | _ => throw s!"unknown property {id}"

end ALV.Driver
