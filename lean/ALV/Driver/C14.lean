import ALV.Common.Json
import ALV.Model.C14
import ALV.Spec.C14
namespace ALV.Driver.C14
open ALV ALV.J ALV.C14

/-- Python does not produce `inf`/`nan` where IEEE arithmetic does: `0.0 ** negative` and `x / 0.0`
    (C: `inf`) raise `ZeroDivisionError`; an invalid operation (C: `nan`) is either `0.0 / 0.0`
    (`ZeroDivisionError`) or `negative ** non-integer`, which Python 3 turns into a *complex* number.
    A non-finite sample of the `Float` twin is reported as that class of outcome. -/
def outcomeToJson : Outcome Float → Json
  | .err k => Json.mkObj [("err", Json.str k)]
  | .ok xs =>
    match xs.find? (fun x => x.isNaN || x.isInf) with
    | some x => Json.mkObj [("err", Json.str (if x.isNaN then "NaN" else "ZeroDivisionError"))]
    | none => Json.mkObj [("ok", arr floatToJson xs)]

def funcToJson (f : Func) : Json := Json.arr [Json.str f.sname, Json.bool f.symm]

def sdictToJson (d : SDict) : Json :=
  Json.mkObj [("items", arr (fun kv => Json.arr [Json.str kv.1, funcToJson kv.2]) d.items),
              ("default", optJson funcToJson d.default)]

def getDict (j : Json) : Except String DictId := do
  match ← getStr (← field j "dict") with
  | "window" => pure .window
  | "wsymm" => pure .wsymm
  | s => throw s!"C14: unknown dict {s}"

/-- {"dict": "window"|"wsymm", "name": str|null, "size": int, "alpha": number|null} -/
def handleCall (j : Json) : Except String Json := do
    let d ← getDict j
    let name ← (optField j "name").mapM getStr
    let size ← getInt (← field j "size")
    let alpha ← (optField j "alpha").mapM getFloat
    let model := call (α := Float) d name size alpha
    -- the model's own resolution of the name (for the report) and the spec's
    let sd := generated.dict d
    let fn := match name with | some k => sd.get k | none => sd.default
    let key := name.getD "hann"             -- documented default strategy of both dictionaries
    let spec : Json :=
      if size < 0 then Json.null else
      match resolve (d == .wsymm) key with
      | none => Json.null
      | some (k, symm) =>
        match specList (α := Float) k symm alpha size.toNat with
        | none => Json.null
        | some xs =>
          -- an infinite closed form (cos with alpha < 0) is outside the property; a NaN sample (the Float
          -- evaluation of `sin(≈π) ** alpha` with a slightly negative sine) is sent as "nan" and skipped
          if xs.any (fun x => x.isInf) then Json.null
          else Json.mkObj [
            ("ok", arr floatToJson xs),
            ("kind", Json.str k.sname), ("symm", Json.bool symm),
            ("alpha", optJson floatToJson (alpha <|> (k.alphaDefault : Option Float))),
            ("cola2", optJson floatToJson (colaConst k ((alpha <|> (k.alphaDefault : Option Float)).getD 0) 2)),
            ("cola4", optJson floatToJson (colaConst k ((alpha <|> (k.alphaDefault : Option Float)).getD 0) 4))]
    pure <| Json.mkObj [("model", outcomeToJson model), ("func", optJson funcToJson fn), ("spec", spec)]

def handle (entry : String) (j : Json) : Except String Json := do
  match entry with
  | "call" => handleCall j
  | "history" =>
    -- {"calls": [call, ...]}: a history of calls between which the CALLER changes, in place, the lists it
    -- received.  The model of a history (`runHistory`) answers every call by `call` of that call's own
    -- arguments, whatever was done to the store (`Props.C14.history_outcomes`), and hands out a new object
    -- each time (`history_fresh_objects`): the payload is the payload of each call on its own, and the
    -- identities the model assigns (run with the caller doing nothing: they do not depend on it).
    let calls ← getArr (← field j "calls")
    let steps ← calls.mapM handleCall
    let mk (c : Json) : Except String (Step Float) := do
      pure { d := ← getDict c, name := ← (optField c "name").mapM getStr, size := ← getInt (← field c "size"),
             alpha := ← (optField c "alpha").mapM getFloat, target := 0, change := id }
    let hist ← calls.mapM mk
    let ids := (runHistory hist []).1.map (fun r => optJson natToJson r.2)
    pure <| Json.mkObj [("steps", Json.arr steps), ("objects", Json.arr ids)]
  | "registry" =>
    -- the modelled state after `_generate_window_strategies()`
    let st := generated
    let links (l : List (Func × Func)) := arr (fun kv => Json.arr [funcToJson kv.1, funcToJson kv.2]) l
    pure <| Json.mkObj [
      ("window", sdictToJson st.window), ("wsymm", sdictToJson st.wsymm),
      ("periodic", links st.periodicAttr), ("symm", links st.symmAttr),
      ("spec", Json.mkObj [
        ("window", arr (fun k => Json.arr [Json.str k, optJson (fun (r : Kind × Bool) => Json.arr [Json.str r.1.sname, Json.bool r.2]) (resolve false k)])
                    (Kind.all.flatMap Kind.names)),
        ("wsymm", arr (fun k => Json.arr [Json.str k, optJson (fun (r : Kind × Bool) => Json.arr [Json.str r.1.sname, Json.bool r.2]) (resolve true k)])
                    (Kind.all.flatMap Kind.names))])]
  | _ => throw s!"C14: unknown entry {entry}"

end ALV.Driver.C14
