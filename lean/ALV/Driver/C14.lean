import ALV.Common.Json
namespace ALV.Driver.C14
open ALV ALV.J

/-- stub: the C14 slice is not built yet -/
def handle (entry : String) (_j : Json) : Except String Json :=
  throw s!"C14: unknown entry {entry}"

end ALV.Driver.C14
