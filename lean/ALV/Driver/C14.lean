import ALV.Common.Json
import ALV.Model.C14
import ALV.Model.C14Call
import ALV.Gen.C14Src
import ALV.Spec.C14
namespace ALV.Driver.C14
open ALV ALV.J ALV.C14 ALV.Gen.Windows

/-- Python does not produce `inf`/`nan` where IEEE arithmetic does: `0.0 ** negative` and `x / 0.0`
    (C: `inf`) raise `ZeroDivisionError`; an invalid operation (C: `nan`) is either `0.0 / 0.0`
    (`ZeroDivisionError`) or `negative ** non-integer`, which Python 3 turns into a *complex* number.
    A non-finite sample of the `Float` twin is reported as that class of outcome. -/
def outcomeToJson : Outcome Float → Json
  | .err k => Json.mkObj [("err", Json.str k)]
  | .ok xs =>
    match xs.find? (fun x => x.isNaN || x.isInf) with
    | some x => Json.mkObj [("err", Json.str (if x.isNaN then "NaN" else "ZeroDivisionError"))]
    | none => Json.mkObj [("ok", arr floatToJson xs)]

def funcToJson (f : Func) : Json := Json.arr [Json.str f.sname, Json.bool f.symm]

def sdictToJson (d : SDict) : Json :=
  Json.mkObj [("items", arr (fun kv => Json.arr [Json.str kv.1, funcToJson kv.2]) d.items),
              ("default", optJson funcToJson d.default)]

def getDict (j : Json) : Except String DictId := do
  match ← getStr (← field j "dict") with
  | "window" => pure .window
  | "wsymm" => pure .wsymm
  | s => throw s!"C14: unknown dict {s}"

/-- {"dict": "window"|"wsymm", "name": str|null, "size": int, "alpha": number|null} -/
def handleCall (j : Json) : Except String Json := do
    let d ← getDict j
    let name ← (optField j "name").mapM getStr
    let size ← getInt (← field j "size")
    let alpha ← (optField j "alpha").mapM getFloat
    let model := call (α := Float) d name size alpha
    -- the model's own resolution of the name (for the report) and the spec's
    let sd := generated.dict d
    let fn := match name with | some k => sd.get k | none => sd.default
    let key := name.getD "hann"             -- documented default strategy of both dictionaries
    let spec : Json :=
      if size < 0 then Json.null else
      match resolve (d == .wsymm) key with
      | none => Json.null
      | some (k, symm) =>
        match specList (α := Float) k symm alpha size.toNat with
        | none => Json.null
        | some xs =>
          -- an infinite closed form (cos with alpha < 0) is outside the property; a NaN sample (the Float
          -- evaluation of `sin(≈π) ** alpha` with a slightly negative sine) is sent as "nan" and skipped
          if xs.any (fun x => x.isInf) then Json.null
          else Json.mkObj [
            ("ok", arr floatToJson xs),
            ("kind", Json.str k.sname), ("symm", Json.bool symm),
            ("alpha", optJson floatToJson (alpha <|> (k.alphaDefault : Option Float))),
            ("cola2", optJson floatToJson (colaConst k ((alpha <|> (k.alphaDefault : Option Float)).getD 0) 2)),
            ("cola4", optJson floatToJson (colaConst k ((alpha <|> (k.alphaDefault : Option Float)).getD 0) 4))]
    pure <| Json.mkObj [("model", outcomeToJson model), ("func", optJson funcToJson fn), ("spec", spec)]

/-- {"t": "int"|"bool"|"float"|"frac"|"none"|"str", "v": …} -/
def getVal (j : Json) : Except String Val := do
  match ← getStr (← field j "t") with
  | "int" => pure (.int (← getInt (← field j "v")))
  | "bool" => pure (.bool (← getBool (← field j "v")))
  | "float" => pure (.float (← getRat (← field j "v")))
  | "frac" => pure (.frac (← getRat (← field j "v")))
  | "none" => pure .none
  | "str" => pure .str
  | s => throw s!"C14: unknown value kind {s}"

def getRoute (j : Json) : Except String Route := do
  match ← getStr (← field j "route") with
  | "item" => pure .item
  | "dflt" => pure .dflt
  | "dictlink:symm" => pure (.dictLink "symm")
  | "dictlink:periodic" => pure (.dictLink "periodic")
  | "funclink:symm" => pure (.funcLink "symm")
  | "funclink:periodic" => pure (.funcLink "periodic")
  | s => throw s!"C14: unknown route {s}"

/-- {"dict", "name": str|null, "route", "pos": [val], "kw": [[key, val]],
     "spec_call": null | {"symm": bool, "kind": str, "size": nat, "alpha": number|null}}:
    the call as the caller writes it through the model of the call layer (`pyCall`); `spec_call` is the
    same call reduced by the harness, with the DOCUMENTED rules, to the terms of the property. -/
def handlePyCall (j : Json) : Except String Json := do
    let d ← getDict j
    let name ← (optField j "name").mapM getStr
    let route ← getRoute j
    let pos ← getList getVal (← field j "pos")
    let kw ← getList (fun p => do
      let l ← getArr p
      match l with
      | [k, v] => pure (← getStr k, ← getVal v)
      | _ => throw "C14: bad keyword pair") (← field j "kw")
    let model := pyCall (α := Float) d name route { pos := pos, kw := kw }
    let fn := match resolveRoute d name route with | .ok f => some f | .error _ => none
    let spec : Json ← match optField j "spec_call" with
      | none => pure Json.null
      | some sc => do
        let symm ← getBool (← field sc "symm")
        let size ← getNat (← field sc "size")
        let alpha ← (optField sc "alpha").mapM getFloat
        match Kind.all.find? (fun k => k.sname == (match getStr (fieldD sc "kind" Json.null) with | .ok s => s | .error _ => "")) with
        | none => pure Json.null
        | some k =>
          match specList (α := Float) k (symm && k.distinct) alpha size with
          | none => pure Json.null
          | some xs =>
            if xs.any (fun x => x.isInf) then pure Json.null
            else pure <| Json.mkObj [
              ("ok", arr floatToJson xs),
              ("kind", Json.str k.sname), ("symm", Json.bool (symm && k.distinct)),
              ("alpha", optJson floatToJson (alpha <|> (k.alphaDefault : Option Float))),
              ("cola2", optJson floatToJson (colaConst k ((alpha <|> (k.alphaDefault : Option Float)).getD 0) 2)),
              ("cola4", optJson floatToJson (colaConst k ((alpha <|> (k.alphaDefault : Option Float)).getD 0) 4))]
    pure <| Json.mkObj [("model", outcomeToJson model), ("func", optJson funcToJson fn), ("spec", spec)]

def handle (entry : String) (j : Json) : Except String Json := do
  match entry with
  | "call" => handleCall j
  | "pycall" => handlePyCall j
  | "tables" =>
    -- the regenerated tables, for the structural checks of the harness (signature of every generated function)
    let sigJson (ps : List Param) := arr (fun (p : Param) => Json.arr [Json.str p.name,
      optJson (fun (l : Lit) => Json.arr [intToJson l.num, natToJson l.den, Json.bool l.isInt]) p.dflt]) ps
    pure <| Json.mkObj [
      ("rows", arr (fun (r : Row) => Json.mkObj [("names", arr Json.str r.names), ("distinct", Json.bool r.distinct),
        ("window_sig", sigJson (funcSig windowSig r)), ("wsymm_sig", sigJson (funcSig wsymmSig r))]) rows),
      ("dict_links", arr (fun (l : String × String × String) => Json.arr [Json.str l.1, Json.str l.2.1, Json.str l.2.2]) dictLinks)]
  | "history" =>
    -- {"calls": [call, ...]}: a history of calls between which the CALLER changes, in place, the lists it
    -- received.  The model of a history (`runHistory`) answers every call by `call` of that call's own
    -- arguments, whatever was done to the store (`Props.C14.history_outcomes`), and hands out a new object
    -- each time (`history_fresh_objects`): the payload is the payload of each call on its own, and the
    -- identities the model assigns (run with the caller doing nothing: they do not depend on it).
    let calls ← getArr (← field j "calls")
    let steps ← calls.mapM handleCall
    let mk (c : Json) : Except String (Step Float) := do
      pure { d := ← getDict c, name := ← (optField c "name").mapM getStr, size := ← getInt (← field c "size"),
             alpha := ← (optField c "alpha").mapM getFloat, target := 0, change := id }
    let hist ← calls.mapM mk
    let ids := (runHistory hist []).1.map (fun r => optJson natToJson r.2)
    pure <| Json.mkObj [("steps", Json.arr steps), ("objects", Json.arr ids)]
  | "registry" =>
    -- the modelled state after `_generate_window_strategies()`
    let st := generated
    let links (l : List (Func × Func)) := arr (fun kv => Json.arr [funcToJson kv.1, funcToJson kv.2]) l
    pure <| Json.mkObj [
      ("window", sdictToJson st.window), ("wsymm", sdictToJson st.wsymm),
      ("periodic", links st.periodicAttr), ("symm", links st.symmAttr),
      ("spec", Json.mkObj [
        ("window", arr (fun k => Json.arr [Json.str k, optJson (fun (r : Kind × Bool) => Json.arr [Json.str r.1.sname, Json.bool r.2]) (resolve false k)])
                    (Kind.all.flatMap Kind.names)),
        ("wsymm", arr (fun k => Json.arr [Json.str k, optJson (fun (r : Kind × Bool) => Json.arr [Json.str r.1.sname, Json.bool r.2]) (resolve true k)])
                    (Kind.all.flatMap Kind.names))])]
  | "srcregistry" =>
    -- the state the REGENERATED loop (translator T2b, `Gen/C14Src.lean`) leaves when the interpreter
    -- (`Model/C14Loop.lean`) runs it on the regenerated table; null = the program raises / is outside the model
    let links (l : List (Func × Func)) := arr (fun kv => Json.arr [funcToJson kv.1, funcToJson kv.2]) l
    pure <| match Loop.runTable ALV.Gen.C14.generateWindowStrategies rows with
      | none => Json.null
      | some st => Json.mkObj [
          ("window", sdictToJson st.window), ("wsymm", sdictToJson st.wsymm),
          ("periodic", links st.periodicAttr), ("symm", links st.symmAttr),
          ("is_model", Json.bool (decide (st = generated)))]
  | _ => throw s!"C14: unknown entry {entry}"

end ALV.Driver.C14
