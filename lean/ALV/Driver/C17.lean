import ALV.Common.Json
import ALV.Model.C17
import ALV.Model.C17Fine
import ALV.Model.C17Rec
import ALV.Model.C17Mix
import ALV.Spec.C17
namespace ALV.Driver.C17
open ALV ALV.J ALV.C17

def tidNum : Tid → Nat
  | .main => 0
  | .player i => i + 1

def numTid (n : Nat) : Tid := if n = 0 then .main else .player (n - 1)

def ctlEvt (cfg : Cfg) (k : Ctl) : String := if ctlGo cfg k then "set" else "clear"

/-- name of the pending operation, in the vocabulary of harness/sched.py -/
def mainLabel (cfg : Cfg) : MPc → Option String
  | .begin => some "begin"
  | .pAcq _ _ => some "mlock.acq"
  | .pRaiseRel => some "mlock.rel"
  | .pGoSet i => some s!"go{i}.set"
  | .pOpen _ => some "pa.open"
  | .pStart i => some s!"th{i}.start"
  | .pRel => some "mlock.rel"
  | .cAcq _ i => some s!"tlock{i}.acq"
  | .cEvt k i => some s!"go{i}.{ctlEvt cfg k}"
  | .cRel _ i => some s!"tlock{i}.rel"
  | .jJoin i => some s!"th{i}.join"
  | .kHAcq => some "hlock.acq"
  | .kMAcq => some "mlock.acq"
  | .kMRel _ => some "mlock.rel"
  | .kSAcq i => some s!"tlock{i}.acq"
  | .kSEvt i => some s!"go{i}.{ctlEvt cfg .stop}"
  | .kSRel i => some s!"tlock{i}.rel"
  | .kJoin i => some s!"th{i}.join"
  | .kTerm => some "pa.terminate"
  | .kAssertRel => some "hlock.rel"
  | .kHRel _ => some "hlock.rel"
  | .done => none

def playerLabel (i : Nat) : PPc → Option String
  | .new => none
  | .begin => some "begin"
  | .write => some s!"st{i}.write"
  | .isSet => some s!"go{i}.is_set"
  | .stopStream => some s!"st{i}.stop"
  | .goWait => some s!"go{i}.wait"
  | .startStream => some s!"st{i}.start"
  | .finAcq => some s!"tlock{i}.acq"
  | .closeStream => some s!"st{i}.close"
  | .tfAcq => some "mlock.acq"
  | .tfRel => some "mlock.rel"
  | .finRel => some s!"tlock{i}.rel"
  | .done => none

/-- pending operations of all unfinished threads: "tid:label:enabled" joined by "," -/
def pendStr (cfg : Cfg) (s : State) : String :=
  let m := match mainLabel cfg s.mpc with
    | some l => [s!"0:{l}:{if enabled cfg s .main then 1 else 0}"]
    | none => []
  let ps := (List.range s.players.length).filterMap fun i =>
    match s.players[i]? with
    | some p => (playerLabel i p.pc).map fun l =>
        s!"{i + 1}:{l}:{if enabled cfg s (.player i) then 1 else 0}"
    | none => none
  ",".intercalate (m ++ ps)

def evJson : Ev → Json
  | .playOk _ => Json.arr [Json.str "play", Json.str "ok"]
  | .playThreadError => Json.arr [Json.str "play", Json.str "RuntimeError"]
  | .ctlOk => Json.arr [Json.str "ctl", Json.str "ok"]
  | .skipped => Json.arr [Json.str "skipped", Json.str "ok"]
  | .joinOk => Json.arr [Json.str "join", Json.str "ok"]
  | .closeOk alive n => Json.arr [Json.str "close", Json.str "ok",
      Json.arr (alive.map Json.bool), natToJson n]
  | .closeAssertionError => Json.arr [Json.str "close", Json.str "AssertionError"]

def sstStr : SSt → String
  | .unopened => "unopened" | .active => "active" | .stopped => "stopped" | .closed => "closed"

/-- the options object of a play command: how the call was written (`null` / absent = omitted) -/
def parseCall (j : Json) : Except String PlayCall := do
  let optNat (k : String) : Except String (Option Nat) :=
    match optField j k with
    | some v => do pure (some (← getNat v))
    | none => pure none
  let dfmt ← match optField j "dfmt" with
    | some v => do pure (some (← getStr v))
    | none => pure none
  pure { chunkSize := ← optNat "chunk_size", dfmt := dfmt, channels := ← optNat "channels",
         rate := ← optNat "rate", device := ← optNat "device" }

/-- `["play", samples]` plays with the request's default chunk size, `["play", samples, cs]` with its
    own, `["play", samples, null, call]` / `["play", samples, cs, call]` as the call was written
    (`call` = keyword arguments given; the chunk size of the model is `samplesPerChunk`) -/
def parseCmdCall (dcs : Nat) (j : Json) : Except String (Cmd × Option PlayCall) := do
  let a ← getArr j
  match a with
  | [Json.str "play", xs] => pure (.play (← getList getInt xs) dcs, none)
  | [Json.str "play", xs, c] =>
    let c ← getNat c
    if c = 0 then throw "chunk size must be positive"
    pure (.play (← getList getInt xs) c, none)
  | [Json.str "play", xs, _, call] =>
    let call ← parseCall call
    let c := samplesPerChunk dcs call
    if c = 0 then throw "chunk size must be positive"
    pure (.play (← getList getInt xs) c, some call)
  | [Json.str "pause", i] => pure (.ctl .pause (← getNat i), none)
  | [Json.str "resume", i] => pure (.ctl .resume (← getNat i), none)
  | [Json.str "stop", i] => pure (.ctl .stop (← getNat i), none)
  | [Json.str "join", i] => pure (.join (← getNat i), none)
  | [Json.str "close"] => pure (.close, none)
  | _ => throw s!"C17: bad command {j.compress}"

def parseCmd (dcs : Nat) (j : Json) : Except String Cmd := do
  pure (← parseCmdCall dcs j).1

def openArgsJson (o : OpenArgs) : Json := Json.mkObj [
  ("format", natToJson o.format), ("channels", natToJson o.channels), ("rate", natToJson o.rate),
  ("frames_per_buffer", natToJson o.framesPerBuffer), ("output", Json.bool o.output),
  ("output_device_index", match o.device with | some d => natToJson d | none => Json.null)]

/-- spec side of the call shapes: for every play command, what `pa.open` must be asked and the
    frames per write (`null` for commands written in the old form) -/
def opensJson (dcs : Nat) (apiOut : Option Nat) (cmds : List (Cmd × Option PlayCall)) : Json :=
  Json.arr <| cmds.filterMap fun (c, call) =>
    match c, call with
    | .play _ _, some call => some (Json.mkObj [("open", openArgsJson (openArgs dcs apiOut call)),
        ("frames", natToJson (frames dcs call)), ("samples", natToJson (samplesPerChunk dcs call))])
    | .play _ _, none => some Json.null
    | _, _ => none

/-- replay with the per-step record `chosen|pending…`; stops at a choice that is not enabled -/
def replay (cfg : Cfg) : State → List Nat → List String → State × List String × Option Nat
  | s, [], acc => (s, acc.reverse, none)
  | s, c :: cs, acc =>
    let rec_ := s!"{c}|{pendStr cfg s}"
    match step cfg s (numTid c) with
    | some s' => replay cfg s' cs (rec_ :: acc)
    | none => (s, (rec_ :: acc).reverse, some acc.length)


/-! ### the fine-grained system (`entry = "fine"`): every pull from a played iterable is a step -/

def playerLabelF (fs : FState) (i : Nat) (pc : PPc) : Option String :=
  if pulling fs i then some s!"it{i}.pull" else playerLabel i pc

def pendStrF (fc : FCfg) (fs : FState) : String :=
  let s := fs.base
  let m := match mainLabel fc.cfg s.mpc with
    | some l => [s!"0:{l}:{if enabledF fc fs .main then 1 else 0}"]
    | none => []
  let ps := (List.range s.players.length).filterMap fun i =>
    match s.players[i]? with
    | some p => (playerLabelF fs i p.pc).map fun l =>
        s!"{i + 1}:{l}:{if enabledF fc fs (.player i) then 1 else 0}"
    | none => none
  ",".intercalate (m ++ ps)

def replayF (fc : FCfg) : FState → List Nat → List String → FState × List String × Option Nat
  | fs, [], acc => (fs, acc.reverse, none)
  | fs, c :: cs, acc =>
    let rec_ := s!"{c}|{pendStrF fc fs}"
    match stepF fc fs (numTid c) with
    | some fs' => replayF fc fs' cs (rec_ :: acc)
    | none => (fs, (rec_ :: acc).reverse, some acc.length)

def handleFine (j : Json) : Except String Json := do
  let wait ← getBool (← field j "wait")
  let fixed ← getBool (← field j "fixed")
  let dieFixed ← getBool (← field j "dieFixed")
  let cs ← getNat (← field j "cs")
  if cs = 0 then throw "cs must be positive"
  let cmds ← getList (parseCmdCall cs) (← field j "script")
  let script := cmds.map (·.1)
  let apiOut ← match optField j "apiOut" with
    | some v => do pure (some (← getNat v))
    | none => pure none
  let fails ← getList getBool (← field j "fails")
  let sched ← getList getNat (← field j "schedule")
  let fc : FCfg := { cfg := { wait := wait, fixed := fixed, fails := fails }, dieFixed := dieFixed }
  let (fs, steps, bad) := replayF fc (initF script) sched []
  let s := fs.base
  let outcome :=
    match bad with
    | some k => s!"not-enabled@{k}"
    | none => if allDone s then "done" else if terminalF fc fs then "deadlock" else "unfinished"
  let streams := (List.range s.players.length).filterMap fun i =>
    match s.players[i]?, fs.asm[i]? with
    | some p, some a => some <| Json.mkObj [
        ("written", arr (arr intToJson) p.written), ("state", Json.str (sstStr p.sst)),
        ("alive", Json.bool (p.pc != .done && p.pc != .new)), ("halting", Json.bool p.halting),
        ("go", Json.bool p.go), ("buf", arr intToJson a.buf), ("unpulled", natToJson a.rest.length)]
    | _, _ => none
  let audios := script.filterMap fun c => match c with | .play a c => some (a, c) | _ => none
  pure <| Json.mkObj [
    ("model", Json.mkObj [
      ("steps", arr Json.str steps), ("final", Json.str (pendStrF fc fs)),
      ("outcome", Json.str outcome), ("log", arr evJson s.log), ("streams", Json.arr streams),
      ("terminates", natToJson s.terminated), ("finished", Json.bool s.finished),
      ("threads", nats s.threads), ("perr", Json.bool s.perr),
      ("closedAfter", Json.bool (closedAfter s)), ("noneAlive", Json.bool (noneAlive s))]),
    ("spec", Json.mkObj [
      ("chunks", arr (fun (a : List Int × Nat) => arr (arr intToJson) (chunksSpec a.2 a.1)) audios),
      ("opens", opensJson cs apiOut cmds)])]

/-! ### recording streams (`entry = "rec"`): histories of record / take / stop / close -/

def parseRCmd (j : Json) : Except String C17Rec.RCmd := do
  let a ← getArr j
  match a with
  | [Json.str "record", c] =>
    let c ← getNat c
    if c = 0 then throw "chunk size must be positive"
    pure (.record c)
  | [Json.str "take", i, n] => pure (.take (← getNat i) (← getNat n))
  | [Json.str "stop", i] => pure (.stop (← getNat i))
  | [Json.str "close"] => pure .close
  | _ => throw s!"C17 rec: bad command {j.compress}"

def revJson : C17Rec.REv → Json
  | .recordOk _ => Json.arr [Json.str "record", Json.str "ok"]
  | .recordRefused => Json.arr [Json.str "record", Json.str "IOError"]
  | .took xs => Json.arr [Json.str "take", arr intToJson xs]
  | .stopOk => Json.arr [Json.str "stop", Json.str "ok"]
  | .skipped => Json.arr [Json.str "skipped", Json.str "ok"]
  | .closeOk => Json.arr [Json.str "close", Json.str "ok"]

/-- does the command finish (close the device stream of) a recording stream that is NOT the oldest
    one still in `_recordings`?  (`list.remove` would then have to compare two `RecStream`s with `==`:
    finding D26, repaired in /repo by c60d4c5 — `recording_finished` removes by identity, which is what
    `Model/C17Rec.lean` (`List.erase` on indices) does.  The flag only NAMES a regression of that
    repair in the signature of the violation; it excuses nothing: the tie compares every call.) -/
def finishesLater (s : C17Rec.RState) (c : C17Rec.RCmd) : Bool :=
  let s' := C17Rec.stepCmd s c
  match c with
  | .close => !s.finished && decide (s.recordings.length ≥ 2)
  | _ => s.recordings.any fun i => !s'.recordings.contains i && s.recordings.head? != some i

def triggers : C17Rec.RState → List C17Rec.RCmd → List Bool
  | _, [] => []
  | s, c :: cs => finishesLater s c :: triggers (C17Rec.stepCmd s c) cs

def handleRec (j : Json) : Except String Json := do
  let script ← getList parseRCmd (← field j "script")
  let s := C17Rec.run C17Rec.init script
  let recs := s.recs.map fun r => Json.mkObj [
    ("cs", natToJson r.cs), ("out", arr intToJson r.out), ("reads", natToJson r.reads),
    ("closes", natToJson r.closes), ("done", Json.bool r.done), ("recording", Json.bool r.recording)]
  pure <| Json.mkObj [
    ("model", Json.mkObj [
      ("log", arr revJson s.log), ("streams", Json.arr recs), ("recordings", nats s.recordings),
      ("terminates", natToJson s.terminated), ("finished", Json.bool s.finished),
      ("finishes_later", arr Json.bool (triggers C17Rec.init script))]),
    ("spec", Json.mkObj [
      -- the property on the model's run: delivered = device data in order; closed once when done
      ("delivered", Json.bool ((List.range s.recs.length).all fun i =>
        match s.recs[i]? with
        | some r => r.out ++ r.buf == C17Rec.devData i r.cs r.reads && r.closes == (if r.done then 1 else 0)
        | none => true))])]

/-! ### the mixed system (`entry = "mix"`): recordings, failing `pa.open`, raising `terminate` in the
same history as the player threads (`ALV.Model.C17Mix`) -/

/-- thread-object / device-stream index of player `i` (they differ from `i` once a `pa.open` has failed
    or a recording stream was opened) -/
def tixOf (x : XState) (i : Nat) : Nat := x.tix.getD i i
def sixOf (x : XState) (i : Nat) : Nat := x.six.getD i i

def reIdx (f : Nat → Nat) : MPc → MPc
  | .pGoSet i => .pGoSet (f i) | .pOpen i => .pOpen (f i) | .pStart i => .pStart (f i)
  | .cAcq k i => .cAcq k (f i) | .cEvt k i => .cEvt k (f i) | .cRel k i => .cRel k (f i)
  | .jJoin i => .jJoin (f i) | .kSAcq i => .kSAcq (f i) | .kSEvt i => .kSEvt (f i)
  | .kSRel i => .kSRel (f i) | .kJoin i => .kJoin (f i)
  | pc => pc

def playerLabelX (t s : Nat) : PPc → Option String
  | .write => some s!"st{s}.write"
  | .stopStream => some s!"st{s}.stop"
  | .startStream => some s!"st{s}.start"
  | .closeStream => some s!"st{s}.close"
  | pc => playerLabel t pc

def mainLabelX (xc : XCfg) (x : XState) : Option String :=
  match x.xpc with
  | .fGoSet => some s!"go{x.base.players.length + x.ghosts}.set"
  | .fOpen => some "pa.open"
  | .fRel => some "mlock.rel"
  | .fRaiseRel => some "mlock.rel"
  | .idle =>
    let baseLabel :=
      match (if x.base.mpc == .kTerm then lastActive x.recs else none) with
      | some k => some s!"st{(x.recs[k]?.map (·.six)).getD 0}.close"
      | none => mainLabel xc.cfg (reIdx (tixOf x) x.base.mpc)
    match x.todo with
    | (t, op) :: _ =>
      if due x.base t then
        match op with
        | .record _ => some "pa.open"
        | .playFail => some "mlock.acq"
      else baseLabel
    | [] => baseLabel

def pendStrX (xc : XCfg) (x : XState) : String :=
  let m := match mainLabelX xc x with
    | some l => [s!"0:{l}:{if enabledX xc x .main then 1 else 0}"]
    | none => []
  let ps := (List.range x.base.players.length).filterMap fun i =>
    match x.base.players[i]? with
    | some p => (playerLabelX (tixOf x i) (sixOf x i) p.pc).map fun l =>
        s!"{tixOf x i + 1}:{l}:{if enabledX xc x (.player i) then 1 else 0}"
    | none => none
  -- the scheduler lists the threads by thread-object index
  ",".intercalate (m ++ ps)

/-- schedule number → thread: 0 = control script, n+1 = the player whose thread object has index n -/
def numTidX (x : XState) (n : Nat) : Tid :=
  if n = 0 then .main
  else match (List.range x.base.players.length).find? (fun i => tixOf x i == n - 1) with
    | some i => .player i
    | none => .player x.base.players.length      -- nobody: not enabled

def replayX (xc : XCfg) : XState → List Nat → List String → XState × List String × Option Nat
  | x, [], acc => (x, acc.reverse, none)
  | x, c :: cs, acc =>
    let rec_ := s!"{c}|{pendStrX xc x}"
    match stepX xc x (numTidX x c) with
    | some x' => replayX xc x' cs (rec_ :: acc)
    | none => (x, (rec_ :: acc).reverse, some acc.length)

def parseXCmd (dcs : Nat) (j : Json) : Except String XCmd := do
  match (← getArr j) with
  | [Json.str "record", c] =>
    let c ← getNat c
    if c = 0 then throw "chunk size must be positive"
    pure (.ext (.record c))
  | [Json.str "playfail"] => pure (.ext .playFail)
  | _ => pure (.base (← parseCmd dcs j))

def xevJson : XEv → Json
  | .recordOk => Json.arr [Json.str "record", Json.str "ok"]
  | .recordRefused => Json.arr [Json.str "record", Json.str "IOError"]
  | .playOpenError => Json.arr [Json.str "play", Json.str "OTHER:OSError"]
  | .playThreadError => Json.arr [Json.str "play", Json.str "RuntimeError"]

/-- the log of the mixed script: the extra call with tag `t` comes right before the coarse call that
    has `t - 1` coarse calls after it; the `close` that terminated a backend whose `terminate` raises
    raised that error -/
def mergedLog (raised : Bool) (nBase : Nat) (x : XState) : List Json :=
  let ext (j : Nat) : List Json := (x.xlog.filter fun (t, _) => nBase - t == j).map fun (_, e) => xevJson e
  let rec go (j : Nat) (l : List Ev) (r : Bool) : List Json :=
    match l with
    | [] => (x.xlog.filter fun (t, _) => decide (nBase - t ≥ j)).map fun (_, e) => xevJson e
    | e :: rest =>
      match e, r with
      | .closeOk _ _, true =>
        ext j ++ [Json.arr [Json.str "close", Json.str "OTHER:OSError"]] ++ go (j + 1) rest false
      | _, _ => ext j ++ [evJson e] ++ go (j + 1) rest r
  go 0 x.base.log raised

def handleMix (j : Json) : Except String Json := do
  let wait ← getBool (← field j "wait")
  let fixed ← getBool (← field j "fixed")
  let cs ← getNat (← field j "cs")
  if cs = 0 then throw "cs must be positive"
  let script ← getList (parseXCmd cs) (← field j "script")
  let sched ← getList getNat (← field j "schedule")
  let termFails ← getBool (← field j "termFails")
  let fails ← match optField j "fails" with
    | some f => getList getBool f
    | none => pure []
  let xc : XCfg := { cfg := { wait := wait, fixed := fixed, fails := fails }, termFails := termFails }
  let (x, steps, bad) := replayX xc (initX script) sched []
  let s := x.base
  let outcome :=
    match bad with
    | some k => s!"not-enabled@{k}"
    | none => if allDone s && scriptDone x then "done" else if terminalX xc x then "deadlock" else "unfinished"
  let streams := (List.range s.players.length).filterMap fun i => (s.players[i]?).map fun p => Json.mkObj [
    ("written", arr (arr intToJson) p.written), ("state", Json.str (sstStr p.sst)),
    ("alive", Json.bool (p.pc != .done && p.pc != .new)), ("halting", Json.bool p.halting),
    ("go", Json.bool p.go), ("six", natToJson (sixOf x i)), ("opened", Json.bool (decide (i < x.six.length)))]
  let recs := x.recs.map fun r => Json.mkObj [("six", natToJson r.six), ("cs", natToJson r.cs),
    ("closes", natToJson r.closes)]
  let audios := (projScript script).filterMap fun c => match c with | .play a c => some (a, c) | _ => none
  pure <| Json.mkObj [
    ("model", Json.mkObj [
      ("steps", arr Json.str steps), ("final", Json.str (pendStrX xc x)),
      ("outcome", Json.str outcome),
      ("log", Json.arr (mergedLog (closeRaised xc x) (projScript script).length x)),
      ("streams", Json.arr streams), ("recs", Json.arr recs),
      ("terminates", natToJson s.terminated), ("finished", Json.bool s.finished),
      ("threads", nats s.threads), ("perr", Json.bool s.perr), ("ghosts", natToJson x.ghosts),
      ("recordings", natToJson (x.recs.countP fun r => r.closes == 0)),
      ("mlock_free", Json.bool (s.mlock.isNone && !x.shadow)),
      ("closedAfter", Json.bool (closedAfterX x)), ("noneAlive", Json.bool (noneAlive s))]),
    ("spec", Json.mkObj [
      ("chunks", arr (fun (a : List Int × Nat) => arr (arr intToJson) (chunksSpec a.2 a.1)) audios),
      ("opens", Json.arr [])])]

def handle (entry : String) (j : Json) : Except String Json := do
  match entry with
  | "mix" => handleMix j
  | "fine" => handleFine j
  | "rec" => handleRec j
  | "sched" =>
    let wait ← getBool (← field j "wait")
    let fixed ← getBool (← field j "fixed")
    let cs ← getNat (← field j "cs")
    if cs = 0 then throw "cs must be positive"
    let cmds ← getList (parseCmdCall cs) (← field j "script")
    let script := cmds.map (·.1)
    let apiOut ← match optField j "apiOut" with
      | some v => do pure (some (← getNat v))
      | none => pure none
    let sched ← getList getNat (← field j "schedule")
    let fails ← match optField j "fails" with
      | some f => getList getBool f
      | none => pure []
    let cfg : Cfg := { wait := wait, fixed := fixed, fails := fails }
    let (s, steps, bad) := replay cfg (init script) sched []
    let outcome :=
      match bad with
      | some k => s!"not-enabled@{k}"
      | none => if allDone s then "done" else if terminal cfg s then "deadlock" else "unfinished"
    let streams := s.players.map fun p => Json.mkObj [
      ("written", arr (arr intToJson) p.written), ("state", Json.str (sstStr p.sst)),
      ("alive", Json.bool (p.pc != .done && p.pc != .new)), ("halting", Json.bool p.halting),
      ("go", Json.bool p.go)]
    let audios := script.filterMap fun c => match c with | .play a c => some (a, c) | _ => none
    pure <| Json.mkObj [
      ("model", Json.mkObj [
        ("steps", arr Json.str steps), ("final", Json.str (pendStr cfg s)),
        ("outcome", Json.str outcome), ("log", arr evJson s.log), ("streams", Json.arr streams),
        ("terminates", natToJson s.terminated), ("finished", Json.bool s.finished),
        ("threads", nats s.threads), ("perr", Json.bool s.perr),
        ("closedAfter", Json.bool (closedAfter s)), ("noneAlive", Json.bool (noneAlive s))]),
      ("spec", Json.mkObj [
        ("chunks", arr (fun (a : List Int × Nat) => arr (arr intToJson) (chunksSpec a.2 a.1)) audios),
      ("opens", opensJson cs apiOut cmds)])]
  | _ => throw s!"C17: unknown entry {entry}"

end ALV.Driver.C17
