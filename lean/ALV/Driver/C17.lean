import ALV.Common.Json
namespace ALV.Driver.C17
open ALV ALV.J

/-- stub: the C17 slice is not built yet -/
def handle (entry : String) (_j : Json) : Except String Json :=
  throw s!"C17: unknown entry {entry}"

end ALV.Driver.C17
