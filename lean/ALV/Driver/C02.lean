import ALV.Common.Json
import ALV.Model.C02
import ALV.Spec.C02
namespace ALV.Driver.C02
open ALV ALV.J ALV.C02

def getDesc (j : Json) : Except String Desc := do
  let m ← getStr (← field j "m")
  let nat (k : String) : Except String Nat := do getNat (← field j k)
  match m with
  | "sample" => pure .sample
  | "scan" => pure .scan
  | "first" => pure .first
  | "zcross" => pure (.zcross (← getBool (← field j "known")))
  | "filt" => pure (.filt (← getList getBool (← field j "pat")))
  | "skip" => pure (.skip (← nat "n"))
  | "pad" => pure (.pad (← nat "pre") (← nat "post"))
  | "islice" => pure (.islice (← nat "start") (← nat "step"))
  | "blocks" => pure (.blocks (← nat "size") (← nat "hop"))
  | "ola" => pure (.ola (← nat "size") (← nat "hop"))
  | "stft" => pure (.stft (← nat "size") (← nat "hop") (← getBool (← field j "ola")))
  | "par" => pure (.par (← nat "n"))
  | "cascade" => pure (.cascade (← nat "n"))
  | "resample" => pure (.resample (← nat "order") (← getRat (← field j "step")))
  | "smix" => pure (.smix (← getRat (← field j "delta")))
  | _ => throw s!"C02: unknown stage model {m}"

/-- number of outputs of a chain on a finite source of `n` items consumed to its end -/
def chainOutLen (ds : List Desc) (n : Nat) : Nat :=
  ((buildChain ds).st.run (List.replicate n ())).length

def handle (entry : String) (j : Json) : Except String Json := do
  match entry with
  | "reads" =>
    -- chain of stage descriptors, source length n, K calls of next() on the output
    let ds ← getList getDesc (← field j "chain")
    let n ← getNat (← field j "n")
    let K ← getNat (← field j "k")
    let valid := ds.all (fun d => decide d.Valid)
    if !valid then throw "C02: stage parameters outside the modelled range"
    let d := ds.length
    -- model: the generator protocol run on the composed machine; level i = items pulled at
    -- the boundary in front of stage i (level 0 = the source)
    let levels := (List.range d).map fun i =>
      let srcLen := if i = 0 then n else chainOutLen (ds.take i) n
      chainPulls (ds.drop i) srcLen K
    let outs := (chainPulls ds n K).length
    -- spec: closed forms, composed
    let specLevels := (List.range d).map fun i =>
      (List.range K).map fun k => needOfChain (ds.drop i) (k + 1)
    pure <| Json.mkObj [
      ("construct", natToJson (buildChain ds).st.start.nread),
      ("model", arr nats levels), ("outs", natToJson outs),
      ("spec", arr nats specLevels), ("need", natToJson (needOfChain ds K)),
      ("spec0", natToJson (needOfChain ds 0))]
  | "take" =>
    let n ← getNat (← field j "n")
    let len ← getNat (← field j "len")
    pure <| Json.mkObj [("model", natToJson (takeReads n len)), ("spec", natToJson (min n len))]
  | "peek" =>
    let n ← getNat (← field j "n")
    let K ← getNat (← field j "k")
    pure <| Json.mkObj [
      ("model", nats ((List.range K).map fun k => peekThenReads n (k + 1))),
      ("spec", nats ((List.range K).map fun k => max n (k + 1)))]
  | _ => throw s!"C02: unknown entry {entry}"

end ALV.Driver.C02
