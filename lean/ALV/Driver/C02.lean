import ALV.Common.Json
import ALV.Model.C02
import ALV.Spec.C02
import ALV.Spec.C02Hist
namespace ALV.Driver.C02
open ALV ALV.J ALV.C02

def getNum (j : Json) : Except String Num := do
  let kind ← getStr (← field j "kind")
  match kind with
  | "int" => pure (.int (← getInt (← field j "v")))
  | "bool" => pure (.bool (← getBool (← field j "v")))
  | "frac" => pure (.frac (← getRat (← field j "v")))
  | "float" => pure (.float (← getRat (← field j "v")))
  | "inf" => pure (.inf false)
  | "-inf" => pure (.inf true)
  | "nan" => pure .nan
  | _ => throw s!"C02: unknown number spelling {kind}"

def getDesc (j : Json) : Except String Desc := do
  let m ← getStr (← field j "m")
  let nat (k : String) : Except String Nat := do getNat (← field j k)
  match m with
  | "sample" => pure .sample
  | "scan" => pure .scan
  | "first" => pure .first
  | "zcross" => pure (.zcross (← getBool (← field j "known")))
  | "filt" => pure (.filt (← getList getBool (← field j "pat")))
  | "skip" => pure (.skip (← nat "n"))
  | "pad" => pure (.pad (← nat "pre") (← nat "post"))
  | "islice" => pure (.islice (← nat "start") (← nat "step"))
  | "blocks" => pure (.blocks (← nat "size") (← nat "hop"))
  | "ola" => pure (.ola (← nat "size") (← nat "hop"))
  | "stft" => pure (.stft (← nat "size") (← nat "hop") (← getBool (← field j "ola")))
  | "par" => pure (.par (← nat "n"))
  | "cascade" => pure (.cascade (← nat "n"))
  | "resample" => pure (.resample (← nat "order") (← getRat (← field j "step")))
  | "smix" => pure (.smix (← getRat (← field j "delta")))
  | "attack" =>
    match optField j "n" with
    | some n => pure (.attack (← getNat n))
    | none => pure (.attack (durLen (← getNum (← field j "a")) + durLen (← getNum (← field j "d"))))
  | "skipn" =>          -- `skip(n)` with a spelled count: `max(int(round(n)), 0)` is computed here
    match roundCount (← getNum (← field j "n")) with
    | .ok N => pure (.skip N)
    | .error e => throw s!"C02: skip count raises {e}"
  | "resampleTV" => pure (.resampleTV (← nat "order") (← getList getRat (← field j "steps")))
  | _ => throw s!"C02: unknown stage model {m}"

/-- a stage of a chain that may contain stopping stages; the count parameters arrive in their
    Python SPELLING and are rounded here (`roundCount`); `Except.ok (Except.error e)` = the Python
    exception `e` the model predicts for the constructor -/
def getXDesc (j : Json) : Except String (Except String XDesc) := do
  let m ← getStr (← field j "m")
  let nat (k : String) : Except String Nat := do getNat (← field j k)
  match m with
  | "limit" =>
    match roundCount (← getNum (← field j "n")) with
    | .ok N => pure (.ok (.limit N))
    | .error e => pure (.error e)
  | "skipn" =>          -- `skip(n)` with a spelled count: `skipS (roundCount n)`
    match roundCount (← getNum (← field j "n")) with
    | .ok N => pure (.ok (.plain (.skip N)))
    | .error e => pure (.error e)
  | "takewhile" => pure (.ok (.takewhile (← nat "n")))
  | "isliceStop" => pure (.ok (.islice (← nat "start") (← nat "stop") (← nat "step")))
  | _ => pure (.ok (.plain (← getDesc j)))

/-- number of outputs of a chain on a finite source of `n` items consumed to its end -/
def chainOutLen (ds : List Desc) (n : Nat) : Nat :=
  ((buildChain ds).st.run (List.replicate n ())).length

/-- how an auxiliary source (a stream-valued parameter) of stage `stage` is read -/
inductive AuxRule where
  | lockstep                 -- one value per item of the stage's main input (pair source)
  | lag1                     -- `resample` step stream: the value is read after the yield
  | event (delta : Rat)      -- data of a Streamix event with absolute time `delta`
  | never                    -- a stream appended AFTER the main source: not touched while that lasts

structure AuxDecl where
  stage : Nat
  rule : AuxRule

def getAux (j : Json) : Except String AuxDecl := do
  let st ← getNat (← field j "stage")
  let r ← getStr (← field j "rule")
  match r with
  | "lockstep" => pure ⟨st, .lockstep⟩
  | "lag1" => pure ⟨st, .lag1⟩
  | "event" => pure ⟨st, .event (← getRat (← field j "delta"))⟩
  | "never" => pure ⟨st, .never⟩
  | _ => throw s!"C02: unknown auxiliary rule {r}"

/-- pull counter of the auxiliary source after the owning stage has delivered `out` outputs,
    read off the protocol run `P` of the auxiliary-source view of that stage -/
def auxAt (P : List Nat) (out : Nat) : Nat := if out = 0 then 0 else P.getD (out - 1) 0

/-- MODEL: the generator protocol on the auxiliary-source view of the stage -/
def auxModel (d : Option Desc) (a : AuxRule) (ins outs : List Nat) : List Nat :=
  let M := outs.foldl max 0
  match a with
  | .lockstep => ins
  | .lag1 =>
    let P := match d with
      | some (.resampleTV order steps) => (rsStepS order).pulls steps M
      | _ => (padS [()] [] : Stage Unit Unit Unit).pulls (List.replicate M ()) M
    outs.map (auxAt P)
  | .event delta =>
    let P := (smixS delta ()).pulls (List.replicate M ()) M
    outs.map (auxAt P)
  | .never =>
    -- `padS pre post`: the appended items are the epilogue, which runs when the source has ended;
    -- the protocol counter of the main input is the only counter that moves before
    outs.map (fun _ => (padS ([] : List Unit) []).start.nread)

/-- SPEC: the closed forms -/
def auxSpec (a : AuxRule) (ins outs : List Nat) : List Nat :=
  match a with
  | .lockstep => ins
  | .lag1 => outs.map auxNeedLag1
  | .event delta => outs.map (auxNeedEvent delta)
  | .never => outs.map (fun _ => 0)

def getHEv (j : Json) : Except String HEv := do
  let e ← getStr (← field j "e")
  match e with
  | "attach" => pure (.attach (← getRat (← field j "t")) (← getNat (← field j "len")))
  | "fork" => pure (.fork (← getNat (← field j "p")))
  | "ask" => pure (.ask (← getNat (← field j "c")))
  | _ => throw s!"C02: unknown history event {e}"

def hobsJson (o : HObs) : Json := Json.mkObj [("ok", Json.bool o.ok), ("reads", nats o.reads)]

def handle (entry : String) (j : Json) : Except String Json := do
  match entry with
  | "hist" =>
    -- a stage that is handed new sources / asked for new copies while it is consumed: counters of every
    -- source after every event; model = the machine, spec = the closed forms (Props C02.12)
    let kind ← getStr (← field j "kind")
    let es ← getList getHEv (← field j "events")
    let (model, spec) ← match kind with
      | "mixer" => do
        let keep ← getBool (← field j "keep")
        pure (hrun mixStep (Mix.init keep) es, hspecRun mixStep mixSpecObs (Mix.init keep) es)
      | "seq" => pure (hrun seqStep SeqSt.init es, hspecRun seqStep seqSpecObs SeqSt.init es)
      | "fan" => pure (hrun fanStep [] es, hspecRun fanStep fanSpecObs [] es)
      | "hub" => do
        let len ← getNat (← field j "len")
        pure (hrun hubStep (Hub.init len) es, hspecRun hubStep hubSpecObs (Hub.init len) es)
      | "control" => pure (hrun ctlStep 0 es, ctlSpec 0 es)
      | _ => throw s!"C02: unknown history kind {kind}"
    pure <| Json.mkObj [("model", arr hobsJson model), ("spec", arr hobsJson spec)]
  | "reads" =>
    -- chain of stage descriptors, source length n, K calls of next() on the output
    let ds ← getList getDesc (← field j "chain")
    let n ← getNat (← field j "n")
    let K ← getNat (← field j "k")
    let valid := ds.all (fun d => decide d.Valid)
    if !valid then throw "C02: stage parameters outside the modelled range"
    let d := ds.length
    -- model: the generator protocol run on the composed machine; level i = items pulled at
    -- the boundary in front of stage i (level 0 = the source)
    let levels := (List.range d).map fun i =>
      let srcLen := if i = 0 then n else chainOutLen (ds.take i) n
      chainPulls (ds.drop i) srcLen K
    let outs := (chainPulls ds n K).length
    -- spec: closed forms, composed
    let specLevels := (List.range d).map fun i =>
      (List.range K).map fun k => needOfChain (ds.drop i) (k + 1)
    -- auxiliary sources: pull counters after each next(), model (protocol) and spec (closed form)
    let auxs ← match optField j "aux" with
      | some a => getList getAux a
      | none => pure []
    if auxs.any (fun a => a.stage ≥ d) then throw "C02: auxiliary source of a stage outside the chain"
    let countTo (m : Nat) := (List.range m).map (· + 1)
    let auxM := auxs.map fun a =>
      let ins := levels.getD a.stage []
      let outsL := if a.stage + 1 < d then levels.getD (a.stage + 1) [] else countTo outs
      auxModel ds[a.stage]? a.rule ins outsL
    let auxS := auxs.map fun a =>
      let ins := specLevels.getD a.stage []
      let outsL := if a.stage + 1 < d then specLevels.getD (a.stage + 1) [] else countTo K
      auxSpec a.rule ins outsL
    pure <| Json.mkObj [
      ("construct", natToJson (buildChain ds).st.start.nread),
      ("model", arr nats levels), ("outs", natToJson outs),
      ("spec", arr nats specLevels), ("need", natToJson (needOfChain ds K)),
      ("spec0", natToJson (needOfChain ds 0)),
      ("aux_model", arr nats auxM), ("aux_spec", arr nats auxS),
      ("aux_need", nats (auxS.map fun l => l.getLast?.getD 0))]
  | "probe" =>
    -- chain that may contain stopping stages; K requests INCLUDING failed ones (asked past the end)
    let ds0 ← getList getXDesc (← field j "chain")
    let n ← getNat (← field j "n")
    let K ← getNat (← field j "k")
    match ds0.findSome? (fun d => match d with | .error e => some e | .ok _ => none) with
    | some e => pure <| Json.mkObj [("build_err", Json.str e)]
    | none =>
    let ds := ds0.filterMap (fun d => match d with | .ok x => some x | .error _ => none)
    if !ds.all (fun d => decide d.Valid) then throw "C02: stage parameters outside the modelled range"
    let d := ds.length
    let probes := (List.range d).map fun i =>
      let srcLen := if i = 0 then n else chainXOutLen (ds.take i) n
      chainProbe (ds.drop i) srcLen K
    -- closed forms; an inner boundary cannot carry more than what is in front of it delivers
    let specLevels := (List.range d).map fun i =>
      let srcLen := if i = 0 then n else chainXOutLen (ds.take i) n
      (List.range K).map fun k => min (needOfXChain (ds.drop i) (k + 1)) srcLen
    pure <| Json.mkObj [
      ("construct", natToJson (buildXChain ds).st.base.start.nread),
      ("delivered", arr (fun (b : Bool) => Json.bool b) ((probes.getD 0 []).map (·.1))),
      ("model", arr nats (probes.map fun p => p.map (·.2))),
      ("spec", arr nats specLevels),
      ("need", natToJson (needOfXChain ds K)),
      ("cut", natToJson ((buildXChain ds).st.cut (List.replicate n ())))]
  | "two" =>
    -- two counted sources behind one C-level object (map / zip, chain, zip_longest), `K` requests
    let kind ← getStr (← field j "kind")
    let na ← getNat (← field j "na")
    let nb ← getNat (← field j "nb")
    let K ← getNat (← field j "k")
    let tri (t : Bool × Nat × Nat) : Json := Json.arr [Json.bool t.1, natToJson t.2.1, natToJson t.2.2]
    let (model, spec) ← match kind with
      | "mapzip" => pure (twoProbe mapzipDemand K (twoStart na nb),
                          (List.range K).map fun k => needMapzip na nb (k + 1))
      | "chain" => pure (twoProbe chainDemand K (twoStart na nb),
                         (List.range K).map fun k => needChain2 na nb (k + 1))
      | "longest" => pure (twoProbe longestDemand K (twoStart na nb),
                           (List.range K).map fun k => needLongest na nb (k + 1))
      | _ => throw s!"C02: unknown two-source kind {kind}"
    pure <| Json.mkObj [
      ("construct", nats [(twoStart na nb).ra, (twoStart na nb).rb]),
      ("model", arr tri model), ("spec", arr tri spec)]
  | "take" =>
    -- `Stream.take(n)` / `peek(n)` with a spelled count on a source of `len` items
    let len ← getNat (← field j "len")
    match optField j "num" with
    | some nj =>
      match takeCount (← getNum nj) with
      | .error e => pure <| Json.mkObj [("err", Json.str e)]
      | .ok none => pure <| Json.mkObj [("model", natToJson len), ("spec", natToJson len)]
      | .ok (some n) =>
        pure <| Json.mkObj [("model", natToJson (takeReads n len)), ("spec", natToJson (min n len))]
    | none =>
      let n ← getNat (← field j "n")
      pure <| Json.mkObj [("model", natToJson (takeReads n len)), ("spec", natToJson (min n len))]
  | "peek" =>
    let n ← getNat (← field j "n")
    let K ← getNat (← field j "k")
    pure <| Json.mkObj [
      ("model", nats ((List.range K).map fun k => peekThenReads n (k + 1))),
      ("spec", nats ((List.range K).map fun k => max n (k + 1)))]
  | _ => throw s!"C02: unknown entry {entry}"

end ALV.Driver.C02
