import ALV.Common.Json
namespace ALV.Driver.C02
open ALV ALV.J

/-- stub: the C02 slice is not built yet -/
def handle (entry : String) (_j : Json) : Except String Json :=
  throw s!"C02: unknown entry {entry}"

end ALV.Driver.C02
