import ALV.Common.Json
import ALV.Model.C11
import ALV.Spec.C11
import ALV.Model.C11Hist
namespace ALV.Driver.C11
open ALV ALV.J ALV.C11 ALV.C11.Hist

def ksJson (r : List Rat × Bool) : Json :=
  Json.mkObj [("ks", rats r.1), ("raised", Json.bool r.2)]


/-! ### payloads shared by the single-call entries and by the steps of a history -/

def parcorPayload (num den : List Rat) : Json :=
  let model := match parcorCodedE den num with
    | none => Json.mkObj [("err", Json.str "ValueError")]
    | some r => ksJson r
  let sp := parcorSpec num
  Json.mkObj [
    ("model", model), ("fixed", ksJson (parcorFixed num)), ("spec", ksJson sp),
    ("rebuilt", rats (stepUp sp.1.reverse)), ("monic", rats (monic (stripZeros num)))]

def stableDenPayload (den : List Rat) : Json :=
  Json.mkObj [
    ("model", Json.bool (parcorStableCoded den)), ("fixed", Json.bool (parcorStableFixed den)),
    ("spec", Json.bool (parcorStableSpec den)),
    ("ks", ksJson (parcorSpec den)), ("ks_model", ksJson (parcorCoded 1 den))]

def levPayload (r : List Rat) (order : Nat) : Json :=
  match levinson r order with
  | none => Json.mkObj [("model", Json.mkObj [("err", Json.str "ParCorError")])]
  | some (a, e, ks) =>
    Json.mkObj [
      ("model", Json.mkObj [("a", rats a), ("error", ratToJson e), ("ks", rats ks)]),
      ("spec", Json.mkObj [("a", rats (stepUp ks)), ("error", ratToJson (errorSpec (r.headD 0) ks)),
                           ("parcor", ksJson (parcorSpec a)), ("expected", rats ks.reverse)])]

def getPart (j : Json) : Except String Part := do
  match (← getStr j) with
  | "num" => pure .num
  | "den" => pure .den
  | s => throw s!"C11: part {s}"

def getOp (j : Json) : Except String (Op Rat) := do
  match (← getStr (← field j "op")) with
  | "mk" => pure (.mk (← getList getRat (← field j "num")) (← getList getRat (← field j "den")))
  | "lev" => pure (.lev (← getList getRat (← field j "r")) (← getNat (← field j "order")))
  | "setpoly" => pure (.setPoly (← getNat (← field j "t")) (← getPart (← field j "part"))
                        (← getList getRat (← field j "cs")))
  | "share" => pure (.share (← getNat (← field j "t")) (← getPart (← field j "part"))
                      (← getNat (← field j "s")) (← getPart (← field j "spart")))
  | "set" => pure (.set (← getNat (← field j "t")) (← getPart (← field j "part"))
                    (← getNat (← field j "i")) (← getRat (← field j "v")))
  | "parcor" => pure (.parcor (← getNat (← field j "t")))
  | "stable" => pure (.stable (← getNat (← field j "t")))
  | "stable_casc" => pure (.stableCasc (← getNat (← field j "t")) (← getNat (← field j "s")))
  | s => throw s!"C11: unknown op {s}"

def obsJson : Obs Rat → Json
  | .made t => Json.mkObj [("made", natToJson t)]
  | .parCorError => Json.mkObj [("err", Json.str "ParCorError")]
  | .valueError => Json.mkObj [("err", Json.str "ValueError")]
  | .dead => Json.str "dead"
  | .done => Json.str "done"
  | .ks l b => ksJson (l, b)
  | .verdict b => Json.bool b

def heapJson (h : Heap Rat) : Json :=
  arr (fun (t : Nat) => match h.contents t with
    | none => Json.null
    | some (n, d) => Json.mkObj [("num", rats (stripZeros n)), ("den", rats (stripZeros d))])
    (List.range h.filts.length)

/-- the step of the heap model, plus (for the queries) the payload of the same call taken alone
    on the current contents -/
def stepJson (h : Heap Rat) (op : Op Rat) : Heap Rat × Json :=
  let r := step h op
  let alone : Json := match op with
    | .parcor t => (match h.contents t with
        | some (n, d) => parcorPayload n d
        | none => Json.null)
    | .stable t => (match h.contents t with
        | some (_, d) => stableDenPayload d
        | none => Json.null)
    | .stableCasc t s => (match h.contents t, h.contents s with
        | some (_, d), some (_, d') => stableDenPayload (pmul d d')
        | _, _ => Json.null)
    | .lev rr order => levPayload rr order
    | _ => Json.null
  (r.1, Json.mkObj [("obs", obsJson r.2), ("alone", alone), ("heap", heapJson r.1)])

def runJson (h : Heap Rat) : List (Op Rat) → List Json
  | [] => []
  | op :: ops => let r := stepJson h op; r.2 :: runJson r.1 ops

def handle (entry : String) (j : Json) : Except String Json := do
  match entry with
  | "parcor" =>
    -- list(parcor(ZFilter(num, den)))
    let num ← getList getRat (← field j "num")
    let den ← getList getRat (← field j "den")
    let model := match parcorCodedE den num with
      | none => Json.mkObj [("err", Json.str "ValueError")]
      | some r => ksJson r
    let sp := parcorSpec num
    pure <| Json.mkObj [
      ("model", model), ("fixed", ksJson (parcorFixed num)), ("spec", ksJson sp),
      ("rebuilt", rats (stepUp sp.1.reverse)), ("monic", rats (monic (stripZeros num)))]
  | "stepup" =>
    -- parcor(ZFilter(stepUp ks)) against ks
    let ks ← getList getRat (← field j "ks")
    let f := stepUp ks
    pure <| Json.mkObj [
      ("filter", rats f), ("model", ksJson (parcorCoded 1 f)), ("fixed", ksJson (parcorFixed f)),
      ("spec", ksJson (parcorSpec f)), ("expected", rats ks.reverse)]
  | "stable" =>
    -- parcor_stable(num / den), den built from prescribed poles
    let g ← getRat (← field j "gain")
    let reals ← getList getRat (← field j "reals")
    let pairs ← getList (fun p => do
      let l ← getList getRat p
      match l with
      | [a, b] => pure (a, b)
      | _ => throw "pair expected") (← field j "pairs")
    let den := fromPoles g reals pairs
    pure <| Json.mkObj [
      ("den", rats den), ("model", Json.bool (parcorStableCoded den)),
      ("fixed", Json.bool (parcorStableFixed den)), ("spec", Json.bool (parcorStableSpec den)),
      ("inside", Json.bool (polesInside reals pairs)),
      ("ks", ksJson (parcorSpec den)), ("ks_model", ksJson (parcorCoded 1 den))]
  | "stable_den" =>
    -- parcor_stable on an explicit denominator
    let den ← getList getRat (← field j "den")
    pure <| Json.mkObj [
      ("model", Json.bool (parcorStableCoded den)), ("fixed", Json.bool (parcorStableFixed den)),
      ("spec", Json.bool (parcorStableSpec den)),
      ("ks", ksJson (parcorSpec den)), ("ks_model", ksJson (parcorCoded 1 den))]
  | "levinson" =>
    let r ← getList getRat (← field j "r")
    let order ← getNat (← field j "order")
    match levinson r order with
    | none => pure <| Json.mkObj [("model", Json.mkObj [("err", Json.str "ParCorError")])]
    | some (a, e, ks) =>
      pure <| Json.mkObj [
        ("model", Json.mkObj [("a", rats a), ("error", ratToJson e), ("ks", rats ks)]),
        ("spec", Json.mkObj [("a", rats (stepUp ks)), ("error", ratToJson (errorSpec (r.headD 0) ks)),
                             ("parcor", ksJson (parcorSpec a)), ("expected", rats ks.reverse)])]
  | "hist" =>
    -- a history of operations on mutable filter objects
    let ops ← getList getOp (← field j "ops")
    pure <| Json.mkObj [("steps", Json.arr (runJson Heap.empty ops))]
  | _ => throw s!"C11: unknown entry {entry}"

end ALV.Driver.C11
