import ALV.Common.Json
namespace ALV.Driver.C11
open ALV ALV.J

/-- stub: the C11 slice is not built yet -/
def handle (entry : String) (_j : Json) : Except String Json :=
  throw s!"C11: unknown entry {entry}"

end ALV.Driver.C11
