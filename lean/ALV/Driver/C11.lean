import ALV.Common.Json
import ALV.Model.C11
import ALV.Spec.C11
namespace ALV.Driver.C11
open ALV ALV.J ALV.C11

def ksJson (r : List Rat × Bool) : Json :=
  Json.mkObj [("ks", rats r.1), ("raised", Json.bool r.2)]

def handle (entry : String) (j : Json) : Except String Json := do
  match entry with
  | "parcor" =>
    -- list(parcor(ZFilter(num, den)))
    let num ← getList getRat (← field j "num")
    let den ← getList getRat (← field j "den")
    let model := match parcorCodedE den num with
      | none => Json.mkObj [("err", Json.str "ValueError")]
      | some r => ksJson r
    let sp := parcorSpec num
    pure <| Json.mkObj [
      ("model", model), ("fixed", ksJson (parcorFixed num)), ("spec", ksJson sp),
      ("rebuilt", rats (stepUp sp.1.reverse)), ("monic", rats (monic (stripZeros num)))]
  | "stepup" =>
    -- parcor(ZFilter(stepUp ks)) against ks
    let ks ← getList getRat (← field j "ks")
    let f := stepUp ks
    pure <| Json.mkObj [
      ("filter", rats f), ("model", ksJson (parcorCoded 1 f)), ("fixed", ksJson (parcorFixed f)),
      ("spec", ksJson (parcorSpec f)), ("expected", rats ks.reverse)]
  | "stable" =>
    -- parcor_stable(num / den), den built from prescribed poles
    let g ← getRat (← field j "gain")
    let reals ← getList getRat (← field j "reals")
    let pairs ← getList (fun p => do
      let l ← getList getRat p
      match l with
      | [a, b] => pure (a, b)
      | _ => throw "pair expected") (← field j "pairs")
    let den := fromPoles g reals pairs
    pure <| Json.mkObj [
      ("den", rats den), ("model", Json.bool (parcorStableCoded den)),
      ("fixed", Json.bool (parcorStableFixed den)), ("spec", Json.bool (parcorStableSpec den)),
      ("inside", Json.bool (polesInside reals pairs)),
      ("ks", ksJson (parcorSpec den)), ("ks_model", ksJson (parcorCoded 1 den))]
  | "stable_den" =>
    -- parcor_stable on an explicit denominator
    let den ← getList getRat (← field j "den")
    pure <| Json.mkObj [
      ("model", Json.bool (parcorStableCoded den)), ("fixed", Json.bool (parcorStableFixed den)),
      ("spec", Json.bool (parcorStableSpec den)),
      ("ks", ksJson (parcorSpec den)), ("ks_model", ksJson (parcorCoded 1 den))]
  | "levinson" =>
    let r ← getList getRat (← field j "r")
    let order ← getNat (← field j "order")
    match levinson r order with
    | none => pure <| Json.mkObj [("model", Json.mkObj [("err", Json.str "ParCorError")])]
    | some (a, e, ks) =>
      pure <| Json.mkObj [
        ("model", Json.mkObj [("a", rats a), ("error", ratToJson e), ("ks", rats ks)]),
        ("spec", Json.mkObj [("a", rats (stepUp ks)), ("error", ratToJson (errorSpec (r.headD 0) ks)),
                             ("parcor", ksJson (parcorSpec a)), ("expected", rats ks.reverse)])]
  | _ => throw s!"C11: unknown entry {entry}"

end ALV.Driver.C11
