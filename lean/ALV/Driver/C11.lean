import ALV.Common.Json
import ALV.Model.C11
import ALV.Spec.C11
import ALV.Model.C11Hist
import ALV.Model.C11Float
import ALV.Model.C11Call
import ALV.Model.C11LevFloat
import ALV.Model.C11Apply
namespace ALV.Driver.C11
open ALV ALV.J ALV.C11 ALV.C11.Hist

def ksJson (r : List Rat × Bool) : Json :=
  Json.mkObj [("ks", rats r.1), ("raised", Json.bool r.2)]


/-! ### float regime: binary64 numbers travel as their bit patterns (JSON integers) -/

def getBits (j : Json) : Except String F64 := do
  let n ← getNat j
  pure (F64.ofBits (UInt64.ofNat n))

/-- exact rational value of a finite binary64 number -/
def f64ToRat (x : F64) : Rat :=
  let b : Nat := x.bits.toNat
  let neg := b / 2 ^ 63 % 2 = 1
  let ex : Nat := b / 2 ^ 52 % 2 ^ 11
  let mant : Nat := b % 2 ^ 52
  let (m, e) : Nat × Int := if ex = 0 then (mant, -1074) else (2 ^ 52 + mant, (ex : Int) - 1075)
  let mi : Int := if neg then -(m : Int) else m
  if e ≥ 0 then ((mi * 2 ^ e.toNat : Int) : Rat) else mkRat mi (2 ^ (-e).toNat)

def bitsJson (l : List F64) : Json := arr (fun (x : F64) => natToJson x.bits.toNat) l

def fksJson (r : List F64 × Bool) : Json :=
  Json.mkObj [("bits", bitsJson r.1), ("raised", Json.bool r.2),
              ("finite", Json.bool (r.1.all F64.isFinite))]

def flevJson : Option (List F64 × F64 × List F64) → Json
  | none => Json.mkObj [("err", Json.str "ParCorError")]
  | some (a, e, ks) =>
    Json.mkObj [("a", bitsJson a), ("error", natToJson e.bits.toNat), ("ks", bitsJson ks),
                ("finite", Json.bool ((e :: a ++ ks).all F64.isFinite))]

def callResJson : CallRes Rat → Json
  | .valueError => Json.mkObj [("err", Json.str "ValueError")]
  | .zeroDiv => Json.mkObj [("err", Json.str "ZeroDivisionError")]
  | .ok ks b => ksJson (ks, b)

def getArgObj (j : Json) : Except String (ArgObj Rat) := do
  match (← getStr (← field j "kind")) with
  | "filt" => pure (.filt (← getInt (← field j "num_lo")) (← getList getRat (← field j "num"))
                      (← getInt (← field j "den_lo")) (← getList getRat (← field j "den")))
  | "rational" => pure .rational
  | "stream" => pure .stream
  | "other" => pure .other
  | s => throw s!"C11: object kind {s}"

def excJson : Exc → Json
  | .typeError => Json.str "TypeError"
  | .attributeError => Json.str "AttributeError"
  | .valueError => Json.str "ValueError"
  | .zeroDivisionError => Json.str "ZeroDivisionError"

def applyResJson : ApplyRes Rat → Json
  | .atCall e => Json.mkObj [("when", Json.str "call"), ("err", excJson e)]
  | .atNext e => Json.mkObj [("when", Json.str "next"), ("err", excJson e)]
  | .gen ks b => Json.mkObj [("when", Json.str "gen"), ("ks", rats ks), ("raised", Json.bool b)]
  | .verdict b => Json.mkObj [("when", Json.str "verdict"), ("verdict", Json.bool b)]

/-! ### payloads shared by the single-call entries and by the steps of a history -/

def parcorPayload (num den : List Rat) : Json :=
  let model := match parcorCodedE den num with
    | none => Json.mkObj [("err", Json.str "ValueError")]
    | some r => ksJson r
  let sp := parcorSpec num
  Json.mkObj [
    ("model", model), ("fixed", ksJson (parcorFixed num)), ("spec", ksJson sp),
    ("rebuilt", rats (stepUp sp.1.reverse)), ("monic", rats (monic (stripZeros num)))]

def stableDenPayload (den : List Rat) : Json :=
  Json.mkObj [
    ("model", Json.bool (parcorStableCoded den)), ("fixed", Json.bool (parcorStableFixed den)),
    ("spec", Json.bool (parcorStableSpec den)),
    ("ks", ksJson (parcorSpec den)), ("ks_model", ksJson (parcorCoded 1 den))]

def levPayload (r : List Rat) (order : Nat) : Json :=
  match levinson r order with
  | none => Json.mkObj [("model", Json.mkObj [("err", Json.str "ParCorError")])]
  | some (a, e, ks) =>
    Json.mkObj [
      ("model", Json.mkObj [("a", rats a), ("error", ratToJson e), ("ks", rats ks)]),
      ("spec", Json.mkObj [("a", rats (stepUp ks)), ("error", ratToJson (errorSpec (r.headD 0) ks)),
                           ("parcor", ksJson (parcorSpec a)), ("expected", rats ks.reverse)])]

def getPart (j : Json) : Except String Part := do
  match (← getStr j) with
  | "num" => pure .num
  | "den" => pure .den
  | s => throw s!"C11: part {s}"

def getOp (j : Json) : Except String (Op Rat) := do
  match (← getStr (← field j "op")) with
  | "mk" => pure (.mk (← getList getRat (← field j "num")) (← getList getRat (← field j "den")))
  | "lev" => pure (.lev (← getList getRat (← field j "r")) (← getNat (← field j "order")))
  | "setpoly" => pure (.setPoly (← getNat (← field j "t")) (← getPart (← field j "part"))
                        (← getList getRat (← field j "cs")))
  | "share" => pure (.share (← getNat (← field j "t")) (← getPart (← field j "part"))
                      (← getNat (← field j "s")) (← getPart (← field j "spart")))
  | "set" => pure (.set (← getNat (← field j "t")) (← getPart (← field j "part"))
                    (← getNat (← field j "i")) (← getRat (← field j "v")))
  | "parcor" => pure (.parcor (← getNat (← field j "t")))
  | "stable" => pure (.stable (← getNat (← field j "t")))
  | "stable_casc" => pure (.stableCasc (← getNat (← field j "t")) (← getNat (← field j "s")))
  | s => throw s!"C11: unknown op {s}"

def obsJson : Obs Rat → Json
  | .made t => Json.mkObj [("made", natToJson t)]
  | .parCorError => Json.mkObj [("err", Json.str "ParCorError")]
  | .valueError => Json.mkObj [("err", Json.str "ValueError")]
  | .dead => Json.str "dead"
  | .done => Json.str "done"
  | .ks l b => ksJson (l, b)
  | .verdict b => Json.bool b

def heapJson (h : Heap Rat) : Json :=
  arr (fun (t : Nat) => match h.contents t with
    | none => Json.null
    | some (n, d) => Json.mkObj [("num", rats (stripZeros n)), ("den", rats (stripZeros d))])
    (List.range h.filts.length)

/-- the step of the heap model, plus (for the queries) the payload of the same call taken alone
    on the current contents -/
def stepJson (h : Heap Rat) (op : Op Rat) : Heap Rat × Json :=
  let r := step h op
  let alone : Json := match op with
    | .parcor t => (match h.contents t with
        | some (n, d) => parcorPayload n d
        | none => Json.null)
    | .stable t => (match h.contents t with
        | some (_, d) => stableDenPayload d
        | none => Json.null)
    | .stableCasc t s => (match h.contents t, h.contents s with
        | some (_, d), some (_, d') => stableDenPayload (pmul d d')
        | _, _ => Json.null)
    | .lev rr order => levPayload rr order
    | _ => Json.null
  (r.1, Json.mkObj [("obs", obsJson r.2), ("alone", alone), ("heap", heapJson r.1)])

def runJson (h : Heap Rat) : List (Op Rat) → List Json
  | [] => []
  | op :: ops => let r := stepJson h op; r.2 :: runJson r.1 ops

def handle (entry : String) (j : Json) : Except String Json := do
  match entry with
  | "parcor" =>
    -- list(parcor(ZFilter(num, den)))
    let num ← getList getRat (← field j "num")
    let den ← getList getRat (← field j "den")
    let model := match parcorCodedE den num with
      | none => Json.mkObj [("err", Json.str "ValueError")]
      | some r => ksJson r
    let sp := parcorSpec num
    pure <| Json.mkObj [
      ("model", model), ("fixed", ksJson (parcorFixed num)), ("spec", ksJson sp),
      ("rebuilt", rats (stepUp sp.1.reverse)), ("monic", rats (monic (stripZeros num)))]
  | "stepup" =>
    -- parcor(ZFilter(stepUp ks)) against ks
    let ks ← getList getRat (← field j "ks")
    let f := stepUp ks
    pure <| Json.mkObj [
      ("filter", rats f), ("model", ksJson (parcorCoded 1 f)), ("fixed", ksJson (parcorFixed f)),
      ("spec", ksJson (parcorSpec f)), ("expected", rats ks.reverse),
      ("sharp", ksJson (cutAtUnit ks.reverse)),
      ("stable_model", Json.bool (parcorStableFixed f)), ("stable_spec", Json.bool (parcorStableSpec f)),
      ("all_inside", Json.bool (ks.all absLt1))]
  | "stable" =>
    -- parcor_stable(num / den), den built from prescribed poles
    let g ← getRat (← field j "gain")
    let reals ← getList getRat (← field j "reals")
    let pairs ← getList (fun p => do
      let l ← getList getRat p
      match l with
      | [a, b] => pure (a, b)
      | _ => throw "pair expected") (← field j "pairs")
    let den := fromPoles g reals pairs
    pure <| Json.mkObj [
      ("den", rats den), ("model", Json.bool (parcorStableCoded den)),
      ("fixed", Json.bool (parcorStableFixed den)), ("spec", Json.bool (parcorStableSpec den)),
      ("inside", Json.bool (polesInside reals pairs)),
      ("ks", ksJson (parcorSpec den)), ("ks_model", ksJson (parcorCoded 1 den))]
  | "stable_den" =>
    -- parcor_stable on an explicit denominator
    let den ← getList getRat (← field j "den")
    pure <| Json.mkObj [
      ("model", Json.bool (parcorStableCoded den)), ("fixed", Json.bool (parcorStableFixed den)),
      ("spec", Json.bool (parcorStableSpec den)),
      ("ks", ksJson (parcorSpec den)), ("ks_model", ksJson (parcorCoded 1 den))]
  | "levinson" =>
    let r ← getList getRat (← field j "r")
    let order ← getNat (← field j "order")
    match levinson r order with
    | none => pure <| Json.mkObj [("model", Json.mkObj [("err", Json.str "ParCorError")])]
    | some (a, e, ks) =>
      pure <| Json.mkObj [
        ("model", Json.mkObj [("a", rats a), ("error", ratToJson e), ("ks", rats ks)]),
        ("spec", Json.mkObj [("a", rats (stepUp ks)), ("error", ratToJson (errorSpec (r.headD 0) ks)),
                             ("parcor", ksJson (parcorSpec a)), ("expected", rats ks.reverse)])]
  | "fparcor" =>
    -- list(parcor(ZFilter(num))) and parcor_stable(ZFilter([1], num)) on binary64 coefficients:
    -- the bit-exact twin (k ** 2 = libm pow), the generic model verbatim (k * k), and the exact
    -- specification on the rational values of the same coefficients
    let num ← getList getBits (← field j "bits")
    let q := num.map f64ToRat
    pure <| Json.mkObj [
      ("twin", fksJson (parcorF64 num)), ("twin_mul", fksJson (parcorF64Mul num)),
      ("twin_stable", Json.bool (parcorStableF64 num)),
      ("input_finite", Json.bool (num.all F64.isFinite)),
      ("exact", ksJson (parcorSpec q)), ("exact_stable", Json.bool (parcorStableSpec q)),
      ("value", rats q)]
  | "fpow" =>
    -- the squaring function of the twin, for the libm identity check of the harness
    let xs ← getList getBits (← field j "bits")
    pure <| Json.mkObj [("pow", bitsJson (xs.map F64.sqPow)), ("mul", bitsJson (xs.map (fun x => x * x)))]
  | "flevinson" =>
    -- levinson_durbin(r, order) on binary64 autocorrelation data: the bit-exact twin (sum = CPython's
    -- compensated sum), the generic model verbatim (sum = left fold), and the exact recursion with
    -- the specification's error on the rational values of the same numbers
    let r ← getList getBits (← field j "bits")
    let order ← getNat (← field j "order")
    let q := r.map f64ToRat
    pure <| Json.mkObj [
      ("twin", flevJson (levinsonF64 r order)), ("twin_fold", flevJson (levinsonF64Fold r order)),
      ("input_finite", Json.bool (r.all F64.isFinite)),
      ("exact", match levinson q order with
        | none => Json.mkObj [("err", Json.str "ParCorError")]
        | some (a, e, ks) => Json.mkObj [("a", rats a), ("error", ratToJson e), ("ks", rats ks),
            ("spec_error", ratToJson (errorSpec (q.headD 0) ks)), ("spec_a", rats (stepUp ks))])]
  | "fbits" =>
    -- the input decoder followed by the output encoder (round trip of bit patterns)
    let xs ← getList getBits (← field j "bits")
    pure <| Json.mkObj [("bits", bitsJson xs), ("finite", arr (fun (x : F64) => Json.bool x.isFinite) xs)]
  | "fsum" =>
    -- the summation function of the twin, for the identity check of the harness
    let ls ← getList (getList getBits) (← field j "lists")
    pure <| Json.mkObj [("sum", bitsJson (ls.map (sumPyG F64.isFinite))), ("fold", bitsJson (ls.map lsum))]
  | "apply" =>
    -- the call expressions parcor(*args, **kwargs) / parcor_stable(*args, **kwargs)
    let args ← getList getArgObj (← field j "args")
    let kwargs ← getList (fun p => do
      pure ((← getStr (← field p "name")), (← getArgObj (← field p "obj")))) (← field j "kwargs")
    pure <| Json.mkObj [("parcor", applyResJson (parcorApply args kwargs)),
                        ("stable", applyResJson (stableApply args kwargs))]
  | "call" =>
    -- parcor / parcor_stable on ZFilter(num, den) with Laurent numerator and denominator
    let numLo ← getInt (← field j "num_lo")
    let denLo ← getInt (← field j "den_lo")
    let num ← getList getRat (← field j "num")
    let den ← getList getRat (← field j "den")
    let sd := shiftedDen den
    let f := causalPart (numLo - (denLo + (leadZeros den : Int))) num
    pure <| Json.mkObj [
      ("parcor", callResJson (parcorCall numLo num denLo den)),
      ("stable", match stableCall numLo num denLo den with
        | none => Json.mkObj [("err", Json.str "ValueError")]
        | some b => Json.bool b),
      ("shifted_den", rats sd), ("causal_num", rats f),
      ("spec_parcor", ksJson (parcorSpec f)), ("spec_stable", Json.bool (parcorStableSpec sd))]
  | "hist" =>
    -- a history of operations on mutable filter objects
    let ops ← getList getOp (← field j "ops")
    pure <| Json.mkObj [("steps", Json.arr (runJson Heap.empty ops))]
  | _ => throw s!"C11: unknown entry {entry}"

end ALV.Driver.C11
