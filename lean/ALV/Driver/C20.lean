import ALV.Common.Json
import ALV.Model.C20
import ALV.Spec.C20
namespace ALV.Driver.C20
open ALV ALV.J ALV.C20

/-- floor of a rational, as a rational (Python `//` on Fractions) -/
def flRat (r : Rat) : Rat := (r.floor : Rat)

def optRat (j : Json) (k : String) : Except String (Option Rat) :=
  match optField j k with
  | none => pure none
  | some v => do let r ← getRat v; pure (some r)

def exceptJson (r : Except String (List Rat)) : Json :=
  match r with
  | .ok l => rats l
  | .error e => Json.mkObj [("err", Json.str e)]

/-- is `d` an integer multiple of `step` (step ≠ 0) -/
def isMultiple (step d : Rat) : Bool := (d / step).den == 1

def handle (entry : String) (j : Json) : Except String Json := do
  match entry with
  | "maverage" =>
    let size ← getNat (← field j "size")
    if size = 0 then throw "size must be positive"
    let zero ← getRat (fieldD j "zero" (Json.int 0))
    let xs ← getList getRat (← field j "xs")
    pure <| Json.mkObj [
      ("deque", rats (maverageDeque size zero xs)),
      ("recursive", rats (maverageRecursive size zero xs)),
      ("fir", rats (maverageFir size zero xs)),
      ("spec", rats (mavgSpec size zero xs)),
      ("closed", rats (mavgClosed size zero xs))]
  | "accumulate" =>
    let zero ← getRat (fieldD j "zero" (Json.int 0))
    let xs ← getList getRat (← field j "xs")
    pure <| Json.mkObj [
      ("func", rats (accumulateFunc xs)),
      ("it", rats (accumulateIt xs)),
      ("z", rats (accumulateZ zero xs)),
      ("spec", rats (accSpec xs))]
  | "amdf" =>
    let lag ← getNat (← field j "lag")
    let size ← getNat (← field j "size")
    if size = 0 then throw "size must be positive"
    let zero ← getRat (fieldD j "zero" (Json.int 0))
    let xs ← getList getRat (← field j "xs")
    pure <| Json.mkObj [
      ("model", rats (amdf lag size zero xs)),
      ("spec", rats (amdfSpec lag size zero xs))]
  | "envelope" =>
    let b ← getList getRat (← field j "b")
    let a ← getList getRat (← field j "a")
    let xs ← getList getRat (← field j "xs")
    pure <| Json.mkObj [
      ("abs", rats (envelopeAbs b a xs)),
      ("squared", rats (envelopeSquared b a xs))]
  | "clip" =>
    let low ← optRat j "low"
    let high ← optRat j "high"
    let xs ← getList getRat (← field j "xs")
    let m := clip low high xs
    let twice := match m with
      | .ok ys => clip low high ys
      | .error e => .error e
    let bounded : Bool := match m with
      | .ok ys => ys.all fun y =>
          (match low with | some lo => !(decide (y < lo)) | none => true) &&
          (match high with | some hi => !(decide (hi < y)) | none => true)
      | .error _ => true
    pure <| Json.mkObj [
      ("model", exceptJson m),
      ("spec", exceptJson (clipSpec low high xs)),
      ("twice", exceptJson twice),
      ("bounded", Json.bool bounded)]
  | "zcross" =>
    let h ← getRat (fieldD j "hysteresis" (Json.int 0))
    let fs ← getRat (fieldD j "first_sign" (Json.int 0))
    let xs ← getList getRat (← field j "xs")
    pure <| Json.mkObj [
      ("model", nats (zcross h fs xs)),
      ("spec", nats (zcrossSpec h fs xs))]
  | "unwrap" =>
    let md ← getRat (← field j "max_delta")
    let step ← getRat (← field j "step")
    if step = 0 then throw "step must be non-zero"
    let xs ← getList getRat (← field j "xs")
    let m := unwrap flRat md step xs
    let multiple := (List.zipWith (fun y x => isMultiple step (y - x)) m xs).all id
    let bound := if md < step / 2 then step / 2 else md
    let adj := (List.zipWith (fun y0 y1 => !(decide (bound < absG (y1 - y0)))) m (m.drop 1)).all id
    pure <| Json.mkObj [
      ("model", rats m),
      ("spec", rats (unwrapSpec flRat md step xs)),
      ("multiple", Json.bool multiple),
      ("adjacent", Json.bool adj)]
  | _ => throw s!"C20: unknown entry {entry}"

end ALV.Driver.C20
