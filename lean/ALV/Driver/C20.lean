import ALV.Common.Json
import ALV.Model.C20
import ALV.Spec.C20
namespace ALV.Driver.C20
open ALV ALV.J ALV.C20

def optRat (j : Json) (k : String) : Except String (Option Rat) :=
  match optField j k with
  | none => pure none
  | some v => do let r ← getRat v; pure (some r)

def exceptJson (r : Except String (List Rat)) : Json :=
  match r with
  | .ok l => rats l
  | .error e => Json.mkObj [("err", Json.str e)]

/-- is `d` an integer multiple of `step` (step ≠ 0) -/
def isMultiple (step d : Rat) : Bool := (d / step).den == 1

def handle (entry : String) (j : Json) : Except String Json := do
  match entry with
  | "maverage" =>
    let size ← getNat (← field j "size")
    if size = 0 then throw "size must be positive"
    let zero ← getRat (fieldD j "zero" (Json.int 0))
    let xs ← getList getRat (← field j "xs")
    pure <| Json.mkObj [
      ("deque", rats (R.maverageDeque size zero xs)),
      ("recursive", rats (R.maverageRecursive size zero xs)),
      ("fir", rats (R.maverageFir size zero xs)),
      ("spec", rats (R.mavgSpec size zero xs)),
      ("closed", rats (R.mavgClosed size zero xs))]
  | "accumulate" =>
    let zero ← getRat (fieldD j "zero" (Json.int 0))
    let xs ← getList getRat (← field j "xs")
    pure <| Json.mkObj [
      ("func", rats (R.accumulateFunc xs)),
      ("it", rats (R.accumulateIt xs)),
      ("z", rats (R.accumulateZ zero xs)),
      ("spec", rats (R.accSpec xs))]
  | "amdf" =>
    let lag ← getNat (← field j "lag")
    let size ← getNat (← field j "size")
    if size = 0 then throw "size must be positive"
    let zero ← getRat (fieldD j "zero" (Json.int 0))
    let xs ← getList getRat (← field j "xs")
    pure <| Json.mkObj [
      ("model", rats (R.amdf lag size zero xs)),
      ("spec", rats (R.amdfSpec lag size zero xs))]
  | "envelope" =>
    let b ← getList getRat (← field j "b")
    let a ← getList getRat (← field j "a")
    let xs ← getList getRat (← field j "xs")
    pure <| Json.mkObj [
      ("abs", rats (R.envelopeAbs b a xs)),
      ("squared", rats (R.envelopeSquared b a xs))]
  | "clip" =>
    let low ← optRat j "low"
    let high ← optRat j "high"
    let xs ← getList getRat (← field j "xs")
    let m := R.clip low high xs
    let twice := match m with
      | .ok ys => R.clip low high ys
      | .error e => .error e
    let bounded : Bool := match m with
      | .ok ys => ys.all fun y =>
          (match low with | some lo => !(decide (y < lo)) | none => true) &&
          (match high with | some hi => !(decide (hi < y)) | none => true)
      | .error _ => true
    pure <| Json.mkObj [
      ("model", exceptJson m),
      ("spec", exceptJson (R.clipSpec low high xs)),
      ("twice", exceptJson twice),
      ("bounded", Json.bool bounded)]
  | "zcross" =>
    let h ← getRat (fieldD j "hysteresis" (Json.int 0))
    let fs ← getRat (fieldD j "first_sign" (Json.int 0))
    let xs ← getList getRat (← field j "xs")
    pure <| Json.mkObj [
      ("model", nats (R.zcross h fs xs)),
      ("spec", nats (R.zcrossSpec h fs xs))]
  | "unwrap" =>
    let md ← getRat (← field j "max_delta")
    let step ← getRat (← field j "step")
    if step = 0 then throw "step must be non-zero"
    let xs ← getList getRat (← field j "xs")
    let m := R.unwrap md step xs
    let multiple := (List.zipWith (fun y x => isMultiple step (y - x)) m xs).all id
    let bound := if md < step / 2 then step / 2 else md
    let adj := (List.zipWith (fun y0 y1 => !(decide (bound < absG (y1 - y0)))) m (m.drop 1)).all id
    pure <| Json.mkObj [
      ("model", rats m),
      ("spec", rats (R.unwrapSpec md step xs)),
      ("multiple", Json.bool multiple),
      ("adjacent", Json.bool adj)]
  | "coeffs" =>
    -- the coefficient lists the filter-built strategies are modelled with (structural tie)
    let size ← getNat (← field j "size")
    let lag ← getNat (← field j "lag")
    if size = 0 then throw "size must be positive"
    pure <| Json.mkObj [
      ("recursive_b", rats (recursiveNum size : List Rat)), ("recursive_a", rats [-1]),
      ("fir_b", rats (List.replicate size (sizeInv size) : List Rat)), ("fir_a", rats []),
      ("lag_b", rats (lagNum lag : List Rat)), ("lag_a", rats []),
      ("acc_b", rats [1]), ("acc_a", rats [-1])]
  | _ => throw s!"C20: unknown entry {entry}"

end ALV.Driver.C20
