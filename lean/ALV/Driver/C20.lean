import ALV.Common.Json
import ALV.Model.C20
import ALV.Spec.C20
import ALV.Model.C20Call
import ALV.Model.C13
namespace ALV.Driver.C20
open ALV ALV.J ALV.C20

def optRat (j : Json) (k : String) : Except String (Option Rat) :=
  match optField j k with
  | none => pure none
  | some v => do let r ← getRat v; pure (some r)

def exceptJson (r : Except String (List Rat)) : Json :=
  match r with
  | .ok l => rats l
  | .error e => Json.mkObj [("err", Json.str e)]


/-- call argument: absent = omitted, the string "None" = Python `None`, else a number -/
def argRat (j : Json) (k : String) : Except String (Arg Rat) :=
  match j.getObjVal? k with
  | none => pure none
  | some (Json.str "None") => pure (some none)
  | some v => do let r ← getRat v; pure (some (some r))

def argFloat (j : Json) (k : String) : Except String (Arg Float) :=
  match j.getObjVal? k with
  | none => pure none
  | some (Json.str "None") => pure (some none)
  | some v => do let r ← getFloat v; pure (some (some r))

/-- omitted or a number -/
def omRat (j : Json) (k : String) : Except String (Option Rat) :=
  match j.getObjVal? k with
  | none => pure none
  | some v => do let r ← getRat v; pure (some r)

def omStr (j : Json) (k : String) : Except String (Option String) :=
  match j.getObjVal? k with
  | none => pure none
  | some v => do let r ← getStr v; pure (some r)

def exceptNats (r : Except String (List Nat)) : Json :=
  match r with
  | .ok l => nats l
  | .error e => Json.mkObj [("err", Json.str e)]

def exceptFloats (r : Except String (List Float)) : Json :=
  match r with
  | .ok l => arr floatToJson l
  | .error e => Json.mkObj [("err", Json.str e)]

def optValJson : Option Rat → Json
  | none => Json.str "None"
  | some r => ratToJson r

/-- the documented signature table at its values -/
def defaultsJson : Json :=
  arr (fun (s : String × List (String × Option (Option Rat))) => Json.mkObj [
    ("fn", Json.str s.1),
    ("params", arr (fun (p : String × Option (Option Rat)) => Json.mkObj ([("name", Json.str p.1)] ++
      (match p.2 with
       | none => []
       | some v => [("default", optValJson v)]))) s.2)]) R.documentedValues

def strategiesJson : Json :=
  arr (fun (d : String × List (List String)) => Json.mkObj [
    ("dict", Json.str d.1), ("strategies", arr (fun g => arr Json.str g) d.2)]) documentedStrategies

def strategyOf {σ} (ofName : String → Option σ) (n : Option String) : Except String (Option σ) :=
  match n with
  | none => pure none
  | some n => match ofName n with
    | some s => pure (some s)
    | none => throw s!"unknown strategy {n}"

/-- Inputs longer than this are "long": their specification is evaluated through the one-pass
    recursion `…SpecRec` (linear time) instead of the closed form (quadratic).  The two are equal
    for all inputs: `ALV.Props.C20.rat_spec_recursions`. -/
def longLen : Nat := 64

def specForm (long : Bool) : Json := Json.str (if long then "recursion" else "closed")

/-- is `d` an integer multiple of `step` (step ≠ 0) -/
def isMultiple (step d : Rat) : Bool := (d / step).den == 1

def handle (entry : String) (j : Json) : Except String Json := do
  match entry with
  | "maverage" =>
    let size ← getNat (← field j "size")
    if size = 0 then throw "size must be positive"
    let zero ← getRat (fieldD j "zero" (Json.int 0))
    let xs ← getList getRat (← field j "xs")
    let long := xs.length > longLen
    pure <| Json.mkObj ([
      ("deque", rats (R.maverageDeque size zero xs)),
      ("recursive", rats (R.maverageRecursive size zero xs)),
      ("fir", rats (R.maverageFir size zero xs)),
      ("spec", rats (if long then R.mavgSpecRec size zero xs else R.mavgSpec size zero xs)),
      ("spec_form", specForm long)] ++
      (if long then [] else [("closed", rats (R.mavgClosed size zero xs))]))
  | "accumulate" =>
    let zero ← getRat (fieldD j "zero" (Json.int 0))
    let xs ← getList getRat (← field j "xs")
    pure <| Json.mkObj [
      ("func", rats (R.accumulateFunc xs)),
      ("it", rats (R.accumulateIt xs)),
      ("z", rats (R.accumulateZ zero xs)),
      ("spec", rats (if xs.length > longLen then R.accSpecRec xs else R.accSpec xs)),
      ("spec_form", specForm (xs.length > longLen))]
  | "amdf" =>
    let lag ← getNat (← field j "lag")
    let size ← getNat (← field j "size")
    if size = 0 then throw "size must be positive"
    let zero ← getRat (fieldD j "zero" (Json.int 0))
    let xs ← getList getRat (← field j "xs")
    pure <| Json.mkObj [
      ("model", rats (R.amdf lag size zero xs)),
      ("spec", rats (if xs.length > longLen then R.amdfSpecRec lag size zero xs else R.amdfSpec lag size zero xs)),
      ("spec_form", specForm (xs.length > longLen))]
  | "envelope_float" =>
    -- long inputs: the same polymorphic model instantiated at `Float` (exact rationals of a
    -- recursive filter grow by ~50 bits per sample); compared with tolerance on the harness side
    let b ← getList getFloat (← field j "b")
    let a ← getList getFloat (← field j "a")
    let xs ← getList getFloat (← field j "xs")
    pure <| Json.mkObj [
      ("abs", arr floatToJson (F.envelopeAbs b a xs)),
      ("squared", arr floatToJson (F.envelopeSquared b a xs))]
  | "envelope" =>
    let b ← getList getRat (← field j "b")
    let a ← getList getRat (← field j "a")
    let xs ← getList getRat (← field j "xs")
    pure <| Json.mkObj [
      ("abs", rats (R.envelopeAbs b a xs)),
      ("squared", rats (R.envelopeSquared b a xs))]
  | "clip" =>
    let low ← optRat j "low"
    let high ← optRat j "high"
    let xs ← getList getRat (← field j "xs")
    let m := R.clip low high xs
    let twice := match m with
      | .ok ys => R.clip low high ys
      | .error e => .error e
    let bounded : Bool := match m with
      | .ok ys => ys.all fun y =>
          (match low with | some lo => !(decide (y < lo)) | none => true) &&
          (match high with | some hi => !(decide (hi < y)) | none => true)
      | .error _ => true
    pure <| Json.mkObj [
      ("model", exceptJson m),
      ("spec", exceptJson (R.clipSpec low high xs)),
      ("twice", exceptJson twice),
      ("bounded", Json.bool bounded)]
  | "zcross" =>
    let h ← getRat (fieldD j "hysteresis" (Json.int 0))
    let fs ← getRat (fieldD j "first_sign" (Json.int 0))
    let xs ← getList getRat (← field j "xs")
    pure <| Json.mkObj [
      ("model", nats (R.zcross h fs xs)),
      ("spec", nats (if xs.length > longLen then R.zcrossSpecRec h fs xs else R.zcrossSpec h fs xs)),
      ("spec_form", specForm (xs.length > longLen))]
  | "unwrap" =>
    let md ← getRat (← field j "max_delta")
    let step ← getRat (← field j "step")
    if step = 0 then throw "step must be non-zero"
    let xs ← getList getRat (← field j "xs")
    let m := R.unwrap md step xs
    let multiple := (List.zipWith (fun y x => isMultiple step (y - x)) m xs).all id
    let bound := if md < step / 2 then step / 2 else md
    let adj := (List.zipWith (fun y0 y1 => !(decide (bound < absG (y1 - y0)))) m (m.drop 1)).all id
    pure <| Json.mkObj [
      ("model", rats m),
      ("spec", rats (if xs.length > longLen then R.unwrapSpecRec md step xs else R.unwrapSpec md step xs)),
      ("spec_form", specForm (xs.length > longLen)),
      ("multiple", Json.bool multiple),
      ("adjacent", Json.bool adj)]
  | "defaults" =>
    pure <| Json.mkObj [("signatures", defaultsJson), ("strategies", strategiesJson),
      ("pi", ratToJson piQ), ("pi_float", floatToJson floatPi)]
  | "unwrap_call" =>
    let md ← argRat j "max_delta"
    let step ← argRat j "step"
    let xs ← getList getRat (← field j "xs")
    let m := R.unwrapCall md step xs
    let emd := md.resolve (Dflt.unwrap_max_delta.eval piQ)
    let est := step.resolve (Dflt.unwrap_step.eval piQ)
    let extra : List (String × Json) := match emd, est with
      | some md, some st =>
        if st = 0 then [] else
        let y := R.unwrap md st xs
        let multiple := (List.zipWith (fun y x => isMultiple st (y - x)) y xs).all id
        let bound := if md < st / 2 then st / 2 else md
        let adj := (List.zipWith (fun y0 y1 => !(decide (bound < absG (y1 - y0)))) y (y.drop 1)).all id
        [("full", rats y),
         ("spec", rats (if xs.length > longLen then R.unwrapSpecRec md st xs else R.unwrapSpec md st xs)),
         ("multiple", Json.bool multiple), ("adjacent", Json.bool adj),
         ("untouched_expected", Json.bool (!(hasJumpAbove md xs)))]
      | _, _ => []
    pure <| Json.mkObj ([("model", exceptJson m), ("eff_max_delta", optValJson emd),
      ("eff_step", optValJson est)] ++ extra)
  | "unwrap_call_float" =>
    let md ← argFloat j "max_delta"
    let step ← argFloat j "step"
    let xs ← getList getFloat (← field j "xs")
    pure <| Json.mkObj [("model", exceptFloats (F.unwrapCall md step xs))]
  | "clip_call" =>
    let low ← argRat j "low"
    let high ← argRat j "high"
    let xs ← getList getRat (← field j "xs")
    let m := R.clipCall low high xs
    let elo := low.resolve (Dflt.clip_low.eval 0)
    let ehi := high.resolve (Dflt.clip_high.eval 0)
    let twice := match m with
      | .ok ys => R.clipCall low high ys
      | .error e => .error e
    let bounded : Bool := match m with
      | .ok ys => ys.all fun y =>
          (match elo with | some lo => !(decide (y < lo)) | none => true) &&
          (match ehi with | some hi => !(decide (hi < y)) | none => true)
      | .error _ => true
    pure <| Json.mkObj [
      ("model", exceptJson m), ("spec", exceptJson (R.clipSpec elo ehi xs)),
      ("twice", exceptJson twice), ("bounded", Json.bool bounded),
      ("eff_low", optValJson elo), ("eff_high", optValJson ehi)]
  | "zcross_call" =>
    let h ← argRat j "hysteresis"
    let fs ← argRat j "first_sign"
    let xs ← getList getRat (← field j "xs")
    let eh := h.resolve (Dflt.zcross_hysteresis.eval 0)
    let efs := fs.resolve (Dflt.zcross_first_sign.eval 0)
    let extra : List (String × Json) := match eh, efs with
      | some h, some fs =>
        [("spec", nats (if xs.length > longLen then R.zcrossSpecRec h fs xs else R.zcrossSpec h fs xs))]
      | _, _ => []
    pure <| Json.mkObj ([("model", exceptNats (R.zcrossCall h fs xs)),
      ("eff_hysteresis", optValJson eh), ("eff_first_sign", optValJson efs)] ++ extra)
  | "maverage_call" =>
    let size ← getNat (← field j "size")
    if size = 0 then throw "size must be positive"
    let st ← strategyOf MavgStrategy.ofName (← omStr j "strategy")
    let zero ← omRat j "zero"
    let xs ← getList getRat (← field j "xs")
    let z := zero.getD 0
    pure <| Json.mkObj [
      ("model", rats (R.maverageCall st size zero xs)),
      ("spec", rats (if xs.length > longLen then R.mavgSpecRec size z xs else R.mavgSpec size z xs))]
  | "accumulate_call" =>
    let st ← strategyOf AccStrategy.ofName (← omStr j "strategy")
    let zero ← omRat j "zero"
    let xs ← getList getRat (← field j "xs")
    -- `z` with a memory value: the running sums start at `zero` (theorems accumulate_z_memory,
    -- rat_calls_memory); the other strategies have no such parameter
    let base := if xs.length > longLen then R.accSpecRec xs else R.accSpec xs
    let spec := match st with
      | some AccStrategy.z => base.map (zero.getD 0 + ·)
      | _ => base
    pure <| Json.mkObj [
      ("model", rats (R.accumulateCall st zero xs)),
      ("spec", rats spec)]
  | "amdf_call" =>
    let lag ← getNat (← field j "lag")
    let size ← getNat (← field j "size")
    if size = 0 then throw "size must be positive"
    let zero ← omRat j "zero"
    let xs ← getList getRat (← field j "xs")
    let z := zero.getD 0
    pure <| Json.mkObj [
      ("model", rats (R.amdfCall lag size zero xs)),
      ("spec", rats (if xs.length > longLen then R.amdfSpecRec lag size z xs else R.amdfSpec lag size z xs))]
  | "envelope_call" =>
    -- Float twin: the low-pass design (default strategy `pole`, model of C13) and the default cutoff
    -- are evaluated here; compared with tolerance on the harness side
    let st ← strategyOf EnvStrategy.ofName (← omStr j "strategy")
    let cutoff ← match j.getObjVal? "cutoff" with
      | none => pure none
      | some v => do let c ← getFloat v; pure (some c)
    let xs ← getList getFloat (← field j "xs")
    let c := cutoff.getD (dnum floatPi Dflt.envelope_cutoff)
    let ba : List Float × List Float := poleDesign c
    pure <| Json.mkObj [
      ("model", arr floatToJson (F.envelopePoleCall st cutoff xs)),
      ("spec", arr floatToJson (F.envelopeSpec st cutoff xs)),
      ("eff_cutoff", floatToJson c), ("b", arr floatToJson ba.1), ("a", arr floatToJson ba.2)]
  | "envelope_var" =>
    -- a cutoff per sample (Float twin): the per-sample pole is the expression of C13's lowpass.pole
    let st ← strategyOf EnvStrategy.ofName (← omStr j "strategy")
    let cs ← getList getFloat (← field j "cutoffs")
    let xs ← getList getFloat (← field j "xs")
    pure <| Json.mkObj [
      ("model", arr floatToJson (F.envelopeVarCall st cs xs)),
      ("spec", arr floatToJson (F.envelopeVarSpec st cs xs))]
  | "coeffs" =>
    -- the coefficient lists the filter-built strategies are modelled with (structural tie)
    let size ← getNat (← field j "size")
    let lag ← getNat (← field j "lag")
    if size = 0 then throw "size must be positive"
    pure <| Json.mkObj [
      ("recursive_b", rats (recursiveNum size : List Rat)), ("recursive_a", rats [-1]),
      ("fir_b", rats (List.replicate size (sizeInv size) : List Rat)), ("fir_a", rats []),
      ("lag_b", rats (lagNum lag : List Rat)), ("lag_a", rats []),
      ("acc_b", rats [1]), ("acc_a", rats [-1])]
  | _ => throw s!"C20: unknown entry {entry}"

end ALV.Driver.C20
