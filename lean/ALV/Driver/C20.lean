import ALV.Common.Json
namespace ALV.Driver.C20
open ALV ALV.J

/-- stub: the C20 slice is not built yet -/
def handle (entry : String) (_j : Json) : Except String Json :=
  throw s!"C20: unknown entry {entry}"

end ALV.Driver.C20
