import ALV.Common.Json
import ALV.Model.C20
import ALV.Spec.C20
namespace ALV.Driver.C20
open ALV ALV.J ALV.C20

def optRat (j : Json) (k : String) : Except String (Option Rat) :=
  match optField j k with
  | none => pure none
  | some v => do let r ← getRat v; pure (some r)

def exceptJson (r : Except String (List Rat)) : Json :=
  match r with
  | .ok l => rats l
  | .error e => Json.mkObj [("err", Json.str e)]

/-- Inputs longer than this are "long": their specification is evaluated through the one-pass
    recursion `…SpecRec` (linear time) instead of the closed form (quadratic).  The two are equal
    for all inputs: `ALV.Props.C20.rat_spec_recursions`. -/
def longLen : Nat := 64

def specForm (long : Bool) : Json := Json.str (if long then "recursion" else "closed")

/-- is `d` an integer multiple of `step` (step ≠ 0) -/
def isMultiple (step d : Rat) : Bool := (d / step).den == 1

def handle (entry : String) (j : Json) : Except String Json := do
  match entry with
  | "maverage" =>
    let size ← getNat (← field j "size")
    if size = 0 then throw "size must be positive"
    let zero ← getRat (fieldD j "zero" (Json.int 0))
    let xs ← getList getRat (← field j "xs")
    let long := xs.length > longLen
    pure <| Json.mkObj ([
      ("deque", rats (R.maverageDeque size zero xs)),
      ("recursive", rats (R.maverageRecursive size zero xs)),
      ("fir", rats (R.maverageFir size zero xs)),
      ("spec", rats (if long then R.mavgSpecRec size zero xs else R.mavgSpec size zero xs)),
      ("spec_form", specForm long)] ++
      (if long then [] else [("closed", rats (R.mavgClosed size zero xs))]))
  | "accumulate" =>
    let zero ← getRat (fieldD j "zero" (Json.int 0))
    let xs ← getList getRat (← field j "xs")
    pure <| Json.mkObj [
      ("func", rats (R.accumulateFunc xs)),
      ("it", rats (R.accumulateIt xs)),
      ("z", rats (R.accumulateZ zero xs)),
      ("spec", rats (if xs.length > longLen then R.accSpecRec xs else R.accSpec xs)),
      ("spec_form", specForm (xs.length > longLen))]
  | "amdf" =>
    let lag ← getNat (← field j "lag")
    let size ← getNat (← field j "size")
    if size = 0 then throw "size must be positive"
    let zero ← getRat (fieldD j "zero" (Json.int 0))
    let xs ← getList getRat (← field j "xs")
    pure <| Json.mkObj [
      ("model", rats (R.amdf lag size zero xs)),
      ("spec", rats (if xs.length > longLen then R.amdfSpecRec lag size zero xs else R.amdfSpec lag size zero xs)),
      ("spec_form", specForm (xs.length > longLen))]
  | "envelope_float" =>
    -- long inputs: the same polymorphic model instantiated at `Float` (exact rationals of a
    -- recursive filter grow by ~50 bits per sample); compared with tolerance on the harness side
    let b ← getList getFloat (← field j "b")
    let a ← getList getFloat (← field j "a")
    let xs ← getList getFloat (← field j "xs")
    pure <| Json.mkObj [
      ("abs", arr floatToJson (envelopeAbs b a xs)),
      ("squared", arr floatToJson (envelopeSquared b a xs))]
  | "envelope" =>
    let b ← getList getRat (← field j "b")
    let a ← getList getRat (← field j "a")
    let xs ← getList getRat (← field j "xs")
    pure <| Json.mkObj [
      ("abs", rats (R.envelopeAbs b a xs)),
      ("squared", rats (R.envelopeSquared b a xs))]
  | "clip" =>
    let low ← optRat j "low"
    let high ← optRat j "high"
    let xs ← getList getRat (← field j "xs")
    let m := R.clip low high xs
    let twice := match m with
      | .ok ys => R.clip low high ys
      | .error e => .error e
    let bounded : Bool := match m with
      | .ok ys => ys.all fun y =>
          (match low with | some lo => !(decide (y < lo)) | none => true) &&
          (match high with | some hi => !(decide (hi < y)) | none => true)
      | .error _ => true
    pure <| Json.mkObj [
      ("model", exceptJson m),
      ("spec", exceptJson (R.clipSpec low high xs)),
      ("twice", exceptJson twice),
      ("bounded", Json.bool bounded)]
  | "zcross" =>
    let h ← getRat (fieldD j "hysteresis" (Json.int 0))
    let fs ← getRat (fieldD j "first_sign" (Json.int 0))
    let xs ← getList getRat (← field j "xs")
    pure <| Json.mkObj [
      ("model", nats (R.zcross h fs xs)),
      ("spec", nats (if xs.length > longLen then R.zcrossSpecRec h fs xs else R.zcrossSpec h fs xs)),
      ("spec_form", specForm (xs.length > longLen))]
  | "unwrap" =>
    let md ← getRat (← field j "max_delta")
    let step ← getRat (← field j "step")
    if step = 0 then throw "step must be non-zero"
    let xs ← getList getRat (← field j "xs")
    let m := R.unwrap md step xs
    let multiple := (List.zipWith (fun y x => isMultiple step (y - x)) m xs).all id
    let bound := if md < step / 2 then step / 2 else md
    let adj := (List.zipWith (fun y0 y1 => !(decide (bound < absG (y1 - y0)))) m (m.drop 1)).all id
    pure <| Json.mkObj [
      ("model", rats m),
      ("spec", rats (if xs.length > longLen then R.unwrapSpecRec md step xs else R.unwrapSpec md step xs)),
      ("spec_form", specForm (xs.length > longLen)),
      ("multiple", Json.bool multiple),
      ("adjacent", Json.bool adj)]
  | "coeffs" =>
    -- the coefficient lists the filter-built strategies are modelled with (structural tie)
    let size ← getNat (← field j "size")
    let lag ← getNat (← field j "lag")
    if size = 0 then throw "size must be positive"
    pure <| Json.mkObj [
      ("recursive_b", rats (recursiveNum size : List Rat)), ("recursive_a", rats [-1]),
      ("fir_b", rats (List.replicate size (sizeInv size) : List Rat)), ("fir_a", rats []),
      ("lag_b", rats (lagNum lag : List Rat)), ("lag_a", rats []),
      ("acc_b", rats [1]), ("acc_a", rats [-1])]
  | _ => throw s!"C20: unknown entry {entry}"

end ALV.Driver.C20
