import ALV.Common.Json
import ALV.Model.C07
import ALV.Spec.C07
namespace ALV.Driver.C07
open ALV ALV.J ALV.C07

/-- driver problem (bad request) or a Python exception predicted by the model -/
inductive Err where
  | drv (s : String)
  | py (e : PyErr)

abbrev M := Except Err

def liftD {β} (x : Except String β) : M β :=
  match x with
  | .ok v => .ok v
  | .error s => .error (.drv s)

def liftP {β} (x : Except PyErr β) : M β :=
  match x with
  | .ok v => .ok v
  | .error e => .error (.py e)

abbrev P := MPoly Rat

def pairJ (kv : Int × Rat) : Json := Json.arr [intToJson kv.1, ratToJson kv.2]
def polyJ (p : P) : Json := arr pairJ p

def getPair (j : Json) : Except String (Int × Rat) := do
  match ← getArr j with
  | [a, b] => pure (← getInt a, ← getRat b)
  | _ => throw "expected [power, coeff]"

def getPoint (j : Json) : Except String (Rat × Rat) := do
  match ← getArr j with
  | [a, b] => pure (← getRat a, ← getRat b)
  | _ => throw "expected [x, y]"

/-- model evaluation of an expression tree, operation by operation as the Python operators dispatch -/
partial def evalM (j : Json) : M P := do
  let l ← liftD (getArr j)
  match l with
  | [Json.str "dict", ps] => pure (mk (← liftD (getList getPair ps)))
  | [Json.str "list", cs] => pure (ofList (← liftD (getList getRat cs)))
  | [Json.str "const", c] => pure (ofScalar (← liftD (getRat c)))
  | [Json.str "empty"] => pure empty
  | [Json.str "x"] => pure X
  | [Json.str "neg", a] => pure (neg (← evalM a))
  | [Json.str "pos", a] => pure (pos (← evalM a))
  | [Json.str "add", a, b] => pure (add (← evalM a) (← evalM b))
  | [Json.str "sub", a, b] => pure (sub (← evalM a) (← evalM b))
  | [Json.str "mul", a, b] => pure (mul (← evalM a) (← evalM b))
  | [Json.str "adds", a, c] => pure (add (← evalM a) (ofScalar (← liftD (getRat c))))
  | [Json.str "radds", c, a] => do
      let p ← evalM a
      pure (add (ofScalar (← liftD (getRat c))) p)
  | [Json.str "subs", a, c] => pure (add (← evalM a) (ofScalar (-(← liftD (getRat c)))))
  | [Json.str "rsubs", c, a] => do
      let p ← evalM a
      pure (sub (ofScalar (← liftD (getRat c))) p)
  | [Json.str "muls", a, c] => pure (mul (← evalM a) (ofScalar (← liftD (getRat c))))
  | [Json.str "rmuls", c, a] => do
      let p ← evalM a
      pure (mul (ofScalar (← liftD (getRat c))) p)
  | [Json.str "divs", a, c] => do
      let p ← evalM a
      liftP (divScalar p (← liftD (getRat c)))
  | [Json.str "div", a, b] => do
      let p ← evalM a
      let q ← evalM b
      liftP (divPoly p q)
  | [Json.str "pow", a, n] => pure (pow (← evalM a) (← liftD (getInt n)))
  | [Json.str "comp", a, b] => do
      let p ← evalM a
      let q ← evalM b
      pure (compose p q)
  | [Json.str "diff", a, n] => pure (diff (← evalM a) (← liftD (getNat n)))
  | [Json.str "integ", a] => do
      let p ← evalM a
      liftP (integrate p)
  | [Json.str "setitem", a, k, c] => pure (setItem (← evalM a) (← liftD (getInt k)) (← liftD (getRat c)))
  | _ => throw (.drv s!"C07: bad expression {j.compress}")

/-- specification value of an expression tree (canonical form); `none` where the property
    does not speak (an exception, a negative power of a non-monomial, …) -/
partial def evalS (j : Json) : Except String (Option P) := do
  let l ← getArr j
  let un (a : Json) (f : P → Option P) : Except String (Option P) := do
    pure ((← evalS a).bind f)
  let bin (a b : Json) (f : P → P → Option P) : Except String (Option P) := do
    let p ← evalS a
    let q ← evalS b
    pure (p.bind fun p => q.bind fun q => f p q)
  match l with
  | [Json.str "dict", ps] => pure (some (canon (ofPairs (← getList getPair ps))))
  | [Json.str "list", cs] => pure (some (canon (enumFrom 0 (← getList getRat cs))))
  | [Json.str "const", c] => pure (some (sConst (← getRat c)))
  | [Json.str "empty"] => pure (some [])
  | [Json.str "x"] => pure (some [(1, 1)])
  | [Json.str "neg", a] => un a (fun p => some (sNeg p))
  | [Json.str "pos", a] => un a some
  | [Json.str "add", a, b] => bin a b (fun p q => some (sAdd p q))
  | [Json.str "sub", a, b] => bin a b (fun p q => some (sSub p q))
  | [Json.str "mul", a, b] => bin a b (fun p q => some (sMul p q))
  | [Json.str "adds", a, c] => do let c ← getRat c; un a (fun p => some (sAdd p (sConst c)))
  | [Json.str "radds", c, a] => do let c ← getRat c; un a (fun p => some (sAdd (sConst c) p))
  | [Json.str "subs", a, c] => do let c ← getRat c; un a (fun p => some (sSub p (sConst c)))
  | [Json.str "rsubs", c, a] => do let c ← getRat c; un a (fun p => some (sSub (sConst c) p))
  | [Json.str "muls", a, c] => do let c ← getRat c; un a (fun p => some (sMul p (sConst c)))
  | [Json.str "rmuls", c, a] => do let c ← getRat c; un a (fun p => some (sMul (sConst c) p))
  | [Json.str "divs", a, c] => do
      let c ← getRat c
      un a (fun p => if c = 0 then none else some (sDivMono p 0 c))
  | [Json.str "div", a, b] => bin a b (fun p q => match q with
      | [(d, w)] => some (sDivMono p d w)
      | _ => none)
  | [Json.str "pow", a, n] => do let n ← getInt n; un a (fun p => sPowZ p n)
  | [Json.str "comp", a, b] => bin a b sComp
  | [Json.str "diff", a, n] => do let n ← getNat n; un a (fun p => some (sDiffN p n))
  | [Json.str "integ", a] => un a sInteg
  | [Json.str "setitem", a, k, c] => do
      let k ← getInt k
      let c ← getRat c
      un a (fun p => some (canonOn (k :: keys p) (fun i => if i = k then c else coeff p i)))
  | _ => throw s!"C07: bad expression {j.compress}"

def errJ (e : PyErr) : Json := Json.mkObj [("err", Json.str e.name)]

def exceptJ {β} (f : β → Json) : Except PyErr β → Json
  | .ok v => f v
  | .error e => errJ e

/-- what is observed of a result polynomial -/
def observe (p : P) (vs : List Rat) (ks : List Int) : Json :=
  Json.mkObj [
    ("items", polyJ p),
    ("terms", polyJ (sortAsc p)),
    ("len", natToJson p.length),
    ("is_polynomial", Json.bool (isPolynomial p)),
    ("order", exceptJ intToJson (order p)),
    ("values", exceptJ rats (values p)),
    ("getitem", rats (ks.map (getD p))),
    ("call_auto", rats (vs.map fun v => call p v .auto)),
    ("call_horner", rats (vs.map fun v => call p v .yes)),
    ("call_direct", rats (vs.map fun v => call p v .no))]

def observeS (s : P) (vs : List Rat) (ks : List Int) : Json :=
  Json.mkObj [
    ("terms", polyJ s),
    ("len", natToJson s.length),
    ("getitem", rats (ks.map (coeff s))),
    -- Σ c·v^k; at v = 0 only for polynomials (no negative power)
    ("eval", arr (fun v => if v = 0 ∧ !isPolynomial s then Json.null else ratToJson (sEval s v)) vs)]

def mToJson (x : M Json) : Except String Json :=
  match x with
  | .ok j => .ok j
  | .error (.py e) => .ok (errJ e)
  | .error (.drv s) => .error s

def boolJ (b : Bool) : Json := Json.bool b

/-- the laws of the property, evaluated through the model; `null` = not applicable -/
def laws (p q r : P) (n : Nat) (c v : Rat) : List (String × Json) :=
  let nfold : P := (List.replicate n p).foldl mul (ofScalar 1)
  let hs := [Horner.auto, Horner.yes, Horner.no]
  let polyOK := v ≠ 0 ∨ (isPolynomial p && isPolynomial q)
  [ ("add_comm", boolJ (eq (add p q) (add q p))),
    ("add_assoc", boolJ (eq (add (add p q) r) (add p (add q r)))),
    ("mul_comm", boolJ (eq (mul p q) (mul q p))),
    ("mul_assoc", boolJ (eq (mul (mul p q) r) (mul p (mul q r)))),
    ("distrib_left", boolJ (eq (mul p (add q r)) (add (mul p q) (mul p r)))),
    ("distrib_right", boolJ (eq (mul (add p q) r) (add (mul p r) (mul q r)))),
    ("sub_self_empty", boolJ ((sub p p).isEmpty)),
    ("add_neg", boolJ (eq (sub p q) (add p (neg q)))),
    ("add_zero", boolJ (eq (add p empty) p && eq (add empty p) p)),
    ("mul_one", boolJ (eq (mul p (ofScalar 1)) p && eq (mul (ofScalar 1) p) p)),
    ("pow_nfold", boolJ (eq (pow p n) nfold)),
    ("pow_succ", boolJ (eq (pow p (n + 1)) (mul (pow p n) p))),
    ("no_zero_stored", boolJ ([add p q, sub p q, mul p q, pow p n, neg p, diff p, compose p q].all
        fun s => s.all fun kv => kv.2 ≠ 0)),
    ("eval_add", if polyOK then boolJ (hs.all fun h => call (add p q) v h = call p v h + call q v h) else Json.null),
    ("eval_mul", if polyOK then boolJ (hs.all fun h => call (mul p q) v h = call p v h * call q v h) else Json.null),
    ("eval_scheme", boolJ (call p v .yes = call p v .no && call p v .auto = call p v .no)),
    ("comp_eval", if isPolynomial p && (v ≠ 0 ∨ isPolynomial q) then
        boolJ (call (compose p q) v .auto = call p (call q v .auto) .auto) else Json.null),
    ("diff_add", boolJ (eq (diff (add p q)) (add (diff p) (diff q)))),
    ("diff_scale", boolJ (eq (diff (mul (ofScalar c) p)) (mul (ofScalar c) (diff p)))),
    ("diff_mul", boolJ (eq (diff (mul p q)) (add (mul (diff p) q) (mul p (diff q))))),
    ("diff_integrate", match integrate p with
        | .ok ip => boolJ (eq (diff ip) p)
        | .error _ => Json.null),
    ("eq_hash", boolJ ((!eq (add p q) (add q p) || hashKey (add p q) == hashKey (add q p)) &&
                       (!eq (mul p q) (mul q p) || hashKey (mul p q) == hashKey (mul q p)))),
    ("ne_not_eq", boolJ (ne p q == !eq p q && ne (add p q) (add q p) == !eq (add p q) (add q p))) ]

def handle (entry : String) (j : Json) : Except String Json := do
  match entry with
  | "expr" =>
    let e ← field j "expr"
    let vs ← getList getRat (fieldD j "vs" (Json.arr []))
    let ks ← getList getInt (fieldD j "ks" (Json.arr []))
    let m ← mToJson (do let p ← evalM e; pure (observe p vs ks))
    let s ← evalS e
    pure <| Json.mkObj [("model", m), ("spec", optJson (fun s => observeS s vs ks) s)]
  | "laws" =>
    let n ← getNat (← field j "n")
    let c ← getRat (← field j "c")
    let v ← getRat (← field j "v")
    let m ← mToJson (do
      let p ← evalM (← liftD (field j "p"))
      let q ← evalM (← liftD (field j "q"))
      let r ← evalM (← liftD (field j "r"))
      pure (Json.mkObj (laws p q r n c v)))
    pure <| Json.mkObj [("model", m)]
  | "eq" =>
    let m ← mToJson (do
      let p ← evalM (← liftD (field j "p"))
      let q ← evalM (← liftD (field j "q"))
      pure (Json.mkObj [("eq", boolJ (eq p q)), ("ne", boolJ (ne p q)),
        ("hash_equal", boolJ (hashKey p == hashKey q))]))
    let sp ← evalS (← field j "p")
    let sq ← evalS (← field j "q")
    let s := match sp, sq with
      | some a, some b => Json.mkObj [("eq", boolJ (sEq a b))]
      | _, _ => Json.null
    pure <| Json.mkObj [("model", m), ("spec", s)]
  | "lagrange" =>
    let pts ← getList getPoint (← field j "pairs")
    let ks ← getList getRat (fieldD j "ks" (Json.arr []))
    let xs := pts.map (·.1)
    let fv (fixed : Bool) := exceptJ rats ((xs ++ ks).mapM (fun k => lagrangeFunc pts k fixed))
    let pj (fixed : Bool) := match lagrangePoly pts fixed with
      | .ok p => Json.mkObj [("terms", polyJ (sortAsc p)), ("items", polyJ p),
          ("at", rats ((xs ++ ks).map fun v => call p v .auto))]
      | .error e => errJ e
    let s := if distinctX pts && !pts.isEmpty then
        Json.mkObj [("at_nodes", rats (sLagrangeAtNodes pts)), ("max_order", natToJson (pts.length - 1))]
      else Json.null
    pure <| Json.mkObj [("model", Json.mkObj [("func", fv false), ("poly", pj false)]),
      ("model_fixed", Json.mkObj [("func", fv true), ("poly", pj true)]), ("spec", s)]
  | _ => throw s!"C07: unknown entry {entry}"

end ALV.Driver.C07
