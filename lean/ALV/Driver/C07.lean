import ALV.Common.Json
import ALV.Model.C07
import ALV.Model.C07Hist
import ALV.Spec.C07
import ALV.Driver.C07Zero
namespace ALV.Driver.C07
open ALV ALV.J ALV.C07

/-- driver problem (bad request) or a Python exception predicted by the model -/
inductive Err where
  | drv (s : String)
  | py (e : PyErr)

abbrev M := Except Err

def liftD {β} (x : Except String β) : M β :=
  match x with
  | .ok v => .ok v
  | .error s => .error (.drv s)

def liftP {β} (x : Except PyErr β) : M β :=
  match x with
  | .ok v => .ok v
  | .error e => .error (.py e)

abbrev P := MPoly Rat

def pairJ (kv : Int × Rat) : Json := Json.arr [intToJson kv.1, ratToJson kv.2]
def polyJ (p : P) : Json := arr pairJ p

def getPair (j : Json) : Except String (Int × Rat) := do
  match ← getArr j with
  | [a, b] => pure (← getInt a, ← getRat b)
  | _ => throw "expected [power, coeff]"

def getPoint (j : Json) : Except String (Rat × Rat) := do
  match ← getArr j with
  | [a, b] => pure (← getRat a, ← getRat b)
  | _ => throw "expected [x, y]"

/-- model evaluation of an expression tree, operation by operation as the Python operators dispatch -/
partial def evalM (j : Json) : M P := do
  let l ← liftD (getArr j)
  match l with
  | [Json.str "dict", ps] => pure (mk (← liftD (getList getPair ps)))
  | [Json.str "list", cs] => pure (ofList (← liftD (getList getRat cs)))
  | [Json.str "const", c] => pure (ofScalar (← liftD (getRat c)))
  | [Json.str "empty"] => pure empty
  | [Json.str "x"] => pure X
  | [Json.str "neg", a] => pure (neg (← evalM a))
  | [Json.str "pos", a] => pure (pos (← evalM a))
  | [Json.str "add", a, b] => pure (add (← evalM a) (← evalM b))
  | [Json.str "sub", a, b] => pure (sub (← evalM a) (← evalM b))
  | [Json.str "mul", a, b] => pure (mul (← evalM a) (← evalM b))
  | [Json.str "adds", a, c] => pure (add (← evalM a) (ofScalar (← liftD (getRat c))))
  | [Json.str "radds", c, a] => do
      let p ← evalM a
      pure (add (ofScalar (← liftD (getRat c))) p)
  | [Json.str "subs", a, c] => pure (add (← evalM a) (ofScalar (-(← liftD (getRat c)))))
  | [Json.str "rsubs", c, a] => do
      let p ← evalM a
      pure (sub (ofScalar (← liftD (getRat c))) p)
  | [Json.str "muls", a, c] => pure (mul (← evalM a) (ofScalar (← liftD (getRat c))))
  | [Json.str "rmuls", c, a] => do
      let p ← evalM a
      pure (mul (ofScalar (← liftD (getRat c))) p)
  | [Json.str "divs", a, c] => do
      let p ← evalM a
      liftP (divScalar p (← liftD (getRat c)))
  | [Json.str "div", a, b] => do
      let p ← evalM a
      let q ← evalM b
      liftP (divPoly p q)
  | [Json.str "pow", a, n] => pure (pow (← evalM a) (← liftD (getInt n)))
  | [Json.str "comp", a, b] => do
      let p ← evalM a
      let q ← evalM b
      pure (compose p q)
  | [Json.str "diff", a, n] => pure (diff (← evalM a) (← liftD (getNat n)))
  | [Json.str "integ", a] => do
      let p ← evalM a
      liftP (integrate p)
  | [Json.str "setitem", a, k, c] => pure (setItem (← evalM a) (← liftD (getInt k)) (← liftD (getRat c)))
  | _ => throw (.drv s!"C07: bad expression {j.compress}")

/-- specification value of an expression tree (canonical form); `none` where the property
    does not speak (an exception, a negative power of a non-monomial, …) -/
partial def evalS (j : Json) : Except String (Option P) := do
  let l ← getArr j
  let un (a : Json) (f : P → Option P) : Except String (Option P) := do
    pure ((← evalS a).bind f)
  let bin (a b : Json) (f : P → P → Option P) : Except String (Option P) := do
    let p ← evalS a
    let q ← evalS b
    pure (p.bind fun p => q.bind fun q => f p q)
  match l with
  | [Json.str "dict", ps] => pure (some (canon (ofPairs (← getList getPair ps))))
  | [Json.str "list", cs] => pure (some (canon (enumFrom 0 (← getList getRat cs))))
  | [Json.str "const", c] => pure (some (sConst (← getRat c)))
  | [Json.str "empty"] => pure (some [])
  | [Json.str "x"] => pure (some [(1, 1)])
  | [Json.str "neg", a] => un a (fun p => some (sNeg p))
  | [Json.str "pos", a] => un a some
  | [Json.str "add", a, b] => bin a b (fun p q => some (sAdd p q))
  | [Json.str "sub", a, b] => bin a b (fun p q => some (sSub p q))
  | [Json.str "mul", a, b] => bin a b (fun p q => some (sMul p q))
  | [Json.str "adds", a, c] => do let c ← getRat c; un a (fun p => some (sAdd p (sConst c)))
  | [Json.str "radds", c, a] => do let c ← getRat c; un a (fun p => some (sAdd (sConst c) p))
  | [Json.str "subs", a, c] => do let c ← getRat c; un a (fun p => some (sSub p (sConst c)))
  | [Json.str "rsubs", c, a] => do let c ← getRat c; un a (fun p => some (sSub (sConst c) p))
  | [Json.str "muls", a, c] => do let c ← getRat c; un a (fun p => some (sMul p (sConst c)))
  | [Json.str "rmuls", c, a] => do let c ← getRat c; un a (fun p => some (sMul (sConst c) p))
  | [Json.str "divs", a, c] => do
      let c ← getRat c
      un a (fun p => if c = 0 then none else some (sDivMono p 0 c))
  | [Json.str "div", a, b] => bin a b (fun p q => match q with
      | [(d, w)] => some (sDivMono p d w)
      | _ => none)
  | [Json.str "pow", a, n] => do let n ← getInt n; un a (fun p => sPowZ p n)
  | [Json.str "comp", a, b] => bin a b sComp
  | [Json.str "diff", a, n] => do let n ← getNat n; un a (fun p => some (sDiffN p n))
  | [Json.str "integ", a] => un a sInteg
  | [Json.str "setitem", a, k, c] => do
      let k ← getInt k
      let c ← getRat c
      un a (fun p => some (canonOn (k :: keys p) (fun i => if i = k then c else coeff p i)))
  | _ => throw s!"C07: bad expression {j.compress}"

def errJ (e : PyErr) : Json := Json.mkObj [("err", Json.str e.name)]

def exceptJ {β} (f : β → Json) : Except PyErr β → Json
  | .ok v => f v
  | .error e => errJ e

/-- what is observed of a result polynomial -/
def observe (p : P) (vs : List Rat) (ks : List Int) : Json :=
  Json.mkObj [
    ("items", polyJ p),
    ("terms", polyJ (sortAsc p)),
    ("len", natToJson p.length),
    ("is_polynomial", Json.bool (isPolynomial p)),
    ("order", exceptJ intToJson (order p)),
    ("values", exceptJ rats (values p)),
    ("getitem", rats (ks.map (getD p))),
    ("call_auto", rats (vs.map fun v => call p v .auto)),
    ("call_horner", rats (vs.map fun v => call p v .yes)),
    ("call_direct", rats (vs.map fun v => call p v .no))]

def observeS (s : P) (vs : List Rat) (ks : List Int) : Json :=
  Json.mkObj [
    ("terms", polyJ s),
    ("len", natToJson s.length),
    ("getitem", rats (ks.map (coeff s))),
    -- Σ c·v^k; at v = 0 only for polynomials (no negative power)
    ("eval", arr (fun v => if v = 0 ∧ !isPolynomial s then Json.null else ratToJson (sEval s v)) vs)]

def mToJson (x : M Json) : Except String Json :=
  match x with
  | .ok j => .ok j
  | .error (.py e) => .ok (errJ e)
  | .error (.drv s) => .error s

def mToJson' {β} (x : M β) : Except String (Option β) :=
  match x with
  | .ok v => .ok (some v)
  | .error (.py _) => .ok none
  | .error (.drv s) => .error s

def boolJ (b : Bool) : Json := Json.bool b

/-- the laws of the property, evaluated through the model; `null` = not applicable -/
def laws (p q r : P) (n : Nat) (c v : Rat) : List (String × Json) :=
  let nfold : P := (List.replicate n p).foldl mul (ofScalar 1)
  let hs := [Horner.auto, Horner.yes, Horner.no]
  let polyOK := v ≠ 0 ∨ (isPolynomial p && isPolynomial q)
  [ ("add_comm", boolJ (eq (add p q) (add q p))),
    ("add_assoc", boolJ (eq (add (add p q) r) (add p (add q r)))),
    ("mul_comm", boolJ (eq (mul p q) (mul q p))),
    ("mul_assoc", boolJ (eq (mul (mul p q) r) (mul p (mul q r)))),
    ("distrib_left", boolJ (eq (mul p (add q r)) (add (mul p q) (mul p r)))),
    ("distrib_right", boolJ (eq (mul (add p q) r) (add (mul p r) (mul q r)))),
    ("sub_self_empty", boolJ ((sub p p).isEmpty)),
    ("add_neg", boolJ (eq (sub p q) (add p (neg q)))),
    ("add_zero", boolJ (eq (add p empty) p && eq (add empty p) p)),
    ("mul_one", boolJ (eq (mul p (ofScalar 1)) p && eq (mul (ofScalar 1) p) p)),
    ("pow_nfold", boolJ (eq (pow p n) nfold)),
    ("pow_succ", boolJ (eq (pow p (n + 1)) (mul (pow p n) p))),
    ("no_zero_stored", boolJ ([add p q, sub p q, mul p q, pow p n, neg p, diff p, compose p q].all
        fun s => s.all fun kv => kv.2 ≠ 0)),
    ("eval_add", if polyOK then boolJ (hs.all fun h => call (add p q) v h = call p v h + call q v h) else Json.null),
    ("eval_mul", if polyOK then boolJ (hs.all fun h => call (mul p q) v h = call p v h * call q v h) else Json.null),
    ("eval_scheme", boolJ (call p v .yes = call p v .no && call p v .auto = call p v .no)),
    ("comp_eval", if isPolynomial p && (v ≠ 0 ∨ isPolynomial q) then
        boolJ (call (compose p q) v .auto = call p (call q v .auto) .auto) else Json.null),
    ("diff_add", boolJ (eq (diff (add p q)) (add (diff p) (diff q)))),
    ("diff_scale", boolJ (eq (diff (mul (ofScalar c) p)) (mul (ofScalar c) (diff p)))),
    ("diff_mul", boolJ (eq (diff (mul p q)) (add (mul (diff p) q) (mul p (diff q))))),
    ("diff_integrate", match integrate p with
        | .ok ip => boolJ (eq (diff ip) p)
        | .error _ => Json.null),
    ("eq_hash", boolJ ((!eq (add p q) (add q p) || hashKey (add p q) == hashKey (add q p)) &&
                       (!eq (mul p q) (mul q p) || hashKey (mul p q) == hashKey (mul q p)))),
    ("ne_not_eq", boolJ (ne p q == !eq p q && ne (add p q) (add q p) == !eq (add p q) (add q p))) ]

/-! ### histories (`Model/C07Hist.lean`) -/

/-- a step of a history as the harness sends it: an operation on the heap, or a call of the (pure)
    interpolators -/
inductive HReq where
  | op (o : HOp Rat)
  | lagf (pts : List (Rat × Rat)) (ks : List Rat)
  | lagp (pts : List (Rat × Rat)) (ks : List Rat)
  | lagseq (qs : List (List (Rat × Rat) × Rat))     -- `resample`: one interpolator per output sample

def getHorner (j : Json) : Except String Horner := do
  match j with
  | Json.str "auto" => pure .auto
  | Json.bool true => pure .yes
  | Json.bool false => pure .no
  | _ => throw "horner: expected true / false / \"auto\""

def getHReq (j : Json) : Except String HReq := do
  let l ← getArr j
  match l with
  | [Json.str "new", Json.str "dict", ps] => pure (.op (.mk (← getList getPair ps)))
  | [Json.str "new", Json.str "list", cs] => pure (.op (.ofList (← getList getRat cs)))
  | [Json.str "new", Json.str "const", c] => pure (.op (.const (← getRat c)))
  | [Json.str "from", s] => pure (.op (.fromSrc (← getNat s)))
  | [Json.str "src_set", s, k, c] => pure (.op (.srcSet (← getNat s) (← getInt k) (← getRat c)))
  | [Json.str "un", Json.str u, i] =>
    let u ← match u with
      | "neg" => pure UnOp.neg | "pos" => pure UnOp.pos | "copy" => pure UnOp.copy | "ctor" => pure UnOp.ctor
      | _ => throw s!"C07 hist: bad unary {u}"
    pure (.op (.un u (← getNat i)))
  | [Json.str "bin", Json.str b, i, k] =>
    let b ← match b with
      | "add" => pure BinOp.add | "sub" => pure BinOp.sub | "mul" => pure BinOp.mul
      | _ => throw s!"C07 hist: bad binary {b}"
    pure (.op (.bin b (← getNat i) (← getNat k)))
  | [Json.str "scal", Json.str o, i, c] =>
    let o ← match o with
      | "adds" => pure ScalOp.adds | "radds" => pure ScalOp.radds | "subs" => pure ScalOp.subs
      | "rsubs" => pure ScalOp.rsubs | "muls" => pure ScalOp.muls | "rmuls" => pure ScalOp.rmuls
      | _ => throw s!"C07 hist: bad scalar operator {o}"
    pure (.op (.scal o (← getNat i) (← getRat c)))
  | [Json.str "divs", i, c] => pure (.op (.divs (← getNat i) (← getRat c)))
  | [Json.str "div", i, k] => pure (.op (.div (← getNat i) (← getNat k)))
  | [Json.str "pow", i, n, fl] => pure (.op (.pow (← getNat i) (← getInt n) (← getBool fl)))
  | [Json.str "comp", i, k] => pure (.op (.comp (← getNat i) (← getNat k)))
  | [Json.str "call", i, v, h] => pure (.op (.call (← getNat i) (← getRat v) (← getHorner h)))
  | [Json.str "diff", i, n] => pure (.op (.diff (← getNat i) (← getNat n)))
  | [Json.str "integ", i] => pure (.op (.integ (← getNat i)))
  | [Json.str "setitem", i, k, c] => pure (.op (.setitem (← getNat i) (← getInt k) (← getRat c)))
  | [Json.str "setzero", i] => pure (.op (.setzero (← getNat i)))
  | [Json.str "hash", i] => pure (.op (.hash (← getNat i)))
  | [Json.str "eq", i, k] => pure (.op (.eq (← getNat i) (← getNat k)))
  | [Json.str "ne", i, k] => pure (.op (.ne (← getNat i) (← getNat k)))
  | [Json.str "eqs", i, c] => pure (.op (.eqs (← getNat i) (← getRat c)))
  | [Json.str "lagf", pts, ks] => pure (.lagf (← getList getPoint pts) (← getList getRat ks))
  | [Json.str "lagp", pts, ks] => pure (.lagp (← getList getPoint pts) (← getList getRat ks))
  | [Json.str "lagseq", qs] =>
    pure (.lagseq (← getList (fun q => do
      match ← getArr q with
      | [pts, k] => pure (← getList getPoint pts, ← getRat k)
      | _ => throw "lagseq: expected [pairs, k]") qs))
  | _ => throw s!"C07 hist: bad step {j.compress}"

/-- the specified answer of a step, from the canonical forms of the CURRENT contents of its operands
    (`Spec/C07.lean`); `null` where the property does not speak -/
def specOf (st : HState Rat) (op : HOp Rat) : Json :=
  let v (i : Nat) : Option P := st.val i
  let pj (o : Option P) : Json := match o with
    | some s => Json.mkObj [("terms", polyJ s)]
    | none => Json.null
  let un (i : Nat) (f : P → Option P) : Json := pj ((v i).bind f)
  let bin (i j : Nat) (f : P → P → Option P) : Json := pj ((v i).bind fun p => (v j).bind fun q => f p q)
  match op with
  | .mk ps => pj (some (canon (ofPairs ps)))
  | .ofList cs => pj (some (canon (enumFrom 0 cs)))
  | .const c => pj (some (sConst c))
  | .fromSrc s => pj ((st.srcs[s]?).map fun l => canon (ofPairs l))
  | .srcSet _ _ _ => Json.null
  | .un .neg i => un i (fun p => some (sNeg p))
  | .un _ i => un i (fun p => some (canon p))
  | .bin .add i j => bin i j (fun p q => some (sAdd p q))
  | .bin .sub i j => bin i j (fun p q => some (sSub p q))
  | .bin .mul i j => bin i j (fun p q => some (sMul p q))
  | .scal .adds i c => un i (fun p => some (sAdd p (sConst c)))
  | .scal .radds i c => un i (fun p => some (sAdd (sConst c) p))
  | .scal .subs i c => un i (fun p => some (sSub p (sConst c)))
  | .scal .rsubs i c => un i (fun p => some (sSub (sConst c) p))
  | .scal .muls i c => un i (fun p => some (sMul p (sConst c)))
  | .scal .rmuls i c => un i (fun p => some (sMul (sConst c) p))
  | .divs i c => un i (fun p => if c = 0 then none else some (sDivMono p 0 c))
  | .div i j => bin i j (fun p q => match canon q with
      | [(d, w)] => some (sDivMono p d w)
      | _ => none)
  | .pow i n fl => un i (fun p => if fl && n ≠ 0 && decide (2 ≤ (canon p).length) then none else sPowZ p n)
  | .comp i j => bin i j sComp
  | .call i x _ => match v i with
    | some p => if x = 0 ∧ !isPolynomial p then Json.null else Json.mkObj [("num", ratToJson (sEval (canon p) x))]
    | none => Json.null
  | .diff i n => un i (fun p => some (sDiffN p n))
  | .integ i => un i sInteg
  | .setitem i k c => match st.obj i with
    | some (_, o) => if o.hashed then Json.null else
        pj (some (canonOn (k :: keys o.data) (fun t => if t = k then c else coeff o.data t)))
    | none => Json.null
  | .setzero i => match st.obj i with
    | some (_, o) => if o.hashed then Json.null else pj (some (canon o.data))
    | none => Json.null
  | .hash i => un i (fun p => some (canon p))
  | .eq i j => match v i, v j with
    | some p, some q => Json.mkObj [("bool", boolJ (sEq p q))]
    | _, _ => Json.null
  | .ne i j => match v i, v j with
    | some p, some q => Json.mkObj [("bool", boolJ (!sEq p q))]
    | _, _ => Json.null
  | .eqs i c => match v i with
    | some p => Json.mkObj [("bool", boolJ (sEq p (sConst c)))]
    | none => Json.null

/-- the variables whose contents differ from what they were before the step (new variables included) -/
def deltaJ (st st' : HState Rat) : Json :=
  Json.arr ((List.range st'.pool.length).filterMap fun idx =>
    match st'.val idx with
    | none => none
    | some p' =>
      if idx < st.pool.length ∧ st.val idx = some p' then none
      else some (Json.arr [natToJson idx, polyJ (sortAsc p')]))

/-- the earliest variable that refers to the same object as the last one (−1: a new object) -/
def sameAs (st' : HState Rat) : Int :=
  match st'.pool.reverse with
  | [] => -1
  | a :: _ =>
    let n := st'.pool.length - 1
    match (List.range n).find? (fun i => st'.pool[i]? == some a) with
    | some i => (i : Int)
    | none => -1

def lagValues (pts : List (Rat × Rat)) (ks : List Rat) (fixed : Bool) : Json :=
  exceptJ rats (((pts.map (·.1)) ++ ks).mapM (fun k => lagrangeFunc pts k fixed))

def lagSpec (pts : List (Rat × Rat)) : Json :=
  if distinctX pts && !pts.isEmpty then
    Json.mkObj [("at_nodes", rats (sLagrangeAtNodes pts)), ("max_order", natToJson (pts.length - 1))]
  else Json.null

/-- argument positions of a step that name variables (the other arguments are literals) -/
def refPositions : String → List Nat
  | "un" => [2] | "bin" => [2, 3] | "scal" => [2]
  | "divs" => [1] | "div" => [1, 2] | "pow" => [1] | "comp" => [1, 2] | "call" => [1]
  | "diff" => [1] | "integ" => [1] | "setitem" => [1] | "setzero" => [1] | "hash" => [1]
  | "eq" => [1, 2] | "ne" => [1, 2] | "eqs" => [1]
  | _ => []

/-- Variables are named by the harness: id `i < n` = the i-th initial object, id `n + t` = the result of
    step `t`.  `vm[id]` is the pool position the variable got (`none`: that step returned no object, e.g.
    it raised).  Rewrites the ids of a step into pool positions; `none` when one of them is unbound. -/
def resolveRefs (vm : List (Option Nat)) (j : Json) : Except String (Option Json) := do
  let l ← getArr j
  match l with
  | Json.str name :: _ =>
    let pos := refPositions name
    let rec go (i : Nat) : List Json → Except String (Option (List Json))
      | [] => pure (some [])
      | a :: t => do
        let rest ← go (i + 1) t
        match rest with
        | none => pure none
        | some r =>
          if pos.contains i then
            let id ← getNat a
            match vm[id]? with
            | some (some p) => pure (some (natToJson p :: r))
            | _ => pure none
          else pure (some (a :: r))
    match ← go 0 l with
    | some l' => pure (some (Json.arr l'))
    | none => pure none
  | _ => throw s!"C07 hist: bad step {j.compress}"

def histStep (st : HState Rat) (r : HReq) : Except String (HState Rat × Json) :=
  match r with
  | .op op =>
    let a := act st op
    let st' := apply st a
    let res : Except String (List (String × Json)) := match a with
      | .alloc _ => .ok [("kind", Json.str "obj"), ("same_as", intToJson (-1))]
      | .alias _ => .ok [("kind", Json.str "obj"), ("same_as", intToJson (sameAs st'))]
      | .store _ _ => .ok [("kind", Json.str "none")]
      | .frozen _ _ key => .ok [("kind", Json.str "hash"), ("key", polyJ key)]
      | .num v => .ok [("kind", Json.str "num"), ("v", ratToJson v)]
      | .bool b => .ok [("kind", Json.str "bool"), ("v", boolJ b)]
      | .srcSet _ _ => .ok [("kind", Json.str "none")]
      | .fail e => .ok [("kind", Json.str "err"), ("err", Json.str e.name)]
      | .bad => .error "C07 hist: a step refers to an unknown variable or container"
    match res with
    | .error e => .error e
    | .ok fs => .ok (st', Json.mkObj (fs ++ [("delta", deltaJ st st'), ("srcs", arr polyJ st'.srcs),
        ("spec", specOf st op)]))
  | .lagf pts ks =>
    .ok (st, Json.mkObj [("kind", Json.str "lagf"), ("values", lagValues pts ks true),
      ("delta", Json.arr []), ("srcs", arr polyJ st.srcs), ("spec", lagSpec pts)])
  | .lagp pts ks =>
    let pj := match lagrangePoly pts true with
      | .ok p => Json.mkObj [("terms", polyJ (sortAsc p)),
          ("at", rats (((pts.map (·.1)) ++ ks).map fun v => call p v .auto))]
      | .error e => errJ e
    .ok (st, Json.mkObj [("kind", Json.str "lagp"), ("poly", pj), ("values", lagValues pts ks true),
      ("delta", Json.arr []), ("srcs", arr polyJ st.srcs), ("spec", lagSpec pts)])
  | .lagseq qs =>
    .ok (st, Json.mkObj [("kind", Json.str "lagseq"),
      ("values", exceptJ rats (qs.mapM (fun q => lagrangeFunc q.1 q.2 true))),
      ("delta", Json.arr []), ("srcs", arr polyJ st.srcs), ("spec", Json.null)])

/-- runs the steps; `vm` maps the harness' variable ids to pool positions -/
def histRun : HState Rat → List (Option Nat) → List Json → Except String (List Json × HState Rat)
  | st, _, [] => .ok ([], st)
  | st, vm, j :: rs => do
    match ← resolveRefs vm j with
    | none =>
      let (js, fin) ← histRun st (vm ++ [none]) rs
      pure (Json.mkObj [("kind", Json.str "unbound")] :: js, fin)
    | some j' =>
      let r ← getHReq j'
      let (st', out) ← histStep st r
      let bound : Option Nat := if st'.pool.length > st.pool.length then some st.pool.length else none
      let (js, fin) ← histRun st' (vm ++ [bound]) rs
      pure (out :: js, fin)

def handle (entry : String) (j : Json) : Except String Json := do
  match entry with
  | "expr" =>
    let e ← field j "expr"
    let vs ← getList getRat (fieldD j "vs" (Json.arr []))
    let ks ← getList getInt (fieldD j "ks" (Json.arr []))
    let m ← mToJson (do let p ← evalM e; pure (observe p vs ks))
    let s ← evalS e
    pure <| Json.mkObj [("model", m), ("spec", optJson (fun s => observeS s vs ks) s)]
  | "laws" =>
    let n ← getNat (← field j "n")
    let c ← getRat (← field j "c")
    let v ← getRat (← field j "v")
    let m ← mToJson (do
      let p ← evalM (← liftD (field j "p"))
      let q ← evalM (← liftD (field j "q"))
      let r ← evalM (← liftD (field j "r"))
      pure (Json.mkObj (laws p q r n c v)))
    pure <| Json.mkObj [("model", m)]
  | "eq" =>
    let m ← mToJson (do
      let p ← evalM (← liftD (field j "p"))
      let q ← evalM (← liftD (field j "q"))
      pure (Json.mkObj [("eq", boolJ (eq p q)), ("ne", boolJ (ne p q)),
        ("hash_equal", boolJ (hashKey p == hashKey q))]))
    let sp ← evalS (← field j "p")
    let sq ← evalS (← field j "q")
    let s := match sp, sq with
      | some a, some b => Json.mkObj [("eq", boolJ (sEq a b))]
      | _, _ => Json.null
    pure <| Json.mkObj [("model", m), ("spec", s)]
  | "lagrange" =>
    let pts ← getList getPoint (← field j "pairs")
    let ks ← getList getRat (fieldD j "ks" (Json.arr []))
    let xs := pts.map (·.1)
    let fv (fixed : Bool) := exceptJ rats ((xs ++ ks).mapM (fun k => lagrangeFunc pts k fixed))
    let pj (fixed : Bool) := match lagrangePoly pts fixed with
      | .ok p => Json.mkObj [("terms", polyJ (sortAsc p)), ("items", polyJ p),
          ("at", rats ((xs ++ ks).map fun v => call p v .auto))]
      | .error e => errJ e
    let s := if distinctX pts && !pts.isEmpty then
        Json.mkObj [("at_nodes", rats (sLagrangeAtNodes pts)), ("max_order", natToJson (pts.length - 1))]
      else Json.null
    pure <| Json.mkObj [("model", Json.mkObj [("func", fv false), ("poly", pj false)]),
      ("model_fixed", Json.mkObj [("func", fv true), ("poly", pj true)]), ("spec", s)]
  | "hist" =>
    let objs ← getList (fun o => do
      match ← mToJson' (evalM o) with
      | some p => pure p
      | none => throw "C07 hist: an initial object raises") (fieldD j "objs" (Json.arr []))
    let srcs ← getList (getList getPair) (fieldD j "srcs" (Json.arr []))
    let ops ← getArr (← field j "ops")
    let st0 := HState.init objs srcs
    let (steps, fin) ← histRun st0 ((List.range objs.length).map some) ops
    pure <| Json.mkObj [("init", arr (fun p => polyJ (sortAsc p)) objs), ("steps", Json.arr steps),
      ("pool", arr natToJson fin.pool)]
  | "pynum" => ALV.Driver.C07Zero.handle entry j
  | "zhist" => ALV.Driver.C07Zero.handle entry j
  | _ => throw s!"C07: unknown entry {entry}"

end ALV.Driver.C07
