import ALV.Common.Json
namespace ALV.Driver.C07
open ALV ALV.J

/-- stub: the C07 slice is not built yet -/
def handle (entry : String) (_j : Json) : Except String Json :=
  throw s!"C07: unknown entry {entry}"

end ALV.Driver.C07
