import ALV.Common.Json
import ALV.Model.C08
import ALV.Spec.C08
namespace ALV.Driver.C08
open ALV ALV.J ALV.C08

/-- items are arbitrary JSON values (heterogeneous), the model is polymorphic -/
def handle (entry : String) (j : Json) : Except String Json := do
  match entry with
  | "blocks" =>
    let size ← getNat (← field j "size")
    let hop ← getNat (← field j "hop")
    let pad := fieldD j "pad" Json.null
    let xs ← getArr (← field j "xs")
    if size = 0 ∨ hop = 0 then throw "size and hop must be positive"
    let m := blocks size hop pad xs
    let reads := bloopReads size hop (⟨[], 0⟩ : BState Json) 0 xs
    let s := blocksSpec size hop pad xs
    let c := blocksClosed size hop pad xs
    pure <| Json.mkObj [
      ("model", arr (arr id) m), ("reads", nats reads),
      ("spec", arr (arr id) s), ("closed", arr (arr id) c)]
  | "zero_pad" =>
    let l ← getNat (← field j "left")
    let r ← getNat (← field j "right")
    let z := fieldD j "zero" Json.null
    let xs ← getArr (← field j "xs")
    let m := zeroPad l r z xs
    pure <| Json.mkObj [("model", arr id m),
      ("spec", arr id (List.replicate l z ++ xs ++ List.replicate r z))]
  | _ => throw s!"C08: unknown entry {entry}"

end ALV.Driver.C08
