import ALV.Common.Json
import ALV.Model.C08
import ALV.Spec.C08
import ALV.Model.C08Hist
import ALV.Spec.C08Hist
import ALV.Model.C08Call
import ALV.Spec.C08Call
namespace ALV.Driver.C08
open ALV ALV.J ALV.C08

/-- input items: `"xs"` (arbitrary JSON values, heterogeneous) or `"n"` (the integers 0..n-1) -/
def getXs (j : Json) : Except String (List Json) := do
  match optField j "xs" with
  | some a => getArr a
  | none =>
    let n ← getNat (← field j "n")
    pure ((List.range n).map natToJson)

def getEnding (j : Json) : Except String Ending := do
  match fieldD j "ending" (Json.str "stop") with
  | Json.str "stop" => pure .stop
  | Json.str "fail" => pure .fail
  | e => throw s!"bad ending {e.compress}"

def evJson (l : List (Nat × List Json)) : Json :=
  arr (fun p : Nat × List Json => Json.arr [natToJson p.1, arr id p.2]) l

def getEdit (j : Json) : Except String (Edit Json) := do
  match ← getArr j with
  | [Json.str "set", i, v] => pure (.set (← getNat i) v)
  | [Json.str "rot", r] => pure (.rotate (← getInt r))
  | [Json.str "rev"] => pure .reverse
  | _ => throw s!"bad edit {j.compress}"

def sizeHop (j : Json) : Except String (Nat × Nat) := do
  let size ← getNat (← field j "size")
  let hop ← getNat (← field j "hop")
  if size = 0 ∨ hop = 0 then throw "size and hop must be positive"
  pure (size, hop)


/-! ### the call layer: shapes, spellings, defaults, length-changing caller operations -/

/-- a JSON value read as a numeric parameter: int, `{"b":…}` (bool), `{"f":repr,"q":"p/q"}` (float with its
exact value), `{"f":"inf"|"-inf"|"nan"}` (non-finite float), `{"fr":"p/q"}` (Fraction), `null` (None); anything else has no arithmetic -/
def asNum (j : Json) : Num :=
  match j with
  | Json.int i => .int i
  | Json.null => .none
  | Json.obj _ =>
    match j.getObjVal? "b", j.getObjVal? "f", j.getObjVal? "q", j.getObjVal? "fr" with
    | some (Json.bool b), _, _, _ => .int (if b then 1 else 0)
    | _, some (Json.str "inf"), none, _ => .fnf .pinf
    | _, some (Json.str "-inf"), none, _ => .fnf .ninf
    | _, some (Json.str "nan"), none, _ => .fnf .nan
    | _, some _, some q, _ => match getRat q with | .ok r => .flt r | _ => .other
    | _, _, _, some q => match getRat q with | .ok r => .frac r | _ => .other
    | _, _, _, _ => .other
  | _ => .other

/-- the data argument travels as `{"seq":true}`; every other value is not iterable -/
def asIter (j : Json) : Bool :=
  match j.getObjVal? "seq" with
  | some (Json.bool true) => true
  | _ => false

def endJson : CallEnd → Json
  | .stop => Json.str "stop"
  | .srcFail => Json.str "srcFail"
  | .err .typeError => Json.str "TypeError"
  | .err .valueError => Json.str "ValueError"
  | .err .overflowError => Json.str "OverflowError"

def runJson (r : CallRun Json) : Json :=
  Json.mkObj [("events", evJson r.events), ("ending", endJson r.ending), ("pulled", natToJson r.pulled)]

def getKw (j : Json) : Except String (List (String × Json)) := do
  (← getArr j).mapM fun p => do
    match ← getArr p with
    | [k, v] => pure (← getStr k, v)
    | _ => throw s!"bad keyword pair {p.compress}"

def getOp (j : Json) : Except String (DqOp Json) := do
  match ← getArr j with
  | [Json.str "append", v] => pure (.append v)
  | [Json.str "appendleft", v] => pure (.appendleft v)
  | [Json.str "pop"] => pure .pop
  | [Json.str "popleft"] => pure .popleft
  | [Json.str "clear"] => pure .clear
  | [Json.str "extend", vs] => pure (.extend (← getArr vs))
  | [Json.str "del", i] => pure (.del (← getNat i))
  | [Json.str "insert", i, v] => pure (.insert (← getNat i) v)
  | [Json.str "seti", i, v] => pure (.setI (← getInt i) v)
  | [Json.str "deli", i] => pure (.delI (← getInt i))
  | [Json.str "inserti", i, v] => pure (.insertI (← getInt i) v)
  | _ => pure (.keep (← getEdit j))

/-- the float zero, default of `padval` and of `zero` -/
def floatZero : Json := Json.mkObj [("f", Json.str "0.0")]

/-- `xrange` counts above the cap of a capped read are cut to the cap (only the first `cap` outputs are compared) -/
def clampNum (cap : Option Nat) (j : Json) : Json :=
  match cap, j with
  | some c, Json.int i => if (c : Int) < i then Json.int c else j
  | _, _ => j

def handleCall (entry : String) (j : Json) : Except String Json := do
  match entry with
  | "call" =>
    let fn ← getStr (← field j "fn")
    let pos ← getArr (← field j "pos")
    let kw ← getKw (← field j "kw")
    let xs ← getXs j
    let e ← getEnding j
    let withSpec := fun (size hop : Option Json) (padval : Option Json) (seq : Json) =>
      runJson (blocksCallSpec floatZero ((size.map asNum).getD .none) ((hop.map asNum).getD .none)
        padval (asIter seq) xs e)
    let m := match fn with
      | "stream" => streamBlocksApply asNum asIter floatZero (Json.mkObj [("seq", Json.bool true)]) pos kw xs e
      | _ => blocksApply asNum asIter floatZero pos kw xs e
    let pos' := if fn == "stream" then Json.mkObj [("seq", Json.bool true)] :: pos else pos
    let sp := match bind blocksParams 1 pos' kw with
      | some [some seq, size, hop, padval] => withSpec size hop padval seq
      | _ => Json.null
    pure <| Json.mkObj [("model", match m with | some r => runJson r | none => Json.null), ("spec", sp)]
  | "zcall" =>
    let cap := match optField j "cap" with | some (Json.int c) => some c.toNat | _ => none
    let pos := (← getArr (← field j "pos"))
    let kw := (← getKw (← field j "kw"))
    let clampSlot := fun (i : Nat) (v : Json) => if i = 1 ∨ i = 2 then clampNum cap v else v
    let pos := pos.zipIdx.map fun p => clampSlot p.2 p.1
    let kw := kw.map fun p => if p.1 == "left" ∨ p.1 == "right" then (p.1, clampNum cap p.2) else p
    let xs ← getXs j
    let e ← getEnding j
    let cn : Nat := match cap with | some c => c | none => xs.length + 1000000
    let m := zeroPadApply asNum asIter floatZero pos kw xs e
    let sp := match bind zeroPadParams 1 pos kw with
      | some [some seq, left, right, zero] =>
        let r := zeroPadCallSpec floatZero (left.map asNum) (right.map asNum) zero (asIter seq) xs e
        Json.mkObj [("out", arr id (r.1.take cn)), ("reads", nats (r.2.1.take cn)), ("ending", endJson r.2.2),
          ("total", natToJson r.1.length)]
      | _ => Json.null
    pure <| Json.mkObj [
      ("model", match m with
        | some r => Json.mkObj [("out", arr id ((r.out.map Prod.snd).take cn)), ("reads", nats ((r.out.map Prod.fst).take cn)),
            ("ending", endJson r.ending), ("total", natToJson r.out.length)]
        | none => Json.null),
      ("spec", sp)]
  | "mutg" =>
    -- the caller changes the LENGTH of the yielded deque / makes operations that fail
    let (size, hop) ← sizeHop j
    let pad := fieldD j "pad" Json.null
    let xs ← getXs j
    let eds ← (← getArr (← field j "ops")).mapM (fun e => do (← getArr e).mapM getOp)
    let ops : Nat → List (DqOp Json) := fun k => eds.getD k []
    let m := blocksMut size hop pad (fun k => applyOps size (ops k)) xs
    let fails := bloopMutFails size hop ops (⟨[], 0⟩ : BState Json) 0 xs
    pure <| Json.mkObj [("model", arr (arr id) m),
      ("fails", arr (arr Json.bool) fails),
      ("spec", if size ≤ hop then arr (arr id) (blocksClosed size hop pad xs)
               else arr (arr id) (mutSpecG size hop pad (fun k => applyOps size (ops k)) xs)),
      ("plain", arr (arr id) (blocksClosed size hop pad xs))]
  | _ => throw s!"C08: unknown entry {entry}"

/-- items are arbitrary JSON values (heterogeneous), the model is polymorphic -/
def handle1 (entry : String) (j : Json) : Except String Json := do
  match entry with
  | "blocks" =>
    let (size, hop) ← sizeHop j
    let pad := fieldD j "pad" Json.null
    let xs ← getXs j
    let m := blocks size hop pad xs
    let reads := bloopReads size hop (⟨[], 0⟩ : BState Json) 0 xs
    let s := blocksSpec size hop pad xs
    let c := blocksClosed size hop pad xs
    pure <| Json.mkObj [
      ("model", arr (arr id) m), ("reads", nats reads),
      ("spec", arr (arr id) s), ("closed", arr (arr id) c)]
  | "trace" =>
    -- observing source that ends or fails after its items
    let (size, hop) ← sizeHop j
    let pad := fieldD j "pad" Json.null
    let xs ← getXs j
    let e ← getEnding j
    -- "fast": spec only (the shrinker's candidates of large cases; model = spec is theorems
    -- trace_fail / trace_stop, running the O(size*len) list model again for every candidate is not needed)
    let fast ← getBool (fieldD j "fast" (Json.bool false))
    let full := (List.range (nFull size hop xs.length)).map
      fun k => (k * hop + size, (xs.drop (k * hop)).take size)
    let closed := match e with
      | .fail => full
      | .stop => full ++ (tailBlock size hop pad xs).map fun b => (xs.length, b)
    if fast then
      pure <| Json.mkObj [("model", Json.null), ("raised", Json.null),
        ("spec", evJson closed), ("spec_raised", Json.bool (e == .fail))]
    else
      let t := blocksTrace size hop pad xs e
      pure <| Json.mkObj [
        ("model", evJson t.events), ("raised", Json.bool t.raised),
        ("spec", evJson closed), ("spec_raised", Json.bool (e == .fail))]
  | "mut" =>
    -- the caller edits the yielded containers in place
    let (size, hop) ← sizeHop j
    let pad := fieldD j "pad" Json.null
    let xs ← getXs j
    let eds ← (← getArr (← field j "edits")).mapM (fun e => do (← getArr e).mapM getEdit)
    let ops : Nat → List (Edit Json) := fun k => eds.getD k []
    let m := blocksMut size hop pad (fun k => applyEdits (ops k)) xs
    let s := mutSpec size hop pad (fun k => editsLP (ops k)) 0 xs
    pure <| Json.mkObj [("model", arr (arr id) m), ("spec", arr (arr id) s),
      ("plain", arr (arr id) (blocksClosed size hop pad xs))]
  | "live" =>
    -- live source: item i = [i, vals[phase]] (or vals[phase]), phase = blocks handed out so far
    let (size, hop) ← sizeHop j
    let pad := fieldD j "pad" Json.null
    let n ← getNat (← field j "n")
    let vals ← getArr (← field j "vals")
    let pair ← getBool (fieldD j "pair" (Json.bool true))
    let item : Nat → Nat → Json := fun i ph =>
      let v := vals.getD (min ph (vals.length - 1)) Json.null
      if pair then Json.arr [natToJson i, v] else v
    let m := blocksLive size hop pad item n
    let seq := (List.range n).map fun i => item i (nFull size hop i)
    pure <| Json.mkObj [("model", arr (arr id) m), ("spec", arr (arr id) (blocksClosed size hop pad seq)),
      ("seq", arr id seq)]
  | "zero_pad" =>
    let l ← getNat (← field j "left")
    let r ← getNat (← field j "right")
    let z := fieldD j "zero" Json.null
    let xs ← getXs j
    let e ← getEnding j
    let m := zeroPad l r z xs
    let t := zeroPadTrace l r z xs e
    let specItems := match e with
      | .stop => List.replicate l z ++ xs ++ List.replicate r z
      | .fail => List.replicate l z ++ xs
    let specReads := List.replicate l 0 ++ (List.range xs.length).map (· + 1) ++
      (match e with | .stop => List.replicate r xs.length | .fail => [])
    pure <| Json.mkObj [("model", arr id m),
      ("spec", arr id (List.replicate l z ++ xs ++ List.replicate r z)),
      ("trace", arr id (t.1.map Prod.snd)), ("trace_reads", nats (t.1.map Prod.fst)),
      ("raised", Json.bool t.2),
      ("spec_trace", arr id specItems), ("spec_reads", nats specReads)]
  | _ => handleCall entry j

def handle (entry : String) (j : Json) : Except String Json := do
  match entry with
  | "conc" =>
    -- several generators alive at once: each is the model of its own case taken alone
    let subs ← getArr (← field j "subs")
    let outs ← subs.mapM fun s => do handle1 (← getStr (← field s "entry")) s
    pure <| Json.mkObj [("subs", Json.arr outs)]
  | _ => handle1 entry j

end ALV.Driver.C08
