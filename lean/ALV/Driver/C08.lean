import ALV.Common.Json
import ALV.Model.C08
import ALV.Spec.C08
import ALV.Model.C08Hist
import ALV.Spec.C08Hist
namespace ALV.Driver.C08
open ALV ALV.J ALV.C08

/-- input items: `"xs"` (arbitrary JSON values, heterogeneous) or `"n"` (the integers 0..n-1) -/
def getXs (j : Json) : Except String (List Json) := do
  match optField j "xs" with
  | some a => getArr a
  | none =>
    let n ← getNat (← field j "n")
    pure ((List.range n).map natToJson)

def getEnding (j : Json) : Except String Ending := do
  match fieldD j "ending" (Json.str "stop") with
  | Json.str "stop" => pure .stop
  | Json.str "fail" => pure .fail
  | e => throw s!"bad ending {e.compress}"

def evJson (l : List (Nat × List Json)) : Json :=
  arr (fun p : Nat × List Json => Json.arr [natToJson p.1, arr id p.2]) l

def getEdit (j : Json) : Except String (Edit Json) := do
  match ← getArr j with
  | [Json.str "set", i, v] => pure (.set (← getNat i) v)
  | [Json.str "rot", r] => pure (.rotate (← getInt r))
  | [Json.str "rev"] => pure .reverse
  | _ => throw s!"bad edit {j.compress}"

def sizeHop (j : Json) : Except String (Nat × Nat) := do
  let size ← getNat (← field j "size")
  let hop ← getNat (← field j "hop")
  if size = 0 ∨ hop = 0 then throw "size and hop must be positive"
  pure (size, hop)

/-- items are arbitrary JSON values (heterogeneous), the model is polymorphic -/
def handle1 (entry : String) (j : Json) : Except String Json := do
  match entry with
  | "blocks" =>
    let (size, hop) ← sizeHop j
    let pad := fieldD j "pad" Json.null
    let xs ← getXs j
    let m := blocks size hop pad xs
    let reads := bloopReads size hop (⟨[], 0⟩ : BState Json) 0 xs
    let s := blocksSpec size hop pad xs
    let c := blocksClosed size hop pad xs
    pure <| Json.mkObj [
      ("model", arr (arr id) m), ("reads", nats reads),
      ("spec", arr (arr id) s), ("closed", arr (arr id) c)]
  | "trace" =>
    -- observing source that ends or fails after its items
    let (size, hop) ← sizeHop j
    let pad := fieldD j "pad" Json.null
    let xs ← getXs j
    let e ← getEnding j
    -- "fast": spec only (the shrinker's candidates of large cases; model = spec is theorems
    -- trace_fail / trace_stop, running the O(size*len) list model again for every candidate is not needed)
    let fast ← getBool (fieldD j "fast" (Json.bool false))
    let full := (List.range (nFull size hop xs.length)).map
      fun k => (k * hop + size, (xs.drop (k * hop)).take size)
    let closed := match e with
      | .fail => full
      | .stop => full ++ (tailBlock size hop pad xs).map fun b => (xs.length, b)
    if fast then
      pure <| Json.mkObj [("model", Json.null), ("raised", Json.null),
        ("spec", evJson closed), ("spec_raised", Json.bool (e == .fail))]
    else
      let t := blocksTrace size hop pad xs e
      pure <| Json.mkObj [
        ("model", evJson t.events), ("raised", Json.bool t.raised),
        ("spec", evJson closed), ("spec_raised", Json.bool (e == .fail))]
  | "mut" =>
    -- the caller edits the yielded containers in place
    let (size, hop) ← sizeHop j
    let pad := fieldD j "pad" Json.null
    let xs ← getXs j
    let eds ← (← getArr (← field j "edits")).mapM (fun e => do (← getArr e).mapM getEdit)
    let ops : Nat → List (Edit Json) := fun k => eds.getD k []
    let m := blocksMut size hop pad (fun k => applyEdits (ops k)) xs
    let s := mutSpec size hop pad (fun k => editsLP (ops k)) 0 xs
    pure <| Json.mkObj [("model", arr (arr id) m), ("spec", arr (arr id) s),
      ("plain", arr (arr id) (blocksClosed size hop pad xs))]
  | "live" =>
    -- live source: item i = [i, vals[phase]] (or vals[phase]), phase = blocks handed out so far
    let (size, hop) ← sizeHop j
    let pad := fieldD j "pad" Json.null
    let n ← getNat (← field j "n")
    let vals ← getArr (← field j "vals")
    let pair ← getBool (fieldD j "pair" (Json.bool true))
    let item : Nat → Nat → Json := fun i ph =>
      let v := vals.getD (min ph (vals.length - 1)) Json.null
      if pair then Json.arr [natToJson i, v] else v
    let m := blocksLive size hop pad item n
    let seq := (List.range n).map fun i => item i (nFull size hop i)
    pure <| Json.mkObj [("model", arr (arr id) m), ("spec", arr (arr id) (blocksClosed size hop pad seq)),
      ("seq", arr id seq)]
  | "zero_pad" =>
    let l ← getNat (← field j "left")
    let r ← getNat (← field j "right")
    let z := fieldD j "zero" Json.null
    let xs ← getXs j
    let e ← getEnding j
    let m := zeroPad l r z xs
    let t := zeroPadTrace l r z xs e
    let specItems := match e with
      | .stop => List.replicate l z ++ xs ++ List.replicate r z
      | .fail => List.replicate l z ++ xs
    let specReads := List.replicate l 0 ++ (List.range xs.length).map (· + 1) ++
      (match e with | .stop => List.replicate r xs.length | .fail => [])
    pure <| Json.mkObj [("model", arr id m),
      ("spec", arr id (List.replicate l z ++ xs ++ List.replicate r z)),
      ("trace", arr id (t.1.map Prod.snd)), ("trace_reads", nats (t.1.map Prod.fst)),
      ("raised", Json.bool t.2),
      ("spec_trace", arr id specItems), ("spec_reads", nats specReads)]
  | _ => throw s!"C08: unknown entry {entry}"

def handle (entry : String) (j : Json) : Except String Json := do
  match entry with
  | "conc" =>
    -- several generators alive at once: each is the model of its own case taken alone
    let subs ← getArr (← field j "subs")
    let outs ← subs.mapM fun s => do handle1 (← getStr (← field s "entry")) s
    pure <| Json.mkObj [("subs", Json.arr outs)]
  | _ => handle1 entry j

end ALV.Driver.C08
