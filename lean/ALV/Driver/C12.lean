import ALV.Common.Json
namespace ALV.Driver.C12
open ALV ALV.J

/-- stub: the C12 slice is not built yet -/
def handle (entry : String) (_j : Json) : Except String Json :=
  throw s!"C12: unknown entry {entry}"

end ALV.Driver.C12
