import ALV.Common.Json
import ALV.Model.C12
import ALV.Spec.C12
import ALV.Model.C12Call
import ALV.Spec.C12Call
import ALV.Spec.C04
import ALV.Gen.C12Src
namespace ALV.Driver.C12
open ALV ALV.J ALV.C12

/-- the source's `cexp(s·1j · n · f)` when a frequency travels as its point `w = exp(-1j·f)`: `w^(-s·n)`.
    With it the driver also runs the definitions REGENERATED from the source (`ALV.Gen.C12`, payload
    field `gen`), which the harness compares with the impl like the model: a cross-check of the translator. -/
def cisG : CExp GRat GRat := ⟨fun s n w => zpw w (-s * (n : Int))⟩

/-- `ZFilter(b, a).freq_response` through the regenerated body -/
def genResp (b a : List GRat) (w : GRat) : Resp GRat :=
  match mkFilter b a with
  | none => .valueError
  | some f => match ALV.Gen.C12.LinearFilter_freq_response cisG f w with
    | none => .nan
    | some v => .val v

/-- a Gaussian rational travels as `[re, im]` (or a bare rational) -/
def getG (j : Json) : Except String GRat :=
  match j with
  | Json.arr [r, i] => do pure ⟨← getRat r, ← getRat i⟩
  | _ => do pure ⟨← getRat j, 0⟩

def gToJson (g : GRat) : Json := Json.arr [ratToJson g.re, ratToJson g.im]

def respToJson : Resp GRat → Json
  | .valueError => Json.mkObj [("err", Json.str "ValueError")]
  | .typeError => Json.mkObj [("err", Json.str "TypeError")]
  | .nan => Json.str "nan"
  | .val v => gToJson v

def getFilt (j : Json) : Except String (List GRat × List GRat) := do
  pure (← getList getG (← field j "b"), ← getList getG (← field j "a"))

partial def getBank (j : Json) : Except String (Bank GRat) :=
  match j.getObjVal? "cascade", j.getObjVal? "parallel" with
  | some (Json.arr ms), _ => do pure (.cascade (← ms.mapM getBank))
  | _, some (Json.arr ms) => do pure (.parallel (← ms.mapM getBank))
  | _, _ => do
    let (b, a) ← getFilt j
    pure (.filt b a)

/-- does constructing the object raise?  (a leaf without denominator term) -/
partial def bankCtor (spec : Bool) : Bank GRat → Bool
  | .filt b a => if spec then a.all (fun c => decide (c = 0)) else (mkFilter b a).isNone
  | .cascade ms => ms.any (bankCtor spec)
  | .parallel ms => ms.any (bankCtor spec)

def optG : Option GRat → Json
  | none => Json.str "nan"
  | some v => gToJson v


/-! ### bank histories -/

def getObj (j : Json) : Except String (Obj GRat) :=
  match j.getObjVal? "cascade", j.getObjVal? "parallel" with
  | some ms, _ => do pure (.bank true (← getList getNat ms))
  | _, some ms => do pure (.bank false (← getList getNat ms))
  | _, _ => do
    let (b, a) ← getFilt j
    pure (.leaf b a)

def optInt (j : Json) (k : String) : Except String (Option Int) :=
  match optField j k with
  | none => pure none
  | some v => do pure (some (← getInt v))

def getHOp (j : Json) : Except String (HOp GRat GRat) := do
  let t ← getNat (← field j "t")
  let refs (k : String) : Except String (List Nat) := do getList getNat (← field j k)
  match ← getStr (← field j "op") with
  | "setitem" => pure (.upd t (.setitem (← getInt (← field j "i")) (← getNat (← field j "x"))))
  | "append" => pure (.upd t (.append (← getNat (← field j "x"))))
  | "insert" => pure (.upd t (.insert (← getInt (← field j "i")) (← getNat (← field j "x"))))
  | "extend" => pure (.upd t (.extend (← refs "xs")))
  | "iadd" => pure (.upd t (.iadd (← refs "xs")))
  | "imul" => pure (.upd t (.imul (← getInt (← field j "k"))))
  | "pop" => pure (.upd t (.pop (← optInt j "i")))
  | "delitem" => pure (.upd t (.delitem (← getInt (← field j "i"))))
  | "setslice" => pure (.upd t (.setslice (← optInt j "i") (← optInt j "j") (← refs "xs")))
  | "delslice" => pure (.upd t (.delslice (← optInt j "i") (← optInt j "j")))
  | "reverse" => pure (.upd t .reverse)
  | "clear" => pure (.upd t .clear)
  | "swap" => pure (.upd t (.swap (← getInt (← field j "i")) (← getInt (← field j "j"))))
  | "freq" => pure (.use t (.freq (← getList getG (← field j "ws"))))
  | "polys" => pure (.use t (.polys (← getList getG (← field j "ws"))))
  | "is_lti" => pure (.use t .isLti)
  | "call" => pure (.use t (.call (← getList getG (← field j "xs"))))
  | o => throw s!"C12 hist: unknown op {o}"

/-- one step of a history: the model's and the spec's observation side by side -/
def obsToJson (m s : Obs GRat) : Json :=
  match m, s with
  | .members ms, _ => Json.mkObj [("members", nats ms)]
  | .popped x ms, _ => Json.mkObj [("popped", natToJson x), ("members", nats ms)]
  | .fresh new ms, _ => Json.mkObj [("fresh", nats new), ("members", nats ms)]
  | .indexError, _ => Json.mkObj [("err", Json.str "IndexError")]
  | .stuck, _ => Json.mkObj [("stuck", Json.bool true)]
  | .resp rm, .resp rs => Json.mkObj [("model", arr respToJson rm), ("spec", arr respToJson rs)]
  | .bool bm, .bool bs => Json.mkObj [("model", Json.bool bm), ("spec", Json.bool bs)]
  | .out ym, .out ys => Json.mkObj [("model", optJson (arr gToJson) ym), ("spec", optJson (arr gToJson) ys)]
  | _, _ => Json.mkObj [("stuck", Json.bool true)]


/-! ### the call -/

def getKind (s : String) : Except String Kind :=
  match s with
  | "scalar" => pure .scalar | "str" => pure .str | "someGen" => pure .someGen | "stream" => pure .stream
  | "seq" => pure .seq | "hash" => pure .hash | "chain" => pure .chain | "emptyOnly" => pure .emptyOnly
  | "noCtor" => pure .noCtor
  | k => throw s!"C12 call: unknown kind {k}"

def kindStr : Kind → String
  | .scalar => "scalar" | .str => "str" | .someGen => "someGen" | .stream => "stream" | .seq => "seq"
  | .hash => "hash" | .chain => "chain" | .emptyOnly => "emptyOnly" | .noCtor => "noCtor"

def getElem (j : Json) : Except String (Elem GRat) :=
  match j with
  | Json.str "bad" => pure .bad
  | Json.str "nested" => pure .nested
  | Json.str "obj" => pure .obj
  | _ => do pure (.num (← getG j))

/-- `"self"` = the filter object; otherwise `{"kind": …, "self": elem, "items": [elem, …]}` -/
def getArg (j : Json) : Except String (Arg GRat) :=
  match j with
  | Json.str "self" => pure Arg.filt
  | _ => do
    let k ← getKind (← getStr (← field j "kind"))
    let self ← match optField j "self" with
      | none => pure Elem.nested
      | some v => getElem v
    let items ← match optField j "items" with
      | none => pure []
      | some v => getList getElem v
    pure ⟨k, self, items⟩

def getKw (j : Json) : Except String (String × Arg GRat) :=
  match j with
  | Json.arr [k, v] => do pure (← getStr k, ← getArg v)
  | _ => throw "C12 call: bad keyword entry"

def errStr : PyErr → String
  | .typeError => "TypeError" | .valueError => "ValueError" | .keyError => "KeyError"
  | .zeroDivisionError => "ZeroDivisionError"

def nextToJson : NextObs GRat → Json
  | .item r => Json.mkObj [("item", respToJson r)]
  | .exc e => Json.mkObj [("exc", Json.str (errStr e))]
  | .stop => Json.str "stop"

def outToJson (reads : Nat) : Out GRat → Json
  | .value r => Json.mkObj [("value", respToJson r)]
  | .raised e => Json.mkObj [("err", Json.str (errStr e))]
  | .lazy k outs => Json.mkObj [("lazy", Json.str (kindStr k)), ("reads", arr nextToJson (genReads reads outs))]
  | .cast k vals => Json.mkObj [("cast", Json.str (kindStr k)), ("vals", arr respToJson vals)]
  | .unmodelled => Json.mkObj [("unmodelled", Json.bool true)]

def exceptToJson : Except PyErr (List GRat) → Json
  | .error e => Json.mkObj [("err", Json.str (errStr e))]
  | .ok l => arr gToJson l

/-- an argument of `dft(...)`: `"blk"`, `"freqs"` (the two objects of the request), `true`/`false`
    (the truth value of the object passed as `normalize`), `"other"` -/
inductive DftV where
  | blk | freqs | flag (b : Bool) | other

def getDftV (j : Json) : Except String DftV :=
  match j with
  | Json.str "blk" => pure .blk
  | Json.str "freqs" => pure .freqs
  | Json.bool b => pure (.flag b)
  | _ => pure .other

def handle (entry : String) (j : Json) : Except String Json := do
  match entry with
  | "freq" =>
    -- one filter, a container of points w = exp(-j*freq)
    let (b, a) ← getFilt j
    let ws ← getList getG (← field j "ws")
    pure <| Json.mkObj [
      ("model", arr respToJson (elementwise (respOfFilter b a) ws)),
      ("gen", arr respToJson (elementwise (genResp b a) ws)),
      ("spec", arr respToJson (elementwise (respSpec b a) ws)),
      -- the dict form of the specification on the dict {k: c_k} of the same lists (Props.C12.terms_spec_eq_dense_spec)
      ("spec_terms", arr respToJson (elementwise (respSpecTerms (denseTerms 0 b) (denseTerms 0 a)) ws)),
      ("den", arr gToJson (ws.map (evalDirect a))),
      -- does the constructor raise (independently of any frequency)?
      ("ctor_model", Json.bool (mkFilter b a).isNone),
      ("ctor_spec", Json.bool (a.all (fun c => decide (c = 0)))),
      ("horner", Json.bool (match mkFilter b a with
          | some f => f.num.all (fun t => decide (0 ≤ t.1))
          | none => false))]
  | "freqd" =>
    -- one filter given as {delay: coefficient} dicts (insertion order kept), a container of points
    let getTerm (t : Json) : Except String (Int × GRat) :=
      match t with
      | Json.arr [k, c] => do pure (← getInt k, ← getG c)
      | _ => throw "bad term"
    let num ← getList getTerm (← field j "bt")
    let den ← getList getTerm (← field j "at")
    let ws ← getList getG (← field j "ws")
    pure <| Json.mkObj [
      ("model", arr respToJson (elementwise (respOfTerms num den) ws)),
      ("spec", arr respToJson (elementwise (respSpecTerms num den) ws)),
      ("ctor_model", Json.bool (mkFilterTerms num den).isNone),
      ("ctor_spec", Json.bool (den.all (fun t => decide (t.2 = 0)))),
      ("horner", Json.bool (match mkFilterTerms num den with
          | some f => f.num.all (fun t => decide (0 ≤ t.1))
          | none => false))]
  | "bank" =>
    let kind ← getStr (← field j "kind")
    let bank ← getList getFilt (← field j "bank")
    let ws ← getList getG (← field j "ws")
    let (m, s) := if kind = "cascade"
      then (elementwise (cascadeResp bank) ws, elementwise (cascadeSpec bank) ws)
      else (elementwise (parallelResp bank) ws, elementwise (parallelSpec bank) ws)
    let member := fun (f : List GRat × List GRat) (w : GRat) => genResp f.1 f.2 w
    let g := if kind = "cascade"
      then elementwise (ALV.Gen.C12.CascadeFilter_freq_response member bank) ws
      else elementwise (ALV.Gen.C12.ParallelFilter_freq_response member bank) ws
    pure <| Json.mkObj [
      ("model", arr respToJson m), ("spec", arr respToJson s), ("gen", arr respToJson g),
      ("ctor_model", Json.bool (bank.any fun f => (mkFilter f.1 f.2).isNone)),
      ("ctor_spec", Json.bool (bank.any fun f => f.2.all (fun c => decide (c = 0)))),
      ("dens", arr (fun w => arr (fun (f : List GRat × List GRat) => gToJson (evalDirect f.2 w)) bank) ws)]
  | "tree" =>
    let t ← getBank (← field j "tree")
    let ws ← getList getG (← field j "ws")
    pure <| Json.mkObj [
      ("model", arr respToJson (elementwise (fun w => Bank.resp w t) ws)),
      ("spec", arr respToJson (elementwise (fun w => Bank.spec w t) ws)),
      ("ctor_model", Json.bool (bankCtor false t)),
      ("ctor_spec", Json.bool (bankCtor true t))]
  | "dft" =>
    let blk ← getList getG (← field j "blk")
    let ws ← getList getG (← field j "ws")
    let norm ← getBool (← field j "normalize")
    let m := dft (fun (w : GRat) n => pw w n) blk ws norm
    let s : Option (List GRat) :=
      if norm ∧ blk.length = 0 ∧ ws ≠ [] then none else some (ws.map fun w => dftSpec w blk norm)
    let enc : Option (List GRat) → Json
      | none => Json.mkObj [("err", Json.str "ZeroDivisionError")]
      | some l => arr gToJson l
    pure <| Json.mkObj [("model", enc m), ("spec", enc s), ("gen", enc (ALV.Gen.C12.dft cisG blk ws norm))]
  | "fir" =>
    -- time domain: FIR filter b on the input xs; optional steady-state check data
    let b ← getList getG (← field j "b")
    let xs ← getList getG (← field j "xs")
    let m := firRun b xs
    let s := firSpec b xs
    -- the same run taken from the C04 slice (Props.C12.c04_run_is_fir_run)
    let c4 := C04.fspec b [] 1 0 [] [] xs
    -- impulse response / DFT link: dft of the model output at the points ws (unnormalised)
    let ws ← getList getG (fieldD j "ws" (Json.arr []))
    let dm := ws.map fun w => dftSum (fun n => pw w n) m
    let hs := ws.map fun w => respSpec b [1] w
    pure <| Json.mkObj [
      ("model", arr gToJson m), ("spec", arr gToJson s), ("c04", arr gToJson c4),
      ("dft_of_c04", arr gToJson (ws.map fun w => dftSum (fun n => pw w n) c4)),
      ("dft_of_model", arr gToJson dm), ("H", arr respToJson hs)]
  | "expo" =>
    -- complex exponential x_n = u^n (u = e^{jω} = 1/w) through the FIR filter b, n < len
    let b ← getList getG (← field j "b")
    let u ← getG (← field j "u")
    let n ← getNat (← field j "len")
    let xs := (List.range n).map fun k => pw u k
    let m := firRun b xs
    let w : GRat := 1 / u
    let h := evalDirect b w
    let s := xs.map fun x => h * x        -- valid from index len(b)-1 on
    pure <| Json.mkObj [
      ("xs", arr gToJson xs), ("model", arr gToJson m), ("steady", arr gToJson s),
      -- the run taken from the C04 slice and freq_response of the FIR filter as coded (Props.C12.steady_state_gauss)
      ("c04", arr gToJson (C04.fspec b [] 1 0 [] [] xs)), ("resp", respToJson (respOfFilter b [1] w)),
      ("H", gToJson h), ("order", natToJson (b.length - 1))]
  | "pole" =>
    -- denominator (1 - r z^-1)·q(z^-1), q_0 ≠ 0, probed at (the exact value of) the point the code evaluates at
    let b ← getList getG (← field j "b")
    let q ← getList getG (← field j "q")
    let r ← getG (← field j "r")
    let ws ← getList getG (← field j "ws")
    let a := convL [1, -r] q
    let spec (w : GRat) : Resp GRat :=
      if (1 - r * w) * evalDirect q w = 0 then .nan else .val (evalDirect b w / ((1 - r * w) * evalDirect q w))
    pure <| Json.mkObj [
      ("a", arr gToJson a),
      ("model", arr respToJson (elementwise (respOfFilter b a) ws)),
      ("spec", arr respToJson (elementwise spec ws))]
  | "dftlin" =>
    -- linearity of dft as coded: dft(c·x + y) against c·dft(x) + dft(y), all frequencies, both modes
    let xs ← getList getG (← field j "xs")
    let ys ← getList getG (← field j "ys")
    let c ← getG (← field j "c")
    let ws ← getList getG (← field j "ws")
    let norm ← getBool (← field j "normalize")
    let kern := fun (w : GRat) n => pw w n
    let comb := List.zipWith (fun x y => c * x + y)
    let m := dft kern (comb xs ys) ws norm
    let s : Option (List GRat) := match dft kern xs ws norm, dft kern ys ws norm with
      | some X, some Y => some (comb X Y)
      | _, _ => none
    let enc : Option (List GRat) → Json
      | none => Json.mkObj [("err", Json.str "ZeroDivisionError")]
      | some l => arr gToJson l
    pure <| Json.mkObj [("block", arr gToJson (comb xs ys)), ("model", enc m), ("spec", enc s)]
  | "hist" =>
    -- a history of list operations and uses over a heap of filters and (nested, shared) banks
    let heap ← getList getObj (← field j "objs")
    let ops ← getList getHOp (← field j "ops")
    let m := histModel (fun w => w) heap ops
    let s := histSpec (fun w => w) heap ops
    pure <| Json.mkObj [("steps", Json.arr (List.zipWith obsToJson m s))]
  | "call" =>
    -- t.freq_response(*args, **kwargs): every call shape, every kind of frequency object
    let t ← getBank (← field j "tree")
    let args ← getList getArg (← field j "args")
    let kw ← getList getKw (← field j "kwargs")
    let reads ← getNat (fieldD j "reads" (Json.int 0))
    pure <| Json.mkObj [
      ("model", outToJson reads (freqCall (fun w => w) t args kw)),
      ("spec", outToJson reads (freqCallSpecFull (fun w => w) t args kw)),
      ("bound", Json.bool (bindParams ["self", "freq"] args kw).isSome),
      -- where the wrapper finds the frequency object
      ("where", Json.str (if 1 < args.length then "pos" else if (kwGet "freq" kw).isSome then "kw" else "none")),
      ("ctor_model", Json.bool (bankCtor false t)),
      ("ctor_spec", Json.bool (bankCtor true t))]
  | "dftcall" =>
    -- dft(*args, **kwargs): python's binding, the default of `normalize`, kinds of block / frequency objects
    let blk ← getList getG (← field j "blk")
    let bk ← match ← getStr (← field j "bk") with
      | "sized" => pure BlkKind.sized
      | "once" => pure BlkKind.once
      | k => throw s!"C12 dftcall: unknown block kind {k}"
    let ws ← match optField j "ws" with
      | none => pure none
      | some v => do pure (some (← getList getG v))
    let args ← getList getDftV (← field j "args")
    let kw ← getList (fun e => match e with
      | Json.arr [k, v] => do pure (← getStr k, ← getDftV v)
      | _ => throw "C12 dftcall: bad keyword entry") (← field j "kwargs")
    match bindDft args kw with
    | none =>
      let e := Json.mkObj [("err", Json.str "TypeError")]
      pure <| Json.mkObj [("model", e), ("spec", e), ("bound", Json.bool false)]
    | some (.blk, .freqs, n) =>
      let norm ← match n with
        | none => pure none
        | some (.flag b) => pure (some b)
        | some _ => throw "C12 dftcall: normalize must be a truth value"
      pure <| Json.mkObj [
        ("model", exceptToJson (dftCall (fun (w : GRat) n => pw w n) bk blk ws norm)),
        ("spec", exceptToJson (dftCallSpec bk blk ws norm)),
        ("bound", Json.bool true)]
    | some _ => throw "C12 dftcall: blk / freqs must be bound to the block / the frequencies"
  | _ => throw s!"C12: unknown entry {entry}"

end ALV.Driver.C12
