import ALV.Common.Json
import ALV.Model.C12
import ALV.Spec.C12
namespace ALV.Driver.C12
open ALV ALV.J ALV.C12

/-- a Gaussian rational travels as `[re, im]` (or a bare rational) -/
def getG (j : Json) : Except String GRat :=
  match j with
  | Json.arr [r, i] => do pure ⟨← getRat r, ← getRat i⟩
  | _ => do pure ⟨← getRat j, 0⟩

def gToJson (g : GRat) : Json := Json.arr [ratToJson g.re, ratToJson g.im]

def respToJson : Resp GRat → Json
  | .valueError => Json.mkObj [("err", Json.str "ValueError")]
  | .typeError => Json.mkObj [("err", Json.str "TypeError")]
  | .nan => Json.str "nan"
  | .val v => gToJson v

def getFilt (j : Json) : Except String (List GRat × List GRat) := do
  pure (← getList getG (← field j "b"), ← getList getG (← field j "a"))

partial def getBank (j : Json) : Except String (Bank GRat) :=
  match j.getObjVal? "cascade", j.getObjVal? "parallel" with
  | some (Json.arr ms), _ => do pure (.cascade (← ms.mapM getBank))
  | _, some (Json.arr ms) => do pure (.parallel (← ms.mapM getBank))
  | _, _ => do
    let (b, a) ← getFilt j
    pure (.filt b a)

/-- does constructing the object raise?  (a leaf without denominator term) -/
partial def bankCtor (spec : Bool) : Bank GRat → Bool
  | .filt b a => if spec then a.all (fun c => decide (c = 0)) else (mkFilter b a).isNone
  | .cascade ms => ms.any (bankCtor spec)
  | .parallel ms => ms.any (bankCtor spec)

def optG : Option GRat → Json
  | none => Json.str "nan"
  | some v => gToJson v


/-! ### bank histories -/

def getObj (j : Json) : Except String (Obj GRat) :=
  match j.getObjVal? "cascade", j.getObjVal? "parallel" with
  | some ms, _ => do pure (.bank true (← getList getNat ms))
  | _, some ms => do pure (.bank false (← getList getNat ms))
  | _, _ => do
    let (b, a) ← getFilt j
    pure (.leaf b a)

def optInt (j : Json) (k : String) : Except String (Option Int) :=
  match optField j k with
  | none => pure none
  | some v => do pure (some (← getInt v))

def getHOp (j : Json) : Except String (HOp GRat GRat) := do
  let t ← getNat (← field j "t")
  let refs (k : String) : Except String (List Nat) := do getList getNat (← field j k)
  match ← getStr (← field j "op") with
  | "setitem" => pure (.upd t (.setitem (← getInt (← field j "i")) (← getNat (← field j "x"))))
  | "append" => pure (.upd t (.append (← getNat (← field j "x"))))
  | "insert" => pure (.upd t (.insert (← getInt (← field j "i")) (← getNat (← field j "x"))))
  | "extend" => pure (.upd t (.extend (← refs "xs")))
  | "iadd" => pure (.upd t (.iadd (← refs "xs")))
  | "imul" => pure (.upd t (.imul (← getInt (← field j "k"))))
  | "pop" => pure (.upd t (.pop (← optInt j "i")))
  | "delitem" => pure (.upd t (.delitem (← getInt (← field j "i"))))
  | "setslice" => pure (.upd t (.setslice (← optInt j "i") (← optInt j "j") (← refs "xs")))
  | "delslice" => pure (.upd t (.delslice (← optInt j "i") (← optInt j "j")))
  | "reverse" => pure (.upd t .reverse)
  | "clear" => pure (.upd t .clear)
  | "swap" => pure (.upd t (.swap (← getInt (← field j "i")) (← getInt (← field j "j"))))
  | "freq" => pure (.use t (.freq (← getList getG (← field j "ws"))))
  | "polys" => pure (.use t (.polys (← getList getG (← field j "ws"))))
  | "is_lti" => pure (.use t .isLti)
  | "call" => pure (.use t (.call (← getList getG (← field j "xs"))))
  | o => throw s!"C12 hist: unknown op {o}"

/-- one step of a history: the model's and the spec's observation side by side -/
def obsToJson (m s : Obs GRat) : Json :=
  match m, s with
  | .members ms, _ => Json.mkObj [("members", nats ms)]
  | .popped x ms, _ => Json.mkObj [("popped", natToJson x), ("members", nats ms)]
  | .fresh new ms, _ => Json.mkObj [("fresh", nats new), ("members", nats ms)]
  | .indexError, _ => Json.mkObj [("err", Json.str "IndexError")]
  | .stuck, _ => Json.mkObj [("stuck", Json.bool true)]
  | .resp rm, .resp rs => Json.mkObj [("model", arr respToJson rm), ("spec", arr respToJson rs)]
  | .bool bm, .bool bs => Json.mkObj [("model", Json.bool bm), ("spec", Json.bool bs)]
  | .out ym, .out ys => Json.mkObj [("model", optJson (arr gToJson) ym), ("spec", optJson (arr gToJson) ys)]
  | _, _ => Json.mkObj [("stuck", Json.bool true)]

def handle (entry : String) (j : Json) : Except String Json := do
  match entry with
  | "freq" =>
    -- one filter, a container of points w = exp(-j*freq)
    let (b, a) ← getFilt j
    let ws ← getList getG (← field j "ws")
    pure <| Json.mkObj [
      ("model", arr respToJson (elementwise (respOfFilter b a) ws)),
      ("spec", arr respToJson (elementwise (respSpec b a) ws)),
      ("den", arr gToJson (ws.map (evalDirect a))),
      -- does the constructor raise (independently of any frequency)?
      ("ctor_model", Json.bool (mkFilter b a).isNone),
      ("ctor_spec", Json.bool (a.all (fun c => decide (c = 0)))),
      ("horner", Json.bool (match mkFilter b a with
          | some f => f.num.all (fun t => decide (0 ≤ t.1))
          | none => false))]
  | "freqd" =>
    -- one filter given as {delay: coefficient} dicts (insertion order kept), a container of points
    let getTerm (t : Json) : Except String (Int × GRat) :=
      match t with
      | Json.arr [k, c] => do pure (← getInt k, ← getG c)
      | _ => throw "bad term"
    let num ← getList getTerm (← field j "bt")
    let den ← getList getTerm (← field j "at")
    let ws ← getList getG (← field j "ws")
    pure <| Json.mkObj [
      ("model", arr respToJson (elementwise (respOfTerms num den) ws)),
      ("spec", arr respToJson (elementwise (respSpecTerms num den) ws)),
      ("ctor_model", Json.bool (mkFilterTerms num den).isNone),
      ("ctor_spec", Json.bool (den.all (fun t => decide (t.2 = 0)))),
      ("horner", Json.bool (match mkFilterTerms num den with
          | some f => f.num.all (fun t => decide (0 ≤ t.1))
          | none => false))]
  | "bank" =>
    let kind ← getStr (← field j "kind")
    let bank ← getList getFilt (← field j "bank")
    let ws ← getList getG (← field j "ws")
    let (m, s) := if kind = "cascade"
      then (elementwise (cascadeResp bank) ws, elementwise (cascadeSpec bank) ws)
      else (elementwise (parallelResp bank) ws, elementwise (parallelSpec bank) ws)
    pure <| Json.mkObj [
      ("model", arr respToJson m), ("spec", arr respToJson s),
      ("ctor_model", Json.bool (bank.any fun f => (mkFilter f.1 f.2).isNone)),
      ("ctor_spec", Json.bool (bank.any fun f => f.2.all (fun c => decide (c = 0)))),
      ("dens", arr (fun w => arr (fun (f : List GRat × List GRat) => gToJson (evalDirect f.2 w)) bank) ws)]
  | "tree" =>
    let t ← getBank (← field j "tree")
    let ws ← getList getG (← field j "ws")
    pure <| Json.mkObj [
      ("model", arr respToJson (elementwise (fun w => Bank.resp w t) ws)),
      ("spec", arr respToJson (elementwise (fun w => Bank.spec w t) ws)),
      ("ctor_model", Json.bool (bankCtor false t)),
      ("ctor_spec", Json.bool (bankCtor true t))]
  | "dft" =>
    let blk ← getList getG (← field j "blk")
    let ws ← getList getG (← field j "ws")
    let norm ← getBool (← field j "normalize")
    let m := dft (fun (w : GRat) n => pw w n) blk ws norm
    let s : Option (List GRat) :=
      if norm ∧ blk.length = 0 ∧ ws ≠ [] then none else some (ws.map fun w => dftSpec w blk norm)
    let enc : Option (List GRat) → Json
      | none => Json.mkObj [("err", Json.str "ZeroDivisionError")]
      | some l => arr gToJson l
    pure <| Json.mkObj [("model", enc m), ("spec", enc s)]
  | "fir" =>
    -- time domain: FIR filter b on the input xs; optional steady-state check data
    let b ← getList getG (← field j "b")
    let xs ← getList getG (← field j "xs")
    let m := firRun b xs
    let s := firSpec b xs
    -- impulse response / DFT link: dft of the model output at the points ws (unnormalised)
    let ws ← getList getG (fieldD j "ws" (Json.arr []))
    let dm := ws.map fun w => dftSum (fun n => pw w n) m
    let hs := ws.map fun w => respSpec b [1] w
    pure <| Json.mkObj [
      ("model", arr gToJson m), ("spec", arr gToJson s),
      ("dft_of_model", arr gToJson dm), ("H", arr respToJson hs)]
  | "expo" =>
    -- complex exponential x_n = u^n (u = e^{jω} = 1/w) through the FIR filter b, n < len
    let b ← getList getG (← field j "b")
    let u ← getG (← field j "u")
    let n ← getNat (← field j "len")
    let xs := (List.range n).map fun k => pw u k
    let m := firRun b xs
    let w : GRat := 1 / u
    let h := evalDirect b w
    let s := xs.map fun x => h * x        -- valid from index len(b)-1 on
    pure <| Json.mkObj [
      ("xs", arr gToJson xs), ("model", arr gToJson m), ("steady", arr gToJson s),
      ("H", gToJson h), ("order", natToJson (b.length - 1))]
  | "hist" =>
    -- a history of list operations and uses over a heap of filters and (nested, shared) banks
    let heap ← getList getObj (← field j "objs")
    let ops ← getList getHOp (← field j "ops")
    let m := histModel (fun w => w) heap ops
    let s := histSpec (fun w => w) heap ops
    pure <| Json.mkObj [("steps", Json.arr (List.zipWith obsToJson m s))]
  | _ => throw s!"C12: unknown entry {entry}"

end ALV.Driver.C12
