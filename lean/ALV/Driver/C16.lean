import ALV.Common.Json
import ALV.Model.C16
import ALV.Model.C16Gen
import ALV.Spec.C16
namespace ALV.Driver.C16
open ALV ALV.J ALV.C16

/-- second item type: finite sequences under concatenation (Python tuples) — a `+` that is not
    commutative, so the ORDER in which the playing events are summed is visible -/
structure Seq where
  items : List Int
instance : Add Seq := ⟨fun a b => ⟨a.items ++ b.items⟩⟩

def obsJson {α : Type} (toJ : α → Json) : Obs α → Json
  | .ok => Json.str "ok"
  | .valueError => Json.mkObj [("err", Json.str "ValueError")]
  | .out v k => Json.mkObj [("out", toJ v), ("started", natToJson k)]
  | .stop => Json.str "stop"

def getOp {α : Type} (getItem : Json → Except String α) (j : Json) : Except String (Op α) := do
  let op ← getStr (← field j "op")
  match op with
  | "add" =>
    let d ← getRat (← field j "delta")
    let xs ← getList getItem (← field j "data")
    pure (.add d xs)
  | "next" => pure .next
  | "keep" => pure (.setKeep (← getBool (← field j "v")))
  | _ => throw s!"C16: unknown op {op}"

def getCOp (j : Json) : Except String (COp Json) := do
  let op ← getStr (← field j "op")
  match op with
  | "set" => pure (.set (← field j "v"))
  | "read" => pure .read
  | _ => throw s!"C16: unknown control op {op}"

/-- a read shows `{"v": value}`, an assignment shows `null` -/
def rd (v : Json) : Json := Json.mkObj [("v", v)]

/-- a history on one Streamix: after every operation the generator-level model's observation with
    the sizes of `_not_playing` / `_playing` and the frame's local `count` whenever the generator
    is suspended at the yield; the fused machine's and the spec's observations; at the end the
    spec's log (start of every accepted event). -/
def runStreamix {α : Type} [Add α] (getItem : Json → Except String α) (toJ : α → Json)
    (zero : α) (j : Json) : Except String Json := do
  let keep ← getBool (fieldD j "keep" (Json.bool false))
  let ops ← getList (getOp getItem) (← field j "ops")
  let tr := ptrace zero (PState.init keep : PState α) ops
  let m := tr.map fun (st, o) =>
    let cnt := if st.suspended && !st.ended then ratToJson st.count else Json.null
    Json.arr [obsJson toJ o, natToJson st.notPlaying.length, natToJson st.playing.length, cnt]
  let mr := mrun zero (MState.init keep : MState α) ops
  let sr := srun zero (SState.init keep : SState α) ops
  pure <| Json.mkObj [
    ("model", Json.arr m),
    ("fused", arr (obsJson toJ) mr.2),
    ("spec", arr (obsJson toJ) sr.2),
    ("starts", nats (sr.1.evs.map (·.start))),
    ("n", natToJson sr.1.n),
    ("length", natToJson (mixLength sr.1.evs))]

def handle (entry : String) (j : Json) : Except String Json := do
  match entry with
  | "streamix" =>
    let zero ← getRat (fieldD j "zero" (Json.int 0))
    runStreamix getRat ratToJson zero j
  | "streamix_seq" =>          -- items are one-element tuples, zero a tuple, `+` is concatenation
    let zero ← getList getInt (fieldD j "zero" (Json.arr []))
    runStreamix (fun x => do pure (⟨[← getInt x]⟩ : Seq)) (fun (v : Seq) => ints v.items) ⟨zero⟩ j
  | "control" =>
    let init ← field j "init"
    let ops ← getList getCOp (← field j "ops")
    pure <| Json.mkObj [
      ("model", arr (optJson rd) (crun init ops)),
      ("spec", arr (optJson rd) (cspec init ops))]
  | _ => throw s!"C16: unknown entry {entry}"

end ALV.Driver.C16
