import ALV.Common.Json
namespace ALV.Driver.C16
open ALV ALV.J

/-- stub: the C16 slice is not built yet -/
def handle (entry : String) (_j : Json) : Except String Json :=
  throw s!"C16: unknown entry {entry}"

end ALV.Driver.C16
