import ALV.Common.Json
import ALV.Model.C16
import ALV.Model.C16Gen
import ALV.Spec.C16
namespace ALV.Driver.C16
open ALV ALV.J ALV.C16

def obsJson : Obs Rat → Json
  | .ok => Json.str "ok"
  | .valueError => Json.mkObj [("err", Json.str "ValueError")]
  | .out v k => Json.mkObj [("out", ratToJson v), ("started", natToJson k)]
  | .stop => Json.str "stop"

def getOp (j : Json) : Except String (Op Rat) := do
  let op ← getStr (← field j "op")
  match op with
  | "add" =>
    let d ← getRat (← field j "delta")
    let xs ← getList getRat (← field j "data")
    pure (.add d xs)
  | "next" => pure .next
  | "keep" => pure (.setKeep (← getBool (← field j "v")))
  | _ => throw s!"C16: unknown op {op}"

def getCOp (j : Json) : Except String (COp Json) := do
  let op ← getStr (← field j "op")
  match op with
  | "set" => pure (.set (← field j "v"))
  | "read" => pure .read
  | _ => throw s!"C16: unknown control op {op}"

/-- a read shows `{"v": value}`, an assignment shows `null` -/
def rd (v : Json) : Json := Json.mkObj [("v", v)]

/-- a history on one Streamix: after every operation the model observation with the sizes of
    `_not_playing` / `_playing` and the `count` the suspended generator holds, and the spec
    observation; at the end the spec's log (start of every accepted event). -/
def handle (entry : String) (j : Json) : Except String Json := do
  match entry with
  | "streamix" =>
    let keep ← getBool (fieldD j "keep" (Json.bool false))
    let zero ← getRat (fieldD j "zero" (Json.int 0))
    let ops ← getList getOp (← field j "ops")
    -- generator-level machine: what the caller sees, the sizes of the two containers, and the
    -- frame's local `count` whenever the generator is suspended at the yield
    let tr := ptrace zero (PState.init keep : PState Rat) ops
    let m := tr.map fun (st, o) =>
      let cnt := if st.suspended && !st.ended then ratToJson st.count else Json.null
      Json.arr [obsJson o, natToJson st.notPlaying.length, natToJson st.playing.length, cnt]
    let mr := mrun zero (MState.init keep : MState Rat) ops
    let sr := srun zero (SState.init keep : SState Rat) ops
    pure <| Json.mkObj [
      ("model", Json.arr m),
      ("fused", arr obsJson mr.2),
      ("spec", arr obsJson sr.2),
      ("starts", nats (sr.1.evs.map (·.start))),
      ("n", natToJson sr.1.n),
      ("length", natToJson (mixLength sr.1.evs))]
  | "control" =>
    let init ← field j "init"
    let ops ← getList getCOp (← field j "ops")
    pure <| Json.mkObj [
      ("model", arr (optJson rd) (crun init ops)),
      ("spec", arr (optJson rd) (cspec init ops))]
  | _ => throw s!"C16: unknown entry {entry}"

end ALV.Driver.C16
