import ALV.Common.Json
import ALV.Model.C16
import ALV.Model.C16Gen
import ALV.Model.C16X
import ALV.Model.C16K
import ALV.Spec.C16K
import ALV.Spec.C16
namespace ALV.Driver.C16
open ALV ALV.J ALV.C16

/-- second item type: finite sequences under concatenation (Python tuples) — a `+` that is not
    commutative, so the ORDER in which the playing events are summed is visible -/
structure Seq where
  items : List Int
instance : Add Seq := ⟨fun a b => ⟨a.items ++ b.items⟩⟩

def obsJson {α : Type} (toJ : α → Json) : Obs α → Json
  | .ok => Json.str "ok"
  | .valueError => Json.mkObj [("err", Json.str "ValueError")]
  | .out v k => Json.mkObj [("out", toJ v), ("started", natToJson k)]
  | .stop => Json.str "stop"

def getOp {α : Type} (getItem : Json → Except String α) (j : Json) : Except String (Op α) := do
  let op ← getStr (← field j "op")
  match op with
  | "add" =>
    let d ← getRat (← field j "delta")
    let xs ← getList getItem (← field j "data")
    pure (.add d xs)
  | "next" => pure .next
  | "keep" => pure (.setKeep (← getBool (← field j "v")))
  | _ => throw s!"C16: unknown op {op}"

def getCOp (j : Json) : Except String (COp Json) := do
  let op ← getStr (← field j "op")
  match op with
  | "set" => pure (.set (← field j "v"))
  | "read" => pure .read
  | _ => throw s!"C16: unknown control op {op}"

/-- a read shows `{"v": value}`, an assignment shows `null` -/
def rd (v : Json) : Json := Json.mkObj [("v", v)]

/-- a history on one Streamix: after every operation the generator-level model's observation with
    the sizes of `_not_playing` / `_playing` and the frame's local `count` whenever the generator
    is suspended at the yield; the fused machine's and the spec's observations; at the end the
    spec's log (start of every accepted event). -/
def runStreamix {α : Type} [Add α] (getItem : Json → Except String α) (toJ : α → Json)
    (zero : α) (j : Json) : Except String Json := do
  let keep ← getBool (fieldD j "keep" (Json.bool false))
  let ops ← getList (getOp getItem) (← field j "ops")
  let tr := ptrace zero (PState.init keep : PState α) ops
  let m := tr.map fun (st, o) =>
    let cnt := if st.suspended && !st.ended then ratToJson st.count else Json.null
    Json.arr [obsJson toJ o, natToJson st.notPlaying.length, natToJson st.playing.length, cnt]
  let mr := mrun zero (MState.init keep : MState α) ops
  let sr := srun zero (SState.init keep : SState α) ops
  pure <| Json.mkObj [
    ("model", Json.arr m),
    ("fused", arr (obsJson toJ) mr.2),
    ("spec", arr (obsJson toJ) sr.2),
    ("starts", nats (sr.1.evs.map (·.start))),
    ("n", natToJson sr.1.n),
    ("length", natToJson (mixLength sr.1.evs))]

/-! ### the machine with exceptions (entry `streamix_x`) -/

/-- Python values of the mixed regime: numbers, tuples of ints (`+` = concatenation), `None` -/
inductive XVal where
  | num (r : Rat)
  | seq (l : List Int)
  | none

/-- `a + b` of Python on these values: numbers add, tuples concatenate, anything else is a TypeError -/
instance : XAdd String XVal where
  xadd
    | .num a, .num b => .ok (.num (a + b))
    | .seq a, .seq b => .ok (.seq (a ++ b))
    | _, _ => .error "TypeError"

def xvalJson : XVal → Json
  | .num r => ratToJson r
  | .seq l => ints l
  | .none => Json.null

def getXVal : Json → Except String XVal
  | Json.null => pure .none
  | Json.arr l => do pure (.seq (← l.mapM getInt))
  | j => do pure (.num (← getRat j))

/-- an item of an event: a value, or `{"raise": kind}` — `next(snd)` raises there -/
def getXItem (j : Json) : Except String (Except String XVal) :=
  match optField j "raise" with
  | some k => do pure (.error (← getStr k))
  | none => do pure (.ok (← getXVal j))

def xobsJson : XObs String XVal → Json
  | .ok => Json.str "ok"
  | .valueError => Json.mkObj [("err", Json.str "ValueError")]
  | .out v k => Json.mkObj [("out", xvalJson v), ("started", natToJson k)]
  | .stop => Json.str "stop"
  | .raised e => Json.mkObj [("err", Json.str e)]

/-- everything a mixer still yields, as the items of an event of ANOTHER mixer: values until the
    end, or until the `next` that raises (then the inner generator is finished) -/
def drainX (zero : XVal) : Nat → PState (Except String XVal) → List (Except String XVal)
  | 0, _ => []
  | fuel + 1, s =>
    match xnext zero s with
    | (s', .out v _) => .ok v :: drainX zero fuel s'
    | (_, .raised e) => [.error e]
    | _ => []

mutual
/-- operations; the data of an `add` may be `{"mix": {keep, zero, ops}}`: a closed inner mixer
    (keep off, never touched again) whose remaining output is the event -/
partial def getXOp (j : Json) : Except String (XOp String XVal) := do
  let op ← getStr (← field j "op")
  match op with
  | "add" =>
    let d ← getRat (← field j "delta")
    match optField j "mix" with
    | some m =>
      let (zero, s, fuel) ← innerX m
      pure (.add d (drainX zero fuel s))
    | none =>
      let xs ← getList getXItem (← field j "data")
      pure (.add d xs)
  | "addfail" => pure (.addFail (← getRat (← field j "delta")) (← getStr (← field j "err")))
  | "next" => pure .next
  | "keep" => pure (.setKeep (← getBool (← field j "v")))
  | _ => throw s!"C16: unknown op {op}"

/-- the inner mixer after its own history, and a bound on what it still yields -/
partial def innerX (m : Json) : Except String (XVal × PState (Except String XVal) × Nat) := do
  let keep ← getBool (fieldD m "keep" (Json.bool false))
  let zero ← getXVal (fieldD m "zero" (Json.int 0))
  let ops ← getList getXOp (← field m "ops")
  let r := xrun zero (PState.init keep) ops
  if r.1.keep then throw "C16: an inner mixer must have keep off"
  let sr := srun (Except.ok zero : Except String XVal) (SState.init keep) (erase ops)
  pure (zero, r.1, mixLength sr.1.evs + 2)
end

/-- a history with failing operations on one Streamix: the machine with exceptions step by step
    (observation, container sizes, the frame's count while suspended), and what the specification
    shows on the history without the failed adds, read through `xview` -/
def runStreamixX (j : Json) : Except String Json := do
  let keep ← getBool (fieldD j "keep" (Json.bool false))
  let zero ← getXVal (fieldD j "zero" (Json.int 0))
  let ops ← getList getXOp (← field j "ops")
  let tr := xtrace zero (PState.init keep) ops
  let m := tr.map fun (st, o) =>
    let cnt := if st.suspended && !st.ended then ratToJson st.count else Json.null
    Json.arr [xobsJson o, natToJson st.notPlaying.length, natToJson st.playing.length, cnt]
  let sr := srun (Except.ok zero : Except String XVal) (SState.init keep) (erase ops)
  pure <| Json.mkObj [
    ("model", Json.arr m),
    ("spec", arr xobsJson (xview ops sr.2)),
    ("starts", nats (sr.1.evs.map (·.start))),
    ("T", ratToJson sr.1.T),
    ("accepted", ratToJson (xAcceptedTime ops)),
    ("n", natToJson sr.1.n),
    ("length", natToJson (mixLength sr.1.evs))]


/-! ### typed numbers (entry `streamix_k`) and a mutable list zero (entry `streamix_mut`) -/

def kindOfStr : String → Except String Kind
  | "bool" => pure .bool | "int" => pure .int | "frac" => pure .frac | "float" => pure .float
  | "complex" => pure .complex | k => throw s!"C16: unknown kind {k}"

def kindStr : Kind → String
  | .bool => "bool" | .int => "int" | .frac => "Fraction" | .float => "float" | .complex => "complex"

/-- `{"k": kind, "v": re, "i": im}` -/
def getPyNum (j : Json) : Except String PyNum := do
  let k ← kindOfStr (← getStr (← field j "k"))
  let re ← getRat (← field j "v")
  let im ← getRat (fieldD j "i" (Json.int 0))
  pure ⟨k, re, im⟩

def pyNumJson (v : PyNum) : Json :=
  Json.mkObj [("t", Json.str (kindStr v.kind)), ("v", ratToJson v.re), ("i", ratToJson v.im)]

/-- the traced generator-level run with the IDENTITIES in `_not_playing` / `_playing` after every
    operation (object number = rank of its `add` among the accepted ones), and the spec's observations -/
def runStreamixIds {α : Type} [Add α] (getItem : Json → Except String α) (toJ : α → Json)
    (zero : α) (j : Json) : Except String Json := do
  let keep ← getBool (fieldD j "keep" (Json.bool false))
  let ops ← getList (getOp getItem) (← field j "ops")
  let tr := ptrace zero (PState.init keep : PState α) ops
  let m := tr.map fun (st, o) =>
    let cnt := if st.suspended && !st.ended then ratToJson st.count else Json.null
    Json.arr [obsJson toJ o, nats (st.notPlaying.map (·.2.id)), nats (st.playing.map (·.id)), cnt]
  let sr := srun zero (SState.init keep : SState α) ops
  pure <| Json.mkObj [
    ("model", Json.arr m),
    ("spec", arr (obsJson toJ) sr.2),
    ("starts", nats (sr.1.evs.map (·.start))),
    ("length", natToJson (mixLength sr.1.evs))]

/-- a mixer whose zero is a Python list: what the machine with the mutable cell shows (`krun`), what
    the spec with the cell shows (`ksrun`), and what the property asks for (`srun`: zero + items due) -/
def runStreamixMut (j : Json) : Except String Json := do
  let keep ← getBool (fieldD j "keep" (Json.bool false))
  let zero : PyList := ⟨← getList getInt (fieldD j "zero" (Json.arr []))⟩
  let getItem : Json → Except String PyList := fun x => do pure ⟨← getList getInt x⟩
  let toJ : PyList → Json := fun v => ints v.items
  let ops ← getList (getOp getItem) (← field j "ops")
  let kr := krun zero (PState.init keep) ops
  let sr := srun zero (SState.init keep) ops
  pure <| Json.mkObj [
    ("mut", arr (obsJson toJ) kr.2.2),
    ("mutspec", arr (obsJson toJ) (ksrun zero (SState.init keep) ops)),
    ("cell", toJ kr.1),
    ("spec", arr (obsJson toJ) sr.2)]

def handle (entry : String) (j : Json) : Except String Json := do
  match entry with
  | "streamix" =>
    let zero ← getRat (fieldD j "zero" (Json.int 0))
    runStreamix getRat ratToJson zero j
  | "streamix_seq" =>          -- items are one-element tuples, zero a tuple, `+` is concatenation
    let zero ← getList getInt (fieldD j "zero" (Json.arr []))
    runStreamix (fun x => do pure (⟨[← getInt x]⟩ : Seq)) (fun (v : Seq) => ints v.items) ⟨zero⟩ j
  | "streamix_k" =>            -- Python numbers with their type; identities of the containers
    let zero ← getPyNum (← field j "zero")
    runStreamixIds getPyNum pyNumJson zero j
  | "streamix_mut" => runStreamixMut j
  | "streamix_x" => runStreamixX j
  | "streamix_sys" =>          -- several mixers (their sources are independent copies): one payload each
    let ms ← getList runStreamixX (← field j "mixers")
    pure <| Json.mkObj [("mixers", Json.arr ms)]
  | "control" =>
    let init ← field j "init"
    let ops ← getList getCOp (← field j "ops")
    pure <| Json.mkObj [
      ("model", arr (optJson rd) (crun init ops)),
      ("spec", arr (optJson rd) (cspec init ops))]
  | _ => throw s!"C16: unknown entry {entry}"

end ALV.Driver.C16
