import ALV.Common.Json
import ALV.Model.C15
import ALV.Spec.C15
/-!
  Driver of C15.  A case is a whole history:
    {"entry":"mk", "ops":[["set",["a","b"],0],["del","a"],["get","b"],["gett",["b"]],
                          ["k2k","b"],["v2k",0],["len"]], "keys":["a","b","zz"], "vals":[0,1,9]}
    {"entry":"sd", "ops":[["set",["a"],0],["getattr","a"],["setattr","a",1],["setattr",null,1],
                          ["delattr","a"],["delattr",null],["default"],["call"],["del","a"]], …}
  Answer: for the model and for the spec, the result of every step and the public view of the
  state after every step, restricted to the universe `keys` / `vals`.
  Keys are strings, values integers (the integer is the EQUALITY CLASS of the value / strategy: the
  tie assigns equal-but-not-identical objects of one class; the model never looks at identity).
  Rejected operations (an operand cannot be hashed):
    mk: ["setu",keys]  ["setbk",before,after,v]  ["bad"]      sd: ["setref",deleted]  ["rej"]
  Calls with a key argument of any shape (classified by `Call.toOp` / `SCall.toOp`):
    ["kc", kind, arg, value?]   kind: "set" | "get" | "del" | "k2k" | "v2k" | "in" | "dget"
    arg: {"s": item} (a single object) | {"t": [item, …]} (a tuple);  item: "name" | null (unhashable)
    | a number (sd: a hashable non-string);  value: an integer | null (unhashable)
  "init": [[keys, v], …]  (mk) the arguments of the constructor, collapsed by `dictOf`
  "view": "all" | "last" | {"every": n}  — after which steps the state is reported (results always).
-/
namespace ALV.Driver.C15
open ALV ALV.J ALV.C15

abbrev K := String
abbrev V := Int

def jKeys (t : List K) : Json := arr Json.str t

def jRes : Res K V → Json
  | .done => Json.null
  | .keyError => Json.mkObj [("err", Json.str "KeyError")]
  | .attrError => Json.mkObj [("err", Json.str "AttributeError")]
  | .notImpl => Json.str "NotImplemented"
  | .val v => Json.mkObj [("v", Json.int v)]
  | .keys t => Json.mkObj [("t", jKeys t)]
  | .num n => natToJson n
  | .rejected => Json.mkObj [("err", Json.str "Rejected")]
  | .bool b => Json.bool b
  | .pyNone => Json.str "None"

def jOptVal (o : Option V) : Json := jRes (Res.ofVal o)
def jOptKeys (o : Option (List K)) : Json := jRes (Res.ofKeys o)

def getKeys (j : Json) : Except String (List K) := getList getStr j

def getItem (j : Json) : Except String (KeyItem K) :=
  match j with
  | Json.null => pure .unhashable
  | Json.str s => pure (.ok s)
  | _ => throw "C15: key item must be a string or null"

def getArg (j : Json) : Except String (KeyArg K) :=
  match j.getObjVal? "s", j.getObjVal? "t" with
  | some i, _ => do pure (.single (← getItem i))
  | none, some t => do pure (.tuple (← getList getItem t))
  | _, _ => throw "C15: key argument must be {\"s\": item} or {\"t\": [items]}"

def getOptVal (j : Json) : Except String (Option V) :=
  match j with
  | Json.null => pure none
  | _ => do pure (some (← getInt j))

def parseCall (kind : String) (rest : List Json) : Except String (Call K V) := do
  match kind, rest with
  | "set", [a, v] => pure (.setitem (← getArg a) (← getOptVal v))
  | "get", [a] => pure (.getitem (← getArg a))
  | "del", [a] => pure (.delitem (← getArg a))
  | "k2k", [a] => pure (.key2keys (← getArg a))
  | "v2k", [v] => pure (.value2keys (← getOptVal v))
  | "in", [a] => pure (.contains (← getArg a))
  | "dget", [a] => pure (.dictGet (← getArg a))
  | "len", [] => pure .len
  | _, _ => throw s!"C15: bad mk call {kind}"

def parseOp (j : Json) : Except String (Op K V) := do
  let a ← getArr j
  match a with
  | Json.str "kc" :: Json.str kind :: rest => pure (← parseCall kind rest).toOp
  | [Json.str "set", ks, v] => pure (.set (← getKeys ks) (← getInt v))
  | [Json.str "del", k] => pure (.del (← getStr k))
  | [Json.str "get", k] => pure (.get (← getStr k))
  | [Json.str "gett", t] => pure (.getT (← getKeys t))
  | [Json.str "k2k", k] => pure (.key2keys (← getStr k))
  | [Json.str "v2k", v] => pure (.value2keys (← getInt v))
  | [Json.str "len"] => pure .len
  | [Json.str "setu", ks] => pure (.setUnhashable (← getKeys ks))
  | [Json.str "setbk", b, a, v] => pure (.setBadKey (← getKeys b) (← getKeys a) (← getInt v))
  | [Json.str "bad"] => pure .badOperand
  | _ => throw s!"C15: bad mk op {j.compress}"

def getAttrName (j : Json) : Except String (Option K) :=
  match j with
  | Json.null => pure none
  | Json.str s => pure (some s)
  | _ => throw "C15: attribute name must be a string or null (= default)"

def getSItem (j : Json) : Except String (SKeyItem K) :=
  match j with
  | Json.null => pure .unhashable
  | Json.str s => pure (.ok s)
  | Json.int _ => pure .nonStr
  | _ => throw "C15: name item must be a string, a number (non-string) or null"

def getSArg (j : Json) : Except String (SKeyArg K) :=
  match j.getObjVal? "s", j.getObjVal? "t" with
  | some i, _ => do pure (.single (← getSItem i))
  | none, some t => do pure (.tuple (← getList getSItem t))
  | _, _ => throw "C15: key argument must be {\"s\": item} or {\"t\": [items]}"

def parseSCall (kind : String) (rest : List Json) : Except String (SCall K V) := do
  match kind, rest with
  | "set", [a, v] => pure (.setitem (← getSArg a) (← getOptVal v))
  | "get", [a] => pure (.getitem (← getSArg a))
  | "del", [a] => pure (.delitem (← getSArg a))
  | "in", [a] => pure (.contains (← getSArg a))
  | "dget", [a] => pure (.dictGet (← getSArg a))
  | _, _ => throw s!"C15: bad sd call {kind}"

def parseSOp (j : Json) : Except String (SOp K V) := do
  let a ← getArr j
  match a with
  | Json.str "kc" :: Json.str kind :: rest => pure (← parseSCall kind rest).toOp
  | [Json.str "set", ks, v] => pure (.set (← getKeys ks) (← getInt v))
  | [Json.str "del", k] => pure (.del (← getStr k))
  | [Json.str "get", k] => pure (.get (← getStr k))
  | [Json.str "getattr", k] => pure (.getattr (← getStr k))
  | [Json.str "setattr", n, v] => pure (.setattr (← getAttrName n) (← getInt v))
  | [Json.str "delattr", n] => pure (.delattr (← getAttrName n))
  | [Json.str "default"] => pure .default
  | [Json.str "call"] => pure .call
  | [Json.str "len"] => pure .len
  | [Json.str "setref", ks] => pure (.setRefused (← getKeys ks))
  | [Json.str "rej"] => pure .rejected
  | _ => throw s!"C15: bad sd op {j.compress}"

def jPairs {α β} (f : α → Json) (g : β → Json) (l : List (α × β)) : Json :=
  arr (fun (p : α × β) => Json.arr [f p.1, g p.2]) l

/-- public (and private) view of the three-map model -/
def viewModel (s : St K V) (keys : List K) (vals : List V) (tuples : List (List K)) : List (String × Json) :=
  [ ("len", natToJson (len s)),
    ("iter", arr Json.int (iterValues s)),
    ("items", jPairs jKeys Json.int s.store),
    ("keys_dict", jPairs Json.str jKeys s.keysDict),
    ("inv_dict", jPairs Json.int jKeys s.invDict),
    ("get", arr (fun k => jOptVal (getitem s k)) keys),
    ("k2k", arr (fun k => jOptKeys (key2keys s k)) keys),
    ("v2k", arr (fun v => jKeys (value2keys s v)) vals),
    ("gett", arr (fun t => jOptVal (getTuple s t)) tuples) ]

def viewSpec (l : Log K V) (keys : List K) (vals : List V) (tuples : List (List K)) : List (String × Json) :=
  [ ("len", natToJson (specLen l)),
    ("iter", arr Json.int (specValues l)),
    ("items", jPairs jKeys Json.int (specItems l)),
    ("get", arr (fun k => jOptVal (specGet l k)) keys),
    ("k2k", arr (fun k => jOptKeys (specKey2keys l k)) keys),
    ("v2k", arr (fun v => jKeys (keysOf l v)) vals),
    ("gett", arr (fun t => jOptVal (specGetT l t)) tuples) ]

def jAttrName : Option K → Json
  | none => Json.null
  | some k => Json.str k

/-- how much of the state is reported after a step: 0 nothing, 1 light (the items), 2 everything.
    `every = 1`: everything after every step ("all");  `every = 0`: everything after the last step
    ("last");  `every = n ≥ 2`: light after every step, everything after every n-th and the last.
    A rejected operation is always followed by the full view. -/
def viewLevel (every i : Nat) (last rejected : Bool) : Nat :=
  if last || rejected || every == 1 || (every != 0 && (i + 1) % every == 0) then 2
  else if every == 0 then 0 else 1

def Op.isRejected : Op K V → Bool
  | .setUnhashable _ | .setBadKey _ _ _ | .badOperand => true
  | _ => false

def SOp.isRejected : SOp K V → Bool
  | .setRefused _ | .rejected => true
  | _ => false

/-- is the JSON operation a call with a key argument of any shape (`["kc", …]`)?  Such a step is always
    followed by the full view -/
def isKeyCall (j : Json) : Bool :=
  match j with
  | Json.arr (Json.str "kc" :: _) => true
  | _ => false

def traceMK (every : Nat) (keys : List K) (vals : List V) (tuples : List (List K)) (i : Nat) :
    St K V → Log K V → List (Op K V × Bool) → List Json × List Json
  | _, _, [] => ([], [])
  | s, l, (op, full) :: ops =>
    let m := step s op
    let p := specStep l op
    let t := traceMK every keys vals tuples (i + 1) m.1 p.1 ops
    let v := viewLevel every i ops.isEmpty (full || Op.isRejected op)
    (Json.mkObj (("res", jRes m.2) :: (if v == 2 then viewModel m.1 keys vals tuples
        else if v == 1 then [("items", jPairs jKeys Json.int m.1.store)] else [])) :: t.1,
     Json.mkObj (("res", jRes p.2) :: (if v == 2 then viewSpec p.1 keys vals tuples
        else if v == 1 then [("items", jPairs jKeys Json.int (specItems p.1))] else [])) :: t.2)

def viewSDModel (s : SD K V) (keys : List K) (vals : List V) (tuples : List (List K)) : List (String × Json) :=
  ("attrs", jPairs jAttrName Json.int s.attrs)
    :: ("default", jRes (Res.ofDefault (sdDefault s)))
    :: ("sditer", arr Json.int (sdIter s))
    :: ("getattr", arr (fun k => match sdGetattr s (some k) with
          | some v => jRes (.val v) | none => jRes .attrError) keys)
    :: viewModel s.mkd keys vals tuples

def viewSDSpec (g : SDSpec K V) (keys : List K) (vals : List V) (tuples : List (List K)) : List (String × Json) :=
  ("attrs", jPairs Json.str Json.int g.attr)
    :: ("default", jRes (Res.ofDefault g.default))
    :: ("getattr", arr (fun k => match dget g.attr k with
          | some v => jRes (.val v) | none => jRes .attrError) keys)
    :: viewSpec g.log keys vals tuples

def traceSD (every : Nat) (keys : List K) (vals : List V) (tuples : List (List K)) (i : Nat) :
    SD K V → SDSpec K V → List (SOp K V × Bool) → List Json × List Json
  | _, _, [] => ([], [])
  | s, g, (op, full) :: ops =>
    let m := sdStep s op
    let p := sdSpecStep g op
    let t := traceSD every keys vals tuples (i + 1) m.1 p.1 ops
    let v := viewLevel every i ops.isEmpty (full || SOp.isRejected op)
    (Json.mkObj (("res", jRes m.2) :: (if v == 2 then viewSDModel m.1 keys vals tuples
        else if v == 1 then [("items", jPairs jKeys Json.int m.1.mkd.store),
                             ("attrs", jPairs jAttrName Json.int m.1.attrs),
                             ("default", jRes (Res.ofDefault (sdDefault m.1)))] else [])) :: t.1,
     Json.mkObj (("res", jRes p.2) :: (if v == 2 then viewSDSpec p.1 keys vals tuples
        else if v == 1 then [("items", jPairs jKeys Json.int (specItems p.1.log)),
                             ("attrs", jPairs Json.str Json.int p.1.attr),
                             ("default", jRes (Res.ofDefault p.1.default))] else [])) :: t.2)

/-! entry `sdn`: StrategyDict histories in which the NAME `"default"` is used (`sd["default"] = v`,
    `del sd["default"]`, `del sd.default` while it is stored) — outside the property, run as coded
    (`sdSetDefaultName`, `sdDelDefaultName`, `sdDelattrDefaultName`); model only, the property has no opinion -/

inductive XOp where
  | std (op : SOp K V)
  | setdn (v : V)
  | deldn
  | delattrdn

def dnKey : K := "default"

def parseXOp (j : Json) : Except String XOp := do
  match ← getArr j with
  | [Json.str "set", Json.arr [Json.str "default"], v] => pure (.setdn (← getInt v))
  | [Json.str "del", Json.str "default"] => pure .deldn
  | [Json.str "delattr", Json.null] => pure .delattrdn
  | _ => pure (.std (← parseSOp j))

def xStep (s : SD K V) : XOp → SD K V × Res K V
  | .std op => sdStep s op
  | .setdn v => sdSetDefaultName s dnKey v
  | .deldn => sdDelDefaultName s dnKey
  | .delattrdn => sdDelattrDefaultName s dnKey

def traceX (keys : List K) (vals : List V) (tuples : List (List K)) : SD K V → List XOp → List Json
  | _, [] => []
  | s, op :: ops =>
    let m := xStep s op
    Json.mkObj (("res", jRes m.2) :: viewSDModel m.1 keys vals tuples) :: traceX keys vals tuples m.1 ops

def handle (entry : String) (j : Json) : Except String Json := do
  let keys ← getKeys (← field j "keys")
  let vals ← getList getInt (← field j "vals")
  let tuples ← match j.getObjVal? "tuples" with
    | some t => getList getKeys t
    | none => pure []
  let every ← match j.getObjVal? "view" with
    | some (Json.str "last") => pure 0
    | some (Json.str "all") => pure 1
    | none => pure 1
    | some o => getNat (← field o "every")
  match entry with
  | "mk" =>
    let jops ← getArr (← field j "ops")
    let ops ← getList parseOp (← field j "ops")
    let init ← match j.getObjVal? "init" with
      | some a => getList (fun p => do
          match ← getArr p with
          | [ks, v] => pure ((← getKeys ks), (← getInt v))
          | _ => throw "C15: init pair must be [keys, value]") a
      | none => pure []
    let s0 : St K V := ofPairs init
    let l0 : Log K V := (specRun [] (ctorOps init)).1
    let t := traceMK every keys vals tuples 0 s0 l0 (ops.zip (jops.map isKeyCall))
    let last := keys.map fun k => jOptVal (lastAssigned k (ctorOps init ++ ops) none)
    pure <| Json.mkObj [("model", Json.arr t.1), ("spec", Json.arr t.2), ("last", Json.arr last)]
  | "sd" =>
    let jops ← getArr (← field j "ops")
    let ops ← getList parseSOp (← field j "ops")
    let t := traceSD every keys vals tuples 0 (SD.empty) ({} : SDSpec K V) (ops.zip (jops.map isKeyCall))
    -- "sd[k] is the last strategy assigned to k" read off the history alone (C15.37); `null` for a name
    -- that the history deletes through its attribute (`del sd.k`: state dependent, excluded there)
    let last := keys.map fun k =>
      if ops.any (fun op => match op with | .delattr (some k') => k' == k | _ => false) then Json.null
      else jOptVal (sdLastAssigned k ops none)
    pure <| Json.mkObj [("model", Json.arr t.1), ("spec", Json.arr t.2), ("last", Json.arr last)]
  | "sdn" =>
    let ops ← getList parseXOp (← field j "ops")
    pure <| Json.mkObj [("model", Json.arr (traceX keys vals tuples SD.empty ops))]
  | _ => throw s!"C15: unknown entry {entry}"

end ALV.Driver.C15
