import ALV.Common.Json
namespace ALV.Driver.C15
open ALV ALV.J

/-- stub: the C15 slice is not built yet -/
def handle (entry : String) (_j : Json) : Except String Json :=
  throw s!"C15: unknown entry {entry}"

end ALV.Driver.C15
