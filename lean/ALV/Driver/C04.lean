import ALV.Common.Json
import ALV.Model.C04
import ALV.Spec.C04
import ALV.Spec.C04Hist
import ALV.Model.C04Cx
import ALV.Model.C04Mem
import ALV.Spec.C04Ext
namespace ALV.Driver.C04
open ALV ALV.J ALV.C04

/-! Driver for C04.  Numbers are exact rationals.

  entry "call":
    num, den : [[power, coeff], …]   raw pairs given to `ZFilter(num, den)` (a list is sent as
               enumerate(list)); mem : null | {"kind":"iter","vals":[…]} |
               {"kind":"gen","base":q,"step":q} | {"kind":"callable","form":"arith"|"arithrev",
               "base":q,"step":q} | {"kind":"callable","form":"fixed","vals":[…]};
    zero : q ; xs : [q …]
  payload: {"model": {"err":kind} | {"out":[…],"ir":IR,"b":[…],"a":[…],"mem":[…]},
            "spec" : {"err":kind} | {"out":[…]}}
            with "fast": true the generated loop is not executed statement by statement (O(order²) per
            sample) and "out" is left out of "model": the caller compares with "spec", which is
            the same list by theorem filterCall_eq_specCall
  entry "compile":  b, a : dense lists, zero  →  {"ir": IR}
  entries "gcall" / "gcascade" / "gcompile": the same over the Gaussian rationals ℚ(i) (`GRat`): a number
                    travels as a bare rational or as [re, im]; it is printed bare when im = 0.
  call shapes:      in "call" / "gcall" the fields "den", "mem", "zero" may be null or absent: the argument
                    was left out (`ZFilter(num)`, `filt(seq)`); model = `filterCallD`, spec = `specCallD`.
  entry "cascade":  num, den, zero, xs as for "call"; mems : [mem …] one per stage (null = None):
                    f(f(…f(xs, m₁)…), m_k) with ONE filter object
  entry "hist":  ops : [["nums",c,[q…]] | ["coefs",c,[[power,q]…]] | ["build",f,n,d] |
                        ["call",s,f,x,m|null,zero] | ["take",s,k]]
    payload: {"model":[obs…], "spec":[obs…]}, one observation per op:
      {"k":"stored"} | {"k":"ok"} | {"k":"err","err":kind} | {"k":"unbound"} |
      {"k":"outs","ys":[…],"ended":bool}  (spec: + "seen": the input items delivered so far);
    the model's observation of a successful call also carries "ir","b","a","mem" (the source it
    generates at that call, the dense coefficients and the private memory list)
-/

/-- how numbers of type `α` travel -/
structure Codec (α : Type) where
  get : Json → Except String α
  put : α → Json
  ofNat : Nat → α

def ratCodec : Codec Rat := ⟨getRat, ratToJson, fun n => (n : Rat)⟩

def getG (j : Json) : Except String GRat :=
  match j with
  | Json.arr [r, i] => do pure ⟨← getRat r, ← getRat i⟩
  | _ => do pure ⟨← getRat j, 0⟩

def gToJson (g : GRat) : Json :=
  if g.im = 0 then ratToJson g.re else Json.arr [ratToJson g.re, ratToJson g.im]

def gaussCodec : Codec GRat := ⟨getG, gToJson, fun n => ⟨(n : Rat), 0⟩⟩

section generic
variable {α : Type} [Add α] [Mul α] [Sub α] [Neg α] [Div α] [OfNat α 0] [OfNat α 1] [DecidableEq α]
variable (cd : Codec α)

def getPairOf (j : Json) : Except String (Int × α) := do
  match j with
  | Json.arr [k, v] => pure (← getInt k, ← cd.get v)
  | _ => throw s!"expected [power, coeff], got {j.compress}"

/-- a field that may be left out (absent or null) -/
def optNull (j : Json) (name : String) : Option Json :=
  match optField j name with
  | some Json.null => none
  | r => r

def getMemOf (j : Json) : Except String (Mem α) := do
  match optNull j "mem" with
  | none => pure Mem.none
  | some m =>
    let kind ← getStr (← field m "kind")
    match kind with
    | "iter" => pure (Mem.iter (← getList cd.get (← field m "vals")))
    | "gen" =>
      let base ← cd.get (← field m "base")
      let step ← cd.get (← field m "step")
      pure (Mem.gen (fun (i : Nat) => base + cd.ofNat i * step))
    | "callable" =>
      let form ← getStr (← field m "form")
      match form with
      | "fixed" =>
        let vals ← getList cd.get (← field m "vals")
        pure (Mem.callable (fun _ => vals))
      | "arith" =>
        let base ← cd.get (← field m "base")
        let step ← cd.get (← field m "step")
        pure (Mem.callable (fun n => (List.range n).map (fun (i : Nat) => base + cd.ofNat i * step)))
      | "arithrev" =>
        let base ← cd.get (← field m "base")
        let step ← cd.get (← field m "step")
        pure (Mem.callable (fun n => (List.range n).map (fun (i : Nat) => base + cd.ofNat (n - 1 - i) * step)))
      | _ => throw s!"unknown callable form {form}"
    | _ => throw s!"unknown memory kind {kind}"

def varJson : Var → List Json
  | .d i => [Json.str "d", natToJson i]
  | .m i => [Json.str "m", natToJson i]

/-- canonical atoms: ["var",v,i] | ["neg",v,i] | ["mul",coef,v,i]; "-{c} * m" is printed with its
folded constant `-c` (the Python parser cannot tell `-3 * m1` from `{-3} * m1` either) -/
def atomJsonOf : Atom α → Json
  | .var v => Json.arr (Json.str "var" :: varJson v)
  | .neg v => Json.arr (Json.str "neg" :: varJson v)
  | .mul c v => Json.arr (Json.str "mul" :: cd.put c :: varJson v)
  | .negMul c v => Json.arr (Json.str "mul" :: cd.put (-c) :: varJson v)

def gainJsonOf : Gain α → Json
  | .one => Json.arr [Json.str "one"]
  | .negOne => Json.arr [Json.str "negone"]
  | .div g => Json.arr [Json.str "div", cd.put g]

def irJsonOf : IR α → Json
  | .constLoop z => Json.mkObj [("kind", Json.str "const"), ("zero", cd.put z)]
  | .loop nm nd sum gain shifts => Json.mkObj [
      ("kind", Json.str "loop"), ("nm", natToJson nm), ("nd", natToJson nd),
      ("sum", arr (atomJsonOf cd) sum), ("gain", gainJsonOf cd gain),
      ("shifts", arr (fun (ts : Var × Var) => Json.arr (varJson ts.1 ++ varJson ts.2)) shifts)]

def putList (l : List α) : Json := arr cd.put l

/-- a constructor argument: [[power, coeff] …] (dict / Poly / enumerate of a list) | {"number": q} |
{"list": [q …]} -/
def getCoefArg (j : Json) : Except String (CoefArg α) := do
  match j with
  | Json.arr _ => (CoefArg.dict <$> getList (getPairOf cd) j)
  | _ =>
    match optField j "number" with
    | some c => (CoefArg.number <$> cd.get c)
    | none => (CoefArg.list <$> getList cd.get (← field j "list"))

/-- how an ITERATOR memory is read at the call (`readMem`): items kept, items pulled, the next two items the
caller can still get; a callable memory: the sizes it is asked for -/
def memReadJson (zero : α) (lm : Nat) (mem : Mem α) : List (String × Json) :=
  (match mem.src with
   | none => []
   | some s =>
     let r := readMem lm s
     [("memread", Json.mkObj [("kept", putList cd r.1), ("pulled", natToJson r.2.1),
        ("next", putList cd (Src.peek 2 r.2.2)), ("mem", putList cd (memoryFromSrc zero lm s))])])
  ++ [("asked", arr natToJson (memAsked lm mem))]

/-- the free response, shown when the numerator is zero and there is feedback -/
def freeJson (b a : List α) (memory : List α) (n : Nat) : List (String × Json) :=
  if b.all (fun c => c == 0) && !(a.tail.all (fun c => c == 0)) then
    [("free", putList cd (freeResp a.tail (a.headD 0) memory n))]
  else []

def errJson' (e : Err) : Json := Json.mkObj [("err", Json.str e.name)]

/-- one call; the arguments "den", "mem", "zero" may be left out (call shapes) -/
def handleCall (j : Json) : Except String Json := do
  let num0 ← match optNull j "num" with
    | none => pure CoefArg.none.pairs
    | some n => (CoefArg.pairs <$> getCoefArg cd n)
  let denO ← match optNull j "den" with
    | none => pure none
    | some d => ((fun a => some (CoefArg.pairs a)) <$> getCoefArg cd d)
  -- `ZFilter(LinearFilter(num, den), c)`: the cast with a scalar divisor
  let castO ← match optNull j "castdiv" with
    | none => pure none
    | some c => (some <$> cd.get c)
  let numE : Except Err (List (Int × α)) := match castO with
    | none => .ok num0
    | some c => castDiv num0 c
  match numE with
  | .error e => pure <| Json.mkObj [("model", errJson' e), ("spec", errJson' e)]
  | .ok num =>
  let raw := match optField j "raw" with
    | some (Json.bool true) => true
    | _ => false
  let memO ← match optNull j "mem" with
    | none => pure none
    | some _ => (some <$> getMemOf cd j)
  let zeroO ← match optNull j "zero" with
    | none => pure none
    | some z => (some <$> cd.get z)
  let xs ← getList cd.get (← field j "xs")
  let fast := match optField j "fast" with
    | some (Json.bool true) => true
    | _ => false
  let den := denO.getD [(0, 1)]
  let mem := memO.getD Mem.none
  let zero := zeroO.getD 0
  -- model: every intermediate stage is shown, so that the tie sees where a difference enters
  let model : Json :=
    match (if raw then callRaw num den mem zero (if fast then [] else xs)
           else filterCallD num denO memO zeroO (if fast then [] else xs)) with
    | .error e => errJson' e
    | .ok out =>
      match (if raw then .ok (mkPoly num, mkPoly den) else normalise (mkPoly num) (mkPoly den)) with
      | .error e => errJson' e
      | .ok (n, d) =>
        let a := dense d
        let b := dense n
        Json.mkObj ((if fast then [] else [("out", putList cd out)]) ++
                    [("ir", irJsonOf cd (compile b a zero)),
                     ("b", putList cd b), ("a", putList cd a),
                     ("mem", putList cd (memoryOf zero (a.length - 1) mem))]
                    ++ memReadJson cd zero (a.length - 1) mem
                    ++ freeJson cd b a (memoryOf zero (a.length - 1) mem) xs.length)
  let spec : Json :=
    match (if raw then specCallRaw num den mem zero xs else specCallD num denO memO zeroO xs) with
    | .error e => errJson' e
    | .ok out => Json.mkObj [("out", putList cd out)]
  pure <| Json.mkObj [("model", model), ("spec", spec)]

/-- the same filter applied to its own output, one memory per stage -/
def handleCascade (j : Json) : Except String Json := do
  let num ← getList (getPairOf cd) (← field j "num")
  let den ← getList (getPairOf cd) (← field j "den")
  let zero ← cd.get (← field j "zero")
  let xs ← getList cd.get (← field j "xs")
  let mems ← getList (fun m => getMemOf cd (Json.mkObj [("mem", m)])) (← field j "mems")
  let model : Json :=
    match cascadeWith (fun m ys => filterCall num den m zero ys) mems xs with
    | .error e => errJson' e
    | .ok out =>
      match normalise (mkPoly num) (mkPoly den) with
      | .error e => errJson' e
      | .ok (n, d) =>
        Json.mkObj [("out", putList cd out), ("ir", irJsonOf cd (compile (dense n) (dense d) zero)),
                    ("b", putList cd (dense n)), ("a", putList cd (dense d))]
  let spec : Json :=
    match cascadeWith (fun m ys => specCall num den m zero ys) mems xs with
    | .error e => errJson' e
    | .ok out => Json.mkObj [("out", putList cd out)]
  pure <| Json.mkObj [("model", model), ("spec", spec)]

def handleCompile (j : Json) : Except String Json := do
  let b ← getList cd.get (← field j "b")
  let a ← getList cd.get (← field j "a")
  let zero ← cd.get (← field j "zero")
  pure <| Json.mkObj [("ir", irJsonOf cd (compile b a zero))]

/-! histories, generic in the number codec (entries "hist" over ℚ and "ghist" over ℚ(i)) -/
def getOpOf (j : Json) : Except String (HOp α) := do
  match j with
  | Json.arr (Json.str "nums" :: c :: v :: []) => pure (.setNums (← getNat c) (← getList cd.get v))
  | Json.arr (Json.str "coefs" :: c :: v :: []) => pure (.setCoefs (← getNat c) (← getList (getPairOf cd) v))
  | Json.arr (Json.str "build" :: f :: n :: d :: []) => pure (.build (← getNat f) (← getNat n) (← getNat d))
  | Json.arr (Json.str "call" :: s :: f :: x :: m :: z :: []) =>
    let mem ← match m with
      | Json.null => pure none
      | m => (some <$> getNat m)
    pure (.call (← getNat s) (← getNat f) (← getNat x) mem (← cd.get z))
  | Json.arr (Json.str "take" :: s :: k :: []) => pure (.take (← getNat s) (← getNat k))
  | _ => throw s!"unknown history op {j.compress}"

def obsJsonOf (extra : List (String × Json)) : HObs α → Json
  | .stored => Json.mkObj [("k", Json.str "stored")]
  | .ok => Json.mkObj ([("k", Json.str "ok")] ++ extra)
  | .err e => Json.mkObj [("k", Json.str "err"), ("err", Json.str e.name)]
  | .unbound => Json.mkObj [("k", Json.str "unbound")]
  | .outs ys ended => Json.mkObj [("k", Json.str "outs"), ("ys", putList cd ys), ("ended", Json.bool ended)]

/-- what the model generates at a successful call (shown for the structural tie T3) -/
def callExtraOf (st : HState α (Terms α × Terms α) (Gen α)) : HOp α → List (String × Json)
  | .call _ f _ mem zero =>
    match st.filts f with
    | some o =>
      let a := dense o.2
      let b := dense o.1
      [("ir", irJsonOf cd (compile b a zero)), ("b", putList cd b), ("a", putList cd a),
       ("mem", putList cd (memoryOf zero (a.length - 1) (memArg st.nums mem)))]
    | none => []
  | _ => []

def histModelJsonOf : HState α (Terms α × Terms α) (Gen α) → List (HOp α) → List Json
  | _, [] => []
  | st, op :: ops =>
    let r := hstep modelImpl st op
    obsJsonOf cd (callExtraOf cd st op) r.1 :: histModelJsonOf r.2 ops

/-- what the specification's stream has been delivered so far (shown after a request, for the
rounding-error bound of the float regime) -/
def seenExtraOf (st : HState α (SFilt α) (SStrm α)) : HOp α → List (String × Json)
  | .take s _ =>
    match st.strms s with
    | some t => [("seen", putList cd t.gen.seen)]
    | none => []
  | _ => []

def histSpecJsonOf : HState α (SFilt α) (SStrm α) → List (HOp α) → List Json
  | _, [] => []
  | st, op :: ops =>
    let r := hstep specImpl st op
    (match obsJsonOf cd [] r.1 with
      | Json.obj kv => Json.obj (kv ++ seenExtraOf cd r.2 op)
      | j => j) :: histSpecJsonOf r.2 ops

def handleHist (j : Json) : Except String Json := do
  let ops ← getList (getOpOf cd) (← field j "ops")
  pure <| Json.mkObj [("model", Json.arr (histModelJsonOf cd HState.empty ops)),
                      ("spec", Json.arr (histSpecJsonOf cd HState.empty ops))]

end generic

def getPair (j : Json) : Except String (Int × Rat) := getPairOf ratCodec j
def getMem (j : Json) : Except String (Mem Rat) := getMemOf ratCodec j
def atomJson (a : Atom Rat) : Json := atomJsonOf ratCodec a
def gainJson (g : Gain Rat) : Json := gainJsonOf ratCodec g
def irJson (ir : IR Rat) : Json := irJsonOf ratCodec ir

def errJson (e : Err) : Json := Json.mkObj [("err", Json.str e.name)]

def handle (entry : String) (j : Json) : Except String Json := do
  match entry with
  | "call" => handleCall ratCodec j
  | "gcall" => handleCall gaussCodec j
  | "hist" => handleHist ratCodec j
  | "ghist" => handleHist gaussCodec j
  | "cascade" => handleCascade ratCodec j
  | "gcascade" => handleCascade gaussCodec j
  | "compile" => handleCompile ratCodec j
  | "gcompile" => handleCompile gaussCodec j
  | _ => throw s!"C04: unknown entry {entry}"

end ALV.Driver.C04
