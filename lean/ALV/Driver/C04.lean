import ALV.Common.Json
import ALV.Model.C04
import ALV.Spec.C04
import ALV.Spec.C04Hist
namespace ALV.Driver.C04
open ALV ALV.J ALV.C04

/-! Driver for C04.  Numbers are exact rationals.

  entry "call":
    num, den : [[power, coeff], …]   raw pairs given to `ZFilter(num, den)` (a list is sent as
               enumerate(list)); mem : null | {"kind":"iter","vals":[…]} |
               {"kind":"gen","base":q,"step":q} | {"kind":"callable","form":"arith"|"arithrev",
               "base":q,"step":q} | {"kind":"callable","form":"fixed","vals":[…]};
    zero : q ; xs : [q …]
  payload: {"model": {"err":kind} | {"out":[…],"ir":IR,"b":[…],"a":[…],"mem":[…]},
            "spec" : {"err":kind} | {"out":[…]}}
            with "fast": true the generated loop is not executed statement by statement (O(order²) per
            sample) and "out" is left out of "model": the caller compares with "spec", which is
            the same list by theorem filterCall_eq_specCall
  entry "compile":  b, a : dense lists, zero  →  {"ir": IR}
  entry "cascade":  num, den, zero, xs as for "call"; mems : [mem …] one per stage (null = None):
                    f(f(…f(xs, m₁)…), m_k) with ONE filter object
  entry "hist":  ops : [["nums",c,[q…]] | ["coefs",c,[[power,q]…]] | ["build",f,n,d] |
                        ["call",s,f,x,m|null,zero] | ["take",s,k]]
    payload: {"model":[obs…], "spec":[obs…]}, one observation per op:
      {"k":"stored"} | {"k":"ok"} | {"k":"err","err":kind} | {"k":"unbound"} |
      {"k":"outs","ys":[…],"ended":bool}  (spec: + "seen": the input items delivered so far);
    the model's observation of a successful call also carries "ir","b","a","mem" (the source it
    generates at that call, the dense coefficients and the private memory list)
-/

def getPair (j : Json) : Except String (Int × Rat) := do
  match j with
  | Json.arr [k, v] => pure (← getInt k, ← getRat v)
  | _ => throw s!"expected [power, coeff], got {j.compress}"

def getMem (j : Json) : Except String (Mem Rat) := do
  match optField j "mem" with
  | none => pure Mem.none
  | some m =>
    let kind ← getStr (← field m "kind")
    match kind with
    | "iter" => pure (Mem.iter (← getList getRat (← field m "vals")))
    | "gen" =>
      let base ← getRat (← field m "base")
      let step ← getRat (← field m "step")
      pure (Mem.gen (fun (i : Nat) => base + (i : Rat) * step))
    | "callable" =>
      let form ← getStr (← field m "form")
      match form with
      | "fixed" =>
        let vals ← getList getRat (← field m "vals")
        pure (Mem.callable (fun _ => vals))
      | "arith" =>
        let base ← getRat (← field m "base")
        let step ← getRat (← field m "step")
        pure (Mem.callable (fun n => (List.range n).map (fun (i : Nat) => base + (i : Rat) * step)))
      | "arithrev" =>
        let base ← getRat (← field m "base")
        let step ← getRat (← field m "step")
        pure (Mem.callable (fun n => (List.range n).map (fun (i : Nat) => base + ((n - 1 - i : Nat) : Rat) * step)))
      | _ => throw s!"unknown callable form {form}"
    | _ => throw s!"unknown memory kind {kind}"

def varJson : Var → List Json
  | .d i => [Json.str "d", natToJson i]
  | .m i => [Json.str "m", natToJson i]

/-- canonical atoms: ["var",v,i] | ["neg",v,i] | ["mul",coef,v,i]; "-{c} * m" is printed with its
folded constant `-c` (the Python parser cannot tell `-3 * m1` from `{-3} * m1` either) -/
def atomJson : Atom Rat → Json
  | .var v => Json.arr (Json.str "var" :: varJson v)
  | .neg v => Json.arr (Json.str "neg" :: varJson v)
  | .mul c v => Json.arr (Json.str "mul" :: ratToJson c :: varJson v)
  | .negMul c v => Json.arr (Json.str "mul" :: ratToJson (-c) :: varJson v)

def gainJson : Gain Rat → Json
  | .one => Json.arr [Json.str "one"]
  | .negOne => Json.arr [Json.str "negone"]
  | .div g => Json.arr [Json.str "div", ratToJson g]

def irJson : IR Rat → Json
  | .constLoop z => Json.mkObj [("kind", Json.str "const"), ("zero", ratToJson z)]
  | .loop nm nd sum gain shifts => Json.mkObj [
      ("kind", Json.str "loop"), ("nm", natToJson nm), ("nd", natToJson nd),
      ("sum", arr atomJson sum), ("gain", gainJson gain),
      ("shifts", arr (fun (ts : Var × Var) => Json.arr (varJson ts.1 ++ varJson ts.2)) shifts)]

def errJson (e : Err) : Json := Json.mkObj [("err", Json.str e.name)]

def getOp (j : Json) : Except String (HOp Rat) := do
  match j with
  | Json.arr (Json.str "nums" :: c :: v :: []) => pure (.setNums (← getNat c) (← getList getRat v))
  | Json.arr (Json.str "coefs" :: c :: v :: []) => pure (.setCoefs (← getNat c) (← getList getPair v))
  | Json.arr (Json.str "build" :: f :: n :: d :: []) => pure (.build (← getNat f) (← getNat n) (← getNat d))
  | Json.arr (Json.str "call" :: s :: f :: x :: m :: z :: []) =>
    let mem ← match m with
      | Json.null => pure none
      | m => (some <$> getNat m)
    pure (.call (← getNat s) (← getNat f) (← getNat x) mem (← getRat z))
  | Json.arr (Json.str "take" :: s :: k :: []) => pure (.take (← getNat s) (← getNat k))
  | _ => throw s!"unknown history op {j.compress}"

def obsJson (extra : List (String × Json)) : HObs Rat → Json
  | .stored => Json.mkObj [("k", Json.str "stored")]
  | .ok => Json.mkObj ([("k", Json.str "ok")] ++ extra)
  | .err e => Json.mkObj [("k", Json.str "err"), ("err", Json.str e.name)]
  | .unbound => Json.mkObj [("k", Json.str "unbound")]
  | .outs ys ended => Json.mkObj [("k", Json.str "outs"), ("ys", rats ys), ("ended", Json.bool ended)]

/-- what the model generates at a successful call (shown for the structural tie T3) -/
def callExtra (st : HState Rat (Terms Rat × Terms Rat) (Gen Rat)) : HOp Rat → List (String × Json)
  | .call _ f _ mem zero =>
    match st.filts f with
    | some o =>
      let a := dense o.2
      let b := dense o.1
      [("ir", irJson (compile b a zero)), ("b", rats b), ("a", rats a),
       ("mem", rats (memoryOf zero (a.length - 1) (memArg st.nums mem)))]
    | none => []
  | _ => []

def histModelJson : HState Rat (Terms Rat × Terms Rat) (Gen Rat) → List (HOp Rat) → List Json
  | _, [] => []
  | st, op :: ops =>
    let r := hstep modelImpl st op
    obsJson (callExtra st op) r.1 :: histModelJson r.2 ops

/-- what the specification's stream has been delivered so far (shown after a request, for the
rounding-error bound of the float regime) -/
def seenExtra (st : HState Rat (SFilt Rat) (SStrm Rat)) : HOp Rat → List (String × Json)
  | .take s _ =>
    match st.strms s with
    | some t => [("seen", rats t.gen.seen)]
    | none => []
  | _ => []

def histSpecJson : HState Rat (SFilt Rat) (SStrm Rat) → List (HOp Rat) → List Json
  | _, [] => []
  | st, op :: ops =>
    let r := hstep specImpl st op
    (match obsJson [] r.1 with
      | Json.obj kv => Json.obj (kv ++ seenExtra r.2 op)
      | j => j) :: histSpecJson r.2 ops

def handle (entry : String) (j : Json) : Except String Json := do
  match entry with
  | "call" =>
    let num ← getList getPair (← field j "num")
    let den ← getList getPair (← field j "den")
    let mem ← getMem j
    let zero ← getRat (← field j "zero")
    let xs ← getList getRat (← field j "xs")
    let fast := match optField j "fast" with
      | some (Json.bool true) => true
      | _ => false
    -- model: every intermediate stage is shown, so that the tie sees where a difference enters
    let model : Json :=
      match normalise (mkPoly num) (mkPoly den) with
      | .error e => errJson e
      | .ok (n, d) =>
        match call n d mem zero (if fast then [] else xs) with
        | .error e => errJson e
        | .ok out =>
          let a := dense d
          let b := dense n
          Json.mkObj ((if fast then [] else [("out", rats out)]) ++
                      [("ir", irJson (compile b a zero)),
                       ("b", rats b), ("a", rats a),
                       ("mem", rats (memoryOf zero (a.length - 1) mem))])
    let spec : Json :=
      match specCall num den mem zero xs with
      | .error e => errJson e
      | .ok out => Json.mkObj [("out", rats out)]
    pure <| Json.mkObj [("model", model), ("spec", spec)]
  | "hist" =>
    let ops ← getList getOp (← field j "ops")
    pure <| Json.mkObj [("model", Json.arr (histModelJson HState.empty ops)),
                        ("spec", Json.arr (histSpecJson HState.empty ops))]
  | "cascade" =>
    -- the same filter applied to its own output, one memory per stage
    let num ← getList getPair (← field j "num")
    let den ← getList getPair (← field j "den")
    let zero ← getRat (← field j "zero")
    let xs ← getList getRat (← field j "xs")
    let mems ← getList (fun m => getMem (Json.mkObj [("mem", m)])) (← field j "mems")
    let model : Json :=
      match cascadeWith (fun m ys => filterCall num den m zero ys) mems xs with
      | .error e => errJson e
      | .ok out =>
        match normalise (mkPoly num) (mkPoly den) with
        | .error e => errJson e
        | .ok (n, d) =>
          Json.mkObj [("out", rats out), ("ir", irJson (compile (dense n) (dense d) zero)),
                      ("b", rats (dense n)), ("a", rats (dense d))]
    let spec : Json :=
      match cascadeWith (fun m ys => specCall num den m zero ys) mems xs with
      | .error e => errJson e
      | .ok out => Json.mkObj [("out", rats out)]
    pure <| Json.mkObj [("model", model), ("spec", spec)]
  | "compile" =>
    let b ← getList getRat (← field j "b")
    let a ← getList getRat (← field j "a")
    let zero ← getRat (← field j "zero")
    pure <| Json.mkObj [("ir", irJson (compile b a zero))]
  | _ => throw s!"C04: unknown entry {entry}"

end ALV.Driver.C04
