import ALV.Common.Json
namespace ALV.Driver.C04
open ALV ALV.J

/-- stub: the C04 slice is not built yet -/
def handle (entry : String) (_j : Json) : Except String Json :=
  throw s!"C04: unknown entry {entry}"

end ALV.Driver.C04
