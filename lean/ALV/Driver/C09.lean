import ALV.Common.Json
import ALV.Model.C09
import ALV.Model.C09Wnd
import ALV.Model.C09Hist
import ALV.Spec.C09
import ALV.Spec.C08
namespace ALV.Driver.C09
open ALV ALV.J ALV.C09

/-- {"r":"nums","w":[…]} | {"r":"opaque","n":k} -/
def getIterRes (j : Json) : Except String (IterRes Rat) := do
  match ← getStr (← field j "r") with
  | "nums" => pure (.nums (← getList getRat (← field j "w")))
  | "opaque" => pure (.opaque (← getNat (← field j "n")))
  | r => throw s!"bad iteration result {r}"

/-- what `wnd(size)` returns: an iteration result | {"r":"none"} | {"r":"other"} -/
def getCallRes (j : Json) : Except String (CallRes Rat) := do
  match ← getStr (← field j "r") with
  | "none" => pure .pyNone
  | "other" => pure .other
  | _ => pure (.iterable (← getIterRes j))

/-- `null` | {"kind":"seq","w":[…]} | {"kind":"callable","table":[[n,[…]],…],"default":[…]|null}
    | {"kind":"scalar"}                                   (objects already classified by the tie)
    | {"kind":"obj","wk":<kind name>,"call":{"table":[[n,res],…],"default":res}|null,"iter":res|null}
      (a REAL Python object of kind `wk`; what it is — called or data — is decided here, by
       `WKind.caps` and `callStep`) -/
def getWnd (j : Option Json) : Except String (PyWnd Rat) := do
  match j with
  | none => pure .none
  | some Json.null => pure .none
  | some j =>
    let kind ← getStr (← field j "kind")
    match kind with
    | "seq" => pure (.obj ⟨false, none, some (.nums (← getList getRat (← field j "w")))⟩)
    | "scalar" => pure (.obj ⟨false, none, none⟩)
    | "callable" =>
      let rows ← getArr (← field j "table")
      let table ← rows.mapM fun r => do
        match r with
        | Json.arr [n, l] => pure ((← getNat n), (← getList getRat l))
        | _ => throw "bad table row"
      let dflt ← match optField j "default" with
        | none => pure none
        | some d => pure (some (← getList getRat d))
      pure (.obj ⟨false, some fun n =>
        match table.find? (·.1 = n) with
        | some (_, l) => .iterable (.nums l)
        | none => match dflt with
          | some l => .iterable (.nums l)
          | none => .other, none⟩)
    | "obj" =>
      let name ← getStr (← field j "wk")
      let some k := WKind.ofName name | throw s!"unknown window object kind {name}"
      let call : Nat → CallRes Rat ← match optField j "call" with
        | none => pure fun _ => CallRes.other
        | some c => do
          let rows ← getArr (← field c "table")
          let table ← rows.mapM fun r => do
            match r with
            | Json.arr [n, res] => pure ((← getNat n), (← getCallRes res))
            | _ => throw "bad call table row"
          let dflt ← match optField c "default" with
            | none => pure CallRes.other
            | some d => getCallRes d
          pure fun n => match table.find? (·.1 = n) with
            | some (_, r) => r
            | none => dflt
      let iter ← match optField j "iter" with
        | none => pure (IterRes.nums [])
        | some i => getIterRes i
      pure (.obj (k.mk call iter))
    | k => throw s!"unknown window kind {k}"

def optNat (j : Json) (k : String) : Except String (Option Nat) :=
  match optField j k with
  | none => pure none
  | some v => do pure (some (← getNat v))

def errJson : Option Err → Json
  | none => Json.null
  | some e => Json.mkObj [("kind", Json.str e.kind), ("tag", Json.str e.tag)]

def outJson (o : Out Rat) : Json :=
  Json.mkObj [("out", rats o.out), ("err", errJson o.err)]

/-- the statement of the property, evaluated only where it speaks: every block has `size` items,
    `1 ≤ hop ≤ size`, the window (if any) has `size` items -/
def specOf (blks : List (List Rat)) (size? hop? : Option Nat) (wnd : PyWnd Rat) (normalize : Bool) :
    Json :=
  match detectSize size? blks with
  | none => if blks.isEmpty then Json.mkObj [("out", rats []), ("gain", Json.null)] else Json.null
  | some size =>
    let hop := hop?.getD size
    match resolveOlaObj size wnd with
    | .error _ => Json.null
    | .ok w0 =>
      let w := truthy w0
      let wOk : Bool := match w with | none => true | some l => l.length == size
      if size = 0 ∨ hop = 0 ∨ hop > size ∨ wOk = false ∨ blks.any (fun b => b.length ≠ size) then Json.null
      else
        let g := gainSpec size hop normalize w
        Json.mkObj [("out", rats (olaSpec g (wndSpec size w) size hop blks)),
                    ("gain", ratToJson g)]


/-- the conclusion of `ola_blocks_inverse` / `stft_identity` where their hypotheses hold
    (hop ∣ size, hop-shifted copies of g*ws*wa sum to one): the covered samples are the input -/
def coveredSpec (size hop : Nat) (g : Rat) (wsl wal : List Rat) (sig : List Rat) : Json :=
  if hop = 0 ∨ size = 0 ∨ size % hop ≠ 0 then Json.null else
  let cola := (List.range hop).all fun jj =>
    sumTo (size / hop) (fun i => g * (wsl.getD (jj + i * hop) 0 * wal.getD (jj + i * hop) 0)) == 1
  if cola then
    let m := (ALV.C08.blocksClosed size hop (0 : Rat) sig).length
    arr (fun n => Json.arr [natToJson n, ratToJson (sig.getD n 0)])
      ((List.range (m * hop)).filter fun n => size - hop ≤ n)
  else Json.null


/-! ### stft -/

def getPV (j : Json) : Except String PV :=
  match j with
  | Json.null => pure .none
  | Json.int i => pure (.int i)
  | Json.bool b => pure (.int (if b then 1 else 0))
  | Json.str t => pure (.obj t)
  | _ => throw s!"bad keyword value {j.compress}"

def getDict (j : Json) : Except String Dict := do
  let rows ← getArr j
  rows.mapM fun r =>
    match r with
    | Json.arr [k, v] => do pure ((← getStr k), (← getPV v))
    | _ => throw "bad keyword row"

def pvJson : PV → Json
  | .none => Json.null
  | .int i => Json.int i
  | .obj t => Json.str t

def dictJson (d : Dict) : Json := arr (fun kv => Json.arr [Json.str kv.1, pvJson kv.2]) d

/-- the block functions the tie uses as processing steps (same table in harness/props/c09.py) -/
def blkFn (name : String) (a : Rat) : Option (List Rat → List Rat) :=
  match name with
  | "id" => some id
  | "rev" => some List.reverse
  | "neg" => some fun l => l.map (- ·)
  | "scale" => some fun l => l.map (· * a)
  | "shift" => some fun l => l.map (· + a)
  | "rot" => some fun l => l.drop 1 ++ l.take 1
  | "cumsum" => some fun l =>
      (l.foldl (fun (acc : List Rat × Rat) x => (acc.1 ++ [acc.2 + x], acc.2 + x)) ([], 0)).1
  | _ => none

/-- `transform(blk, size)`-style steps -/
def blkFn2 (name : String) (a : Rat) : Option (List Rat → Nat → List Rat) :=
  match name with
  | "addsize" => some fun l n => l.map (· + (n : Rat))
  | "scalesize" => some fun l n => l.map (· * (n : Rat))
  | "divsize" => some fun l n => l.map (· / (n : Rat))
  | other => (blkFn other a).map fun f => fun l _ => f l

inductive Res (β : Type) where
  | ok (v : β)
  | runErr (tag : String)      -- the model stops here: numpy default, unexpected ola keyword …

def objOf (objs : Json) (tag : String) : Except String Json := field objs tag

def stageOf (objs : Json) (v : PV) : Except String (Res (Option (String × Rat))) :=
  match v with
  | .none => pure (.ok none)
  | .int _ => pure (.runErr "stage-not-callable")
  | .obj tag =>
    if tag = "NotSpecified" then pure (.runErr "numpy-default") else do
      let o ← objOf objs tag
      let name ← getStr (← field o "name")
      let a ← getRat (fieldD o "arg" (Json.int 0))
      pure (.ok (some (name, a)))

/-- `pvWnd` of the model with the environment read from the request -/
def wndOf (objs : Json) (v : PV) : Except String (PyWnd Rat) :=
  match v with
  | .obj tag => do
    let o ← objOf objs tag
    let w ← getWnd (some (← field o "wnd"))
    let env : String → Option (WObj Rat) := fun t =>
      if t = tag then (match w with | .obj o => some o | .none => none) else none
    match w with
    | .none => pure .none          -- an object tag that stands for `None`
    | _ => match pvWnd env v with
      | some p => pure p
      | none => throw "window object not found"
  | _ => match pvWnd (fun _ => (none : Option (WObj Rat))) v with
    | some p => pure p
    | none => throw "window object not found"

def traceJson (t : List (List (String × List Rat))) : Json :=
  arr (arr fun e => Json.arr [Json.str e.1, rats e.2]) t

def natOfPV (v : PV) : Except String (Option Nat) :=
  match v with
  | .none => pure none
  | .int i => if i < 0 then throw "negative size/hop" else pure (some i.toNat)
  | .obj _ => throw "size/hop is an object"

/-- `ola_params` understood as `overlap_add.list` arguments; `none` = unexpected keyword -/
def olaCallOf (objs : Json) (d : Dict) : Except String (Option (OlaCallObj Rat)) := do
  match bindOla d with
  | .error _ => return none
  | .ok b =>
    let size? ← natOfPV b.size
    let hop? ← natOfPV b.hop
    let wnd ← wndOf objs b.wnd
    return some { size? := size?, hop? := hop?, wnd := wnd, normalize := pvTruthy b.normalize }

def stagesOf (tr itr bef aft : Option (String × Rat)) (fn : String × Rat) :
    Except String (Stages Rat) := do
  let f1 (o : Option (String × Rat)) : Except String (Option (List Rat → List Rat)) :=
    match o with
    | none => pure none
    | some (n, a) => match blkFn n a with
      | some f => pure (some f)
      | none => throw s!"unknown block function {n}"
  let f2 (o : Option (String × Rat)) : Except String (Option (List Rat → Nat → List Rat)) :=
    match o with
    | none => pure none
    | some (n, a) => match blkFn2 n a with
      | some f => pure (some f)
      | none => throw s!"unknown block function {n}"
  let func ← match blkFn fn.1 fn.2 with
    | some f => pure f
    | none => throw s!"unknown block function {fn.1}"
  pure { before := ← f1 bef, transform := ← f2 tr, func := func, inverse := ← f2 itr, after := ← f1 aft }

def isId (o : Option (String × Rat)) : Bool :=
  match o with
  | none => true
  | some (n, _) => n = "id"

/-- candidate keyword names at which the lookup specification is evaluated -/
def probeKeys (merged : Dict) : List String :=
  let raw := merged.map (·.1)
  let stripped := raw.map fun k => String.ofList (k.toList.drop 4)
  (["size", "hop", "wnd", "normalize"] ++ raw ++ stripped).eraseDups

/-- one call `proc(sig, **call)` of a processor whose defaults are `kwparams` -/
def stftCore (kwparams call : Dict) (objs : Json) (sig : List Rat) (fnTag : String) : Except String Json := do
  let merged := dictUpdate kwparams call
  match stftPlan kwparams call with
  | .error e =>
    pure <| Json.mkObj [("model", Json.mkObj [("plan_err",
      Json.mkObj [("kind", Json.str e.kind), ("tag", Json.str e.tag)])]), ("spec", Json.null)]
  | .ok plan =>
    let planJ := Json.mkObj [("blk", dictJson plan.blkParams), ("ola", pvJson plan.ola),
      ("ola_params", dictJson plan.olaParams)]
    -- specification of the keywords handed to the overlap-add
    let szV := (dictGet merged "size").getD .none
    let hopV := (dictGet merged "hop").getD .none
    let kwSpec : Json := arr (fun k => Json.arr [Json.str k,
        match olaKwSpec szV hopV merged k with | some v => pvJson v | none => Json.str "<absent>"])
      (probeKeys merged)
    let stop (tag : String) (spec : List (String × Json)) : Except String Json :=
      pure <| Json.mkObj [("model", Json.mkObj [("plan", planJ), ("run_err", Json.str tag)]),
        ("spec", Json.mkObj spec)]
    let bp := plan.blkParams
    let get (k : String) := (dictGet bp k).getD .none
    let size? ← natOfPV (get "size")
    let some size := size? | throw "size None is outside the model"
    if size = 0 then throw "size 0 is outside the model"
    let hop? ← natOfPV (get "hop")
    if hop? = some 0 then throw "hop 0 is outside the model"
    let wnd ← wndOf objs (get "wnd")
    -- the overlap-add strategy is called first (an unexpected keyword raises at the call) …
    let olaR : Res (Option (Option (OlaCallObj Rat))) ← match plan.ola with
      | .none => pure (.ok (some none))
      | .int _ => throw "ola is an int"
      | .obj tag =>
        -- the default strategy `overlap_add` (numpy) has the same signature as `overlap_add.list`
        match ← olaCallOf objs plan.olaParams with
        | none => pure (.runErr "ola-kwarg")
        | some c =>
          if tag = "overlap_add" then pure (.ok none) else do
            let o ← objOf objs tag
            let _ ← getStr (← field o "name")
            pure (.ok (some (some c)))
    let .ok ola := olaR | stop "ola-kwarg" [("ola_kwargs", kwSpec)]
    -- … the numpy defaults are imported when the first block is asked for
    let unres (r : Res (Option (String × Rat))) : Bool × Option (String × Rat) :=
      match r with | .ok v => (false, v) | .runErr _ => (true, none)
    let (n1, tr) := unres (← stageOf objs (get "transform"))
    let (n2, itr) := unres (← stageOf objs (get "inverse_transform"))
    let (n3, bef) := unres (← stageOf objs (get "before"))
    let (n4, aft) := unres (← stageOf objs (get "after"))
    let needsNumpy := n1 || n2 || n3 || n4
    let fo ← objOf objs fnTag
    let fn : String × Rat := (← getStr (← field fo "name"), ← getRat (fieldD fo "arg" (Json.int 0)))
    let st ← stagesOf tr itr bef aft fn
    let trace := blkGenTraceObj size hop? wnd st sig
    -- specification: what `func` receives (window first), from the closed form of C08
    let hop := hop?.getD size
    let wres := resolveStftObj size wnd
    let befF := st.before.getD id
    let trF : List Rat → List Rat := match st.transform with | some f => (f · size) | none => id
    let funcSpec : Json := if needsNumpy then Json.null else match wres with
      | .ok w => arr rats (funcInputSpec (ALV.C08.blocksClosed size hop (0 : Rat)) w befF trF sig)
      | .error _ => Json.null
    let some olaCall := ola | stop "numpy-default" [("ola_kwargs", kwSpec), ("func_inputs", funcSpec)]
    let r := stftRunObj needsNumpy size hop? wnd st olaCall sig
    let runJ := Json.mkObj [
      ("blocks", match r.blocks with | some bs => arr rats bs | none => Json.null),
      ("out", rats r.out), ("err", errJson r.err),
      ("trace", if needsNumpy then Json.arr [] else traceJson trace)]
    -- specification: identity processing + COLA ⇒ the covered samples are the input samples
    let covered : Json := match olaCall, wres with
      | some c, .ok wa =>
        let identity := !needsNumpy && isId tr && isId itr && isId bef && isId aft && fn.1 = "id"
        match c.size?, resolveOlaObj size c.wnd with
        | some osz, .ok ws0 =>
          let ohop := c.hop?.getD osz
          let ws := truthy ws0
          let wsOk : Bool := match ws with | none => true | some l => l.length == size
          if identity && osz == size && ohop == hop && hop ≤ size && size % hop == 0 && wsOk then
            coveredSpec size hop (gainSpec size hop c.normalize ws) (wndSpec size ws) (wndSpec size wa) sig
          else Json.null
        | _, _ => Json.null
      | _, _ => Json.null
    pure <| Json.mkObj [("model", Json.mkObj [("plan", planJ), ("run", runJ)]),
      ("spec", Json.mkObj [("ola_kwargs", kwSpec), ("func_inputs", funcSpec), ("covered", covered)])]

def stftEntry (j : Json) : Except String Json := do
  let chain ← getList getDict (← field j "chain")
  let call ← getDict (← field j "call")
  let objs := fieldD j "objs" (Json.mkObj [])
  let sig ← getList getRat (← field j "sig")
  let fnTag ← getStr (← field j "func")
  stftCore (stftDefaults chain) call objs sig fnTag

/-! ### histories of partial applications (`Model/C09Hist.lean`) -/

/-- an event of the request: a store event, or `run` = `procs[proc](sig, **call)` -/
inductive HEv where
  | op (o : POp) (func : Option String)
  | run (proc : Nat) (sig : List Rat) (call : Dict)

def getHEv (j : Json) : Except String HEv := do
  let kw : Except String Dict := getDict (fieldD j "kw" (Json.arr []))
  match ← getStr (← field j "op") with
  | "new" => pure (.op (.new (← kw)) none)
  | "derive" => pure (.op (.derive (← getNat (← field j "parent")) (← kw)) none)
  | "build" => pure (.op (.build (← getNat (← field j "parent")) (← kw)) (some (← getStr (← field j "func"))))
  | "direct" => pure (.op (.direct (← kw)) (some (← getStr (← field j "func"))))
  | "run" => pure (.run (← getNat (← field j "proc")) (← getList getRat (← field j "sig"))
                        (← getDict (fieldD j "call" (Json.arr []))))
  | o => throw s!"unknown history event {o}"

/-- every `run` is answered from the store AS IT IS WHEN THE RUN HAPPENS (`runOps` of the events
    before it): "model" from the record the machine holds for the processor, "spec" from the merge
    of the keyword dicts on the processor's own path (`runChains`) -/
def phistEntry (j : Json) : Except String Json := do
  let evs ← getList getHEv (← field j "events")
  let objs := fieldD j "objs" (Json.mkObj [])
  let rec go (todo : List HEv) (ops : List POp) (funcs : List String) (acc : List Json) :
      Except String (List Json × List POp) :=
    match todo with
    | [] => pure (acc.reverse, ops)
    | .op o f :: rest => go rest (ops ++ [o]) (match f with | some t => funcs ++ [t] | none => funcs) acc
    | .run p sig call :: rest => do
      let st := runOps ops
      let ch := runChains ops
      if p ≥ st.procs.length then throw "run of a processor that does not exist"
      let fn := funcs.getD p ""
      let m ← stftCore (st.procs.getD p []) call objs sig fn
      let sp ← stftCore (stftDefaults (ch.procs.getD p [])) call objs sig fn
      go rest ops funcs (Json.mkObj [("model", fieldD m "model" Json.null),
                                     ("spec", fieldD sp "spec" Json.null)] :: acc)
  let (runs, ops) ← go evs [] [] []
  let st := runOps ops
  pure <| Json.mkObj [("runs", Json.arr runs),
    ("partials", arr dictJson st.partials), ("procs", arr dictJson st.procs),
    ("paths", arr (arr dictJson) (runChains ops).procs)]

/-- one call taken alone: the payload depends on nothing but the request `j` of that call -/
def handleCall (entry : String) (j : Json) : Except String Json := do
  match entry with
  | "ola" =>
    let blks ← getList (getList getRat) (← field j "blks")
    let size? ← optNat j "size"
    let hop? ← optNat j "hop"
    let wnd ← getWnd (optField j "wnd")
    let normalize ← getBool (fieldD j "normalize" (Json.bool true))
    let strategy ← getStr (fieldD j "strategy" (Json.str "list"))
    -- `overlap_add(…)` / `overlap_add.numpy(…)`: numpy is imported first (absent in the sandbox)
    let m := if strategy = "list" then overlapAddListObj blks size? hop? wnd normalize
             else overlapAddNumpyAbsent
    pure <| Json.mkObj [("model", outJson m),
      ("spec", if strategy = "list" then specOf blks size? hop? wnd normalize else Json.null)]
  | "wkinds" =>
    -- the table of Python object kinds the model knows, for the check against real objects
    pure <| Json.mkObj [("kinds", arr (fun (k : WKind) => Json.mkObj [("name", Json.str k.name),
      ("callable", Json.bool k.caps.callable), ("iterable", Json.bool k.caps.iterable),
      ("stream", Json.bool k.caps.stream)]) WKind.all)]
  | "ola_sig" =>
    -- block a signal with the C08 model, overlap-add the blocks
    let sig ← getList getRat (← field j "sig")
    let bsize ← getNat (← field j "bsize")
    let bhop ← getNat (← field j "bhop")
    if bsize = 0 ∨ bhop = 0 then throw "bsize and bhop must be positive"
    let size? ← optNat j "size"
    let hop? ← optNat j "hop"
    let wnd ← getWnd (optField j "wnd")
    let normalize ← getBool (fieldD j "normalize" (Json.bool true))
    let blks := ALV.C08.blocks bsize bhop (0 : Rat) sig
    let m := overlapAddListObj blks size? hop? wnd normalize
    let covered : Json :=
      match resolveOlaObj bsize wnd with
      | .ok w0 =>
        let w := truthy w0
        let wOk : Bool := match w with | none => true | some l => l.length == bsize
        if wOk && (size? == none || size? == some bsize) && hop?.getD bsize == bhop && bhop ≤ bsize
            && !(size? == none && blks.isEmpty) then
          coveredSpec bsize bhop (gainSpec bsize bhop normalize w) (wndSpec bsize w)
            (List.replicate bsize 1) sig
        else Json.null
      | .error _ => Json.null
    let spec := specOf (ALV.C08.blocksClosed bsize bhop (0 : Rat) sig) size? hop? wnd normalize
    pure <| Json.mkObj [("model", outJson m), ("spec", spec), ("covered", covered),
      ("n_blocks", natToJson blks.length)]
  | "stft" => stftEntry j
  | "phist" => phistEntry j
  | _ => throw s!"C09: unknown entry {entry}"

/-- `"hist"`: a history of calls sharing argument objects on the Python side.  Each call is answered
    by `handleCall` on its own request (the argument VALUES as they were before the first call): the
    models are pure functions, so no state can flow from one call to the next here. -/
def handle (entry : String) (j : Json) : Except String Json := do
  match entry with
  | "hist" =>
    let calls ← getArr (← field j "calls")
    let outs ← calls.mapM fun c => do handleCall (← getStr (← field c "entry")) c
    pure <| Json.mkObj [("calls", Json.arr outs)]
  | _ => handleCall entry j

end ALV.Driver.C09
