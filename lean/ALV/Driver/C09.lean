import ALV.Common.Json
import ALV.Model.C09
import ALV.Spec.C09
namespace ALV.Driver.C09
open ALV ALV.J ALV.C09

/-- `null` | {"kind":"seq","w":[…]} | {"kind":"callable","table":[[n,[…]],…],"default":[…]|null}
    | {"kind":"scalar"} -/
def getWnd (j : Option Json) : Except String (WndArg Rat) := do
  match j with
  | none => pure .none
  | some j =>
    let kind ← getStr (← field j "kind")
    match kind with
    | "seq" => pure (.seq (← getList getRat (← field j "w")))
    | "scalar" => pure .scalar
    | "callable" =>
      let rows ← getArr (← field j "table")
      let table ← rows.mapM fun r => do
        match r with
        | Json.arr [n, l] => pure ((← getNat n), (← getList getRat l))
        | _ => throw "bad table row"
      let dflt ← match optField j "default" with
        | none => pure none
        | some d => pure (some (← getList getRat d))
      pure (.callable fun n =>
        match table.find? (·.1 = n) with
        | some (_, l) => some l
        | none => dflt)
    | k => throw s!"unknown window kind {k}"

def optNat (j : Json) (k : String) : Except String (Option Nat) :=
  match optField j k with
  | none => pure none
  | some v => do pure (some (← getNat v))

def errJson : Option Err → Json
  | none => Json.null
  | some e => Json.mkObj [("kind", Json.str e.kind), ("tag", Json.str e.tag)]

def outJson (o : Out Rat) : Json :=
  Json.mkObj [("out", rats o.out), ("err", errJson o.err)]

/-- the statement of the property, evaluated only where it speaks: every block has `size` items,
    `1 ≤ hop ≤ size`, the window (if any) has `size` items -/
def specOf (blks : List (List Rat)) (size? hop? : Option Nat) (wnd : WndArg Rat) (normalize : Bool) :
    Json :=
  match detectSize size? blks with
  | none => if blks.isEmpty then Json.mkObj [("out", rats []), ("gain", Json.null)] else Json.null
  | some size =>
    let hop := hop?.getD size
    match resolveWnd size wnd with
    | .error _ => Json.null
    | .ok w0 =>
      let w := truthy w0
      let wOk : Bool := match w with | none => true | some l => l.length == size
      if size = 0 ∨ hop = 0 ∨ hop > size ∨ wOk = false ∨ blks.any (fun b => b.length ≠ size) then Json.null
      else
        let g := gainSpec size hop normalize w
        Json.mkObj [("out", rats (olaSpec g (wndSpec size w) size hop blks)),
                    ("gain", ratToJson g)]

def handle (entry : String) (j : Json) : Except String Json := do
  match entry with
  | "ola" =>
    let blks ← getList (getList getRat) (← field j "blks")
    let size? ← optNat j "size"
    let hop? ← optNat j "hop"
    let wnd ← getWnd (optField j "wnd")
    let normalize ← getBool (fieldD j "normalize" (Json.bool true))
    let m := overlapAddList blks size? hop? wnd normalize
    pure <| Json.mkObj [("model", outJson m), ("spec", specOf blks size? hop? wnd normalize)]
  | _ => throw s!"C09: unknown entry {entry}"

end ALV.Driver.C09
