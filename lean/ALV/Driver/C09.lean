import ALV.Common.Json
namespace ALV.Driver.C09
open ALV ALV.J

/-- stub: the C09 slice is not built yet -/
def handle (entry : String) (_j : Json) : Except String Json :=
  throw s!"C09: unknown entry {entry}"

end ALV.Driver.C09
