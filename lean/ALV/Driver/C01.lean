import ALV.Common.Json
namespace ALV.Driver.C01
open ALV ALV.J

/-- stub: the C01 slice is not built yet -/
def handle (entry : String) (_j : Json) : Except String Json :=
  throw s!"C01: unknown entry {entry}"

end ALV.Driver.C01
