import ALV.Common.Json
import ALV.Model.C01
import ALV.Spec.C01
import ALV.Gen.OpTable
namespace ALV.Driver.C01
open ALV ALV.J ALV.C01

def nm (s : String) : Name := s.toList
def str (n : Name) : Json := Json.str (String.ofList n)

partial def termJson : Term → Json
  | .atom i => Json.int i
  | .app f args => Json.arr (str f :: args.map termJson)

def getTerm (j : Json) : Except String Term := do
  let i ← getNat j
  pure (.atom i)

/-- program tree: {"k": kind, ...} -/
partial def getPy (j : Json) : Except String Py := do
  let k ← getStr (← field j "k")
  match k with
  | "scalar" => pure (.scalar (← getTerm (← field j "c")))
  | "ignored" => pure (.ignored (← getTerm (← field j "c")))
  | "iterable" =>
    let xs ← getList getTerm (← field j "xs")
    let t ← getNat (← field j "tag")
    pure (.iterable t xs)
  | "stream1" => pure (.stream1 (← getPy (← field j "a")))
  | "stream2" => pure (.stream2 (← getPy (← field j "a")) (← getPy (← field j "b")))
  | "un" => pure (.un (nm (← getStr (← field j "d"))) (← getPy (← field j "s")))
  | "bin" => pure (.bin (nm (← getStr (← field j "d"))) (← getPy (← field j "s")) (← getPy (← field j "o")))
  | "meth" => pure (.meth (nm (← getStr (← field j "l"))) (← getPy (← field j "s")))
  | "append" => pure (.append (← getPy (← field j "s")) (← getPy (← field j "o")))
  | _ => throw s!"C01: unknown node kind {k}"

def errName : Err → String
  | .typeError => "TypeError"
  | .attributeError => "AttributeError"
  | .notImplemented => "NotImplemented"
  | .notAStream => "NotAStream"

def lenJson : Len → Json
  | .fin n => Json.int n
  | .inf => Json.str "inf"

def sortName : Option Sort' → String
  | none => "none"
  | some .scalar => "scalar"
  | some .ignored => "ignored"
  | some .iter => "iter"
  | some .stream => "stream"

def unreadJson (u : List (Nat × Nat)) : Json := arr (fun (p : Nat × Nat) => Json.arr [Json.int p.1, Json.int p.2]) u

def installed : Option (List (Name × Dunder)) := install ALV.Gen.OpTable.table

def builderName : Builder → String
  | .unary => "unary" | .binary => "binary" | .rbinary => "rbinary"

def handle (entry : String) (j : Json) : Except String Json := do
  match entry with
  | "expr" =>
    let p ← getPy (← field j "prog")
    let n ← getNat (← field j "n")
    -- model: class built from the regenerated table, evaluation, then `n` calls of next at most
    let model : Json :=
      match installed with
      | none => Json.mkObj [("err", Json.str "ClassCreationFails")]
      | some tbl =>
        match evalPy tbl p with
        | .error e => Json.mkObj [("err", Json.str (errName e))]
        | .ok (.iterable isS it) =>
          let r := it.runS n
          Json.mkObj [("kind", Json.str (if isS then "stream" else "iter")),
                      ("items", arr termJson r.1),
                      ("unread0", unreadJson it.unread),
                      ("unread", unreadJson r.2.unread)]
        | .ok (.scalar c) => Json.mkObj [("kind", Json.str "scalar"), ("value", termJson c)]
        | .ok (.ignored c) => Json.mkObj [("kind", Json.str "ignored"), ("value", termJson c)]
    -- spec: pointwise reading of the expression
    let so := p.sort
    let l := p.len
    let cnt := match l with | .fin L => Nat.min n L | .inf => n
    let items := (List.range cnt).filterMap p.at
    let spec := Json.mkObj [("sort", Json.str (sortName so)), ("len", lenJson l), ("items", arr termJson items)]
    pure <| Json.mkObj [("model", model), ("spec", spec)]
  | "optable" =>
    -- model: OpMethod entries and installed dunders; spec: the hand-written table
    let ops := initializeOps ALV.Gen.OpTable.table
    let opsJ := arr (fun (o : OpMethod) => Json.mkObj [
        ("name", str o.name), ("symbol", str o.symbol), ("rev", Json.bool o.rev),
        ("dname", str o.dname), ("arity", Json.int o.arity), ("func", str o.func)]) ops
    let instJ : Json := match installed with
      | none => Json.null
      | some tbl => arr (fun (kv : Name × Dunder) => Json.mkObj [
          ("dname", str kv.1), ("builder", Json.str (builderName kv.2.builder)), ("func", str kv.2.func)]) tbl
    let specJ := arr (fun (sp : DunderSpec) => Json.mkObj [
        ("dname", str sp.dname), ("builder", Json.str (builderName sp.builder)), ("func", str sp.fn),
        ("base", str sp.base), ("reflected", Json.bool sp.reflected), ("arity", Json.int sp.arity)]) specTable
    pure <| Json.mkObj [("model", Json.mkObj [("ops", opsJ), ("installed", instJ)]), ("spec", specJ)]
  | _ => throw s!"C01: unknown entry {entry}"

end ALV.Driver.C01
