import ALV.Common.Json
import ALV.Model.C01
import ALV.Spec.C01
import ALV.Spec.C01Exc
import ALV.Gen.OpTable
namespace ALV.Driver.C01
open ALV ALV.J ALV.C01

def nm (s : String) : Name := s.toList
def str (n : Name) : Json := Json.str (String.ofList n)

partial def termJson : Term → Json
  | .atom i => Json.int i
  | .app f args => Json.arr (str f :: args.map termJson)

def getTerm (j : Json) : Except String Term := do
  let i ← getNat j
  pure (.atom i)

/-- program tree: {"k": kind, ...} -/
partial def getPy (j : Json) : Except String Py := do
  let k ← getStr (← field j "k")
  match k with
  | "scalar" => pure (.scalar (← getTerm (← field j "c")))
  | "ignored" => pure (.ignored (← getTerm (← field j "c")))
  | "iterable" =>
    let xs ← getList getTerm (← field j "xs")
    let t ← getNat (← field j "tag")
    pure (.iterable t xs)
  | "operand" =>
    -- an object described by its observed predicates: the MODEL decides what kind of operand it is
    let b := fun (n : String) => do
      match ← field j n with
      | Json.bool v => pure v
      | _ => throw s!"C01: operand field {n} is not a boolean"
    let o : Operand := {
      self := ← getTerm (← field j "c"), isIgnored := ← b "ignored", isIterableABC := ← b "abc",
      iterWorks := ← b "iter", hasGetItem := ← b "getitem", hasLen := ← b "len",
      tag := ← getNat (← field j "tag"), items := ← getList getTerm (← field j "xs") }
    pure o.toPy
  | "stream1" => pure (.stream1 (← getPy (← field j "a")))
  | "stream2" => pure (.stream2 (← getPy (← field j "a")) (← getPy (← field j "b")))
  | "un" => pure (.un (nm (← getStr (← field j "d"))) (← getPy (← field j "s")))
  | "bin" => pure (.bin (nm (← getStr (← field j "d"))) (← getPy (← field j "s")) (← getPy (← field j "o")))
  | "meth" =>
    let g := match optField j "g" with | some (Json.bool b) => b | _ => false
    pure (.meth g (nm (← getStr (← field j "l"))) (← getPy (← field j "s")))
  | "append" => pure (.append (← getPy (← field j "s")) (← getPy (← field j "o")))
  | _ => throw s!"C01: unknown node kind {k}"

def errName : Err → String
  | .typeError => "TypeError"
  | .attributeError => "AttributeError"
  | .notImplemented => "NotImplemented"
  | .notAStream => "NotAStream"

def lenJson : Len → Json
  | .fin n => Json.int n
  | .inf => Json.str "inf"

def sortName : Option Sort' → String
  | none => "none"
  | some .scalar => "scalar"
  | some .ignored => "ignored"
  | some .iter => "iter"
  | some .stream => "stream"

def unreadJson (u : List (Nat × Nat)) : Json := arr (fun (p : Nat × Nat) => Json.arr [Json.int p.1, Json.int p.2]) u

def installed : Option (List (Name × Dunder)) := install ALV.Gen.OpTable.table

def builderName : Builder → String
  | .unary => "unary" | .binary => "binary" | .rbinary => "rbinary"

def getBase (s : String) : Option CBase :=
  match s with
  | "list" => some .list | "tuple" => some .tuple | "set" => some .set | "frozenset" => some .frozenset
  | "deque" => some .deque | "sequence" => some .sequence
  | _ => none

def baseName : CBase → String
  | .list => "list" | .tuple => "tuple" | .set => "set" | .frozenset => "frozenset" | .deque => "deque"
  | .sequence => "sequence"

def getKind (s : String) : Except String CKind :=
  match s with
  | "scalar" => pure .scalar | "str" => pure .str
  | "list" => pure .list | "tuple" => pure .tuple | "set" => pure .set | "frozenset" => pure .frozenset
  | "deque" => pure .deque
  | "generator" => pure .generator | "range" => pure .range | "enumerate" => pure .enumerate | "zip" => pure .zip
  | "zip_longest" => pure .zipLongest | "map" => pure .map | "filter" => pure .filter
  | "stream" => pure .stream | "streamSub" => pure .streamSub
  | _ =>
    -- "sub:<base>:<class number>"
    match s.splitOn ":" with
    | ["sub", b, n] =>
      match getBase b, n.toNat? with
      | some b, some n => pure (.sub b n)
      | _, _ => throw s!"C01: unknown container kind {s}"
    | _ => throw s!"C01: unknown container kind {s}"

def kindName : CKind → String
  | .scalar => "scalar" | .str => "str" | .list => "list" | .tuple => "tuple" | .set => "set"
  | .frozenset => "frozenset" | .deque => "deque" | .generator => "generator" | .range => "range"
  | .enumerate => "enumerate" | .zip => "zip" | .zipLongest => "zip_longest" | .map => "map"
  | .filter => "filter" | .stream => "stream" | .streamSub => "streamSub"
  | .sub b n => "sub:" ++ baseName b ++ ":" ++ toString n

def outKindName : OutKind → String
  | .value => "value" | .generator => "generator" | .stream => "stream"
  | .same k => "same:" ++ kindName k | .keyError => "keyError"

/-- {"c":"obj","kind":k,"self":id} | {"c":"sized","kind":k,"tag":t,"xs":[ids]} |
    {"c":"lazy","kind":k,"tag":t,"xs":[ids]} | {"c":"lazy","kind":k,"rep":id} -/
def getBArg (j : Json) : Except String BArg := do
  let k ← getKind (← getStr (← field j "kind"))
  match ← getStr (← field j "c") with
  | "obj" => pure (.obj k (← getTerm (← field j "self")))
  | "sized" => pure (.sized k (← getNat (← field j "tag")) (← getList getTerm (← field j "xs")))
  | "lazy" =>
    match optField j "rep" with
    | some r => pure (.lazy k (.rep (← getTerm r)))
    | none => pure (.lazy k (.list (← getNat (← field j "tag")) (← getList getTerm (← field j "xs"))))
  | c => throw s!"C01: unknown argument class {c}"


/-! ## element operations that raise: entries "exprE" / "bcastE" -/

partial def getTermFull (j : Json) : Except String Term := do
  match j with
  | Json.arr (f :: args) => pure (.app (nm (← getStr f)) (← args.mapM getTermFull))
  | _ => pure (.atom (← getNat j))

partial def termBeq : Term → Term → Bool
  | .atom a, .atom b => a == b
  | .app f xs, .app g ys => f == g && xs.length == ys.length && (xs.zip ys).all fun p => termBeq p.1 p.2
  | _, _ => false

/-- the oracle handed over by the harness: the applications on which python raises -/
def badOf (tbl : List Term) (t : Term) : Bool := tbl.any (termBeq t)

def outJson : Out → Json
  | .item x => Json.arr [Json.str "i", termJson x]
  | .raised t => Json.arr [Json.str "r", termJson t]
  | .stop => Json.arr [Json.str "s"]

def exJson : Except Term (List Term) → Json
  | .ok xs => Json.mkObj [("ok", arr termJson xs)]
  | .error t => Json.mkObj [("err", termJson t)]

def readOutJson : ReadOut → Json
  | .one o => Json.mkObj [("one", outJson o)]
  | .took r => Json.mkObj [("took", exJson r)]

def getRead (j : Json) : Except String Read := do
  match j with
  | Json.arr [Json.str "next"] => pure .next
  | Json.arr [Json.str "take", k] => pure (.take (← getNat k))
  | Json.arr [Json.str "peek", k] => pure (.peek (← getNat k))
  | _ => throw "C01: read = [\"next\"] | [\"take\", k] | [\"peek\", k]"

def getBadTable (j : Json) : Except String (List Term) :=
  match optField j "bad" with
  | some b => getList getTermFull b
  | none => pure []

def handleE (entry : String) (j : Json) : Except String Json := do
  match entry with
  | "exprE" =>
    let p ← getPy (← field j "prog")
    let n ← getNat (← field j "n")
    let bad := badOf (← getBadTable j)
    let reads ← match optField j "reads" with
      | some r => getList getRead r
      | none => pure []
    let model : Json :=
      match installed with
      | none => Json.mkObj [("err", Json.str "ClassCreationFails")]
      | some tbl =>
        match evalPy tbl p with
        | .error e => Json.mkObj [("err", Json.str (errName e))]
        | .ok (.iterable isS it) =>
          let r := it.drainS bad n
          Json.mkObj [("kind", Json.str (if isS then "stream" else "iter")),
                      ("outs", arr outJson r.1),
                      ("queried", arr (arr termJson) (it.drainQ bad n)),
                      ("script", arr readOutJson (it.script bad reads).1),
                      ("scriptEnd", arr readOutJson (untilEnd reads (it.script bad reads).1)),
                      ("unread", unreadJson r.2.unread)]
        | .ok (.scalar c) => Json.mkObj [("kind", Json.str "scalar"), ("value", termJson c)]
        | .ok (.ignored c) => Json.mkObj [("kind", Json.str "ignored"), ("value", termJson c)]
    let spec := Json.mkObj [("sort", Json.str (sortName p.sort)), ("genFree", Json.bool p.genFree),
                            ("outs", arr outJson (p.outs bad n)), ("outsP", arr outJson (p.outsP bad n)),
                            ("scriptCost", Json.int (readsCost reads)),
                            ("script", arr readOutJson (scriptOuts reads (p.outs bad n))),
                            ("scriptP", arr readOutJson (scriptOuts reads (p.outsP bad n)))]
    pure <| Json.mkObj [("model", model), ("spec", spec)]
  | "bcastE" =>
    let f := nm (← getStr (← field j "f"))
    let dname := nm (← getStr (← field j "dname"))
    let dpos ← match optField j "dpos" with
      | some v => do pure (some (← getNat v))
      | none => pure none
    let args ← getList getTerm (← field j "args")
    let kwargs ← getList (fun kv => do
        let a ← getArr kv
        match a with
        | [k, v] => pure (nm (← getStr k), ← getTerm v)
        | _ => throw "kwargs entry must be [name, id]") (← field j "kwargs")
    let arg ← getBArg (← field j "arg")
    let n ← getNat (← field j "n")
    let bad := badOf (← getBadTable j)
    let c : ECall := { f := f, dname := dname, dpos := dpos, args := args, kwargs := kwargs, arg := arg }
    let lazyJ (kind : String) (it : Iter) : Json :=
      let r := it.drainS bad n
      Json.mkObj [("out", Json.str kind), ("outs", arr outJson r.1), ("queried", arr (arr termJson) (it.drainQ bad n)),
                  ("unread0", unreadJson it.unread), ("unread", unreadJson r.2.unread)]
    let model : Json := match elementwiseE bad c with
      | .value o => Json.mkObj [("out", Json.str "value"), ("outs", arr outJson [o]),
                                ("queried", arr (arr termJson) [[c.plainCall]])]
      | .gen it => lazyJ "generator" it
      | .stream it => lazyJ "stream" it
      | .cast k r left =>
        Json.mkObj [("out", Json.str ("same:" ++ kindName k)), ("took", exJson r),
                    ("queried", arr (arr termJson) (c.data.drainQ bad c.arg.drainFuel)),
                    ("unread", unreadJson left.unread)]
      | .keyError => Json.mkObj [("out", Json.str "keyError")]
    let srcOuts : List Out := match arg with
      | .obj _ self => [.item self]
      | .sized _ _ xs => xs.map .item
      | .lazy _ src => src.drainE bad n
    let specOuts : List Out := match arg with
      | .obj _ self => [chk bad (c.callWith self)]
      | _ => bcastOuts bad c srcOuts
    let spec := Json.mkObj [
      ("found", Json.bool c.found),
      ("out", Json.str (outKindName (if c.found then bcastKind arg.kind else .keyError))),
      ("outs", arr outJson specOuts),
      ("took", exJson (takeOuts specOuts))]
    pure <| Json.mkObj [("model", model), ("spec", spec)]
  | _ => throw s!"C01: unknown entry {entry}"

def handle (entry : String) (j : Json) : Except String Json := do
  match entry with
  | "exprE" => handleE entry j
  | "bcastE" => handleE entry j
  | "bcast" =>
    let f := nm (← getStr (← field j "f"))
    let dname := nm (← getStr (← field j "dname"))
    let dpos ← match optField j "dpos" with
      | some v => do pure (some (← getNat v))
      | none => pure none
    let args ← getList getTerm (← field j "args")
    let kwargs ← getList (fun kv => do
        let a ← getArr kv
        match a with
        | [k, v] => pure (nm (← getStr k), ← getTerm v)
        | _ => throw "kwargs entry must be [name, id]") (← field j "kwargs")
    let arg ← getBArg (← field j "arg")
    let n ← getNat (← field j "n")
    let c : ECall := { f := f, dname := dname, dpos := dpos, args := args, kwargs := kwargs, arg := arg }
    let model : Json := match elementwise c with
      | .value t => Json.mkObj [("out", Json.str "value"), ("items", arr termJson [t])]
      | .gen it =>
        let r := it.runS n
        Json.mkObj [("out", Json.str "generator"), ("items", arr termJson r.1),
                    ("unread0", unreadJson it.unread), ("unread", unreadJson r.2.unread)]
      | .stream it =>
        let r := it.runS n
        Json.mkObj [("out", Json.str "stream"), ("items", arr termJson r.1),
                    ("unread0", unreadJson it.unread), ("unread", unreadJson r.2.unread)]
      | .cast k items left =>
        Json.mkObj [("out", Json.str ("same:" ++ kindName k)), ("items", arr termJson items),
                    ("unread", unreadJson left.unread)]
      | .keyError => Json.mkObj [("out", Json.str "keyError")]
    -- spec: kind by the property's rule; items = the function applied with each item in the argument's place
    let srcItems : List Term := match arg with
      | .obj _ self => [self]
      | .sized _ _ xs => xs
      | .lazy _ src => (List.range n).filterMap src.get
    let spec := Json.mkObj [
      ("found", Json.bool c.found),
      ("out", Json.str (outKindName (if c.found then bcastKind arg.kind else .keyError))),
      ("items", arr termJson (srcItems.map c.callWith))]
    pure <| Json.mkObj [("model", model), ("spec", spec)]
  | "expr" =>
    let p ← getPy (← field j "prog")
    let n ← getNat (← field j "n")
    -- model: class built from the regenerated table, evaluation, then `n` calls of next at most
    let model : Json :=
      match installed with
      | none => Json.mkObj [("err", Json.str "ClassCreationFails")]
      | some tbl =>
        match evalPy tbl p with
        | .error e => Json.mkObj [("err", Json.str (errName e))]
        | .ok (.iterable isS it) =>
          let r := it.runS n
          Json.mkObj [("kind", Json.str (if isS then "stream" else "iter")),
                      ("items", arr termJson r.1),
                      ("trace", arr (arr termJson) (it.runT n)),
                      ("unread0", unreadJson it.unread),
                      ("unread", unreadJson r.2.unread)]
        | .ok (.scalar c) => Json.mkObj [("kind", Json.str "scalar"), ("value", termJson c)]
        | .ok (.ignored c) => Json.mkObj [("kind", Json.str "ignored"), ("value", termJson c)]
    -- spec: pointwise reading of the expression
    let so := p.sort
    let l := p.len
    let cnt := match l with | .fin L => Nat.min n L | .inf => n
    let items := (List.range cnt).filterMap p.at
    let spec := Json.mkObj [("sort", Json.str (sortName so)), ("len", lenJson l), ("items", arr termJson items)]
    pure <| Json.mkObj [("model", model), ("spec", spec)]
  | "optable" =>
    -- model: OpMethod entries and installed dunders; spec: the hand-written table
    let ops := initializeOps ALV.Gen.OpTable.table
    let opsJ := arr (fun (o : OpMethod) => Json.mkObj [
        ("name", str o.name), ("symbol", str o.symbol), ("rev", Json.bool o.rev),
        ("dname", str o.dname), ("arity", Json.int o.arity), ("func", str o.func), ("repr", str o.reprStr)]) ops
    let instJ : Json := match installed with
      | none => Json.null
      | some tbl => arr (fun (kv : Name × Dunder) => Json.mkObj [
          ("dname", str kv.1), ("builder", Json.str (builderName kv.2.builder)), ("func", str kv.2.func)]) tbl
    let specJ := arr (fun (sp : DunderSpec) => Json.mkObj [
        ("dname", str sp.dname), ("builder", Json.str (builderName sp.builder)), ("func", str sp.fn),
        ("base", str sp.base), ("reflected", Json.bool sp.reflected), ("arity", Json.int sp.arity)]) specTable
    pure <| Json.mkObj [("model", Json.mkObj [("ops", opsJ), ("installed", instJ)]), ("spec", specJ)]

  | "opget" =>
    -- `list(OpMethod.get(keys, without))`; keys: {"s": string} | {"f": dunder attribute of `operator`} | {"i": int}
    let getKey (k : Json) : Except String OpKey := do
      match optField k "s", optField k "f", optField k "i" with
      | some v, _, _ => pure (.str (nm (← getStr v)))
      | _, some v, _ => pure (.func (nm (← getStr v)))
      | _, _, some v => pure (.int (← getNat v))
      | _, _, _ => throw "C01: key = {s} | {f} | {i}"
    let keys ← getList getKey (← field j "keys")
    let wo ← getList getKey (← field j "without")
    let ops := initializeOps ALV.Gen.OpTable.table
    let opJ (o : OpMethod) : Json := Json.arr [str o.dname, str o.name, str o.symbol]
    let model : Json := match getOpsK ops keys wo with
      | none => Json.mkObj [("err", Json.str "ValueError")]
      | some l => Json.mkObj [("ops", arr opJ l)]
    -- spec: the entries filed under the keys, in the order asked for, minus those filed under a `without` key
    let spec : Json :=
      if (keys ++ wo).any (fun k => (OpMethod.under ops k).isEmpty) then Json.mkObj [("err", Json.str "ValueError")]
      else Json.mkObj [("ops", arr opJ ((keys.flatMap (OpMethod.under ops)).filter fun o =>
              !(wo.any fun k => o.keysK.contains k)))]
    pure <| Json.mkObj [("model", model), ("spec", spec)]
  | "meta" =>
    -- a class built with a user's subclass of AbstractOperatorOverloaderMeta
    let strs (k : String) : Except String (List Name) := do
      let l ← getList getStr (← field j k)
      pure (l.map nm)
    let hvL ← getList getStr (← field j "have")
    let hv : Builder → Bool := fun b => hvL.contains (builderName b)
    let r := installW ALV.Gen.OpTable.table hv (← strs "ns") (← strs "ops") (← strs "without")
    let model : Json := match r with
      | .error .valueError => Json.mkObj [("err", Json.str "ValueError")]
      | .error .keyError => Json.mkObj [("err", Json.str "KeyError")]
      | .error (.noBuilder d) => Json.mkObj [("err", Json.str "TypeError"), ("op", str d)]
      | .ok tbl => Json.mkObj [("installed", arr (fun (kv : Name × Dunder) => Json.mkObj [
          ("dname", str kv.1), ("builder", Json.str (builderName kv.2.builder)), ("func", str kv.2.func)]) tbl)]
    pure <| Json.mkObj [("model", model)]
  | _ => throw s!"C01: unknown entry {entry}"

end ALV.Driver.C01
