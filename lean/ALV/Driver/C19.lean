import ALV.Common.Json
namespace ALV.Driver.C19
open ALV ALV.J

/-- stub: the C19 slice is not built yet -/
def handle (entry : String) (_j : Json) : Except String Json :=
  throw s!"C19: unknown entry {entry}"

end ALV.Driver.C19
