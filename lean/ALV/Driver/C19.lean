import ALV.Common.Json
import ALV.Model.C19
import ALV.Spec.C19
import ALV.Model.C19Obj
import ALV.Spec.C19Obj
import ALV.Driver.C19Float
namespace ALV.Driver.C19
open ALV ALV.J ALV.C19

/-- `{"num": x}`, `{"strm": [..]}` or, for long runs, `{"cyc": [pattern], "len": N}`: the pattern
    repeated cyclically, `N` items -/
def getArg (j : Json) : Except String (Arg Rat) :=
  match j.getObjVal? "num" with
  | some v => do pure (.num (← getRat v))
  | none =>
    match j.getObjVal? "strm" with
    | some v => do pure (.strm (← getList getRat v))
    | none =>
      match j.getObjVal? "cyc" with
      | some v => do
        let pat := (← getList getRat v).toArray
        let n ← getNat (← field j "len")
        if pat.size = 0 then pure (.strm [])
        else pure (.strm ((List.range n).map fun i => pat[i % pat.size]!))
      | none => throw "argument must be {num}, {strm} or {cyc, len}"

/-- a list of numbers, possibly given as `{"cyc": pattern, "len": N}` -/
def getSeq (j : Json) : Except String (List Rat) :=
  match j with
  | Json.arr _ => getList getRat j
  | _ => do
    match ← getArg j with
    | .strm xs => pure xs
    | .num _ => throw "sequence expected"

def allEq : List Rat → Option Rat
  | [] => none
  | x :: xs => if xs.all (· == x) then some x else none

def exceptJson (r : Except String (List Rat)) : Json :=
  match r with
  | .ok xs => Json.mkObj [("out", rats xs)]
  | .error e => Json.mkObj [("err", Json.str e)]

def optRat (j : Json) (k : String) : Except String (Option Rat) :=
  match optField j k with
  | none => pure none
  | some v => do pure (some (← getRat v))

def handle1 (entry : String) (j : Json) : Except String Json := do
  match entry with
  | "modulo_counter" =>
    let a ← getArg (← field j "start")
    let m ← getArg (← field j "modulo")
    let s ← getArg (← field j "step")
    let n ← getNat (← field j "n")
    let model := moduloCounter a m s n
    let ps := a.expand n
    let ms := m.expand n
    let ss := s.expand n
    let rec_ := mcRec ps ms ss
    let len := min ps.length (min ms.length ss.length)
    -- closed layer only where the property states it: constant modulo
    let closed : Json := match allEq (ms.take len) with
      | some m0 => rats (mcClosed m0 (ps.take len) (ss.take len))
      | none => Json.null
    let zeroAt := mcZeroAt a m s n
    pure <| Json.mkObj [
      ("model", rats model), ("rec", rats rec_), ("closed", closed),
      ("zero_at", optJson natToJson zeroAt),
      ("branch", Json.str (mcBranch a m s))]
  | "line" =>
    let dur ← getRat (← field j "dur")
    let b ← getRat (← field j "begin")
    let e ← getRat (← field j "end")
    let fin ← getBool (← field j "finish")
    pure <| Json.mkObj [("model", exceptJson (line dur b e fin)), ("spec", rats (lineSpec dur b e fin))]
  | "fadein" =>
    let dur ← getRat (← field j "dur")
    pure <| Json.mkObj [("model", exceptJson (fadein dur)), ("spec", rats (lineSpec dur 0 1 false))]
  | "fadeout" =>
    let dur ← getRat (← field j "dur")
    pure <| Json.mkObj [("model", exceptJson (fadeout dur)), ("spec", rats (lineSpec dur 1 0 false))]
  | "const" =>
    let v ← getRat (← field j "v")
    let dur ← optRat j "dur"
    let n ← getNat (← field j "n")
    pure <| Json.mkObj [("model", rats (constGen v dur n)), ("spec", rats (constSpec v dur n))]
  | "impulse" =>
    let dur ← optRat j "dur"
    let n ← getNat (← field j "n")
    let one := fieldD j "one" (Json.int 1)
    let zero := fieldD j "zero" (Json.int 0)
    pure <| Json.mkObj [("model", arr id (impulse dur one zero n)),
                        ("spec", arr id (impulseSpec dur one zero n))]
  | "adsr" =>
    let dur ← getRat (← field j "dur")
    let a ← getRat (← field j "a")
    let d ← getRat (← field j "d")
    let s ← getRat (← field j "s")
    let r ← getRat (← field j "r")
    pure <| Json.mkObj [("model", exceptJson (adsr dur a d s r)), ("spec", rats (adsrSpec dur a d s r))]
  | "attack" =>
    let a ← getRat (← field j "a")
    let d ← getRat (← field j "d")
    let s ← getArg (← field j "s")
    let n ← getNat (← field j "n")
    let spec : Json := match s with
      | .num x => rats (attackSpec a d x (List.replicate n x) n)
      | .strm (x :: xs) => rats (attackSpec a d x xs n)
      | .strm [] => Json.null
    pure <| Json.mkObj [("model", exceptJson (attack a d s n)), ("spec", spec)]
  | "noise" =>
    let dur ← optRat j "dur"
    let n ← getNat (← field j "n")
    let specLen : Nat := match dur with
      | none => n
      | some d => min n (durLen d)
    pure <| Json.mkObj [("model", natToJson (noiseLen dur n)), ("spec", natToJson specLen)]
  | "table_call" =>
    let tbl ← getSeq (← field j "table")
    let den ← getRat (← field j "den")
    let freq ← getArg (← field j "freq")
    let phase ← getArg (← field j "phase")
    let n ← getNat (← field j "n")
    if tbl.isEmpty ∨ den = 0 then throw "table_call: empty table or zero den"
    pure <| Json.mkObj [("model", arr (optJson ratToJson) (tableCall tbl den freq phase n)),
                        ("spec", rats (tableSpec tbl den freq phase n))]
  | "table_getitem" =>
    let tbl ← getList getRat (← field j "table")
    let idx ← getRat (← field j "idx")
    if tbl.isEmpty then throw "table_getitem: empty table"
    pure <| Json.mkObj [("model", optJson ratToJson (tableGetItem tbl idx)),
                        ("spec", ratToJson (interpCyc tbl idx))]
  | "table_op" =>
    let t1 ← getList getRat (← field j "table")
    let c1 ← getRat (← field j "cycles")
    let kind ← getStr (← field j "kind")
    let op : TOp ← match fieldD j "op" (Json.str "add") with
      | Json.str "add" => pure TOp.add | Json.str "sub" => pure TOp.sub
      | Json.str "mul" => pure TOp.mul | Json.str "div" => pure TOp.div
      | _ => throw "bad op"
    match kind with
    | "binary" =>
      let t2 ← getList getRat (← field j "table2")
      let c2 ← getRat (← field j "cycles2")
      pure <| Json.mkObj [("model", exceptJson (tblBinary op t1 c1 t2 c2))]
    | "scalar" =>
      let x ← getRat (← field j "x")
      let refl ← getBool (← field j "reflected")
      pure <| Json.mkObj [("model", Json.mkObj [("out", rats (tblScalar op t1 x refl))])]
    | "neg" => pure <| Json.mkObj [("model", Json.mkObj [("out", rats (tblNeg t1))])]
    | "normalize" => pure <| Json.mkObj [("model", exceptJson (tblNormalize t1))]
    | "harmonize" =>
      let hs ← getList (fun h => do
        let p ← getNat (← field h "p")
        let a ← getRat (← field h "a")
        pure (p, a)) (← field j "harm")
      let divisible := hs.all fun pa => t1.length % (pa.1 + 1) == 0
      pure <| Json.mkObj [("model", Json.mkObj [("out", rats (tblHarmonize t1 hs))]),
        ("spec", if divisible then rats (harmonizeSpec t1 hs) else Json.null)]
    | _ => throw "bad kind"
  | "sinusoid" =>
    let twoPi ← getRat (← field j "two_pi")
    let freq ← getArg (← field j "freq")
    let phase ← getArg (← field j "phase")
    let n ← getNat (← field j "n")
    let sinF : Rat → Float := fun r => Float.sin (ratToFloat r)
    pure <| Json.mkObj [("model", arr floatToJson (sinusoid sinF twoPi freq phase n)),
                        ("spec", arr floatToJson (sinusoidSpec sinF freq phase n))]
  | "karplus" =>
    let alpha ← getRat (← field j "alpha")
    let delay ← getRat (← field j "delay")
    let memory ← getSeq (← field j "memory")
    let n ← getNat (← field j "n")
    pure <| Json.mkObj [("model", rats (karplus alpha delay memory n)),
                        ("spec", rats (karplusSpec alpha delay memory n))]
  | "resample" =>
    let sig ← getSeq (← field j "sig")
    let step ← getArg (← field j "step")
    let order ← getNat (← field j "order")
    let zero ← getRat (← field j "zero")
    let n ← getNat (← field j "n")
    let endStr : ResEnd → String := fun e => match e with
      | .fuel => "fuel" | .input => "input" | .step => "step"
    let model : Json := match resample sig step order zero n with
      | .ok (xs, e) => Json.mkObj [("out", rats xs), ("end", Json.str (endStr e))]
      | .error e => Json.mkObj [("err", Json.str e)]
    let sp := resampleSpec sig step order zero n
    pure <| Json.mkObj [("model", model),
      ("spec", Json.mkObj [("out", rats sp.1), ("ended", Json.bool sp.2)]),
      ("short", Json.bool (resShort sig order))]
  | _ => ALV.Driver.C19Float.handle entry j

/-! ### long runs: only a sparse set of positions of every output list is transported -/

/-- an output list `xs` becomes `{"n": xs.length, "at": [xs[i] for i in idx if i < n]}` -/
def pick (idx : List Nat) (xs : List Json) : Json :=
  let a := xs.toArray
  Json.mkObj [("n", natToJson a.size), ("at", Json.arr (idx.filterMap fun i => a[i]?))]

def sparsify (idx : List Nat) : Nat → Json → Json
  | 0, j => j
  | d + 1, j =>
    match j with
    | Json.arr xs => pick idx xs
    | Json.obj kv => Json.obj (kv.map fun (k, v) =>
        if k == "model" || k == "spec" || k == "rec" || k == "closed" || k == "out"
        then (k, sparsify idx d v) else (k, v))
    | j => j

def handleIdx (entry : String) (j : Json) : Except String Json := do
  let r ← handle1 entry j
  match optField j "pick" with
  | none => pure r
  | some v => do
    let idx ← getList getNat v
    pure (sparsify idx 3 r)

/-! ### histories of mutable `TableLookup` objects -/

def getTOp (j : Json) : Except String TOp :=
  match j with
  | Json.str "add" => pure TOp.add | Json.str "sub" => pure TOp.sub
  | Json.str "mul" => pure TOp.mul | Json.str "div" => pure TOp.div
  | _ => throw "bad op"

def getHOp (j : Json) : Except String (HOp Rat) := do
  let nat (k : String) : Except String Nat := do getNat (← field j k)
  let rat (k : String) : Except String Rat := do getRat (← field j k)
  match ← getStr (← field j "op") with
  | "newList" => pure (.newList (← getList getRat (← field j "xs")))
  | "new" => pure (.new (← nat "l") (← rat "c"))
  | "setTable" => pure (.setTable (← nat "i") (← nat "l"))
  | "setTableUnsized" => pure (.setTableUnsized (← nat "i"))
  | "setCycles" => pure (.setCycles (← nat "i") (← rat "c"))
  | "setItem" => pure (.setItem (← nat "l") (← getInt (← field j "k")) (← rat "v"))
  | "append" => pure (.append (← nat "l") (← rat "v"))
  | "pop" => pure (.pop (← nat "l"))
  | "binary" => pure (.binary (← getTOp (← field j "f")) (← nat "i") (← nat "j"))
  | "scalar" => pure (.scalar (← getTOp (← field j "f")) (← nat "i") (← rat "x")
      (← getBool (← field j "reflected")) (← getBool (← field j "known")))
  | "neg" => pure (.neg (← nat "i"))
  | "normalize" => pure (.normalize (← nat "i"))
  | "harmonize" =>
    let hs ← getList (fun h => do
      let p ← getNat (← field h "p")
      let a ← getRat (← field h "a")
      pure (p, a)) (← field j "harm")
    pure (.harmonize (← nat "i") hs)
  | "call" => pure (.call (← nat "i") (← getArg (← field j "freq")) (← getArg (← field j "phase")))
  | "read" => pure (.read (← nat "s") (← nat "k"))
  | "getitem" => pure (.getitem (← nat "i") (← rat "idx"))
  | "len" => pure (.len (← nat "i"))
  | "eq" => pure (.eq (← nat "i") (← nat "j"))
  | "table" => pure (.table (← nat "i"))
  | o => throw s!"tl_hist: unknown op {o}"

def obsJson : Obs Rat → Json
  | .unit => Json.mkObj [("k", Json.str "unit")]
  | .ref i => Json.mkObj [("k", Json.str "ref"), ("i", natToJson i)]
  | .samples xs st => Json.mkObj [("k", Json.str "samples"), ("xs", rats xs), ("st", Json.str st)]
  | .val x => Json.mkObj [("k", Json.str "val"), ("x", ratToJson x)]
  | .nat n => Json.mkObj [("k", Json.str "nat"), ("n", natToJson n)]
  | .bool b => Json.mkObj [("k", Json.str "bool"), ("b", Json.bool b)]
  | .table xs c => Json.mkObj [("k", Json.str "table"), ("xs", rats xs), ("c", ratToJson c)]
  | .err e => Json.mkObj [("k", Json.str "err"), ("e", Json.str e)]

def handle (entry : String) (j : Json) : Except String Json := do
  match entry with
  | "multi" =>
    -- several independent requests in one case (pools of generators alive at the same time)
    let reqs ← getArr (← field j "reqs")
    let res ← reqs.mapM fun r => do
      let e ← getStr (← field r "entry")
      handleIdx e r
    pure <| Json.mkObj [("res", Json.arr res)]
  | "tl_hist" =>
    -- `dens`: the value of `cycles * 2 * pi` for every `cycles` used (computed by the harness
    -- with the expression of the code)
    let dens ← getList (fun p => do
      match ← getArr p with
      | [c, d] => pure ((← getRat c), (← getRat d))
      | _ => throw "tl_hist: dens must be pairs") (← field j "dens")
    let denOf : Rat → Rat := fun c => match dens.find? (·.1 == c) with
      | some (_, d) => d
      | none => 0
    let ops ← getList getHOp (← field j "ops")
    let h0 : Heap Rat := { lists := [], objs := [], oscs := [] }
    pure <| Json.mkObj [("model", arr obsJson (histModel denOf h0 ops)),
                        ("spec", arr obsJson (histSpec denOf h0 ops))]
  | _ => handleIdx entry j

end ALV.Driver.C19
