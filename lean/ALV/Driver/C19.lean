import ALV.Common.Json
import ALV.Model.C19
import ALV.Spec.C19
namespace ALV.Driver.C19
open ALV ALV.J ALV.C19

/-- `{"num": x}` or `{"strm": [..]}` -/
def getArg (j : Json) : Except String (Arg Rat) :=
  match j.getObjVal? "num" with
  | some v => do pure (.num (← getRat v))
  | none =>
    match j.getObjVal? "strm" with
    | some v => do pure (.strm (← getList getRat v))
    | none => throw "argument must be {num} or {strm}"

def allEq : List Rat → Option Rat
  | [] => none
  | x :: xs => if xs.all (· == x) then some x else none

def handle (entry : String) (j : Json) : Except String Json := do
  match entry with
  | "modulo_counter" =>
    let a ← getArg (← field j "start")
    let m ← getArg (← field j "modulo")
    let s ← getArg (← field j "step")
    let n ← getNat (← field j "n")
    let model := moduloCounter a m s n
    let ps := a.expand n
    let ms := m.expand n
    let ss := s.expand n
    let rec_ := mcRec ps ms ss
    let len := min ps.length (min ms.length ss.length)
    -- closed layer only where the property states it: constant modulo
    let closed : Json := match allEq (ms.take len) with
      | some m0 => rats (mcClosed m0 (ps.take len) (ss.take len))
      | none => Json.null
    let zeroAt := mcZeroAt a m s n
    pure <| Json.mkObj [
      ("model", rats model), ("rec", rats rec_), ("closed", closed),
      ("zero_at", optJson natToJson zeroAt),
      ("branch", Json.str (mcBranch a m s))]
  | _ => throw s!"C19: unknown entry {entry}"

end ALV.Driver.C19
