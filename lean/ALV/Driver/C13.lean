import ALV.Common.Json
namespace ALV.Driver.C13
open ALV ALV.J

/-- stub: the C13 slice is not built yet -/
def handle (entry : String) (_j : Json) : Except String Json :=
  throw s!"C13: unknown entry {entry}"

end ALV.Driver.C13
