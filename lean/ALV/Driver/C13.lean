import ALV.Common.Json
import ALV.Model.C13
import ALV.Model.C13Call
import ALV.Spec.C13
import ALV.Spec.C13Hist
import ALV.Model.C13Thub
import ALV.Model.C04
import ALV.Spec.C04
namespace ALV.Driver.C13
open ALV ALV.J ALV.C13

/-! All designs are evaluated at `Float` (the executable twin of the generic `[TrigField α]`
definitions the theorems are about); results travel as the exact rational of their binary value. -/

def fl (x : Float) : Json := floatToJson x
def fls (l : List Float) : Json := arr fl l

def coefsJson (s : Coefs Float) : Json :=
  Json.mkObj [("num", fls s.num), ("den", fls s.den)]

def pairsJson (l : List (Float × Float)) : Json :=
  arr (fun p => Json.arr [fl p.1, fl p.2]) l

def contractJson (c : Contract Float) : Json :=
  Json.mkObj [
    ("dc", optJson fl c.dc), ("nyquist", optJson fl c.nyquist),
    ("points", pairsJson c.points), ("cos_points", pairsJson c.cosPoints),
    ("pole_radius", optJson fl c.poleRadius), ("peak", optJson fl c.peak),
    ("mono", intToJson c.mono)]

/-- the model's own reading of the contract quantities (sanity: the Float twin meets the contract) -/
def measuredJson (s : Coefs Float) (c : Contract Float) : Json :=
  Json.mkObj [
    ("dc", fl (dcGain s)), ("nyquist", fl (nyquistGain s)),
    ("points", arr (fun (p : Float × Float) => fl (magSq s p.1)) c.points)]

def strategyOf (s : String) : Except String Strategy :=
  match s with
  | "pole" => pure .pole
  | "z" => pure .z
  | "pole_exp" => pure .poleExp
  | "z_exp" => pure .zExp
  | _ => throw s!"C13: unknown lowpass/highpass strategy {s}"

def resStrategyOf (s : String) : Except String ResStrategy :=
  match s with
  | "poles_exp" => pure .polesExp
  | "freq_poles_exp" => pure .freqPolesExp
  | "z_exp" => pure .zExp
  | "freq_z_exp" => pure .freqZExp
  | _ => throw s!"C13: unknown resonator strategy {s}"

def optStrategy (j : Json) : Except String (Option Strategy) :=
  match optField j "strategy" with
  | none => pure none
  | some v => do pure (some (← strategyOf (← getStr v)))

def optResStrategy (j : Json) : Except String (Option ResStrategy) :=
  match optField j "strategy" with
  | none => pure none
  | some v => do pure (some (← resStrategyOf (← getStr v)))

def optCombStrategy (j : Json) : Except String (Option CombStrategy) :=
  match optField j "strategy" with
  | none => pure none
  | some v => do
    match (← getStr v) with
    | "fb" => pure (some .fb)
    | "tau" => pure (some .tau)
    | "ff" => pure (some .ff)
    | st => throw s!"C13: unknown comb strategy {st}"

def optErbStrategy (j : Json) : Except String (Option ErbStrategy) :=
  match optField j "strategy" with
  | none => pure none
  | some v => do
    match (← getStr v) with
    | "gm90" => pure (some .gm90)
    | "mg83" => pure (some .mg83)
    | st => throw s!"C13: unknown erb strategy {st}"

def optFloat (j : Json) (k : String) : Except String (Option Float) :=
  match optField j k with
  | none => pure none
  | some v => do pure (some (← getFloat v))

def optNat (j : Json) (k : String) : Except String (Option Nat) :=
  match optField j k with
  | none => pure none
  | some v => do pure (some (← getNat v))

def design (s : Coefs Float) (c : Contract Float) : Json :=
  Json.mkObj [("model", coefsJson s), ("spec", contractJson c), ("measured", measuredJson s c)]

def sections (ss : List (Coefs Float)) (cs : List (Contract Float)) : Json :=
  Json.mkObj [("model", arr coefsJson ss), ("spec", arr contractJson cs),
              ("measured", Json.arr ((ss.zip cs).map fun p => measuredJson p.1 p.2))]

/-- the gammatone call of a request: strategy (omitted = `sampled`), `phase` / `eta` omitted or given;
`none` = the model predicts the `assert eta >= 1` to fail -/
def gammatoneOf (j : Json) : Except String (Option (List (Coefs Float) × Bool)) := do
  let f ← getFloat (← field j "freq")
  let bw ← getFloat (← field j "bandwidth")
  let st ← match optField j "strategy" with
    | none => pure "sampled"
    | some v => getStr v
  match st with
  | "sampled" =>
    let ph ← optFloat j "phase"
    let eta ← optNat j "eta"
    if eta = some 0 then pure none else pure (some (gammatoneSampledCall f bw ph eta, true))
  | "slaney" => pure (some (gammatoneSlaney f bw, true))
  | "klapuri" => pure (some (gammatoneKlapuri f bw, false))
  | st => throw s!"C13: unknown gammatone strategy {st}"

/-- the sections of a constant design, as model coefficient lists (time-domain runs) -/
def sectionsOf (j : Json) : Except String (List (Coefs Float)) := do
  match (← getStr (← field j "entry")) with
  | "lowpass" => pure [lowpassCall (← optStrategy j) (← getFloat (← field j "cutoff"))]
  | "highpass" => pure [highpassCall (← optStrategy j) (← getFloat (← field j "cutoff"))]
  | "resonator" =>
    pure [resonatorCall (← optResStrategy j) (← getFloat (← field j "freq")) (← getFloat (← field j "bandwidth"))]
  | "gammatone" =>
    match (← gammatoneOf j) with
    | some (ss, _) => pure ss
    | none => throw "C13: no time-domain run for eta = 0"
  | e => throw s!"C13: no time-domain run for entry {e}"

def erbJson (r : Except Unit Float) : Json :=
  match r with
  | .ok v => Json.mkObj [("model", fl v)]
  | .error _ => Json.mkObj [("err", Json.str "ValueError")]

def handleOne (entry : String) (j : Json) : Except String Json := do
  match entry with
  | "lowpass" =>
    let st ← optStrategy j
    let c ← getFloat (← field j "cutoff")
    pure <| design (lowpassCall st c) (lowpassSpec (st.getD .pole) c)
  | "highpass" =>
    let st ← optStrategy j
    let c ← getFloat (← field j "cutoff")
    pure <| design (highpassCall st c) (highpassSpec (st.getD .z) c)
  | "resonator" =>
    let st ← optResStrategy j
    let f ← getFloat (← field j "freq")
    let bw ← getFloat (← field j "bandwidth")
    pure <| design (resonatorCall st f bw) (resonatorSpec (st.getD .polesExp) f bw)
  | "comb" =>
    let st ← optCombStrategy j
    let d ← getNat (← field j "delay")
    let p ← optFloat j "param"
    let xs ← getList getFloat (← field j "xs")
    let s := combCall st d p
    -- the documented difference equation with the documented alpha (omitted: 1; tau: e^(-delay/tau))
    let alpha := match st.getD .fb, p with
      | .tau, some tau => Float.exp (-(Float.ofNat d / tau))
      | _, some a => a
      | _, none => 1.0
    let y := match st.getD .fb with
      | .ff => combFfSpec d alpha xs
      | _ => combFbSpec d alpha xs
    pure <| Json.mkObj [("model", coefsJson s), ("run", fls (runFilter s xs)),
                        ("spec", Json.mkObj [("alpha", fl alpha), ("out", fls y)])]
  | "gammatone" =>
    let f ← getFloat (← field j "freq")
    let bw ← getFloat (← field j "bandwidth")
    match (← gammatoneOf j) with
    | none => pure <| Json.mkObj [("err", Json.str "AssertionError")]
    | some (ss, radius) => pure <| sections ss (ss.map fun _ => gammatoneSectionContract f bw radius)
  | "run" =>
    -- a designed filter (cascade: section after section) run by the C04 difference equation
    let ss ← sectionsOf (← field j "design")
    let xs ← getList getFloat (← field j "xs")
    pure <| Json.mkObj [("run", fls (runCascade ss xs))]
  | "erb" =>
    let st ← optErbStrategy j
    let f ← getFloat (← field j "freq")
    let hz ← optFloat j "Hz"
    pure <| erbJson (erbCall st f hz)
  | "erbmap" =>
    let st ← optErbStrategy j
    let fs ← getList getFloat (← field j "freqs")
    let hz ← optFloat j "Hz"
    let eager := match erbCallList st fs hz with
      | .ok vs => Json.mkObj [("values", fls vs)]
      | .error _ => Json.mkObj [("err", Json.str "ValueError")]
    let readJson (r : Option (Except Unit Float)) : Json := match r with
      | none => Json.mkObj [("stop", Json.bool true)]
      | some r => erbJson r
    pure <| Json.mkObj [("eager", eager), ("lazy", arr erbJson (erbCallLazy st fs hz)),
                        ("reads", arr readJson (erbLazyReads st fs hz (fs.length + 2)))]
  | "erb_constants" =>
    let n ← getNat (← field j "n")
    let r : Float × Float := gammatoneErbConstants n
    pure <| Json.mkObj [("model", Json.arr [fl r.1, fl r.2])]
  | _ => throw s!"C13: unknown entry {entry}"

/-! ### histories of designs sharing parameter objects (`ALV/Model/C13Hist.lean`) -/

def flavOf (s : String) : Except String Flav :=
  match s with
  | "pool" => pure .pool
  | "tee" => pure .tee
  | "ctrl" => pure .ctrl
  | _ => throw s!"C13: unknown flavour {s}"

def parOf (j : Json) : Except String (Par Float) := do
  match optField j "src" with
  | some i => pure (.src (← getNat i))
  | none => pure (.const (← getFloat (← field j "const")))

def kindOf (j : Json) : Except String Kind := do
  let k ← getStr (← field j "kind")
  match k with
  | "lowpass" => pure (.lowpass (← strategyOf (← getStr (← field j "strategy"))))
  | "highpass" => pure (.highpass (← strategyOf (← getStr (← field j "strategy"))))
  | "resonator" => pure (.resonator (← resStrategyOf (← getStr (← field j "strategy"))))
  | "klapuri" => pure .klapuri
  | "comb" =>
    let d ← getNat (← field j "delay")
    match (← getStr (← field j "strategy")) with
    | "fb" => pure (.combFb d)
    | "tau" => pure (.combTau d)
    | "ff" => pure (.combFf d)
    | st => throw s!"C13: unknown comb strategy {st}"
  | _ => throw s!"C13: unknown design kind {k}"

def opOf (j : Json) : Except String (HOp Float) := do
  match (← getStr (← field j "op")) with
  | "build" => pure (.build (← getNat (← field j "j")))
  | "take" => pure (.take (← getNat (← field j "j")))
  | "set" => pure (.set (← getNat (← field j "i")) (← getFloat (← field j "v")))
  | o => throw s!"C13: unknown history step {o}"

/-- the contract records of the sections of an instant -/
def kindContracts (k : Kind) (v1 v2 : Float) : List (Contract Float) :=
  match k with
  | .lowpass st => [lowpassSpec st v1]
  | .highpass st => [highpassSpec st v1]
  | .resonator st => [resonatorSpec st v1 v2]
  | .klapuri => (gammatoneKlapuri v1 v2).map fun _ => gammatoneSectionContract v1 v2 false
  | _ => []

def emitJson (e : Option (Emit Float)) : Json :=
  match e with
  | none => Json.null
  | some e => Json.mkObj [("v1", fl e.v1), ("v2", fl e.v2), ("secs", arr coefsJson e.secs)]

def handleHist (j : Json) : Except String Json := do
  let srcs ← getList (fun s => do
    pure (⟨← flavOf (← getStr (← field s "flav")), ← getList getFloat (← field s "vals")⟩ : Src Float))
    (← field j "srcs")
  let dsgs ← getList (fun d => do
    pure (⟨← kindOf d, ← parOf (← field d "p1"), ← parOf (← field d "p2")⟩ : Dsg Float)) (← field j "dsgs")
  let ops ← getList opOf (← field j "ops")
  let view ← getNat (fieldD j "view" (Json.int 2))
  let model := histModel srcs dsgs ops
  let spec := histSpec srcs dsgs ops
  let contracts := (spec.zip ops).map fun (e, op) =>
    match e, op with
    | some e, .take jd => arr contractJson (kindContracts (dsgs.getD jd emptyDsg).kind e.v1 e.v2)
    | _, _ => Json.null
  let past := ops.reverse
  pure <| Json.mkObj [
    ("model", arr emitJson model), ("spec", arr emitJson spec), ("contracts", Json.arr contracts),
    ("final", arr fls (histFinal srcs dsgs ops view)),
    ("final_spec", arr fls ((List.range srcs.length).map fun i => callerSpec srcs dsgs past i view))]

/-- `thub`: one design called with Stream-valued arguments (`v1`, `v2`: the values each argument cycles; a
number is a one-element cycle), its filter objects read by a schedule (`sched`: positions in the cascade).
`model` = the tee-hub machine on the strategy body (raw coefficient lists), `spec` = the constant design of
the instant's values, `wf` = the static one-reader-per-iterator check of the program -/
def handleThub (j : Json) : Except String Json := do
  let kind ← kindOf j
  let v1 ← getList getFloat (← field j "v1")
  let v2 ← getList getFloat (← field j "v2")
  let sched ← getList getNat (← field j "sched")
  pure <| Json.mkObj [
    ("model", arr coefsJson (thubModel kind v1 v2 sched)),
    ("spec", arr coefsJson (constReads kind v1 v2 [] sched)),
    ("wf", Json.bool (wfDesign (progOf kind)))]

/-- `multi`: a list of requests answered in order (Stream-valued parameters: one constant design
per instant) -/
def handle (entry : String) (j : Json) : Except String Json := do
  match entry with
  | "multi" =>
    let cs ← getArr (← field j "cases")
    let rs ← cs.mapM fun c => do
      let e ← getStr (← field c "entry")
      handleOne e c
    pure <| Json.mkObj [("results", Json.arr rs)]
  | "hist" => handleHist j
  | "thub" => handleThub j
  | _ => handleOne entry j

end ALV.Driver.C13
