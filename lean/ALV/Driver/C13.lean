import ALV.Common.Json
import ALV.Model.C13
import ALV.Spec.C13
import ALV.Spec.C13Hist
import ALV.Model.C04
import ALV.Spec.C04
namespace ALV.Driver.C13
open ALV ALV.J ALV.C13

/-! All designs are evaluated at `Float` (the executable twin of the generic `[TrigField α]`
definitions the theorems are about); results travel as the exact rational of their binary value. -/

def fl (x : Float) : Json := floatToJson x
def fls (l : List Float) : Json := arr fl l

def coefsJson (s : Coefs Float) : Json :=
  Json.mkObj [("num", fls s.num), ("den", fls s.den)]

def pairsJson (l : List (Float × Float)) : Json :=
  arr (fun p => Json.arr [fl p.1, fl p.2]) l

def contractJson (c : Contract Float) : Json :=
  Json.mkObj [
    ("dc", optJson fl c.dc), ("nyquist", optJson fl c.nyquist),
    ("points", pairsJson c.points), ("cos_points", pairsJson c.cosPoints),
    ("pole_radius", optJson fl c.poleRadius), ("peak", optJson fl c.peak),
    ("mono", intToJson c.mono)]

/-- the model's own reading of the contract quantities (sanity: the Float twin meets the contract) -/
def measuredJson (s : Coefs Float) (c : Contract Float) : Json :=
  Json.mkObj [
    ("dc", fl (dcGain s)), ("nyquist", fl (nyquistGain s)),
    ("points", arr (fun (p : Float × Float) => fl (magSq s p.1)) c.points)]

def strategyOf (s : String) : Except String Strategy :=
  match s with
  | "pole" => pure .pole
  | "z" => pure .z
  | "pole_exp" => pure .poleExp
  | "z_exp" => pure .zExp
  | _ => throw s!"C13: unknown lowpass/highpass strategy {s}"

def resStrategyOf (s : String) : Except String ResStrategy :=
  match s with
  | "poles_exp" => pure .polesExp
  | "freq_poles_exp" => pure .freqPolesExp
  | "z_exp" => pure .zExp
  | "freq_z_exp" => pure .freqZExp
  | _ => throw s!"C13: unknown resonator strategy {s}"

def design (s : Coefs Float) (c : Contract Float) : Json :=
  Json.mkObj [("model", coefsJson s), ("spec", contractJson c), ("measured", measuredJson s c)]

def sections (ss : List (Coefs Float)) (cs : List (Contract Float)) : Json :=
  Json.mkObj [("model", arr coefsJson ss), ("spec", arr contractJson cs),
              ("measured", Json.arr ((ss.zip cs).map fun p => measuredJson p.1 p.2))]

/-- run the C04 difference equation (`fspec`, zero memory) on the designed coefficients -/
def runFilter (s : Coefs Float) (xs : List Float) : List Float :=
  match s.den with
  | [] => []
  | a0 :: as => ALV.C04.fspec s.num as a0 0.0 (List.replicate as.length 0.0) [] xs

/-- the sections of a constant design, as model coefficient lists (time-domain runs) -/
def sectionsOf (j : Json) : Except String (List (Coefs Float)) := do
  match (← getStr (← field j "entry")) with
  | "lowpass" =>
    pure [lowpass (← strategyOf (← getStr (← field j "strategy"))) (← getFloat (← field j "cutoff"))]
  | "highpass" =>
    pure [highpass (← strategyOf (← getStr (← field j "strategy"))) (← getFloat (← field j "cutoff"))]
  | "resonator" =>
    pure [resonator (← resStrategyOf (← getStr (← field j "strategy"))) (← getFloat (← field j "freq"))
            (← getFloat (← field j "bandwidth"))]
  | "gammatone" =>
    let f ← getFloat (← field j "freq")
    let bw ← getFloat (← field j "bandwidth")
    match (← getStr (← field j "strategy")) with
    | "sampled" =>
      pure (gammatoneSampled f bw (← getFloat (fieldD j "phase" (Json.int 0))) (← getNat (fieldD j "eta" (Json.int 4))))
    | "slaney" => pure (gammatoneSlaney f bw)
    | "klapuri" => pure (gammatoneKlapuri f bw)
    | st => throw s!"C13: unknown gammatone strategy {st}"
  | e => throw s!"C13: no time-domain run for entry {e}"

def handleOne (entry : String) (j : Json) : Except String Json := do
  match entry with
  | "lowpass" =>
    let st ← strategyOf (← getStr (← field j "strategy"))
    let c ← getFloat (← field j "cutoff")
    pure <| design (lowpass st c) (lowpassSpec st c)
  | "highpass" =>
    let st ← strategyOf (← getStr (← field j "strategy"))
    let c ← getFloat (← field j "cutoff")
    pure <| design (highpass st c) (highpassSpec st c)
  | "resonator" =>
    let st ← resStrategyOf (← getStr (← field j "strategy"))
    let f ← getFloat (← field j "freq")
    let bw ← getFloat (← field j "bandwidth")
    pure <| design (resonator st f bw) (resonatorSpec st f bw)
  | "comb" =>
    let st ← getStr (← field j "strategy")
    let d ← getNat (← field j "delay")
    let p ← getFloat (← field j "param")
    let xs ← getList getFloat (← field j "xs")
    let (s, alpha, y) ← match st with
      | "fb" => pure (combFb d p, p, combFbSpec d p xs)
      | "tau" => pure (combTau d p, Float.exp (-(Float.ofNat d / p)), combFbSpec d (Float.exp (-(Float.ofNat d / p))) xs)
      | "ff" => pure (combFf d p, p, combFfSpec d p xs)
      | _ => throw s!"C13: unknown comb strategy {st}"
    pure <| Json.mkObj [("model", coefsJson s), ("run", fls (runFilter s xs)),
                        ("spec", Json.mkObj [("alpha", fl alpha), ("out", fls y)])]
  | "gammatone" =>
    let st ← getStr (← field j "strategy")
    let f ← getFloat (← field j "freq")
    let bw ← getFloat (← field j "bandwidth")
    match st with
    | "sampled" =>
      let ph ← getFloat (fieldD j "phase" (Json.int 0))
      let eta ← getNat (fieldD j "eta" (Json.int 4))
      if eta = 0 then pure <| Json.mkObj [("err", Json.str "AssertionError")]
      else
        let ss := gammatoneSampled f bw ph eta
        pure <| sections ss (ss.map fun _ => gammatoneSectionContract f bw true)
    | "slaney" =>
      let ss := gammatoneSlaney f bw
      pure <| sections ss (ss.map fun _ => gammatoneSectionContract f bw true)
    | "klapuri" =>
      let ss := gammatoneKlapuri f bw
      pure <| sections ss (ss.map fun _ => gammatoneSectionContract f bw false)
    | _ => throw s!"C13: unknown gammatone strategy {st}"
  | "run" =>
    -- a designed filter (cascade: section after section) run by the C04 difference equation
    let ss ← sectionsOf (← field j "design")
    let xs ← getList getFloat (← field j "xs")
    pure <| Json.mkObj [("run", fls (ss.foldl (fun acc s => runFilter s acc) xs))]
  | "erb" =>
    let st ← getStr (← field j "strategy")
    let f ← getFloat (← field j "freq")
    let hz ← getFloat (← field j "Hz")
    match st with
    | "gm90" => pure <| Json.mkObj [("model", fl (erbGm90 f hz))]
    | "mg83" => pure <| Json.mkObj [("model", fl (erbMg83 f hz))]
    | _ => throw s!"C13: unknown erb strategy {st}"
  | "erb_constants" =>
    let n ← getNat (← field j "n")
    let r : Float × Float := gammatoneErbConstants n
    pure <| Json.mkObj [("model", Json.arr [fl r.1, fl r.2])]
  | _ => throw s!"C13: unknown entry {entry}"

/-! ### histories of designs sharing parameter objects (`ALV/Model/C13Hist.lean`) -/

def flavOf (s : String) : Except String Flav :=
  match s with
  | "pool" => pure .pool
  | "tee" => pure .tee
  | "ctrl" => pure .ctrl
  | _ => throw s!"C13: unknown flavour {s}"

def parOf (j : Json) : Except String (Par Float) := do
  match optField j "src" with
  | some i => pure (.src (← getNat i))
  | none => pure (.const (← getFloat (← field j "const")))

def kindOf (j : Json) : Except String Kind := do
  let k ← getStr (← field j "kind")
  match k with
  | "lowpass" => pure (.lowpass (← strategyOf (← getStr (← field j "strategy"))))
  | "highpass" => pure (.highpass (← strategyOf (← getStr (← field j "strategy"))))
  | "resonator" => pure (.resonator (← resStrategyOf (← getStr (← field j "strategy"))))
  | "klapuri" => pure .klapuri
  | "comb" =>
    let d ← getNat (← field j "delay")
    match (← getStr (← field j "strategy")) with
    | "fb" => pure (.combFb d)
    | "tau" => pure (.combTau d)
    | "ff" => pure (.combFf d)
    | st => throw s!"C13: unknown comb strategy {st}"
  | _ => throw s!"C13: unknown design kind {k}"

def opOf (j : Json) : Except String (HOp Float) := do
  match (← getStr (← field j "op")) with
  | "build" => pure (.build (← getNat (← field j "j")))
  | "take" => pure (.take (← getNat (← field j "j")))
  | "set" => pure (.set (← getNat (← field j "i")) (← getFloat (← field j "v")))
  | o => throw s!"C13: unknown history step {o}"

/-- the contract records of the sections of an instant -/
def kindContracts (k : Kind) (v1 v2 : Float) : List (Contract Float) :=
  match k with
  | .lowpass st => [lowpassSpec st v1]
  | .highpass st => [highpassSpec st v1]
  | .resonator st => [resonatorSpec st v1 v2]
  | .klapuri => (gammatoneKlapuri v1 v2).map fun _ => gammatoneSectionContract v1 v2 false
  | _ => []

def emitJson (e : Option (Emit Float)) : Json :=
  match e with
  | none => Json.null
  | some e => Json.mkObj [("v1", fl e.v1), ("v2", fl e.v2), ("secs", arr coefsJson e.secs)]

def handleHist (j : Json) : Except String Json := do
  let srcs ← getList (fun s => do
    pure (⟨← flavOf (← getStr (← field s "flav")), ← getList getFloat (← field s "vals")⟩ : Src Float))
    (← field j "srcs")
  let dsgs ← getList (fun d => do
    pure (⟨← kindOf d, ← parOf (← field d "p1"), ← parOf (← field d "p2")⟩ : Dsg Float)) (← field j "dsgs")
  let ops ← getList opOf (← field j "ops")
  let view ← getNat (fieldD j "view" (Json.int 2))
  let model := histModel srcs dsgs ops
  let spec := histSpec srcs dsgs ops
  let contracts := (spec.zip ops).map fun (e, op) =>
    match e, op with
    | some e, .take jd => arr contractJson (kindContracts (dsgs.getD jd emptyDsg).kind e.v1 e.v2)
    | _, _ => Json.null
  let past := ops.reverse
  pure <| Json.mkObj [
    ("model", arr emitJson model), ("spec", arr emitJson spec), ("contracts", Json.arr contracts),
    ("final", arr fls (histFinal srcs dsgs ops view)),
    ("final_spec", arr fls ((List.range srcs.length).map fun i => callerSpec srcs dsgs past i view))]

/-- `multi`: a list of requests answered in order (Stream-valued parameters: one constant design
per instant) -/
def handle (entry : String) (j : Json) : Except String Json := do
  match entry with
  | "multi" =>
    let cs ← getArr (← field j "cases")
    let rs ← cs.mapM fun c => do
      let e ← getStr (← field c "entry")
      handleOne e c
    pure <| Json.mkObj [("results", Json.arr rs)]
  | "hist" => handleHist j
  | _ => handleOne entry j

end ALV.Driver.C13
