import ALV.Common.Json
import ALV.Model.C10Float
import ALV.Spec.C10
namespace ALV.Driver.C10Float
open ALV ALV.J ALV.C10
open ALV.C11 (F64)

/-! float regime: binary64 numbers travel as their bit patterns (JSON integers) -/

def getBits (j : Json) : Except String F64 := do
  let n ← getNat j
  pure (F64.ofBits (UInt64.ofNat n))

def bitsJson (l : List F64) : Json := arr (fun (x : F64) => natToJson x.bits.toNat) l

def filtJson : Except String (List F64 × F64) → Json
  | .ok (a, e) => Json.mkObj [("a", bitsJson a), ("error", natToJson e.bits.toNat),
      ("finite", Json.bool (a.all F64.isFinite && e.isFinite))]
  | .error k => Json.mkObj [("err", Json.str k)]

/-- exact rational value of a finite binary64 number -/
def f64ToRat (x : F64) : Rat :=
  let b : Nat := x.bits.toNat
  let neg := b / 2 ^ 63 % 2 = 1
  let ex : Nat := b / 2 ^ 52 % 2 ^ 11
  let mant : Nat := b % 2 ^ 52
  let (m, e) : Nat × Int := if ex = 0 then (mant, -1074) else (2 ^ 52 + mant, (ex : Int) - 1075)
  let mi : Int := if neg then -(m : Int) else m
  if e ≥ 0 then ((mi * 2 ^ e.toNat : Int) : Rat) else mkRat mi (2 ^ (-e).toNat)

/-- the SPEC of `Spec/C10.lean` evaluated in exact rational arithmetic on binary64 coefficients `a`
    (the twin's or the implementation's): Yule–Walker residuals i = 1..p over the exact lags `r`,
    the error the equations assign, the reported error -/
def ywExact (r : List Rat) (p : Nat) (a : List F64) (e : F64) : Json :=
  let a' := a.map f64ToRat
  Json.mkObj [("res", rats ((List.range p).map fun i => neResidual r a' p (i + 1))),
    ("err_eq", ratToJson (predError r a' p)), ("error", ratToJson (f64ToRat e)),
    ("a0", ratToJson (coef a' 0)), ("len", natToJson a.length)]

def covExact (blk : List Rat) (p : Nat) (a : List F64) (e : F64) : Json :=
  let a' := a.map f64ToRat
  Json.mkObj [("res", rats ((List.range p).map fun i => covResidual blk a' p (i + 1))),
    ("err_eq", ratToJson (covEnergy a' blk p)), ("error", ratToJson (f64ToRat e)),
    ("a0", ratToJson (coef a' 0)), ("len", natToJson a.length)]

def specOf (f : List F64 → F64 → Json) (fin : Bool) : Except String (List F64 × F64) → Json
  | .ok (a, e) => if fin && a.all F64.isFinite && e.isFinite then f a e else Json.null
  | .error _ => Json.null

/-- the implementation's output, when the request carries it: `impl_a` (bits), `impl_error` -/
def implOut (j : Json) : Except String (Except String (List F64 × F64)) :=
  match optField j "impl_a", optField j "impl_error" with
  | some a, some e => do pure (.ok (← getList getBits a, ← getBits e))
  | _, _ => pure (.error "none")

def getOrder (j : Json) : Except String (Option Nat) :=
  match optField j "order" with
  | none => pure none
  | some Json.null => pure none
  | some v => do pure (some (← getNat v))

/-- entry `f64`: `fn` on the binary64 numbers `bits`, `order` (absent / null: the default).
    `model`: CPython >= 3.12 (`sum` = the compensated float loop); `plain`: the left-fold `sum`. -/
def handle (j : Json) : Except String Json := do
  let fn ← getStr (← field j "fn")
  if fn == "sum" then
    -- builtin `sum` on each list of `lists`: the compensated loop and the plain fold
    let ls ← getList (getList getBits) (← field j "lists")
    return Json.mkObj [("neumaier", bitsJson (ls.map sumF64)), ("plain", bitsJson (ls.map sumL))]
  let xs ← getList getBits (← field j "bits")
  let o ← getOrder j
  let inFinite := Json.bool (xs.all F64.isFinite)
  match fn with
  | "acorr" =>
    let m := acorrF64 xs o
    let ex := xs.map f64ToRat
    pure <| Json.mkObj [("model", Json.mkObj [("out", bitsJson m), ("finite", Json.bool (m.all F64.isFinite))]),
      ("plain", Json.mkObj [("out", bitsJson (acorr xs o))]),
      ("spec", if xs.all F64.isFinite then rats ((List.range m.length).map (acorrAt ex)) else Json.null),
      ("input_finite", inFinite)]
  | "lag_matrix" =>
    match lagMatrixF64 xs o with
    | .error k => pure <| Json.mkObj [("model", Json.mkObj [("err", Json.str k)]), ("input_finite", inFinite)]
    | .ok t =>
      let ex := xs.map f64ToRat
      let L := t.length - 1
      pure <| Json.mkObj [("model", Json.mkObj [("out", arr bitsJson t),
        ("finite", Json.bool (t.all fun row => row.all F64.isFinite))]),
        ("spec", if xs.all F64.isFinite then
            arr rats ((List.range t.length).map fun j => (List.range t.length).map fun i => lagAt ex L i j)
          else Json.null),
        ("input_finite", inFinite)]
  | "levinson" =>
    let fin := xs.all F64.isFinite
    let p := orderOf xs o
    let f := ywExact (xs.map f64ToRat) p
    let m := levinsonF64 xs o
    pure <| Json.mkObj [("model", filtJson m), ("plain", filtJson (levinsonF64Plain xs o)),
      ("spec_model", specOf f fin m), ("spec_impl", specOf f fin (← implOut j)), ("input_finite", inFinite)]
  | "kautocor" =>
    let fin := xs.all F64.isFinite
    let p := blkOrder xs o
    let f := ywExact (acorr (xs.map f64ToRat) o) p
    let m := kautocorF64 xs o
    pure <| Json.mkObj [("model", filtJson m), ("plain", filtJson (kautocor xs o)),
      ("spec_model", specOf f fin m), ("spec_impl", specOf f fin (← implOut j)), ("input_finite", inFinite)]
  | "kcovar" =>
    let fin := xs.all F64.isFinite
    let p := blkOrder xs o
    let f := covExact (xs.map f64ToRat) p
    let m := kcovarF64 xs o
    pure <| Json.mkObj [("model", filtJson m),
      ("spec_model", specOf f fin m), ("spec_impl", specOf f fin (← implOut j)), ("input_finite", inFinite)]
  | _ => throw s!"C10 f64: unknown fn {fn}"

end ALV.Driver.C10Float
