import ALV.Common.Json
import ALV.Model.C10Float
namespace ALV.Driver.C10Float
open ALV ALV.J ALV.C10
open ALV.C11 (F64)

/-! float regime: binary64 numbers travel as their bit patterns (JSON integers) -/

def getBits (j : Json) : Except String F64 := do
  let n ← getNat j
  pure (F64.ofBits (UInt64.ofNat n))

def bitsJson (l : List F64) : Json := arr (fun (x : F64) => natToJson x.bits.toNat) l

def filtJson : Except String (List F64 × F64) → Json
  | .ok (a, e) => Json.mkObj [("a", bitsJson a), ("error", natToJson e.bits.toNat),
      ("finite", Json.bool (a.all F64.isFinite && e.isFinite))]
  | .error k => Json.mkObj [("err", Json.str k)]

def getOrder (j : Json) : Except String (Option Nat) :=
  match optField j "order" with
  | none => pure none
  | some Json.null => pure none
  | some v => do pure (some (← getNat v))

/-- entry `f64`: `fn` on the binary64 numbers `bits`, `order` (absent / null: the default).
    `model`: CPython >= 3.12 (`sum` = the compensated float loop); `plain`: the left-fold `sum`. -/
def handle (j : Json) : Except String Json := do
  let fn ← getStr (← field j "fn")
  let xs ← getList getBits (← field j "bits")
  let o ← getOrder j
  let inFinite := Json.bool (xs.all F64.isFinite)
  match fn with
  | "acorr" =>
    let m := acorrF64 xs o
    pure <| Json.mkObj [("model", Json.mkObj [("out", bitsJson m), ("finite", Json.bool (m.all F64.isFinite))]),
      ("plain", Json.mkObj [("out", bitsJson (acorr xs o))]), ("input_finite", inFinite)]
  | "lag_matrix" =>
    match lagMatrixF64 xs o with
    | .error k => pure <| Json.mkObj [("model", Json.mkObj [("err", Json.str k)]), ("input_finite", inFinite)]
    | .ok t =>
      pure <| Json.mkObj [("model", Json.mkObj [("out", arr bitsJson t),
        ("finite", Json.bool (t.all fun row => row.all F64.isFinite))]), ("input_finite", inFinite)]
  | "levinson" =>
    pure <| Json.mkObj [("model", filtJson (levinsonF64 xs o)), ("plain", filtJson (levinsonF64Plain xs o)),
      ("input_finite", inFinite)]
  | "kautocor" =>
    pure <| Json.mkObj [("model", filtJson (kautocorF64 xs o)), ("plain", filtJson (kautocor xs o)),
      ("input_finite", inFinite)]
  | "kcovar" =>
    pure <| Json.mkObj [("model", filtJson (kcovarF64 xs o)), ("input_finite", inFinite)]
  | _ => throw s!"C10 f64: unknown fn {fn}"

end ALV.Driver.C10Float
