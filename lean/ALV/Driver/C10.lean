import ALV.Common.Json
namespace ALV.Driver.C10
open ALV ALV.J

/-- stub: the C10 slice is not built yet -/
def handle (entry : String) (_j : Json) : Except String Json :=
  throw s!"C10: unknown entry {entry}"

end ALV.Driver.C10
