import ALV.Common.Json
import ALV.Model.C10
import ALV.Spec.C10
namespace ALV.Driver.C10
open ALV ALV.J ALV.C10

def optNat (j : Json) (k : String) : Except String (Option Nat) :=
  match optField j k with
  | none => pure none
  | some v => do pure (some (← getNat v))

def optRats (j : Json) (k : String) : Except String (Option (List Rat)) :=
  match optField j k with
  | none => pure none
  | some v => do pure (some (← getList getRat v))

def table (t : List (List Rat)) : Json := arr rats t

/-- `(numerator, error)` or the predicted exception -/
def filtJson : Except String (List Rat × Rat) → Json
  | .ok (a, e) => Json.mkObj [("a", rats a), ("error", ratToJson e)]
  | .error k => Json.mkObj [("err", Json.str k)]

/-- residuals i = 1..p of the Yule–Walker equations, the error they assign, a_0 -/
def ywJson (r a : List Rat) (p : Nat) : Json :=
  Json.mkObj [("res", rats ((List.range p).map fun i => neResidual r a p (i + 1))),
              ("err_eq", ratToJson (predError r a p)),
              ("a0", ratToJson (coef a 0)), ("len", natToJson a.length)]

def covJson (blk a : List Rat) (p : Nat) : Json :=
  Json.mkObj [("res", rats ((List.range p).map fun i => covResidual blk a p (i + 1))),
              ("err_eq", ratToJson (covResidual blk a p 0)),
              ("energy", ratToJson (covEnergy a blk p)),
              ("a0", ratToJson (coef a 0)), ("len", natToJson a.length)]

/-- conditioning trace of the Levinson loop: for every pass m (until a zero divisor) the
    numerator `⟨A, z^-m⟩`, the divisor `⟨B, B⟩` and the coefficients of `A` before the pass.
    Only used by the harness to decide the float regime / skip ill-conditioned float cases. -/
def levTrace (r : List Rat) : Nat → Nat → List Rat → List Json
  | 0, _, _ => []
  | fuel + 1, m, A =>
    let B := revShift m A
    let num := inner r A (delay m)
    let den := inner r B B
    let item := Json.mkObj [("num", ratToJson num), ("den", ratToJson den), ("A", rats A)]
    if den = 0 then [item] else item :: levTrace r fuel (m + 1) (subScaled A (num / den) B)

def unstableRat (k : Rat) : Bool := decide ((1 : Rat) ≤ k) || decide (k ≤ -1)

/-- conditioning trace of the kcovar loop: `k`, `beta`, and all coefficients met -/
def kcTrace (phi : List (List Rat)) (order : Nat) : List Json :=
  (List.range order).filterMap fun n =>
    match kcIter phi unstableRat n with
    | .error _ => none
    | .ok s =>
      let bm := coef s.beta n
      let num := innerM phi s.A (delay (n + 1))
      some (Json.mkObj [("num", ratToJson num), ("beta", ratToJson bm),
        ("A", rats s.A), ("B", arr rats s.B)])

/-- one call of one of the modelled functions (the request of a single-call case) -/
def handleCall (entry : String) (j : Json) : Except String Json := do
  match entry with
  | "acorr" =>
    let blk ← getList getRat (← field j "blk")
    let lag ← optNat j "max_lag"
    let m := acorr blk lag
    pure <| Json.mkObj [("model", rats m),
      ("spec", rats ((List.range m.length).map (acorrAt blk)))]
  | "lag_matrix" =>
    let blk ← getList getRat (← field j "blk")
    let lag ← optNat j "max_lag"
    match lagMatrix blk lag with
    | .error k => pure <| Json.mkObj [("model", Json.mkObj [("err", Json.str k)])]
    | .ok t =>
      let L := t.length - 1
      pure <| Json.mkObj [("model", table t),
        ("spec", table ((List.range t.length).map fun j => (List.range t.length).map fun i => lagAt blk L i j))]
  | "toeplitz" =>
    let v ← getList getRat (← field j "vect")
    pure <| Json.mkObj [("model", table (toeplitz v)),
      ("spec", table ((List.range v.length).map fun a => (List.range v.length).map fun b =>
                        coef v (adiff a b)))]
  | "levinson" =>
    let r ← getList getRat (← field j "r")
    let order ← optNat j "order"
    let p := order.getD (r.length - 1)
    let res := levinson r order
    let implA ← optRats j "impl_a"
    let specM := match res with
      | .ok (a, _) => ywJson r a p
      | .error _ => Json.null
    let specI := match implA with
      | some a => ywJson r a p
      | none => Json.null
    let r' := match order with
      | none => r
      | some q => zeroExt r q
    pure <| Json.mkObj [("model", filtJson res), ("spec_model", specM), ("spec_impl", specI),
      ("trace", Json.arr (levTrace r' p 1 [1]))]
  | "kautocor" =>
    let blk ← getList getRat (← field j "blk")
    let order ← optNat j "order"
    let r := acorr blk order
    let p := order.getD (blk.length - 1)
    let res := kautocor blk order
    let implA ← optRats j "impl_a"
    -- energies of a ± e_i/16 (i = 1..p): a minimiser is not improved by any of them
    let bump (a : List Rat) (i : Nat) (d : Rat) : List Rat :=
      (List.range (p + 1)).map fun j => coef a j + (if j = i then d else 0)
    let one (a : List Rat) : Json := Json.mkObj [("yw", ywJson r a p), ("energy", ratToJson (energy a blk p)),
      ("perturbed", rats ((List.range p).flatMap fun i =>
        [energy (bump a (i + 1) (1/16)) blk p, energy (bump a (i + 1) (-1/16)) blk p]))]
    let specM := match res with
      | .ok (a, _) => one a
      | .error _ => Json.null
    let specI := match implA with
      | some a => one a
      | none => Json.null
    let r' := match order with
      | none => r
      | some q => zeroExt r q
    pure <| Json.mkObj [("model", filtJson res), ("r", rats r), ("spec_model", specM), ("spec_impl", specI),
      ("trace", Json.arr (levTrace r' p 1 [1]))]
  | "kcovar" =>
    let blk ← getList getRat (← field j "blk")
    let order ← optNat j "order"
    let res := kcovar blk order
    let p := order.getD (blk.length - 1)
    let implA ← optRats j "impl_a"
    let specM := match res with
      | .ok (a, _) => covJson blk a p
      | .error _ => Json.null
    let specI := match implA with
      | some a => covJson blk a p
      | none => Json.null
    let tr := match lagMatrix blk order with
      | .ok phi => kcTrace phi (phi.length - 1)
      | .error _ => []
    pure <| Json.mkObj [("model", filtJson res), ("spec_model", specM), ("spec_impl", specI),
      ("trace", Json.arr tr)]
  | _ => throw s!"C10: unknown entry {entry}"

/-- `history`: a sequence of calls; every call is answered by the model/spec of THAT CALL ALONE on
    the argument values the request carries for it (the harness sends the pristine values the
    caller holds at that moment): a result is a function of the argument values of its call, so the
    payload of a history is the list of the single-call payloads, nothing is threaded between them. -/
def handle (entry : String) (j : Json) : Except String Json := do
  match entry with
  | "history" =>
    let calls ← getArr (← field j "calls")
    let outs ← calls.mapM fun c => do
      let e ← getStr (← field c "entry")
      handleCall e c
    pure <| Json.mkObj [("calls", Json.arr outs)]
  | _ => handleCall entry j

end ALV.Driver.C10
