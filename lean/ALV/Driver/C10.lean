import ALV.Common.Json
import ALV.Model.C10
import ALV.Model.C10Call
import ALV.Model.C12
import ALV.Spec.C10
import ALV.Spec.C10Call
import ALV.Driver.C10Float
namespace ALV.Driver.C10
open ALV ALV.J ALV.C10

/-- reader / writer of the element type -/
structure Codec (α : Type) where
  rd : Json → Except String α
  wr : α → Json

def ratCodec : Codec Rat := ⟨getRat, ratToJson⟩

/-- a Gaussian rational travels as `[re, im]` (or a bare rational) -/
def gaussCodec : Codec ALV.C12.GRat :=
  ⟨fun j => match j with
     | Json.arr [r, i] => do pure ⟨← getRat r, ← getRat i⟩
     | _ => do pure ⟨← getRat j, 0⟩,
   fun g => Json.arr [ratToJson g.re, ratToJson g.im]⟩

/-- the spelling of the `order` / `max_lag` argument: `"ord": {"k": "omitted|none|int|real", "v": …}`;
    without `"ord"`: the field `key` (absent / null = omitted, else a natural number) -/
def getOrd (j : Json) (key : String) : Except String OrdArg :=
  match optField j "ord" with
  | some o => do
    let k ← getStr (← field o "k")
    match k with
    | "omitted" => pure .omitted
    | "none" => pure .none
    | "int" => do pure (.int (← getInt (← field o "v")))
    | "real" => do
      let fl := match optField o "py" with
        | some (Json.str "frac") => false
        | _ => true
      pure (.real (← getRat (← field o "v")) fl)
    | _ => throw s!"C10: bad order spelling {k}"
  | none =>
    match optField j key with
    | none => pure .omitted
    | some v => do pure (.int (← getNat v))

def unstableRat (k : Rat) : Bool := decide ((1 : Rat) ≤ k) || decide (k ≤ -1)

section gen
variable {α : Type} [Add α] [Mul α] [Sub α] [Neg α] [Div α] [OfNat α 0] [OfNat α 1] [DecidableEq α]
variable (cd : Codec α)

def vals (l : List α) : Json := arr cd.wr l
def table (t : List (List α)) : Json := arr (vals cd) t

def optVals (j : Json) (k : String) : Except String (Option (List α)) :=
  match optField j k with
  | none => pure none
  | some v => do pure (some (← getList cd.rd v))

/-- `(numerator, error)` or the predicted exception -/
def filtJson : Except String (List α × α) → Json
  | .ok (a, e) => Json.mkObj [("a", vals cd a), ("error", cd.wr e)]
  | .error k => Json.mkObj [("err", Json.str k)]

/-- residuals i = 1..p of the Yule–Walker equations, the error they assign, a_0 -/
def ywJson (r a : List α) (p : Nat) : Json :=
  Json.mkObj [("res", vals cd ((List.range p).map fun i => neResidual r a p (i + 1))),
              ("err_eq", cd.wr (predError r a p)),
              ("a0", cd.wr (coef a 0)), ("len", natToJson a.length)]

def covJson (blk a : List α) (p : Nat) : Json :=
  Json.mkObj [("res", vals cd ((List.range p).map fun i => covResidual blk a p (i + 1))),
              ("err_eq", cd.wr (covResidual blk a p 0)),
              ("energy", cd.wr (covEnergy a blk p)),
              ("a0", cd.wr (coef a 0)), ("len", natToJson a.length)]

/-- conditioning trace of the Levinson loop: for every pass m (until a zero divisor) the
    numerator `⟨A, z^-m⟩`, the divisor `⟨B, B⟩` and the coefficients of `A` before the pass.
    Only used by the harness to decide the float regime / the conditioning-aware tolerance. -/
def levTrace (r : List α) : Nat → Nat → List α → List Json
  | 0, _, _ => []
  | fuel + 1, m, A =>
    let B := revShift m A
    let num := inner r A (delay m)
    let den := inner r B B
    let item := Json.mkObj [("num", cd.wr num), ("den", cd.wr den), ("A", vals cd A)]
    if den = 0 then [item] else item :: levTrace r fuel (m + 1) (subScaled A (num / den) B)

/-- conditioning trace of the kcovar loop: `k`, `beta`, and all coefficients met -/
def kcTrace (unst : α → Bool) (phi : List (List α)) (order : Nat) : List Json :=
  (List.range order).filterMap fun n =>
    match kcIter phi unst n with
    | .error _ => none
    | .ok s =>
      let bm := coef s.beta n
      let num := innerM phi s.A (delay (n + 1))
      some (Json.mkObj [("num", cd.wr num), ("beta", cd.wr bm),
        ("A", vals cd s.A), ("B", arr (vals cd) s.B)])

/-- the dependency a ZeroDivisionError of kcovar exhibits (theorem `kcovar_zero_division_singular`):
    the first `B_m` with `beta[m] = 0`, and its outputs on the window n = p..N−1 -/
def kcDependency (unst : α → Bool) (blk : List α) (phi : List (List α)) (p : Nat) : Json :=
  match (List.range p).findSome? (fun m =>
      match kcIter phi unst m with
      | .ok s => if coef s.beta m = 0 then some (s.B.getD m []) else none
      | .error _ => none) with
  | none => Json.null
  | some b => Json.mkObj [("b", vals cd b),
      ("window", vals cd ((List.range (blk.length - p)).map (winOut b blk p)))]

/-- one call of one of the modelled functions (the request of a single-call case);
    `kc` = `lpc.kcovar` of the element type, `unst` its exit test -/
def handleCallGen (kc : List α → OrdArg → Except String (List α × α)) (unst : α → Bool)
    (entry : String) (j : Json) : Except String Json := do
  match entry with
  | "acorr" =>
    let blk ← getList cd.rd (← field j "blk")
    let o ← getOrd j "max_lag"
    match acorrCall blk o with
    | .error k => pure <| Json.mkObj [("model", Json.mkObj [("err", Json.str k)])]
    | .ok m =>
      pure <| Json.mkObj [("model", vals cd m),
        ("spec", vals cd ((List.range m.length).map (acorrAt blk)))]
  | "lag_matrix" =>
    let blk ← getList cd.rd (← field j "blk")
    let o ← getOrd j "max_lag"
    match lagMatrixCall blk o with
    | .error k => pure <| Json.mkObj [("model", Json.mkObj [("err", Json.str k)])]
    | .ok t =>
      let L := t.length - 1
      pure <| Json.mkObj [("model", table cd t),
        ("spec", table cd ((List.range t.length).map fun j => (List.range t.length).map fun i => lagAt blk L i j))]
  | "toeplitz" =>
    let v ← getList cd.rd (← field j "vect")
    pure <| Json.mkObj [("model", table cd (toeplitz v)),
      ("spec", table cd ((List.range v.length).map fun a => (List.range v.length).map fun b =>
                        coef v (adiff a b)))]
  | "levinson" =>
    let r ← getList cd.rd (← field j "r")
    let o ← getOrd j "order"
    let p := callOrder r.length o
    let res := levinsonCall r o
    let implA ← optVals cd j "impl_a"
    let specM := match res with
      | .ok (a, _) => ywJson cd r a p
      | .error _ => Json.null
    let specI := match implA with
      | some a => ywJson cd r a p
      | none => Json.null
    let r' := match o.toOption with
      | none => r
      | some q => zeroExt r q
    pure <| Json.mkObj [("model", filtJson cd res), ("spec_model", specM), ("spec_impl", specI),
      ("trace", Json.arr (levTrace cd r' p 1 [1]))]
  | "kautocor" =>
    let blk ← getList cd.rd (← field j "blk")
    let o ← getOrd j "order"
    let r := acorr blk o.toOption
    let p := callOrder blk.length o
    let res := kautocorCall blk o
    let implA ← optVals cd j "impl_a"
    -- energies of a ± e_i/16 (i = 1..p): a minimiser is not improved by any of them
    let sixteenth : α := 1 / ((1 + 1) * (1 + 1) * (1 + 1) * (1 + 1))
    let bump (a : List α) (i : Nat) (d : α) : List α :=
      (List.range (p + 1)).map fun j => coef a j + (if j = i then d else 0)
    let one (a : List α) : Json := Json.mkObj [("yw", ywJson cd r a p), ("energy", cd.wr (energy a blk p)),
      ("perturbed", vals cd ((List.range p).flatMap fun i =>
        [energy (bump a (i + 1) sixteenth) blk p, energy (bump a (i + 1) (-sixteenth)) blk p]))]
    let specM := match res with
      | .ok (a, _) => one a
      | .error _ => Json.null
    let specI := match implA with
      | some a => one a
      | none => Json.null
    let r' := match o.toOption with
      | none => r
      | some q => zeroExt r q
    pure <| Json.mkObj [("model", filtJson cd res), ("r", vals cd r), ("spec_model", specM), ("spec_impl", specI),
      ("trace", Json.arr (levTrace cd r' p 1 [1]))]
  | "kcovar" =>
    let blk ← getList cd.rd (← field j "blk")
    let o ← getOrd j "order"
    let res := kc blk o
    let p := callOrder blk.length o
    let implA ← optVals cd j "impl_a"
    let specM := match res with
      | .ok (a, _) => covJson cd blk a p
      | .error _ => Json.null
    let specI := match implA with
      | some a => covJson cd blk a p
      | none => Json.null
    let (tr, dep) := match lagMatrixCall blk o with
      | .ok phi => (kcTrace cd unst phi (phi.length - 1),
          match res with
          | .error "ZeroDivisionError" => kcDependency cd unst blk phi p
          | _ => Json.null)
      | .error _ => ([], Json.null)
    pure <| Json.mkObj [("model", filtJson cd res), ("spec_model", specM), ("spec_impl", specI),
      ("trace", Json.arr tr), ("dep", dep)]
  | _ => throw s!"C10: unknown entry {entry}"

end gen

def setField (j : Json) (k : String) (v : Json) : Json :=
  match j with
  | .obj kv => .obj ((k, v) :: kv.filter (·.1 != k))
  | _ => j

/-- a call over the rationals; `lpc`: a strategy of the StrategyDict selected by name (`"name": null`:
    the dict is called itself = default strategy), numpy absent -/
def handleCall (entry : String) (j : Json) : Except String Json := do
  match entry with
  | "lpc" =>
    let s? := match optField j "name" with
      | none => some defaultStrategy
      | some (Json.str n) => strategyOf n
      | some _ => none
    match s? with
    | none => pure <| Json.mkObj [("strategy", Json.null)]
    | some s =>
      let blk ← getList getRat (← field j "blk")
      let o ← getOrd j "order"
      let base ← handleCallGen ratCodec kcovarCall unstableRat (if s = .kcovar then "kcovar" else "kautocor") j
      let res := lpcCall noNumpy s blk o
      pure <| setField (setField base "model" (filtJson ratCodec res)) "strategy" (Json.str s.name)
  | _ => handleCallGen ratCodec kcovarCall unstableRat entry j

/-- `history`: a sequence of calls; every call is answered by the model/spec of THAT CALL ALONE on
    the argument values the request carries for it (the harness sends the pristine values the
    caller holds at that moment): a result is a function of the argument values of its call, so the
    payload of a history is the list of the single-call payloads, nothing is threaded between them.
    `"elem": "gauss"`: the samples are Gaussian rationals (complex numbers). -/
def handle (entry : String) (j : Json) : Except String Json := do
  match entry with
  | "history" =>
    let calls ← getArr (← field j "calls")
    let outs ← calls.mapM fun c => do
      let e ← getStr (← field c "entry")
      handleCall e c
    pure <| Json.mkObj [("calls", Json.arr outs)]
  | "f64" => ALV.Driver.C10Float.handle j
  | _ =>
    match optField j "elem" with
    | some (Json.str "gauss") => handleCallGen gaussCodec kcovarCallNoOrder (fun _ => true) entry j
    | _ => handleCall entry j

end ALV.Driver.C10
