/-
  `TrigField α` — the small number class of the transcendental models
  (C14 windows, C13 filter designs, C19 ...).  Core Lean only.

  One generic definition written against this class serves
    * `Float`  (instance below, executable: the driver's twin of the Python floats),
    * `ℝ`      (noncomputable instance in `ALV/Lemmas/TrigFieldReal.lean`: the proofs),
  so "the term we proved about" and "the term we ran against the code" are the same.

  The class deliberately does NOT provide `OfNat`/`Zero`/`One` instances (they would
  compete with Mathlib's instances at `ℝ`); literals are written `ofInt k` / `ofRat p q`.
-/
namespace ALV

class TrigField (α : Type) extends Add α, Mul α, Sub α, Neg α, Div α where
  /-- integer literal / `float(int)` conversion -/
  ofInt : Int → α
  pi : α
  cos : α → α
  sin : α → α
  exp : α → α
  sqrt : α → α
  abs : α → α
  /-- Python's `x ** y` on floats (C `pow`); real power at `ℝ` -/
  pow : α → α → α

namespace TrigField
variable {α : Type} [TrigField α]

/-- `float(n)` for a natural number -/
def ofNat (n : Nat) : α := ofInt (n : Int)

/-- a decimal literal `p/q` (e.g. `.54 = 27/50`): at `Float` the correctly rounded quotient of two
    exactly representable integers, i.e. the double nearest to the decimal — what Python's parser
    produces for the literal (for `|p|, q < 2^53`). -/
def ofRat (p : Int) (q : Nat) : α := ofInt p / ofInt (q : Int)

/-- a rational constant -/
def ofQ (r : Rat) : α := ofRat r.num r.den

end TrigField

/-- `math.pi` (0x400921FB54442D18) -/
def floatPi : Float := Float.ofBits 0x400921FB54442D18

instance : TrigField Float where
  ofInt := Float.ofInt
  pi := floatPi
  cos := Float.cos
  sin := Float.sin
  exp := Float.exp
  sqrt := Float.sqrt
  abs := Float.abs
  pow := Float.pow

end ALV
