/-
  Line-protocol helpers shared by all property drivers.  Mathlib-free.
  Numbers travel as JSON integers or as strings "p/q" (exact rationals);
  floats (only used by the transcendental models) as JSON numbers.
-/
import Lean.Data.Json

namespace ALV.J
open Lean

def ratToJson (r : Rat) : Json :=
  if r.den = 1 then Json.num (JsonNumber.fromInt r.num)
  else Json.str s!"{r.num}/{r.den}"

def intToJson (i : Int) : Json := Json.num (JsonNumber.fromInt i)
def natToJson (n : Nat) : Json := Json.num (JsonNumber.fromNat n)

def parseInt? (s : String) : Option Int := s.toInt?

def parseRat? (s : String) : Option Rat :=
  match s.splitOn "/" with
  | [a] => a.toInt?.map (fun (i : Int) => (i : Rat))
  | [a, b] => do
      let n ← a.toInt?
      let d ← b.toNat?
      if d = 0 then none else some (mkRat n d)
  | _ => none

def getRat (j : Json) : Except String Rat :=
  match j with
  | Json.num n =>
      if n.exponent = 0 then pure (n.mantissa : Rat)
      else pure (mkRat n.mantissa (10 ^ n.exponent))
  | Json.str s => match parseRat? s with
      | some r => pure r
      | none => throw s!"bad rational {s}"
  | _ => throw s!"expected rational, got {j.compress}"

def getInt (j : Json) : Except String Int :=
  match j with
  | Json.num n => if n.exponent = 0 then pure n.mantissa else throw "expected integer"
  | Json.str s => match s.toInt? with
      | some i => pure i
      | none => throw s!"bad integer {s}"
  | _ => throw s!"expected integer, got {j.compress}"

def getNat (j : Json) : Except String Nat := do
  let i ← getInt j
  if i < 0 then throw "expected natural" else pure i.toNat

def getStr (j : Json) : Except String String :=
  match j with
  | Json.str s => pure s
  | _ => throw s!"expected string, got {j.compress}"

def getBool (j : Json) : Except String Bool :=
  match j with
  | Json.bool b => pure b
  | _ => throw s!"expected bool, got {j.compress}"

def getArr (j : Json) : Except String (List Json) :=
  match j with
  | Json.arr a => pure a.toList
  | _ => throw s!"expected array, got {j.compress}"

def getList {α} (f : Json → Except String α) (j : Json) : Except String (List α) := do
  let a ← getArr j
  a.mapM f

def field (j : Json) (k : String) : Except String Json :=
  match j.getObjVal? k with
  | .ok v => pure v
  | .error _ => throw s!"missing field {k}"

def fieldD (j : Json) (k : String) (d : Json) : Json :=
  match j.getObjVal? k with
  | .ok v => v
  | .error _ => d

def optField (j : Json) (k : String) : Option Json :=
  match j.getObjVal? k with
  | .ok Json.null => none
  | .ok v => some v
  | .error _ => none

def arr {α} (f : α → Json) (l : List α) : Json := Json.arr (l.map f).toArray
def rats (l : List Rat) : Json := arr ratToJson l
def ints (l : List Int) : Json := arr intToJson l
def nats (l : List Nat) : Json := arr natToJson l
def optJson {α} (f : α → Json) : Option α → Json
  | none => Json.null
  | some a => f a

def floatToJson (x : Float) : Json :=
  match JsonNumber.fromFloat? x with
  | .inr n => Json.num n
  | .inl s => Json.str s

def getFloat (j : Json) : Except String Float :=
  match j with
  | Json.num n => pure n.toFloat
  | Json.str "inf" => pure (1.0 / 0.0)
  | Json.str "-inf" => pure (-1.0 / 0.0)
  | Json.str s => match parseRat? s with
      | some r => pure (Float.ofInt r.num / Float.ofNat r.den)
      | none => throw s!"bad float {s}"
  | _ => throw s!"expected float, got {j.compress}"

def ok (payload : Json) : Json := Json.mkObj [("ok", payload)]
def err (kind : String) : Json := Json.mkObj [("err", Json.str kind)]

end ALV.J
