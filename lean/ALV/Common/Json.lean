/-
  Line-protocol helpers shared by all property drivers.  Core Lean only (no
  `import Lean`), so that the driver links in seconds and stays small.

  Numbers travel as JSON integers (arbitrary precision) or as strings "p/q"
  (exact rationals).  Floats produced by the transcendental models are sent as
  exact rationals of their binary value ("p/q"), never as decimal text.
-/
namespace ALV

inductive Json where
  | null
  | bool (b : Bool)
  | int (i : Int)
  | flt (f : Float)          -- only produced by the parser for decimal literals
  | str (s : String)
  | arr (l : List Json)
  | obj (kv : List (String × Json))
  deriving Inhabited

namespace Json

def mkObj (kv : List (String × Json)) : Json := .obj kv

def escape (s : String) : String :=
  s.foldl (fun acc c =>
    if c = '"' then acc ++ "\\\""
    else if c = '\\' then acc ++ "\\\\"
    else if c = '\n' then acc ++ "\\n"
    else if c = '\t' then acc ++ "\\t"
    else if c = '\r' then acc ++ "\\r"
    else if c.toNat < 32 then acc ++ "\\u00" ++ (if c.toNat < 16 then "0" else "1") ++
      String.singleton (Nat.digitChar (c.toNat % 16))
    else acc.push c) ""

/-- exact binary value of a float: JSON integer, or string "p/q" / "nan" / "inf" / "-inf" -/
def floatExact (x : Float) : String :=
  if x.isNaN then "\"nan\""
  else if x.isInf then (if x > 0 then "\"inf\"" else "\"-inf\"")
  else
    let b : Nat := x.toBits.toNat
    let neg := b / 2 ^ 63 % 2 = 1
    let ex : Nat := b / 2 ^ 52 % 2 ^ 11
    let mant : Nat := b % 2 ^ 52
    let (m, e) : Nat × Int := if ex = 0 then (mant, -1074) else (2 ^ 52 + mant, (ex : Int) - 1075)
    let mi : Int := if neg then -(m : Int) else m
    if e ≥ 0 then toString (mi * 2 ^ e.toNat)
    else
      let r := mkRat mi (2 ^ (-e).toNat)
      if r.den = 1 then toString r.num else s!"\"{r.num}/{r.den}\""

partial def compress : Json → String
  | null => "null"
  | bool true => "true"
  | bool false => "false"
  | int i => toString i
  | flt f => floatExact f
  | str s => "\"" ++ escape s ++ "\""
  | arr l => "[" ++ ",".intercalate (l.map compress) ++ "]"
  | obj kv => "{" ++ ",".intercalate (kv.map fun (k, v) => "\"" ++ escape k ++ "\":" ++ compress v) ++ "}"

/-! ### parser (recursive descent over a `List Char`) -/

abbrev P := List Char

def skipWs : P → P
  | c :: cs => if c = ' ' ∨ c = '\n' ∨ c = '\t' ∨ c = '\r' then skipWs cs else c :: cs
  | [] => []

def hexVal (c : Char) : Option Nat :=
  if '0' ≤ c ∧ c ≤ '9' then some (c.toNat - '0'.toNat)
  else if 'a' ≤ c ∧ c ≤ 'f' then some (c.toNat - 'a'.toNat + 10)
  else if 'A' ≤ c ∧ c ≤ 'F' then some (c.toNat - 'A'.toNat + 10)
  else none

partial def parseStrBody (acc : String) : P → Except String (String × P)
  | [] => .error "unterminated string"
  | '"' :: cs => .ok (acc, cs)
  | '\\' :: c :: cs =>
    match c with
    | 'n' => parseStrBody (acc.push '\n') cs
    | 't' => parseStrBody (acc.push '\t') cs
    | 'r' => parseStrBody (acc.push '\r') cs
    | 'b' => parseStrBody (acc.push (Char.ofNat 8)) cs
    | 'f' => parseStrBody (acc.push (Char.ofNat 12)) cs
    | 'u' =>
      match cs with
      | a :: b :: c' :: d :: rest =>
        match hexVal a, hexVal b, hexVal c', hexVal d with
        | some a, some b, some c', some d =>
          parseStrBody (acc.push (Char.ofNat (((a * 16 + b) * 16 + c') * 16 + d))) rest
        | _, _, _, _ => .error "bad \\u escape"
      | _ => .error "bad \\u escape"
    | c => parseStrBody (acc.push c) cs
  | c :: cs => parseStrBody (acc.push c) cs

def takeWhile (p : Char → Bool) : P → (List Char × P)
  | c :: cs => if p c then let (a, b) := takeWhile p cs; (c :: a, b) else ([], c :: cs)
  | [] => ([], [])

def digitsToNat (ds : List Char) : Nat := ds.foldl (fun n c => n * 10 + (c.toNat - '0'.toNat)) 0

def parseNum (cs : P) : Except String (Json × P) :=
  let (neg, cs) := match cs with | '-' :: r => (true, r) | r => (false, r)
  let (ip, cs) := takeWhile Char.isDigit cs
  if ip.isEmpty then .error "bad number" else
  let (fp, cs) := match cs with
    | '.' :: r => takeWhile Char.isDigit r
    | r => ([], r)
  let (ex, cs) : (Option Int × P) := match cs with
    | 'e' :: r | 'E' :: r =>
      let (sgn, r) := match r with | '-' :: r' => (true, r') | '+' :: r' => (false, r') | r' => (false, r')
      let (ed, r) := takeWhile Char.isDigit r
      (some (if sgn then -(digitsToNat ed : Int) else (digitsToNat ed : Int)), r)
    | r => (none, r)
  if fp.isEmpty ∧ ex.isNone then
    let n : Int := digitsToNat ip
    .ok (.int (if neg then -n else n), cs)
  else
    let m := digitsToNat (ip ++ fp)
    let e : Int := (ex.getD 0) - fp.length
    let f := if e ≥ 0 then Float.ofScientific (m * 10 ^ e.toNat) false 0
             else Float.ofScientific m true (-e).toNat
    .ok (.flt (if neg then -f else f), cs)

mutual
partial def parseVal (cs : P) : Except String (Json × P) :=
  match skipWs cs with
  | [] => .error "unexpected end"
  | 'n' :: 'u' :: 'l' :: 'l' :: r => .ok (.null, r)
  | 't' :: 'r' :: 'u' :: 'e' :: r => .ok (.bool true, r)
  | 'f' :: 'a' :: 'l' :: 's' :: 'e' :: r => .ok (.bool false, r)
  | '"' :: r => do let (s, r) ← parseStrBody "" r; pure (.str s, r)
  | '[' :: r =>
    match skipWs r with
    | ']' :: r' => .ok (.arr [], r')
    | r' => parseArr [] r'
  | '{' :: r =>
    match skipWs r with
    | '}' :: r' => .ok (.obj [], r')
    | r' => parseObj [] r'
  | cs' => parseNum cs'
partial def parseArr (acc : List Json) (cs : P) : Except String (Json × P) := do
  let (v, r) ← parseVal cs
  match skipWs r with
  | ',' :: r' => parseArr (v :: acc) r'
  | ']' :: r' => pure (.arr (v :: acc).reverse, r')
  | _ => .error "expected , or ]"
partial def parseObj (acc : List (String × Json)) (cs : P) : Except String (Json × P) := do
  match skipWs cs with
  | '"' :: r =>
    let (k, r) ← parseStrBody "" r
    match skipWs r with
    | ':' :: r' =>
      let (v, r'') ← parseVal r'
      match skipWs r'' with
      | ',' :: r3 => parseObj ((k, v) :: acc) r3
      | '}' :: r3 => pure (.obj ((k, v) :: acc).reverse, r3)
      | _ => .error "expected , or }"
    | _ => .error "expected :"
  | _ => .error "expected key"
end

def parse (s : String) : Except String Json := do
  let (v, r) ← parseVal s.toList
  if (skipWs r).isEmpty then pure v else .error "trailing characters"

def getObjVal? (j : Json) (k : String) : Option Json :=
  match j with
  | obj kv => (kv.find? (·.1 == k)).map (·.2)
  | _ => none

end Json

namespace J

def ratToJson (r : Rat) : Json :=
  if r.den = 1 then Json.int r.num else Json.str s!"{r.num}/{r.den}"

def intToJson (i : Int) : Json := Json.int i
def natToJson (n : Nat) : Json := Json.int n

def parseRat? (s : String) : Option Rat :=
  match s.splitOn "/" with
  | [a] => a.toInt?.map (fun (i : Int) => (i : Rat))
  | [a, b] => do
      let n ← a.toInt?
      let d ← b.toNat?
      if d = 0 then none else some (mkRat n d)
  | _ => none

def getRat (j : Json) : Except String Rat :=
  match j with
  | Json.int n => pure (n : Rat)
  | Json.bool b => pure (if b then 1 else 0)
  | Json.str s => match parseRat? s with
      | some r => pure r
      | none => throw s!"bad rational {s}"
  | _ => throw s!"expected rational, got {j.compress}"

def getInt (j : Json) : Except String Int :=
  match j with
  | Json.int n => pure n
  | Json.bool b => pure (if b then 1 else 0)
  | Json.str s => match s.toInt? with
      | some i => pure i
      | none => throw s!"bad integer {s}"
  | _ => throw s!"expected integer, got {j.compress}"

def getNat (j : Json) : Except String Nat := do
  let i ← getInt j
  if i < 0 then throw "expected natural" else pure i.toNat

def getStr (j : Json) : Except String String :=
  match j with
  | Json.str s => pure s
  | _ => throw s!"expected string, got {j.compress}"

def getBool (j : Json) : Except String Bool :=
  match j with
  | Json.bool b => pure b
  | Json.int 0 => pure false
  | Json.int 1 => pure true
  | _ => throw s!"expected bool, got {j.compress}"

def getArr (j : Json) : Except String (List Json) :=
  match j with
  | Json.arr a => pure a
  | _ => throw s!"expected array, got {j.compress}"

def getList {α} (f : Json → Except String α) (j : Json) : Except String (List α) := do
  let a ← getArr j
  a.mapM f

def field (j : Json) (k : String) : Except String Json :=
  match j.getObjVal? k with
  | some v => pure v
  | none => throw s!"missing field {k}"

def fieldD (j : Json) (k : String) (d : Json) : Json :=
  match j.getObjVal? k with
  | some v => v
  | none => d

/-- absent or `null` ⇒ `none` -/
def optField (j : Json) (k : String) : Option Json :=
  match j.getObjVal? k with
  | some Json.null => none
  | some v => some v
  | none => none

def arr {α} (f : α → Json) (l : List α) : Json := Json.arr (l.map f)
def rats (l : List Rat) : Json := arr ratToJson l
def ints (l : List Int) : Json := arr intToJson l
def nats (l : List Nat) : Json := arr natToJson l
def optJson {α} (f : α → Json) : Option α → Json
  | none => Json.null
  | some a => f a

/-- exact binary value of a float as "p/q"; non-finite values as "nan" / "inf" / "-inf" -/
def floatToJson (x : Float) : Json := Json.flt x

def ratToFloat (r : Rat) : Float := Float.ofInt r.num / Float.ofNat r.den

def getFloat (j : Json) : Except String Float :=
  match j with
  | Json.int n => pure (Float.ofInt n)
  | Json.flt f => pure f
  | Json.str "inf" => pure (1.0 / 0.0)
  | Json.str "-inf" => pure (-1.0 / 0.0)
  | Json.str "nan" => pure (0.0 / 0.0)
  | Json.str s => match parseRat? s with
      | some r => pure (ratToFloat r)
      | none => throw s!"bad float {s}"
  | _ => throw s!"expected float, got {j.compress}"

def ok (payload : Json) : Json := Json.mkObj [("ok", payload)]
def err (kind : String) : Json := Json.mkObj [("err", Json.str kind)]

end J
end ALV
