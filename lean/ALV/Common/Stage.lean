/-
  Stage — the generic transducer model of a Python generator stage
  (DESIGN.md section 6).  Core Lean only; executable.

      def stage(seq):                       Stage ι ο σ
          <prologue: yields, no read>         pre    : List ο
          for el in seq:                      onItem : σ → ι → σ × List ο
              <update state; 0..n yields>
          <epilogue: yields>                  onEnd  : σ → List ο

  Three views of one stage, proved equal in `ALV.Lemmas.Stage`:
    * `emit` / `run`     — the outputs (denotational);
    * `reads` / `need`   — how many source items had been read when the k-th
                           output came out (`need` = least prefix length whose
                           emission reaches k outputs);
    * `demand` / `pulls` — the generator protocol itself: one `next()` pops a
                           pending output, and only when none is pending reads
                           ONE more item (a read happens only on demand).
  Composition `S ▷ T` (T consumes S), fan-out product `par S T` (tee / thub +
  lock-step zip), possibly endless sources `Seq`.
-/
namespace ALV

structure Stage (ι ο σ : Type) where
  init   : σ
  pre    : List ο
  onItem : σ → ι → σ × List ο
  onEnd  : σ → List ο

namespace Stage
variable {ι ο π σ τ α β : Type}

/-- state after consuming `xs` from state `s` -/
def stateFrom (S : Stage ι ο σ) : σ → List ι → σ
  | s, [] => s
  | s, x :: xs => S.stateFrom (S.onItem s x).1 xs

/-- outputs yielded while consuming `xs` from state `s` (source not yet ended) -/
def emitFrom (S : Stage ι ο σ) : σ → List ι → List ο
  | _, [] => []
  | s, x :: xs => (S.onItem s x).2 ++ S.emitFrom (S.onItem s x).1 xs

/-- outputs available after reading exactly the items `xs` (and not noticing any end) -/
def emit (S : Stage ι ο σ) (xs : List ι) : List ο := S.pre ++ S.emitFrom S.init xs

/-- all outputs on the finite source `xs`, consumed to its end -/
def run (S : Stage ι ο σ) (xs : List ι) : List ο :=
  S.emit xs ++ S.onEnd (S.stateFrom S.init xs)

/-- for every output yielded while consuming `xs`: number of source items read so far
    (`n` items had been read before) -/
def readsFrom (S : Stage ι ο σ) : σ → Nat → List ι → List Nat
  | _, _, [] => []
  | s, n, x :: xs =>
    List.replicate (S.onItem s x).2.length (n + 1) ++ S.readsFrom (S.onItem s x).1 (n + 1) xs

def reads (S : Stage ι ο σ) (xs : List ι) : List Nat :=
  List.replicate S.pre.length 0 ++ S.readsFrom S.init 0 xs

/-- read counts of all outputs of a finite source consumed to its end: the epilogue
    outputs are known only once the whole source has been read -/
def runReads (S : Stage ι ο σ) (xs : List ι) : List Nat :=
  S.reads xs ++ List.replicate (S.onEnd (S.stateFrom S.init xs)).length xs.length

/-- least number of further items after which `k` more outputs exist; `none` when the
    prefix `xs` does not reach `k` outputs -/
def needFrom (S : Stage ι ο σ) : σ → Nat → List ι → Option Nat
  | _, 0, _ => some 0
  | _, _ + 1, [] => none
  | s, k + 1, x :: xs =>
    (S.needFrom (S.onItem s x).1 (k + 1 - (S.onItem s x).2.length) xs).map (· + 1)

/-- `need S xs k` = least `j ≤ |xs|` with `k ≤ |emit S (xs.take j)|` -/
def need (S : Stage ι ο σ) (xs : List ι) (k : Nat) : Option Nat :=
  S.needFrom S.init (k - S.pre.length) xs

/-! ### the generator protocol -/

structure Cfg (σ ο : Type) where
  st    : σ
  pend  : List ο      -- yielded by the current loop iteration, not yet delivered
  nread : Nat         -- items pulled from the source so far
  ended : Bool        -- the source has raised StopIteration

def start (S : Stage ι ο σ) : Cfg σ ο := ⟨S.init, S.pre, 0, false⟩

/-- one `next()` on the stage: deliver a pending output, or resume the loop: pull ONE item,
    run the body, try again; when the source is exhausted run the epilogue. -/
def demand (S : Stage ι ο σ) : Cfg σ ο → List ι → Option (ο × Cfg σ ο × List ι)
  | ⟨s, o :: p, r, e⟩, xs => some (o, ⟨s, p, r, e⟩, xs)
  | ⟨_, [], _, true⟩, _ => none
  | ⟨s, [], r, false⟩, [] =>
    match S.onEnd s with
    | [] => none
    | o :: p => some (o, ⟨s, p, r, true⟩, [])
  | ⟨s, [], r, false⟩, x :: xs =>
    S.demand ⟨(S.onItem s x).1, (S.onItem s x).2, r + 1, false⟩ xs
termination_by c xs => (xs.length, c.pend.length)

/-- pull counter after each of (at most) `K` successful `next()` calls -/
def pullsFrom (S : Stage ι ο σ) : Nat → Cfg σ ο → List ι → List Nat
  | 0, _, _ => []
  | K + 1, c, xs =>
    match S.demand c xs with
    | none => []
    | some (_, c', xs') => c'.nread :: S.pullsFrom K c' xs'

def outsFrom (S : Stage ι ο σ) : Nat → Cfg σ ο → List ι → List ο
  | 0, _, _ => []
  | K + 1, c, xs =>
    match S.demand c xs with
    | none => []
    | some (o, c', xs') => o :: S.outsFrom K c' xs'

def pulls (S : Stage ι ο σ) (xs : List ι) (K : Nat) : List Nat := S.pullsFrom K S.start xs
def outs (S : Stage ι ο σ) (xs : List ι) (K : Nat) : List ο := S.outsFrom K S.start xs

/-! ### composition: `T` consumes the outputs of `S` -/

def comp (S : Stage ι π σ) (T : Stage π ο τ) : Stage ι ο (σ × τ) where
  init := (S.init, T.stateFrom T.init S.pre)
  pre := T.pre ++ T.emitFrom T.init S.pre
  onItem := fun st x =>
    let r := S.onItem st.1 x
    ((r.1, T.stateFrom st.2 r.2), T.emitFrom st.2 r.2)
  onEnd := fun st =>
    let ys := S.onEnd st.1
    T.emitFrom st.2 ys ++ T.onEnd (T.stateFrom st.2 ys)

infixl:65 " ▷ " => comp

/-! ### fan-out product: both branches see the same source (tee / thub), their outputs
    are combined in lock-step (zip / binary operator) -/

structure ParSt (σ τ α β : Type) where
  s  : σ
  t  : τ
  qa : List α       -- outputs of branch S waiting for their partner
  qb : List β

def par (S : Stage ι α σ) (T : Stage ι β τ) : Stage ι (α × β) (ParSt σ τ α β) where
  init :=
    let n := min S.pre.length T.pre.length
    ⟨S.init, T.init, S.pre.drop n, T.pre.drop n⟩
  pre := List.zip S.pre T.pre
  onItem := fun st x =>
    let ra := S.onItem st.s x
    let rb := T.onItem st.t x
    let a := st.qa ++ ra.2
    let b := st.qb ++ rb.2
    let n := min a.length b.length
    (⟨ra.1, rb.1, a.drop n, b.drop n⟩, List.zip a b)
  onEnd := fun st => List.zip (st.qa ++ S.onEnd st.s) (st.qb ++ T.onEnd st.t)

end Stage

/-! ### possibly endless sources -/

structure Seq (α : Type) where
  get : Nat → Option α
  closed : ∀ n, get n = none → get (n + 1) = none

namespace Seq
variable {α : Type}

/-- the first `j` items (fewer when the source ends earlier) -/
def take (s : Seq α) : Nat → List α
  | 0 => []
  | j + 1 => s.take j ++ (s.get j).toList

def ofList (l : List α) : Seq α where
  get := fun n => l[n]?
  closed := by
    intro n h
    rw [List.getElem?_eq_none_iff] at *
    omega

/-- an endless source given by a total function (`count()`, `Stream(1, 2, 3)` periodic, …) -/
def ofFn (f : Nat → α) : Seq α where
  get := fun n => some (f n)
  closed := by intro n h; cases h

def Endless (s : Seq α) : Prop := ∀ n, s.get n ≠ none

def agreeUpTo (n : Nat) (s t : Seq α) : Prop := ∀ i, i < n → s.get i = t.get i

end Seq
end ALV
