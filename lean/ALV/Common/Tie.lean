/-
  `#write_tie "Cxx"`: the link between what is PROVED and what is RUN against /repo.

  The theorems of a property are about Lean definitions; the correspondence check runs the driver
  entry `ALV.Driver.Cxx.handle` against the Python implementation.  The assurance is only as good as
  the overlap of the two: a theorem about a definition that the driver never evaluates says nothing
  about the code, and a definition the driver evaluates but no theorem mentions is tied to the code
  without anything being proved about it.

  At elaboration time (of `ALV/Tie/Cxx.lean`, which imports both `ALV.Props.Cxx` and
  `ALV.Driver.Cxx`) this command computes

    D  = the ALV definitions reachable from `ALV.Driver.Cxx.handle` (through definition bodies),
    R t = the ALV definitions reachable from the STATEMENT of theorem `t` (through definition bodies,
          never through proofs),

  and writes `.lake/build/audit/Cxx.tie.json`: for every theorem of namespace `ALV.Props.Cxx` the
  executable definitions it shares with the driver (`tied`), the theorems that share none
  (`untied_theorems`), and the driver-reachable model/spec definitions that occur in no theorem
  statement (`run_but_unproved`).  Auxiliary constants (matchers, equation lemmas, instances' fields,
  the JSON helpers `ALV.J`, the drivers themselves) are followed through but not reported.
-/
import Lean

open Lean Elab Command

namespace ALV.Tie

def isALV (n : Name) : Bool := (`ALV).isPrefixOf n

/-- constants that are plumbing, not model: JSON, drivers, audit -/
def isPlumbing (n : Name) : Bool :=
  (`ALV.J).isPrefixOf n || (`ALV.Json).isPrefixOf n || (`ALV.Driver).isPrefixOf n ||
  (`ALV.Audit).isPrefixOf n || (`ALV.Tie).isPrefixOf n

/-- compiler / elaborator generated names that should not be listed (but are traversed) -/
def isAux (n : Name) : Bool :=
  n.isInternal || n.components.any fun c =>
    let s := c.toString
    s.startsWith "match_" || s.startsWith "proof_" || s.startsWith "eq_" || s.startsWith "_" ||
    s == "rec" || s == "recOn" || s == "casesOn" || s == "brecOn" || s == "below" || s == "binductionOn" ||
    s == "noConfusion" || s == "noConfusionType" || s == "sizeOf_spec" || s == "injEq" || s == "inj" ||
    s == "ctorIdx" || s == "toCtorIdx" || s == "ofNat" || s == "ctorElim" || s == "ctorElimType" ||
    s.startsWith "inst" || s == "mk" || s == "elim"

/-- ALV constants reachable from the expression `e`, following the bodies of definitions (and the
types of everything), never the proofs of theorems. -/
partial def reach (env : Environment) (start : Array Name) : NameSet := Id.run do
  let mut seen : NameSet := {}
  let mut todo : Array Name := start
  while !todo.isEmpty do
    let n := todo.back!
    todo := todo.pop
    if seen.contains n then continue
    seen := seen.insert n
    match env.find? n with
    | none => pure ()
    | some ci =>
      let mut es : Array Expr := #[ci.type]
      match ci with
      | .defnInfo d => es := es.push d.value
      | .opaqueInfo d => es := es.push d.value
      | .inductInfo d => for c in d.ctors do todo := todo.push c
      | _ => pure ()
      for e in es do
        for c in e.getUsedConstants do
          if isALV c && !seen.contains c then todo := todo.push c
  return seen

def reportable (n : Name) : Bool := isALV n && !isPlumbing n && !isAux n

/-- ALV constants named by a theorem statement, looking through the abbreviations that the property
file itself defines (namespace `ALV.Props`) -/
partial def direct (env : Environment) (e : Expr) : NameSet := Id.run do
  let mut seen : NameSet := {}
  let mut todo : Array Name := e.getUsedConstants.filter isALV
  while !todo.isEmpty do
    let n := todo.back!
    todo := todo.pop
    if seen.contains n then continue
    seen := seen.insert n
    if (`ALV.Props).isPrefixOf n || isAux n then
      match env.find? n with
      | some (.defnInfo d) =>
        for c in d.value.getUsedConstants do
          if isALV c && !seen.contains c then todo := todo.push c
        for c in d.type.getUsedConstants do
          if isALV c && !seen.contains c then todo := todo.push c
      | _ => pure ()
  return seen

elab "#write_tie " tag:str : command => do
  let env ← getEnv
  let t := tag.getString
  let ns : Name := (`ALV.Props).str t
  let lemNs : Name := `ALV.Lemmas
  let handle : Name := ((`ALV.Driver).str t).str "handle"
  unless env.contains handle do
    throwError "tie: {handle} not found"
  let dset := reach env #[handle]
  -- only executable definitions count as "run": defs (not theorems) that are not plumbing
  let isDef (n : Name) : Bool := match env.find? n with
    | some (.defnInfo _) => true | some (.opaqueInfo _) => true
    | some (.inductInfo _) => true | some (.ctorInfo _) => false | _ => false
  let drun := dset.toList.filter (fun n => reportable n && isDef n)
  -- theorems of the property (imported: look through all constants once)
  let mut thms : Array (Name × ConstantInfo) := #[]
  for (n, ci) in env.constants.map₁.toList do
    if ns.isPrefixOf n && !n.isInternal then
      if let .thmInfo _ := ci then thms := thms.push (n, ci)
  for (n, ci) in env.constants.map₂.toList do
    if ns.isPrefixOf n && !n.isInternal then
      if let .thmInfo _ := ci then thms := thms.push (n, ci)
  let sorted := thms.qsort (fun a b => a.1.toString < b.1.toString)
  let mut items : Array Json := #[]
  let mut untied : Array Json := #[]
  let mut proved : NameSet := {}
  for (n, ci) in sorted do
    let start := ci.type.getUsedConstants.filter isALV
    let r := reach env start
    let shared := r.toList.filter (fun c => dset.contains c && reportable c && isDef c)
    for c in shared do proved := proved.insert c
    let dir := (direct env ci.type).toList.filter (fun c => dset.contains c && reportable c && isDef c)
    let names := (dir.map (·.toString)).toArray.qsort (· < ·)
    if shared.isEmpty then untied := untied.push (Json.str n.toString)
    items := items.push (Json.mkObj [
      ("name", Json.str n.toString),
      ("tied", Json.arr (names.map Json.str))])
  let unproved := (drun.filter (fun c => !proved.contains c && !(lemNs.isPrefixOf c))).map (·.toString)
  let unprovedA := unproved.toArray.qsort (· < ·)
  let out := Json.mkObj [
    ("tag", Json.str t),
    ("driver_entry", Json.str handle.toString),
    ("driver_reachable_definitions", Json.num drun.length),
    ("definitions_in_theorem_statements_and_run", Json.num proved.size),
    ("theorems", Json.arr items),
    ("untied_theorems", Json.arr untied),
    ("run_but_unproved", Json.arr (unprovedA.map Json.str))]
  IO.FS.createDirAll ".lake/build/audit"
  IO.FS.writeFile s!".lake/build/audit/{t}.tie.json" out.pretty
  logInfo m!"tie {t}: {sorted.size} theorems, {untied.size} untied; driver runs {drun.length} definitions, {unprovedA.size} of them in no theorem statement"

end ALV.Tie
