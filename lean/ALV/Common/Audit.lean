/-
  `#write_audit "Cxx"`: at elaboration time, list every theorem of the current
  module whose name lives in namespace `ALV.Props.Cxx`, with the axioms it
  depends on (`Lean.collectAxioms`) and its pretty-printed statement, and
  write the result to `.lake/build/audit/Cxx.json` (relative to the lake project root).
-/
import Lean

open Lean Elab Command

namespace ALV.Audit

def nsOf (tag : String) : Name := (`ALV.Props).str tag

elab "#write_audit " tag:str : command => do
  let env ← getEnv
  let t := tag.getString
  let ns := nsOf t
  let mut items : Array Json := #[]
  -- constants declared in the current module live in `env.constants.map₂`
  let locals := env.constants.map₂.toList
  let sorted := locals.toArray.qsort (fun a b => a.1.toString < b.1.toString)
  for (n, ci) in sorted do
    if ns.isPrefixOf n && !n.isInternal then
      match ci with
      | .thmInfo _ =>
        let axs ← liftCoreM (collectAxioms n)
        let stmt ← liftTermElabM do
          let f ← Meta.ppExpr ci.type
          pure (toString f)
        items := items.push (Json.mkObj [
          ("name", Json.str n.toString),
          ("axioms", Json.arr (axs.map (fun a => Json.str a.toString))),
          ("statement", Json.str stmt)])
      | _ => pure ()
  let out := Json.mkObj [("tag", Json.str t), ("theorems", Json.arr items)]
  IO.FS.createDirAll ".lake/build/audit"
  IO.FS.writeFile s!".lake/build/audit/{t}.json" out.pretty
  logInfo m!"audit {t}: {items.size} theorems"

end ALV.Audit
