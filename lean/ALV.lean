-- Root of the `ALV` library: every property file (and through them models, specs, lemmas).
import ALV.Props.C08
import ALV.Props.C14
