-- Root of the `ALV` library: every property file (and through them models, specs, lemmas).
import ALV.Props.C01
import ALV.Props.C02
import ALV.Props.C03
import ALV.Props.C04
import ALV.Props.C07
import ALV.Props.C08
import ALV.Props.C09
import ALV.Props.C10
import ALV.Props.C11
import ALV.Props.C12
import ALV.Props.C13
import ALV.Props.C14
import ALV.Props.C15
import ALV.Props.C16
import ALV.Props.C18
import ALV.Props.C19
import ALV.Props.C20
